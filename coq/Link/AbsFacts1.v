(* AbsFacts1.v -- writer simulation: the numeric bookkeeping of the L2 segment
   writer (Wal/Model.v seg_append / seg_force_seal) is exactly the byte-level
   layout of the L1 writer (Seg/Writer.v append / force_seal): same results,
   same write offset, same number of bytes written, same seal decision and
   index start, same writer state afterwards -- for every fault position. *)
From RW Require Import Base.Bytes Base.BytesFacts Base.Crc32c Base.Crc32cFacts Fmt.Codec Fmt.Frame Fmt.FrameFacts
     Seg.Writer Seg.SegAbs Seg.WriterFacts Wal.Model Link.Abs Gen.Constants.
From Coq Require Import ZifyN ZifyNat ZifyBool.
Open Scope N_scope.

(* ---------------- payloads ---------------- *)
Lemma enc_len_enc l : enc_len l = len (enc l).
Proof. unfold enc_len, enc. destruct (encode_log l); reflexivity. Qed.

Lemma map_snd_ents ls : map snd (ents ls) = map enc ls.
Proof. unfold ents. rewrite map_map. reflexivity. Qed.

Lemma ents_length ls : length (ents ls) = length ls.
Proof. unfold ents. apply map_length. Qed.

Lemma too_big_ents ls : too_big (ents ls) = existsb (fun l => MaxEntrySize <? enc_len l) ls.
Proof.
  unfold too_big, ents. induction ls as [|l r IH]; [reflexivity|].
  cbn [map existsb]. rewrite IH, enc_len_enc. reflexivity.
Qed.

Lemma frames_size_acc ls : forall a,
  fold_left (fun a l => a + enc_frame_size (enc_len l)) ls a = a + len (entries_bytes (map enc ls)).
Proof.
  induction ls as [|l r IH]; intros a; cbn [fold_left map].
  - change (len (entries_bytes [])) with 0. lia.
  - rewrite IH, len_entries_bytes_cons, enc_len_enc. lia.
Qed.

Lemma frames_size_eq ls : frames_size ls = len (entries_bytes (map enc ls)).
Proof. unfold frames_size. rewrite frames_size_acc. lia. Qed.

Lemma idx_ok_ents ls : forall i, idx_ok i (ents ls) <-> consec_from i ls.
Proof.
  induction ls as [|l r IH]; intros i; cbn [ents map idx_ok consec_from]; [tauto|].
  fold (ents r). rewrite IH. unfold ent. cbn [fst]. tauto.
Qed.

Lemma append_entries_first_bad w l r :
  l_index l <> si_base (w_info w) + len (w_offsets w) -> append_entries w (ents (l :: r)) = None.
Proof.
  intros H. cbn [ents map append_entries]. unfold append_entry, ent. cbn [fst].
  apply N.eqb_neq in H. rewrite H. reflexivity.
Qed.

Lemma llen_len {A} (l : list A) (offs : list N) : length l = length offs -> llen l = len offs.
Proof. unfold llen, len. intros ->. reflexivity. Qed.

(* ---------------- io ---------------- *)
Definition io_ok (e : env) (a : act) : env :=
  {| e_acts := a :: e_acts e; e_disk := apply_act (e_disk e) a;
     e_fault := match e_fault e with Some (S n) => Some n | _ => None end; e_fx := e_fx e; e_m := e_m e |}.
Definition io_fail (e : env) (a : act) : env :=
  {| e_acts := AFail a :: e_acts e; e_disk := e_disk e; e_fault := None; e_fx := e_fx e; e_m := e_m e |}.

Lemma io_char a e : is_delete a = false -> is_txn a = false ->
  io a e = match e_fault e with Some O => (false, io_fail e a) | _ => (true, io_ok e a) end.
Proof. intros H H'. unfold io, io_ok, io_fail. rewrite H, H'. destruct (e_fault e) as [[|n]|]; reflexivity. Qed.

Lemma e_fault_io_ok e a :
  e_fault (io_ok e a) = match e_fault e with Some (S n) => Some n | _ => None end.
Proof. reflexivity. Qed.

(* both actions of a write+sync pair succeed *)
Definition both_ok (fl : option nat) : bool :=
  match fl with Some O => false | Some (S O) => false | _ => true end.

(* ---------------- L2 closed forms ---------------- *)
Definition hdr_len (w : wseg) : N := if ws_hdr w then 32 else 0.

Definition l2_seal (w : wseg) (ls : list log) : bool :=
  ws_limit w <? (ws_off w + ((hdr_len w + frames_size ls) + index_frame_size (ws_n w + llen ls)) mod two32) mod two32.
Definition l2_total (w : wseg) (ls : list log) : N :=
  (if l2_seal w ls then (hdr_len w + frames_size ls) + index_frame_size (ws_n w + llen ls)
   else hdr_len w + frames_size ls) + 8.
Definition l2_istart (w : wseg) (ls : list log) : N :=
  if l2_seal w ls then ws_off w + (hdr_len w + frames_size ls) + 8 else 0.
Definition l2_batch (w : wseg) (ls : list log) : pbatch :=
  {| pb_ents := ls; pb_end := (ws_off w + l2_total w ls) mod two32; pb_seal := l2_istart w ls |}.
Definition l2_after (w : wseg) (ls : list log) : wseg :=
  {| ws_name := ws_name w; ws_base := ws_base w; ws_min := ws_min w; ws_limit := ws_limit w;
     ws_n := ws_n w + llen ls; ws_off := (ws_off w + l2_total w ls) mod two32; ws_hdr := false;
     ws_index_start := l2_istart w ls; ws_commit_idx := ws_base w + (ws_n w + llen ls) - 1 |}.

Lemma seg_append_char w l0 lr e (ls := l0 :: lr) :
  (0 <? ws_index_start w) = false ->
  existsb (fun l => MaxEntrySize <? enc_len l) ls = false ->
  l_index l0 = ws_base w + ws_n w ->
  seg_append w ls e =
    (if both_ok (e_fault e) then ROk else RErrIO,
     if both_ok (e_fault e) then l2_after w ls else w,
     do_acts e [AWrite (ws_name w) (ws_off w) (l2_total w ls) (l2_batch w ls); ASync (ws_name w)]).
Proof.
  intros Hs Hb Hi. subst ls. set (ls := l0 :: lr) in *. unfold seg_append. unfold ls at 1. fold ls.
  rewrite Hs, Hb, Hi, N.eqb_refl. cbn [negb].
  fold (hdr_len w). fold (l2_seal w ls). fold (l2_total w ls). fold (l2_istart w ls). fold (l2_batch w ls).
  cbn [do_acts]. rewrite (io_char _ e) by reflexivity.
  destruct (e_fault e) as [[|[|n]]|] eqn:Ef; cbn [negb both_ok]; try reflexivity;
    rewrite io_char by reflexivity; rewrite !e_fault_io_ok, Ef; reflexivity.
Qed.

Definition fs_total (w : wseg) : N := hdr_len w + index_frame_size (ws_n w) + 8.
Definition fs_istart (w : wseg) : N := ws_off w + hdr_len w + 8.
Definition fs_batch (w : wseg) : pbatch :=
  {| pb_ents := []; pb_end := (ws_off w + fs_total w) mod two32; pb_seal := fs_istart w |}.
Definition fs_after (w : wseg) : wseg :=
  {| ws_name := ws_name w; ws_base := ws_base w; ws_min := ws_min w; ws_limit := ws_limit w;
     ws_n := ws_n w; ws_off := (ws_off w + fs_total w) mod two32; ws_hdr := false;
     ws_index_start := fs_istart w; ws_commit_idx := ws_base w + ws_n w - 1 |}.

Lemma seg_force_seal_char w e :
  (0 <? ws_index_start w) = false -> (ws_n w =? 0) = false ->
  seg_force_seal w e =
    (if both_ok (e_fault e) then ROk else RErrIO,
     if both_ok (e_fault e) then fs_after w else w,
     do_acts e [AWrite (ws_name w) (ws_off w) (fs_total w) (fs_batch w); ASync (ws_name w)]).
Proof.
  intros Hs Hn. unfold seg_force_seal. rewrite Hs, Hn.
  fold (hdr_len w). fold (fs_total w). fold (fs_istart w). fold (fs_batch w).
  cbn [do_acts]. rewrite (io_char _ e) by reflexivity.
  destruct (e_fault e) as [[|[|n]]|] eqn:Ef; cbn [negb both_ok]; try reflexivity;
    rewrite io_char by reflexivity; rewrite !e_fault_io_ok, Ef; reflexivity.
Qed.

(* ---------------- L1: faults only matter in the commit ---------------- *)
Lemma append_commit_fault w :
  exists w' off buf,
    append_commit w FNone = (Some w', [WWrite off buf; WSync]) /\
    append_commit w FWrite = (None, []) /\
    append_commit w FWriteShort = (None, [WWrite off (firstn (length buf / 2) buf)]) /\
    append_commit w FSync = (None, [WWrite off buf; WSync]).
Proof. unfold append_commit. eexists; eexists; eexists. repeat split. Qed.

(* result, state and actions of a faulted operation from those of the
   fault-free one *)
Definition faulted (f : wfault) (w : wstate) (x : wres * wstate * list waction) : wres * wstate * list waction :=
  let '(r, w', acts) := x in
  match r, acts, f with
  | WOk, _ :: _, FWrite => (WErrIO, w, [])
  | WOk, WWrite off buf :: _, FWriteShort => (WErrIO, w, [WWrite off (firstn (length buf / 2) buf)])
  | WOk, _ :: _, FSync => (WErrIO, w, acts)
  | _, _, _ => x
  end.

Lemma append_faulted w es f : append w es f = faulted f w (append w es FNone).
Proof.
  unfold append. destruct es as [|e0 r]; [destruct f; reflexivity|].
  destruct (0 <? w_index_start w); [destruct f; reflexivity|].
  destruct (too_big (e0 :: r)); [destruct f; reflexivity|].
  destruct (append_entries w (e0 :: r)) as [w1|]; [|destruct f; reflexivity].
  destruct (if needs_seal w1 then append_index w1 else Some w1) as [w2|]; [|destruct f; reflexivity].
  destruct f; reflexivity.
Qed.

Lemma force_seal_faulted w f : force_seal w f = faulted f w (force_seal w FNone).
Proof.
  unfold force_seal. destruct (0 <? w_index_start w); [destruct f; reflexivity|].
  destruct (append_index w) as [w1|]; [|destruct f; reflexivity].
  destruct f; reflexivity.
Qed.

(* a SHORT write (FWriteShort) has no counterpart among L2's faults (wfault_of
   yields FWrite / FSync only: at L2 a failed AWrite has no effect on the abstract
   file).  Result and writer are those of the write that fails outright, so the
   L2 correspondence of FWrite (append_sim_gen / force_seal_sim_gen with fault
   count 0) holds of it verbatim; only the bytes differ: the first half of the
   buffer is in the file, behind the image -- stale bytes that readers never
   look at (read_sim_tail, read_sim_sealed) and that recovery discards (Seg/FailFacts.v). *)
Lemma append_short_as_write w es :
  fst (append w es FWriteShort) = fst (append w es FWrite) /\
  (snd (append w es FWriteShort) = [] \/
   exists off buf, snd (append w es FNone) = [WWrite off buf; WSync] /\
                   snd (append w es FWriteShort) = [WWrite off (firstn (length buf / 2) buf)]).
Proof.
  rewrite (append_faulted w es FWriteShort), (append_faulted w es FWrite).
  unfold append.
  destruct es as [|e0 r]; [cbn; auto|].
  destruct (0 <? w_index_start w); [cbn; auto|].
  destruct (too_big (e0 :: r)); [cbn; auto|].
  destruct (append_entries w (e0 :: r)) as [w1|]; [|cbn; auto].
  destruct (if needs_seal w1 then append_index w1 else Some w1) as [w2|]; [|cbn; auto].
  cbn [append_commit faulted fst snd]. split; [reflexivity|]. right. eexists. eexists. split; reflexivity.
Qed.

Lemma force_seal_short_as_write w :
  fst (force_seal w FWriteShort) = fst (force_seal w FWrite) /\
  (snd (force_seal w FWriteShort) = [] \/
   exists off buf, snd (force_seal w FNone) = [WWrite off buf; WSync] /\
                   snd (force_seal w FWriteShort) = [WWrite off (firstn (length buf / 2) buf)]).
Proof.
  rewrite (force_seal_faulted w FWriteShort), (force_seal_faulted w FWrite). unfold force_seal.
  destruct (0 <? w_index_start w); [cbn; auto|].
  destruct (append_index w) as [w1|]; [|cbn; auto].
  cbn [append_commit faulted fst snd]. split; [reflexivity|]. right. eexists. eexists. split; reflexivity.
Qed.

(* ---------------- rep_w ---------------- *)
Lemma len_rw_buf w1 w2 : rep_w w1 w2 -> len (w_buf w1) = hdr_len w2.
Proof.
  intros R. rewrite (rw_buf _ _ R). unfold hdr_len. destruct (ws_hdr w2); [apply len_file_header|reflexivity].
Qed.

Lemma rep_w_wabs w :
  (w_buf w = [] \/ w_buf w = file_header (w_info w)) -> w_crc w = crc32c (w_buf w) -> rep_w w (wabs w).
Proof.
  intros Hb Hc. constructor; try reflexivity; [|exact Hc].
  cbn [wabs ws_hdr]. destruct Hb as [Hb|Hb]; rewrite Hb; [reflexivity|].
  rewrite len_file_header. reflexivity.
Qed.

Lemma rep_w_init info : rep_w (init_empty info) (new_wseg info).
Proof. constructor; reflexivity. Qed.

(* ---------------- Writer.Append ---------------- *)
(* the fault-free L1 append in closed form, in the terms of the L2 writer *)
Lemma append_l1_char w1 w2 l0 lr (ls := l0 :: lr) :
  rep_w w1 w2 -> consec ls ->
  (0 <? ws_index_start w2) = false ->
  existsb (fun l => MaxEntrySize <? enc_len l) ls = false ->
  l_index l0 = ws_base w2 + ws_n w2 ->
  exists w1' buf,
    append w1 (ents ls) FNone = (WOk, w1', [WWrite (ws_off w2) buf; WSync]) /\
    len buf = l2_total w2 ls /\ rep_w w1' (l2_after w2 ls).
Proof.
  intros R Hc Hs Hb Hi.
  pose proof (len_rw_buf _ _ R) as Lbuf.
  assert (Hidx : idx_ok (si_base (w_info w1) + len (w_offsets w1)) (ents ls)).
  { apply idx_ok_ents. rewrite <- (rw_base _ _ R), <- (rw_n _ _ R), <- Hi. exact Hc. }
  destruct (append_entries_ok _ _ Hidx) as [wa Ha].
  destruct (append_entries_char _ _ _ Ha) as [_ Ewa].
  rewrite map_snd_ents in Ewa.
  set (eb := entries_bytes (map enc ls)) in *.
  assert (Leb : len eb = frames_size ls) by (symmetry; apply frames_size_eq).
  assert (Loffs : len (w_offsets wa) = ws_n w2 + llen ls).
  { rewrite Ewa. cbn [set_buf w_offsets]. rewrite len_app. rewrite (rw_n _ _ R). f_equal.
    unfold len, llen. rewrite map_length, entry_offsets_length, map_length. reflexivity. }
  assert (Hnn : w_offsets wa <> []).
  { intros E. rewrite E in Loffs. change (len []) with 0 in Loffs. unfold ls, llen in Loffs. cbn [length] in Loffs. lia. }
  assert (Lbufa : len (w_buf wa) = hdr_len w2 + frames_size ls).
  { rewrite Ewa. cbn [set_buf w_buf]. rewrite len_app. lia. }
  assert (Eoffa : w_off wa = ws_off w2) by (rewrite Ewa; cbn [set_buf w_off]; symmetry; apply (rw_off _ _ R)).
  assert (Einfo : w_info wa = w_info w1) by (rewrite Ewa; reflexivity).
  assert (Eista : w_index_start wa = 0).
  { rewrite Ewa. cbn [set_buf w_index_start]. rewrite <- (rw_istart _ _ R). apply N.ltb_ge in Hs. lia. }
  assert (Eseal : needs_seal wa = l2_seal w2 ls).
  { unfold needs_seal, l2_seal. rewrite Einfo, Eoffa, Lbufa, Loffs, (rw_limit _ _ R). reflexivity. }
  assert (Hn0 : (ws_n w2 + llen ls =? 0) = false).
  { apply N.eqb_neq. unfold ls, llen. cbn [length]. lia. }
  assert (Ltot1 : forall c, needs_seal wa = true ->
            len ((w_buf wa ++ index_frame (w_offsets wa)) ++ commit_frame c) = l2_total w2 ls).
  { intros c En. unfold l2_total. rewrite <- Eseal, En.
    rewrite !len_app, len_commit_frame, len_index_frame, Lbufa, Loffs.
    unfold index_frame_size. rewrite Hn0. f_equal. f_equal. f_equal. lia. }
  assert (Ltot0 : forall c, needs_seal wa = false -> len (w_buf wa ++ commit_frame c) = l2_total w2 ls).
  { intros c En. unfold l2_total. rewrite <- Eseal, En. rewrite !len_app, len_commit_frame, Lbufa. reflexivity. }
  assert (Eist : l2_istart w2 ls = if needs_seal wa then w_off wa + len (w_buf wa) + 8 else 0).
  { unfold l2_istart. rewrite <- Eseal, Eoffa, Lbufa. destruct (needs_seal wa); lia. }
  assert (Ecidx : forall w, w_info w = w_info w1 -> w_offsets w = w_offsets wa ->
            ws_base w2 + (ws_n w2 + llen ls) - 1 = commit_idx_of w).
  { intros w E1 E2. unfold commit_idx_of. rewrite E1, E2.
    destruct (w_offsets wa) as [|o1 or1] eqn:Eo; [congruence|]. rewrite <- Eo in *.
    rewrite Loffs, (rw_base _ _ R). reflexivity. }
  unfold append. unfold ls at 1. cbn [ents map]. fold (ents lr). change (ent l0 :: ents lr) with (ents ls).
  rewrite <- (rw_istart _ _ R), Hs. rewrite too_big_ents, Hb, Ha.
  destruct (needs_seal wa) eqn:Ens.
  - unfold append_index. destruct (w_offsets wa) as [|o1 or1] eqn:Eo; [congruence|]. rewrite <- Eo in *.
    unfold append_commit. cbn [w_info w_buf w_crc w_off w_index_start w_offsets w_commit_idx].
    eexists; eexists. split; [rewrite Eoffa; reflexivity|]. split; [apply Ltot1; reflexivity|].
    constructor; cbn [l2_after w_info w_buf w_crc w_off w_index_start w_offsets w_commit_idx
                      ws_name ws_base ws_min ws_limit ws_n ws_off ws_hdr ws_index_start ws_commit_idx];
      rewrite ?Einfo; try (apply R); try reflexivity.
    + symmetry; exact Loffs.
    + rewrite Ltot1 by reflexivity. reflexivity.
    + rewrite Eist, ?Ens, ?Eoffa. reflexivity.
    + apply Ecidx; reflexivity.
  - unfold append_commit. cbn [w_info w_buf w_crc w_off w_index_start w_offsets w_commit_idx].
    eexists; eexists. split; [rewrite Eoffa; reflexivity|]. split; [apply Ltot0; reflexivity|].
    constructor; cbn [l2_after w_info w_buf w_crc w_off w_index_start w_offsets w_commit_idx
                      ws_name ws_base ws_min ws_limit ws_n ws_off ws_hdr ws_index_start ws_commit_idx];
      rewrite ?Einfo; try (apply R); try reflexivity.
    + symmetry; exact Loffs.
    + rewrite Ltot0 by reflexivity. reflexivity.
    + rewrite Eist, ?Ens. symmetry. exact Eista.
    + apply Ecidx; reflexivity.
Qed.

Lemma pb_of_l2_batch w1' w2 ls : rep_w w1' (l2_after w2 ls) -> pb_of ls w1' = l2_batch w2 ls.
Proof.
  intros R. unfold pb_of, l2_batch. rewrite <- (rw_off _ _ R), <- (rw_istart _ _ R). reflexivity.
Qed.


Lemma append_ne w es f : es <> [] ->
  append w es f =
    if 0 <? w_index_start w then (WErrSealed, w, [])
    else if too_big es then (WErrTooBig, w, [])
    else match append_entries w es with
         | None => (WErrNonMono, w, [])
         | Some w1 =>
             match (if needs_seal w1 then append_index w1 else Some w1) with
             | None => (WErrShortBuf, w, [])
             | Some w2 =>
                 match append_commit w2 f with
                 | (Some w3, acts) => (WOk, w3, acts)
                 | (None, acts) => (WErrIO, w, acts)
                 end
             end
         end.
Proof. intros H. destruct es; [congruence|reflexivity]. Qed.

Lemma ents_cons_ne l0 lr : ents (l0 :: lr) <> [].
Proof. discriminate. Qed.

(* THE WRITER SIMULATION (Append), any fault position.  x0 is the fault-free
   L1 run (it fixes the intended actions and the abstract batch), x the L1 run
   under the fault that corresponds to L2's fault counter. *)
Theorem append_sim_gen w1 w2 ls e :
  rep_w w1 w2 -> consec ls ->
  let x0 := append w1 (ents ls) FNone in
  let x := append w1 (ents ls) (wfault_of (e_fault e)) in
  exists w2',
    seg_append w2 ls e =
      (res_abs (fst (fst x)), w2',
       do_acts e (abs_acts (ws_name w2) (pb_of ls (snd (fst x0))) (snd x0))) /\
    rep_w (snd (fst x)) w2'.
Proof.
  intros R Hc. cbn zeta. rewrite (append_faulted w1 (ents ls) (wfault_of (e_fault e))).
  destruct ls as [|l0 lr].
  - exists w2. cbn [ents map append fst snd faulted res_abs abs_acts do_acts seg_append]. auto.
  - set (ls := l0 :: lr) in *.
    destruct (0 <? ws_index_start w2) eqn:Hs.
    { assert (E : append w1 (ents ls) FNone = (WErrSealed, w1, [])).
      { rewrite append_ne by apply ents_cons_ne. rewrite <- (rw_istart _ _ R), Hs. reflexivity. }
      rewrite E. exists w2. cbn [faulted fst snd res_abs abs_acts map do_acts].
      unfold seg_append, ls. rewrite Hs. auto. }
    destruct (existsb (fun l => MaxEntrySize <? enc_len l) ls) eqn:Hb.
    { assert (E : append w1 (ents ls) FNone = (WErrTooBig, w1, [])).
      { rewrite append_ne by apply ents_cons_ne. rewrite too_big_ents, Hb.
        rewrite <- (rw_istart _ _ R), Hs. reflexivity. }
      rewrite E. exists w2. cbn [faulted fst snd res_abs abs_acts map do_acts].
      unfold seg_append. fold ls. unfold ls at 1. rewrite Hs, Hb. auto. }
    destruct (N.eq_dec (l_index l0) (ws_base w2 + ws_n w2)) as [Hi|Hi].
    2:{ assert (E : append w1 (ents ls) FNone = (WErrNonMono, w1, [])).
        { rewrite append_ne by apply ents_cons_ne. rewrite too_big_ents, Hb.
          unfold ls. rewrite (append_entries_first_bad w1 l0 lr)
            by (rewrite <- (rw_base _ _ R), <- (rw_n _ _ R); exact Hi).
          rewrite <- (rw_istart _ _ R), Hs. reflexivity. }
        rewrite E. exists w2. cbn [faulted fst snd res_abs abs_acts map do_acts].
        unfold seg_append. fold ls. unfold ls at 1. rewrite Hs, Hb.
        apply N.eqb_neq in Hi. rewrite Hi. auto. }
    destruct (append_l1_char w1 w2 l0 lr R Hc Hs Hb Hi) as (w1' & buf & E & Lb & R').
    subst ls. rewrite E. cbn [fst snd].
    rewrite (seg_append_char w2 l0 lr e Hs Hb Hi).
    cbn [abs_acts map act_abs]. rewrite Lb, (pb_of_l2_batch _ _ _ R').
    destruct (e_fault e) as [[|[|n]]|]; cbn [wfault_of both_ok faulted fst snd res_abs];
      eexists; (split; [reflexivity|assumption]).
Qed.

(* no fault: the form asked for *)
Theorem append_sim w1 w2 ls e :
  rep_w w1 w2 -> consec ls -> e_fault e = None ->
  exists r w1' acts w2',
    append w1 (ents ls) FNone = (r, w1', acts) /\
    seg_append w2 ls e = (res_abs r, w2', do_acts e (abs_acts (ws_name w2) (pb_of ls w1') acts)) /\
    rep_w w1' w2' /\
    (acts = [] \/ exists buf, acts = [WWrite (ws_off w2) buf; WSync]).
Proof.
  intros R Hc Hf. destruct (append_sim_gen w1 w2 ls e R Hc) as (w2' & E & R').
  rewrite Hf in E, R'. cbn [wfault_of] in E, R'.
  destruct (append w1 (ents ls) FNone) as [[r w1'] acts] eqn:Ea. cbn [fst snd] in E, R'.
  exists r, w1', acts, w2'. split; [reflexivity|]. split; [exact E|]. split; [exact R'|].
  (* shape of the actions *)
  clear E R'. unfold append in Ea. destruct (ents ls) as [|e0 er]; [inversion Ea; auto|].
  destruct (0 <? w_index_start w1); [inversion Ea; auto|].
  destruct (too_big (e0 :: er)); [inversion Ea; auto|].
  destruct (append_entries w1 (e0 :: er)) as [wa|] eqn:Eae; [|inversion Ea; auto].
  destruct (append_entries_char _ _ _ Eae) as [_ Ewa].
  assert (Eoff : forall wb, (if needs_seal wa then append_index wa else Some wa) = Some wb -> w_off wb = ws_off w2).
  { intros wb H. destruct (needs_seal wa).
    - unfold append_index in H. destruct (w_offsets wa); [discriminate|]. inversion H; subst wb.
      cbn [w_off]. rewrite Ewa. cbn [set_buf w_off]. symmetry. apply (rw_off _ _ R).
    - inversion H; subst wb. rewrite Ewa. cbn [set_buf w_off]. symmetry. apply (rw_off _ _ R). }
  destruct (if needs_seal wa then append_index wa else Some wa) as [wb|]; [|inversion Ea; auto].
  specialize (Eoff wb eq_refl). unfold append_commit in Ea. inversion Ea; subst. right.
  rewrite Eoff. eexists. reflexivity.
Qed.

(* ---------------- Writer.ForceSeal ---------------- *)
Lemma force_seal_l1_char w1 w2 :
  rep_w w1 w2 -> (0 <? ws_index_start w2) = false -> (ws_n w2 =? 0) = false ->
  exists w1' buf,
    force_seal w1 FNone = (WOk, w1', [WWrite (ws_off w2) buf; WSync]) /\
    len buf = fs_total w2 /\ rep_w w1' (fs_after w2).
Proof.
  intros R Hs Hn. pose proof (len_rw_buf _ _ R) as Lbuf.
  assert (Hnn : w_offsets w1 <> []).
  { intros E. rewrite (rw_n _ _ R), E in Hn. discriminate. }
  assert (Ltot : forall c, len ((w_buf w1 ++ index_frame (w_offsets w1)) ++ commit_frame c) = fs_total w2).
  { intros c. unfold fs_total. rewrite !len_app, len_commit_frame, len_index_frame, Lbuf, (rw_n _ _ R).
    unfold index_frame_size. rewrite <- (rw_n _ _ R), Hn. f_equal. f_equal. f_equal. lia. }
  unfold force_seal. rewrite <- (rw_istart _ _ R), Hs.
  unfold append_index. destruct (w_offsets w1) as [|o1 or1] eqn:Eo; [congruence|]. rewrite <- Eo in *.
  unfold append_commit. cbn [w_info w_buf w_crc w_off w_index_start w_offsets w_commit_idx].
  eexists; eexists. split; [rewrite (rw_off _ _ R); reflexivity|]. split; [apply Ltot|].
  constructor; cbn [fs_after w_info w_buf w_crc w_off w_index_start w_offsets w_commit_idx
                    ws_name ws_base ws_min ws_limit ws_n ws_off ws_hdr ws_index_start ws_commit_idx];
    try (apply R); try reflexivity.
  - rewrite Ltot, (rw_off _ _ R). reflexivity.
  - unfold fs_istart. rewrite Lbuf, (rw_off _ _ R). reflexivity.
  - unfold commit_idx_of. cbn [w_offsets w_info]. rewrite Eo. rewrite <- Eo.
    rewrite (rw_base _ _ R), (rw_n _ _ R). reflexivity.
Qed.

Lemma pb_of_fs_batch w1' w2 : rep_w w1' (fs_after w2) -> pb_of [] w1' = fs_batch w2.
Proof.
  intros R. unfold pb_of, fs_batch. rewrite <- (rw_off _ _ R), <- (rw_istart _ _ R). reflexivity.
Qed.

Theorem force_seal_sim_gen w1 w2 e :
  rep_w w1 w2 ->
  let x0 := force_seal w1 FNone in
  let x := force_seal w1 (wfault_of (e_fault e)) in
  exists w2',
    seg_force_seal w2 e =
      (res_abs (fst (fst x)), w2',
       do_acts e (abs_acts (ws_name w2) (pb_of [] (snd (fst x0))) (snd x0))) /\
    rep_w (snd (fst x)) w2'.
Proof.
  intros R. cbn zeta. rewrite (force_seal_faulted w1 (wfault_of (e_fault e))).
  destruct (0 <? ws_index_start w2) eqn:Hs.
  { assert (E : force_seal w1 FNone = (WOk, w1, [])).
    { unfold force_seal. rewrite <- (rw_istart _ _ R), Hs. reflexivity. }
    rewrite E. exists w2. cbn [faulted fst snd res_abs abs_acts map do_acts].
    unfold seg_force_seal. rewrite Hs. auto. }
  destruct (ws_n w2 =? 0) eqn:Hn.
  { assert (E : force_seal w1 FNone = (WErrShortBuf, w1, [])).
    { unfold force_seal. rewrite <- (rw_istart _ _ R), Hs. unfold append_index.
      apply N.eqb_eq in Hn. rewrite (rw_n _ _ R) in Hn.
      destruct (w_offsets w1); [reflexivity|]. rewrite len_cons in Hn. lia. }
    rewrite E. exists w2. cbn [faulted fst snd res_abs abs_acts map do_acts].
    unfold seg_force_seal. rewrite Hs, Hn. auto. }
  destruct (force_seal_l1_char w1 w2 R Hs Hn) as (w1' & buf & E & Lb & R').
  rewrite E. cbn [fst snd]. rewrite (seg_force_seal_char w2 e Hs Hn).
  cbn [abs_acts map act_abs]. rewrite Lb, (pb_of_fs_batch _ _ R').
  destruct (e_fault e) as [[|[|n]]|]; cbn [wfault_of both_ok faulted fst snd res_abs];
    eexists; (split; [reflexivity|assumption]).
Qed.

Theorem force_seal_sim w1 w2 e :
  rep_w w1 w2 -> e_fault e = None ->
  exists r w1' acts w2',
    force_seal w1 FNone = (r, w1', acts) /\
    seg_force_seal w2 e = (res_abs r, w2', do_acts e (abs_acts (ws_name w2) (pb_of [] w1') acts)) /\
    rep_w w1' w2'.
Proof.
  intros R Hf. destruct (force_seal_sim_gen w1 w2 e R) as (w2' & E & R').
  rewrite Hf in E, R'. cbn [wfault_of] in E, R'.
  destruct (force_seal w1 FNone) as [[r w1'] acts] eqn:Ea. cbn [fst snd] in E, R'.
  exists r, w1', acts, w2'. auto.
Qed.
