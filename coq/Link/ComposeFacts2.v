(* ComposeFacts2.v -- the primitives that write: seg_append, seg_force_seal
   (in lock step with the byte-level writer), and seg_recover. *)
From RW Require Import Base.Bytes Base.BytesFacts Base.Crc32c Fmt.Codec Fmt.Frame Fmt.FrameFacts
     Seg.Writer Seg.Recover Seg.SegAbs Seg.WriterFacts Seg.RecoverFacts Seg.ChainFacts
     Wal.Model Wal.Spec Wal.CrashFacts0 Link.Abs Link.AbsFacts1 Link.AbsFacts2 Link.AbsFacts3 Link.AbsFacts4
     Link.Disk Link.DiskFacts1 Link.DiskFacts2 Link.Compose Link.ComposeFacts1 Gen.Constants.
From Coq Require Import ZifyN ZifyNat ZifyBool.
Open Scope N_scope.

Lemma do_acts2_nofault e a1 a2 :
  e_fault e = None -> do_acts e [a1; a2] = io_ok (io_ok e a1) a2.
Proof.
  intros Hf. cbn [do_acts]. rewrite (io_nofault _ _ Hf). rewrite (io_nofault _ _ (io_ok_fault _ _ Hf)). reflexivity.
Qed.

(* one commit of the tail writer (append or force-seal) in lock step.
   op / pb: the L1 operation and the L2 batch; the L1 run is given in closed
   form (append_l1_char / force_seal_l1_char) *)
Lemma commit_link c tw info bs bd e op ls w1' new tot pb tw' :
  let n := ws_name tw in
  let aw := AWrite n (ws_off tw) tot pb in
  drep c bd (e_disk e) -> NoDup (map fst (dk_files (e_disk e))) -> e_fault e = None ->
  tail_link c tw info bs bd (e_disk e) -> logs_ok ls ->
  do_op (wst info (cstate info bs)) op = (WOk, w1', [WWrite (ws_off tw) new; WSync]) ->
  wop_of pb = op -> op_batch (wst info (cstate info bs)) w1' op = [(map enc ls, sealed w1')] ->
  len new = tot -> len (batch_write info (cstate info bs) (map enc ls, sealed w1')) = tot ->
  rep_w w1' tw' -> ws_name tw' = n -> pb = pb_of ls w1' ->
  ws_off tw + tot < two32 ->
  exists bd' bs',
    erun c bd e bd' (io_ok (io_ok e aw) (ASync n)) /\
    NoDup (map fst (dk_files (e_disk (io_ok (io_ok e aw) (ASync n))))) /\
    tail_link c tw' info bs' bd' (e_disk (io_ok (io_ok e aw) (ASync n))).
Proof.
  intros n aw H0 Hnd Hf [Tn Th Tw Tf] Hls Hop Hwop Hob Hlen Hlb Rw' Hn' Hpb Hguard.
  set (s := cstate info bs) in *. set (b := (map enc ls, sealed w1')) in *.
  assert (Hrun : wrun (wst info s) [op] = Some (w1', [WWrite (ws_off tw) new; WSync], [b])).
  { cbn [wrun]. rewrite Hop, Hob. rewrite !app_nil_r. reflexivity. }
  assert (Hoff : ws_off tw = len (image info bs)) by (rewrite (rw_off _ _ Tw); reflexivity).
  assert (Hm : bmatch aw (BWrite n (ws_off tw) new)).
  { cbn [aw bmatch]. exists new. split; [reflexivity|]. split; [exact Hlen|].
    exists (wst info s), w1'. rewrite Hwop. exact Hop. }
  assert (Hnd2 : NoDup (map fst (dk_files (e_disk (io_ok (io_ok e aw) (ASync n)))))).
  { cbn [io_ok e_disk]. apply NoDup_apply, NoDup_apply. exact Hnd. }
  destruct (lookup n (dk_files (e_disk e))) as [f|] eqn:El.
  - destruct (Tf f El) as (bf & Hbl & R).
    assert (Hlen' : len (image info (bs ++ [b])) < two32).
    { rewrite image_snoc, len_app. fold s. rewrite Hlb, <- Hoff. exact Hguard. }
    destruct (bwrite_drep c bd (e_disk e) info n bs bf f op w1' _ b ls H0 Tn Th El Hbl R Hrun eq_refl Hls Hlen')
      as (Ea & Ew & D1 & D2 & R1 & R2).
    fold s in Ea. inversion Ea as [[Eo En]].
    assert (Eaw : AWrite n (len (image info bs)) (len (batch_write info s b)) (pb_of ls w1') = aw).
    { unfold aw. rewrite <- En, Hlen, <- Hoff, Hpb. reflexivity. }
    fold s in D1, D2, R1, R2. rewrite Eaw in D1, D2. rewrite <- En, <- Hoff in D1, D2, R1, R2.
    exists (bapply (bapply bd (BWrite n (ws_off tw) new)) (BSync n)), (bs ++ [b]).
    split; [|split; [exact Hnd2|]].
    + eapply erun_trans.
      * apply erun_io; [exact Hf|exact H0|exact Hm|exact D1].
      * apply erun_io; [apply io_ok_fault; exact Hf|exact D1|reflexivity|exact D2].
    + constructor.
      * rewrite Hn'. exact Tn.
      * rewrite Hn'. exact Th.
      * rewrite Ew in Rw'. exact Rw'.
      * rewrite Hn'. cbn [io_ok e_disk]. intros f' Hf'.
        rewrite (apply_sync_files _ n (written f pb)) in Hf'.
        2:{ unfold aw. rewrite (apply_write_files _ _ _ _ _ _ El (rep_pend _ _ _ (fr_rep _ _ _ _ _ R))).
            apply lookup_update_eq. }
        rewrite lookup_update_eq in Hf'. inversion Hf'; subst f'.
        exists (bsync_file (bwrite_file bf (ws_off tw) new)). split.
        -- rewrite (bapply_sync _ n (bwrite_file bf (ws_off tw) new)).
           ++ apply blookup_bupdate_eq.
           ++ rewrite (bapply_write _ _ _ _ _ Hbl). apply blookup_bupdate_eq.
        -- rewrite Hpb. exact R2.
  - pose proof (frel_lookup_none _ _ _ _ H0 El) as Hbn.
    assert (D1 : drep c (bapply bd (BWrite n (ws_off tw) new)) (apply_act (e_disk e) aw))
      by (apply bwrite_missing_drep; assumption).
    assert (Ed1 : apply_act (e_disk e) aw = e_disk e) by (cbn [aw apply_act]; rewrite El; reflexivity).
    assert (Ed2 : apply_act (e_disk e) (ASync n) = e_disk e) by (cbn [apply_act]; rewrite El; reflexivity).
    exists (bapply (bapply bd (BWrite n (ws_off tw) new)) (BSync n)), (bs ++ [b]).
    split; [|split; [exact Hnd2|]].
    + eapply erun_trans.
      * apply erun_io; [exact Hf|exact H0|exact Hm|exact D1].
      * apply erun_io; [apply io_ok_fault; exact Hf|exact D1|reflexivity|apply bsync_drep; exact D1].
    + assert (Ew : w1' = wst info (cstate info (bs ++ [b]))).
      { (* the writer equation does not depend on the file: wrun_char needs the length guard only *)
        assert (Hl2 : len (c_img (fold_left (cstep info) [b] s)) < two32).
        { cbn [fold_left cstep c_img]. rewrite len_app, Hlb. rewrite Hoff in Hguard. exact Hguard. }
        destruct (wrun_char info [op] s w1' _ [b] Hrun Hl2) as (Ew & _). cbn [fold_left] in Ew.
        rewrite cstate_snoc. exact Ew. }
      constructor.
      * rewrite Hn'. exact Tn.
      * rewrite Hn'. exact Th.
      * rewrite Ew in Rw'. exact Rw'.
      * rewrite Hn'. cbn [io_ok e_disk]. rewrite Ed1, Ed2. intros f' Hf'. rewrite El in Hf'. discriminate.
Qed.

(* ---------------- seg_append ---------------- *)
Lemma seg_append_link c tw info bs ls bd e r tw' e' :
  drep c bd (e_disk e) -> NoDup (map fst (dk_files (e_disk e))) -> e_fault e = None ->
  tail_link c tw info bs bd (e_disk e) -> consec ls -> logs_ok ls ->
  (ws_index_start tw = 0 -> ws_off tw + l2_total tw ls < two32) ->
  seg_append tw ls e = (r, tw', e') ->
  exists bd' bs', erun c bd e bd' e' /\ NoDup (map fst (dk_files (e_disk e'))) /\
                  tail_link c tw' info bs' bd' (e_disk e').
Proof.
  intros H0 Hnd Hf T Hc Hls Hg Hs.
  assert (Hsame : (tw', e') = (tw, e) ->
                  exists bd' bs', erun c bd e bd' e' /\ NoDup (map fst (dk_files (e_disk e'))) /\
                                  tail_link c tw' info bs' bd' (e_disk e')).
  { intros [= -> ->]. exists bd, bs. split; [apply erun_refl; assumption|]. auto. }
  destruct ls as [|l0 lr]; [cbn in Hs; inversion Hs; subst; apply Hsame; reflexivity|].
  destruct (0 <? ws_index_start tw) eqn:E1.
  { unfold seg_append in Hs. rewrite E1 in Hs. inversion Hs; subst. apply Hsame; reflexivity. }
  destruct (existsb (fun l => MaxEntrySize <? enc_len l) (l0 :: lr)) eqn:E2.
  { unfold seg_append in Hs. rewrite E1, E2 in Hs. inversion Hs; subst. apply Hsame; reflexivity. }
  destruct (l_index l0 =? ws_base tw + ws_n tw) eqn:E3.
  2:{ unfold seg_append in Hs. rewrite E1, E2, E3 in Hs. inversion Hs; subst. apply Hsame; reflexivity. }
  apply N.eqb_eq in E3. rewrite (seg_append_char tw l0 lr e E1 E2 E3) in Hs. rewrite Hf in Hs. cbn [both_ok] in Hs.
  rewrite do_acts2_nofault in Hs by exact Hf. inversion Hs; subst r tw' e'. clear Hs.
  set (ls := l0 :: lr) in *.
  pose proof (tl_w _ _ _ _ _ _ T) as Rw.
  destruct (append_l1_char _ tw l0 lr Rw Hc E1 E2 E3) as (w1' & new & Ea & Lnew & Rw'). fold ls in Ea, Lnew, Rw'.
  assert (Hz : ws_index_start tw = 0) by (apply N.ltb_ge in E1; lia).
  eapply (commit_link c tw info bs bd e (OpAppend (ents ls)) ls w1' new (l2_total tw ls) (l2_batch tw ls) (l2_after tw ls));
    try eassumption.
  - reflexivity.
  - cbn [op_batch]. unfold ls at 1. cbn [ents map]. fold (ents lr). change (ent l0 :: ents lr) with (ents ls).
    rewrite map_snd_ents. reflexivity.
  - rewrite (sealed_l2 _ _ _ Rw'). apply len_batch_write_l2; [exact Rw|discriminate].
  - reflexivity.
  - symmetry. apply pb_of_l2_batch. exact Rw'.
  - apply Hg. exact Hz.
Qed.

(* ---------------- seg_force_seal ---------------- *)
Lemma seg_force_seal_link c tw info bs bd e r tw' e' :
  drep c bd (e_disk e) -> NoDup (map fst (dk_files (e_disk e))) -> e_fault e = None ->
  tail_link c tw info bs bd (e_disk e) ->
  (ws_index_start tw = 0 -> ws_off tw + fs_total tw < two32) ->
  seg_force_seal tw e = (r, tw', e') ->
  exists bd' bs', erun c bd e bd' e' /\ NoDup (map fst (dk_files (e_disk e'))) /\
                  tail_link c tw' info bs' bd' (e_disk e').
Proof.
  intros H0 Hnd Hf T Hg Hs.
  assert (Hsame : (tw', e') = (tw, e) ->
                  exists bd' bs', erun c bd e bd' e' /\ NoDup (map fst (dk_files (e_disk e'))) /\
                                  tail_link c tw' info bs' bd' (e_disk e')).
  { intros [= -> ->]. exists bd, bs. split; [apply erun_refl; assumption|]. auto. }
  destruct (0 <? ws_index_start tw) eqn:E1.
  { unfold seg_force_seal in Hs. rewrite E1 in Hs. inversion Hs; subst. apply Hsame; reflexivity. }
  destruct (ws_n tw =? 0) eqn:E2.
  { unfold seg_force_seal in Hs. rewrite E1, E2 in Hs. inversion Hs; subst. apply Hsame; reflexivity. }
  rewrite (seg_force_seal_char tw e E1 E2) in Hs. rewrite Hf in Hs. cbn [both_ok] in Hs.
  rewrite do_acts2_nofault in Hs by exact Hf. inversion Hs; subst r tw' e'. clear Hs.
  pose proof (tl_w _ _ _ _ _ _ T) as Rw.
  destruct (force_seal_l1_char _ tw Rw E1 E2) as (w1' & new & Ea & Lnew & Rw').
  assert (Hz : ws_index_start tw = 0) by (apply N.ltb_ge in E1; lia).
  assert (Hns : sealed (wst info (cstate info bs)) = false).
  { unfold sealed. rewrite <- (rw_istart _ _ Rw), Hz. reflexivity. }
  assert (Hsl : sealed w1' = true).
  { unfold sealed. rewrite <- (rw_istart _ _ Rw'). cbn [fs_after ws_index_start]. unfold fs_istart. apply N.ltb_lt. lia. }
  eapply (commit_link c tw info bs bd e OpSeal [] w1' new (fs_total tw) (fs_batch tw) (fs_after tw));
    try eassumption.
  - constructor.
  - reflexivity.
  - cbn [op_batch]. rewrite Hns, Hsl. reflexivity.
  - rewrite Hsl. apply (len_batch_write_fs info bs tw Rw E2).
  - reflexivity.
  - symmetry. apply pb_of_fs_batch. exact Rw'.
  - apply Hg. exact Hz.
Qed.

(* ---------------- seg_recover ---------------- *)
(* Filer.RecoverTail on a file without a write in flight: the L2 writer is
   linked to the file; the byte-level RecoverTail returns the byte writer it
   represents and writes nothing (so there is no byte-level action to match) *)
Lemma seg_recover_link c si bd e f :
  drep c bd (e_disk e) -> si_codec si = c_codec c ->
  lookup (name_of si) (dk_files (e_disk e)) = Some f -> df_pend f = None ->
  seg_recover si e = Some (Some (recw si f)) /\
  exists bs bf,
    tail_link c (recw si f) si bs bd (e_disk e) /\
    blookup (name_of si) bd = Some bf /\
    recover_state si (bf_data bf) = Some (wst si (cstate si bs)) /\
    bf_data (bscrub_file si (bkept (bf_data bf))) = bf_data bf.
Proof.
  intros H0 Hc El Hp. split; [apply seg_recover_char; exact El|].
  destruct (frel_lookup _ _ _ _ _ H0 El) as (bf & Hb & Hh & bs & pb & R).
  assert (He : hdr_eq (finfo c (name_of si)) si).
  { unfold hdr_eq, finfo, name_of. cbn. auto. }
  assert (Hpb : pb = None).
  { destruct pb as [b|]; [|reflexivity]. destruct (fr_rep _ _ _ _ _ R) as (_ & p & Hp' & _). congruence. }
  subst pb. pose proof (frep_at_hdr_eq _ _ _ _ _ _ He R) as R'.
  assert (Hh' : hdr_wf si).
  { destruct Hh as (A & B & C). unfold hdr_wf. cbn in A, B, C. rewrite <- Hc in C. auto. }
  exists bs, bf. split; [|split; [exact Hb|]].
  - constructor.
    + reflexivity.
    + cbn [recw ws_name]. apply hdr_eq_sym. exact He.
    + apply rep_w_recw, rep_cur_rep. apply (fr_rep _ _ _ _ _ R').
    + cbn [recw ws_name]. intros f' Hf'. rewrite El in Hf'. inversion Hf'; subst f'. exists bf. auto.
  - destruct (frep_crash_clean si bs bf f true Hh' R') as (_ & P2 & P3).
    destruct (bscrub_clean si bs bf f Hh' R') as (_ & Ed). rewrite Ed. auto.
Qed.
