(* IndexStartFacts3.v -- the IndexStart invariant along the histories of
   crash_refinement (Wal/Hist.v), and GetLog down to bytes without the
   hypothesis seg_meta_ok.
     step_ctr        every call performs a justified trace
     ext_ctr_prefix  ... so ISd holds on every disk the call passes through
     GIS_step/_run   GI /\ ISd is an invariant of histories
     LInv_seg_meta   LInv /\ ISd gives seg_meta_ok (Link/ComposeFacts7.v)
     get_log_bytes   Link_get_log_stmt *)
From RW Require Import Base.Bytes Base.BytesFacts Fmt.Codec Fmt.Frame Wal.Model Wal.Spec Wal.Hist
     Wal.CrashInv Wal.CrashFacts0 Wal.CrashFacts1 Wal.CrashFacts2 Wal.CrashFacts3 Wal.CrashFacts4 Wal.CrashFacts5
     Wal.CrashFacts6 Wal.CrashGlue Wal.CrashCalls4 Wal.CrashCalls5 Wal.CrashCalls10
     Seg.Reader Link.Abs Link.Disk Link.Compose Link.ComposeFacts6 Link.ComposeFacts7
     Link.IndexStart Link.IndexStartFacts1 Link.IndexStartFacts2 Gen.Constants.
From Coq Require Import ZifyN ZifyNat ZifyBool.
Open Scope N_scope.

(* ---------------- justified trace + structural invariant on every disk ---------------- *)
Lemma ext_ctr_prefix c nb (P : disk -> Prop) e e' :
  (forall d, P d -> DIs c nb d) -> ext P e e' -> ctr e e' -> ISd (e_disk e) ->
  forall j, ISd (fold_left apply_act (firstn j (new_acts e e')) (e_disk e)).
Proof.
  intros HP Hext (_ & acts2 & A2 & D2 & C2) HI.
  destruct (ext_acts _ _ _ Hext) as (acts & Ea & _ & _ & Hpre). rewrite Ea.
  assert (E : acts = acts2).
  { destruct Hext as (_ & acts1 & A1 & _). pose proof (ext_acts P e e') as X.
    assert (acts = acts1).
    { rewrite <- Ea. unfold new_acts. rewrite A1, app_length.
      replace (length (rev acts1) + length (e_acts e) - length (e_acts e))%nat with (length (rev acts1)) by lia.
      rewrite firstn_app, Nat.sub_diag. cbn. rewrite app_nil_r, firstn_all, rev_append_rev, app_nil_r. apply rev_involutive. }
    subst acts1. rewrite A1 in A2. apply app_inv_tail in A2.
    rewrite <- (rev_involutive acts), A2. apply rev_involutive. }
  subst acts2. apply (ISd_prefix c nb acts); [intros k; apply HP; apply Hpre|exact C2|exact HI].
Qed.

Lemma ext_ctr_final c nb (P : disk -> Prop) e e' :
  (forall d, P d -> DIs c nb d) -> ext P e e' -> ctr e e' -> ISd (e_disk e) -> ISd (e_disk e').
Proof.
  intros HP Hext Hc HI. pose proof (ext_ctr_prefix c nb P e e' HP Hext Hc HI (length (new_acts e e'))) as H.
  rewrite firstn_all in H. destruct (ext_acts _ _ _ Hext) as (acts & Ea & _ & Hd & _). rewrite Ea in H. rewrite Hd. exact H.
Qed.

Lemma DP_DIs c nb A d : DP c nb A d -> DIs c nb d.
Proof. intros (H & _). exact H. Qed.

(* ---------------- every call ---------------- *)
Lemma get_log_env w i e r e' : get_log w i e = (r, e') -> exists m, e' = with_m e m.
Proof.
  unfold get_log. destruct (st_closed w); [intros [= _ <-]; exists (e_m e); destruct e; reflexivity|].
  cbn zeta. unfold inc_read, add_m.
  repeat match goal with |- context [match ?x with _ => _ end] => destruct x end;
    intros [= _ <-]; eexists; reflexivity.
Qed.

Lemma step_ctr c nb s o r s' a :
  cfg_ok c -> nb + 2 < two64 -> LInv c nb (ss_wal s) (e_disk (ss_env s)) -> e_fault (ss_env s) = None ->
  sp_of (e_disk (ss_env s)) = a ->
  ISd (e_disk (ss_env s)) -> step_model c s o = (r, s') -> ctr (ss_env s) (ss_env s').
Proof.
  intros Hc Hnb HL Hf Hsp HI H.
  pose proof (LInv_ISs _ _ _ _ HL HI) as HIs. pose proof (LInv_rot_ok _ _ _ _ HL) as Hro.
  assert (Hset : ctr (ss_env s) (ss_env (settle c s)) /\
                 ISs (e_disk (ss_env (settle c s))) (st_segs (ss_wal (settle c s))) /\
                 tail_facts (ss_wal (settle c s)) (e_disk (ss_env (settle c s)))).
  { pose proof (settle_ctr c s Hf HIs Hro) as C1.
    destruct (settle_ok c nb s a Hc HL Hf Hsp ltac:(lia)) as (HL1 & _ & _ & He1).
    split; [exact C1|]. split; [|eapply LInv_tail_facts; eauto].
    eapply LInv_ISs; [exact HL1|]. eapply (ext_ctr_final c (nb + 1)); [|exact He1|exact C1|exact HI]. apply DP_DIs. }
  destruct o; cbn [step_model] in H.
  - destruct Hset as (C1 & HI1 & _). set (s1 := settle c s) in *.
    destruct (store_logs c (ss_wal s1) ls (ss_env s1)) as [[r0 w'] e'] eqn:Es. inversion H; subst. cbn [ss_env].
    eapply ctr_trans; [exact C1|]. eapply store_logs_ctr; [apply (ctr_fault _ _ C1)|exact HI1|exact Es].
  - destruct Hset as (C1 & HI1 & HT1). set (s1 := settle c s) in *.
    destruct (delete_range c (ss_wal s1) mn mx (ss_env s1)) as [[r0 w'] e'] eqn:Es. inversion H; subst. cbn [ss_env].
    eapply ctr_trans; [exact C1|]. eapply delete_range_ctr; [apply (ctr_fault _ _ C1)|exact HI1|exact HT1|exact Es].
  - destruct (get_log (ss_wal s) i (ss_env s)) as [r0 e'] eqn:Eg. inversion H; subst. cbn [ss_env].
    destruct (get_log_env _ _ _ _ _ Eg) as [m ->]. apply ctr_with_m, ctr_refl. exact Hf.
  - inversion H; subst. apply ctr_refl. exact Hf.
  - inversion H; subst. apply ctr_refl. exact Hf.
  - destruct (set_stable (ss_wal s) k v is_nil (ss_env s)) as [r0 e'] eqn:Eg. inversion H; subst. cbn [ss_env].
    unfold set_stable in Eg. destruct (st_closed (ss_wal s)); [inversion Eg; subst; apply ctr_refl; exact Hf|].
    cbn zeta in Eg. destruct (negb (key_ok k)).
    + inversion Eg; subst. unfold inc_stable. apply ctr_add_m, ctr_refl. exact Hf.
    + unfold inc_stable, add_m in Eg. rewrite io_ok in Eg by exact Hf. inversion Eg; subst.
      eapply ctr_from_m. apply ctr_io; [exact Hf|exact I].
  - destruct (get_stable (ss_wal s) k (ss_env s)) as [r0 e'] eqn:Eg. inversion H; subst. cbn [ss_env].
    unfold get_stable in Eg. destruct (st_closed (ss_wal s)); inversion Eg; subst; [apply ctr_refl; exact Hf|].
    unfold inc_stable. apply ctr_add_m, ctr_refl. exact Hf.
  - destruct (open_wal c (ss_env s)) as [res e'] eqn:Eo.
    assert (C : ctr (ss_env s) e').
    { destruct HL as (_ & _ & HD & _). eapply open_wal_ctr; eauto. }
    destruct res; inversion H; subst; exact C.
Qed.

(* ---------------- histories ---------------- *)
Lemma GIS_mono c nb nb' h : nb <= nb' -> GIS c nb h -> GIS c nb' h.
Proof. intros Hle (H1 & H2). split; [eapply GI_mono; eauto|exact H2]. Qed.

Lemma GIS_init c : GIS c 0 hist_init.
Proof. split; [apply GI_init|exact I]. Qed.

Lemma OQ_DIs c nb s0 d : OQ c nb s0 d -> DIs c nb d.
Proof. intros (H & _). exact H. Qed.

Theorem GIS_step c nb h st :
  cfg_ok c -> hstep_wf st -> nb + 2 < two64 -> GIS c nb h -> GIS c (nb + 2) (hstep_run c h st).
Proof.
  intros Hc Hwf Hnb (HG & HI).
  assert (HG' : GI c (nb + 2) (hstep_run c h st)).
  { apply (GI_step c nb h st (fun _ => True) Hc); auto; [intros o _; apply call_ok_all|destruct st; exact I]. }
  split; [exact HG'|]. clear HG'.
  destruct HG as (Hok & Hga & Hgm & HM). unfold hdisk in *. unfold hstep_run.
  destruct (hs_mode h) as [s|d] eqn:Emode.
  - destruct HM as (Hma & HL & Hf & Hsp & Hnofail).
    destruct st as [o|o j cc| |j cc]; try (rewrite Emode; exact HI).
    + destruct (call_ok_all c o nb s (hs_acked h) Hc Hwf Hnb HL Hf Hsp Hga) as (r & s' & Hst & _ & _ & _ & Hext).
      rewrite Hst. destruct (step_spec (hs_acked h) o) as [r' sp']. cbn [hs_mode].
      eapply (ext_ctr_final c (nb + 2)); [|exact Hext| |exact HI]; [apply DP_DIs|].
      eapply step_ctr; eauto.
    + destruct (call_ok_all c o nb s (hs_acked h) Hc Hwf Hnb HL Hf Hsp Hga) as (r & s' & Hst & _ & _ & _ & Hext).
      rewrite Hst. destruct (step_spec (hs_acked h) o) as [r' sp'].
      assert (C : ctr (ss_env s) (ss_env s')) by (eapply step_ctr; eauto).
      pose proof (ext_ctr_prefix c (nb + 2) _ _ _ (DP_DIs c (nb + 2) _) Hext C HI j) as HIj.
      destruct (ext_acts _ _ _ Hext) as (acts & Ea & _ & _ & Hpre). rewrite Ea in *.
      destruct (Hpre j) as (HDj & _).
      assert (K : ISd (crash_disk cc (fold_left apply_act (firstn j acts) (e_disk (ss_env s)))))
        by (eapply ISd_crash; eauto).
      destruct (Nat.leb (length acts) j); cbn [hs_mode]; exact K.
  - destruct HM as (HD & HN & Hsp).
    destruct st as [o|o j cc| |j cc]; try (rewrite Emode; exact HI).
    + destruct (open_wal_ok c nb (env_of d) Hc eq_refl HD HN) as (w & e' & Ho & Hext & _); [lia|].
      rewrite Ho. cbn [hs_mode ss_env].
      eapply (ext_ctr_final c (nb + 1)); [|exact Hext| |exact HI]; [apply OQ_DIs|].
      eapply open_wal_ctr; eauto.
    + destruct (open_wal_ok c nb (env_of d) Hc eq_refl HD HN) as (w & e' & Ho & Hext & _); [lia|].
      rewrite Ho. cbn [hs_mode].
      assert (C : ctr (env_of d) e') by (eapply open_wal_ctr; eauto; reflexivity).
      pose proof (ext_ctr_prefix c (nb + 1) _ _ _ (OQ_DIs c (nb + 1) _) Hext C HI j) as HIj.
      destruct (ext_acts _ _ _ Hext) as (acts & Ea & _ & _ & Hpre).
      assert (Eacts : rev_append (e_acts e') [] = acts).
      { rewrite <- Ea. unfold new_acts. rewrite env_of_acts. cbn [length]. rewrite Nat.sub_0_r, firstn_all. reflexivity. }
      rewrite Eacts. rewrite Ea in HIj. cbn [env_of e_disk] in HIj, Hpre.
      destruct (Hpre j) as (HDj & _). eapply ISd_crash; eauto.
Qed.

Lemma GIS_run c steps : forall nb h,
  cfg_ok c -> nb + 2 * N.of_nat (length steps) < two64 -> Forall hstep_wf steps -> GIS c nb h ->
  GIS c (nb + 2 * N.of_nat (length steps)) (hist_run c h steps).
Proof.
  unfold hist_run. induction steps as [|st steps IH]; intros nb h Hc Hnb Hwf HG.
  - cbn [length fold_left]. replace (nb + 2 * N.of_nat 0) with nb by lia. exact HG.
  - inversion Hwf as [|? ? Hw1 Hw2]; subst. cbn [fold_left length]. cbn [length] in Hnb.
    replace (nb + 2 * N.of_nat (S (length steps))) with ((nb + 2) + 2 * N.of_nat (length steps)) by lia.
    apply IH; auto; [lia|]. apply GIS_step; auto. lia.
Qed.

(* THE INDEX START INVARIANT HOLDS AFTER EVERY ACCEPTED HISTORY *)
Theorem hist_GIS c steps :
  cfg_ok c -> Forall hstep_wf steps -> short_enough steps ->
  GIS c (2 * N.of_nat (length steps)) (hist_run c hist_init steps).
Proof.
  intros Hc Hwf Hshort. apply (GIS_run c steps 0 hist_init Hc); auto.
  - unfold short_enough in Hshort. unfold two64. lia.
  - apply GIS_init.
Qed.

(* ---------------- GetLog down to bytes ---------------- *)
Lemma LInv_seg_meta c nb w d : LInv c nb w d -> ISd d -> seg_meta_ok w d.
Proof.
  intros HL HI s Hin. split; [eapply LInv_base_le_min; eauto|]. intros f Hf Hnt.
  pose proof (LInv_ISs _ _ _ _ HL HI) as HIs. unfold ISs in HIs. rewrite Forall_forall in HIs.
  destruct (LInv_view _ _ _ _ HL) as (S & t & f0 & tw & V).
  rewrite (lv_segs _ _ _ _ _ _ _ _ V) in Hin. apply in_app_or in Hin as [Hin|[<-|[]]].
  - pose proof (lv_sealed _ _ _ _ _ _ _ _ V) as Hso. rewrite Forall_forall in Hso. destruct (Hso s Hin) as (Hse & _).
    apply (HIs s); [rewrite (lv_segs _ _ _ _ _ _ _ _ V); apply in_or_app; left; exact Hin|exact Hse|exact Hf].
  - exfalso. pose proof (lv_tw _ _ _ _ _ _ _ _ V) as (Hn & _). apply (Hnt tw (lv_tail _ _ _ _ _ _ _ _ V)). exact Hn.
Qed.

Theorem get_log_bytes c nb w bd e idx l e' :
  LInv c nb w (e_disk e) -> ISd (e_disk e) -> wlink c w bd (e_disk e) ->
  get_log w idx e = (RLog l, e') ->
  exists p, bread c w bd (e_disk e) idx p /\ decode_log p = Some l.
Proof.
  intros HL HI HW H. eapply get_log_link; eauto. eapply LInv_seg_meta; eauto.
Qed.

(* ... for every state of every accepted history *)
Theorem hist_get_log c steps s :
  cfg_ok c -> Forall hstep_wf steps -> short_enough steps ->
  hs_mode (hist_run c hist_init steps) = Up s ->
  exists bd, wlink c (ss_wal s) bd (e_disk (ss_env s)) /\
    forall idx l e', get_log (ss_wal s) idx (ss_env s) = (RLog l, e') ->
      exists p, bread c (ss_wal s) bd (e_disk (ss_env s)) idx p /\ decode_log p = Some l.
Proof.
  intros Hc Hwf Hshort Emode.
  destruct (hist_link c steps Hc Hwf Hshort) as (bd & HLk). unfold HL in HLk. rewrite Emode in HLk.
  destruct (hist_GIS c steps Hc Hwf Hshort) as ((_ & _ & _ & HM) & HI). unfold hdisk in HI. rewrite Emode in HM, HI.
  destruct HM as (_ & HLi & _).
  exists bd. split; [exact HLk|]. intros idx l e' H. eapply get_log_bytes; eauto.
Qed.
