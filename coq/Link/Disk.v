(* Disk.v -- the link at the level of the whole directory (definitions only).

   Link/Abs.v relates ONE abstract file of Wal/Model.v to ONE byte image.  This
   file defines the byte-level counterpart of L2's [disk]:
     bfile, bdisk      a segment file as bytes: the content the running process
                       sees, the durable image as of the last fsync, the writes
                       issued since, whether the directory entry is durable
     bact, bapply      the byte-level I/O actions (create / pwrite with the actual
                       bytes / fsync / unlink / none) and their effect
     torn_over, bcrash the byte-level crash adversary over a whole disk: every
                       file independently; a directory entry that is not durable
                       is kept or dropped; of every write issued since the last
                       fsync any 8-byte chunk reaches the disk or does not
     bscrub            RecoverTail (recoverTailState + zeroStaleTail) on the files
     frep_at, frep,    the representation relation: both disks have the same file
     drep              names in the same order, every abstract file represents
                       (Link/Abs.v rep / rep_p) the bytes of its byte-level file,
                       which are "image of the committed batches, then zeros"
     bmatch, lrun      a lock-step run of L2 actions and byte-level actions in
                       which every intermediate pair of disks is drep-related
   Theorems: Link/DiskFacts*.v, statements in Props/Link.v. *)
From RW Require Import Base.Bytes Base.Crc32c Fmt.Codec Fmt.Frame Seg.Writer Seg.SegAbs Seg.Recover
     Seg.Reader Seg.RecoverFacts Wal.Model Wal.Spec Link.Abs Link.AbsFacts2 Gen.Constants.
Open Scope N_scope.

(* ------------------------------------------------------------------ *)
(* byte-level files and disks                                           *)
Record bfile := {
  bf_data : bytes;                 (* content as the running process (page cache) sees it *)
  bf_sync : bytes;                 (* durable image: the content as of the last fsync     *)
  bf_pend : list (N * bytes);      (* pwrites issued since the last fsync, oldest first   *)
  bf_dir : bool }.                 (* directory entry durable                             *)

Definition bdisk := list (fname * bfile).

Fixpoint blookup (n : fname) (bd : bdisk) : option bfile :=
  match bd with
  | [] => None
  | (m, f) :: r => if fname_eqb n m then Some f else blookup n r
  end.

Fixpoint bupdate (n : fname) (f : bfile) (bd : bdisk) : bdisk :=
  match bd with
  | [] => [(n, f)]
  | (m, g) :: r => if fname_eqb n m then (n, f) :: r else (m, g) :: bupdate n f r
  end.

Fixpoint bremove (n : fname) (bd : bdisk) : bdisk :=
  match bd with
  | [] => []
  | (m, g) :: r => if fname_eqb n m then r else (m, g) :: bremove n r
  end.

(* pwrite on a byte array *)
Definition pwrite (s : bytes) (w : N * bytes) : bytes := overwrite s (N.to_nat (fst w)) (snd w).
Definition pwrites (s : bytes) (ws : list (N * bytes)) : bytes := fold_left pwrite ws s.

(* the content is the durable image with the unsynced writes applied *)
Definition bf_wf (bf : bfile) : Prop := bf_data bf = pwrites (bf_sync bf) (bf_pend bf).

(* the file Filer.Create leaves: preallocated, zero filled, entry not yet durable *)
Definition bcreated (size : N) : bfile :=
  {| bf_data := zeros (N.to_nat size); bf_sync := zeros (N.to_nat size); bf_pend := []; bf_dir := false |}.

(* ------------------------------------------------------------------ *)
(* byte-level I/O actions                                               *)
Inductive bact :=
| BCreate (n : fname) (size : N)
| BWrite (n : fname) (off : N) (bs : bytes)      (* the actual bytes *)
| BSync (n : fname)
| BDelete (n : fname)
| BNone.                   (* metadata / stable store / failed attempt: no segment file touched *)

Definition bapply (bd : bdisk) (a : bact) : bdisk :=
  match a with
  | BCreate n size => bupdate n (bcreated size) bd
  | BWrite n off bs =>
      match blookup n bd with
      | None => bd
      | Some bf => bupdate n {| bf_data := pwrite (bf_data bf) (off, bs); bf_sync := bf_sync bf;
                                bf_pend := bf_pend bf ++ [(off, bs)]; bf_dir := bf_dir bf |} bd
      end
  | BSync n =>
      match blookup n bd with
      | None => bd
      | Some bf => bupdate n {| bf_data := bf_data bf; bf_sync := bf_data bf; bf_pend := [];
                                bf_dir := true |} bd
      end
  | BDelete n => bremove n bd
  | BNone => bd
  end.

(* ------------------------------------------------------------------ *)
(* the byte-level crash adversary                                       *)
(* torn_over (a torn write of [new] over the old content of the same range: per
   8-byte chunk the new or the old bytes) and region are defined next to [torn]
   in Seg/RecoverFacts.v; Seg/FailFacts.v uses them too *)
(* the unsynced writes reach the durable image one after the other, each torn
   (no CRC collision, the assumption Seg/RecoverFacts.v makes of a torn batch) *)
Inductive torn_apply : bytes -> list (N * bytes) -> bytes -> Prop :=
| ta_nil s : torn_apply s [] s
| ta_cons s off new T r s' :
    torn_over (region s (N.to_nat off) (length new)) new T -> no_torn_collision new T ->
    torn_apply (overwrite s (N.to_nat off) T) r s' ->
    torn_apply s ((off, new) :: r) s'.

(* what a power loss leaves of one file: nothing (only if the directory entry was
   not durable), or the durable image with the unsynced writes torn *)
Inductive bcrash_file : fname * bfile -> list (fname * bfile) -> Prop :=
| bcf_drop n bf : bf_dir bf = false -> bcrash_file (n, bf) []
| bcf_keep n bf s' : torn_apply (bf_sync bf) (bf_pend bf) s' ->
    bcrash_file (n, bf) [(n, {| bf_data := s'; bf_sync := s'; bf_pend := []; bf_dir := true |})].

Inductive bcrash : bdisk -> bdisk -> Prop :=
| bcr_nil : bcrash [] []
| bcr_cons nf l r r' : bcrash_file nf l -> bcrash r r' -> bcrash (nf :: r) (l ++ r').

(* RecoverTail on a file: recoverTailState, then zeroStaleTail *)
Definition bscrub_file (info : seginfo) (bf : bfile) : bfile :=
  match recover_tail info (bf_data bf) with
  | Some (_, acts) =>
      let d := apply_wactions (bf_data bf) acts in
      match acts with
      | [] => bf
      | _ => {| bf_data := d; bf_sync := d; bf_pend := []; bf_dir := bf_dir bf |}   (* acts end with WSync *)
      end
  | None => bf
  end.

(* ------------------------------------------------------------------ *)
(* representation                                                       *)
(* the segment info of a file of a WAL with configuration c, as far as the bytes
   depend on it (header: base, id, codec) *)
Definition finfo (c : cfg) (n : fname) : seginfo := new_segment c (snd n) (fst n).

Definition hdr_eq (i j : seginfo) : Prop :=
  si_base i = si_base j /\ si_id i = si_id j /\ si_codec i = si_codec j.

Definition bscrub (c : cfg) (bd : bdisk) : bdisk :=
  map (fun nf => (fst nf, bscrub_file (finfo c (fst nf)) (snd nf))) bd.

Definition opt_batch (pb : option batch) : list batch := match pb with Some b => [b] | None => [] end.

(* bf / f stand for: the batches bs committed and durable, and (pb = Some b) one
   more batch b written behind them but not yet synced.  The durable image is
   "image of bs, then zeros"; the only unsynced write is the one of b. *)
Record frep_at (info : seginfo) (bs : list batch) (pb : option batch) (bf : bfile) (f : dfile) : Prop := {
  fr_rep  : match pb with None => rep info bs f | Some b => rep_p info bs b f end;
  fr_ok   : Forall log_ok (cur_ents f);
  fr_len  : len (image info (bs ++ opt_batch pb)) < two32;
  fr_sync : exists k, bf_sync bf = image info bs ++ zeros k;
  fr_pend : bf_pend bf = match pb with
                         | None => []
                         | Some b => [(len (image info bs), batch_write info (cstate info bs) b)]
                         end;
  fr_wf   : bf_wf bf;
  fr_dir  : bf_dir bf = df_dir f }.

Definition frep (info : seginfo) (bf : bfile) (f : dfile) : Prop := exists bs pb, frep_at info bs pb bf f.

Definition frel (c : cfg) (bd : bdisk) (fs : list (fname * dfile)) : Prop :=
  Forall2 (fun nb nf => fst nb = fst nf /\ hdr_wf (finfo c (fst nf)) /\
                        frep (finfo c (fst nf)) (snd nb) (snd nf)) bd fs.

Definition drep (c : cfg) (bd : bdisk) (d : disk) : Prop := frel c bd (dk_files d).

(* ------------------------------------------------------------------ *)
(* lock-step runs                                                       *)
(* the L1 operation behind an L2 write *)
Definition wop_of (pb : pbatch) : wop :=
  match pb_ents pb with [] => OpSeal | ls => OpAppend (ents ls) end.

(* ba is the byte-level counterpart of the L2 action a: same file, same offset,
   as many bytes as L2 accounts for -- and the bytes are what a byte-level writer
   (Seg/Writer.v) emits for that operation *)
Definition bmatch (a : act) (ba : bact) : Prop :=
  match a with
  | ACreate n size => ba = BCreate n size
  | AWrite n off l pb =>
      exists bytes, ba = BWrite n off bytes /\ len bytes = l /\
        exists w1 w1', do_op w1 (wop_of pb) = (WOk, w1', [WWrite off bytes; WSync])
  | ASync n => ba = BSync n
  | ADelete n => ba = BDelete n
  | ACommit _ | ASetStable _ _ | AInitMeta | AList | AFail _ => ba = BNone
  end.

(* from (bd, d) the L2 actions acts, performed together with matching
   byte-level actions, lead to (bd', d'); every pair of disks on the way
   (i.e. at every point where the power can fail) is drep-related *)
Inductive lrun (c : cfg) : bdisk -> disk -> list act -> bdisk -> disk -> Prop :=
| lrun_nil bd d : drep c bd d -> lrun c bd d [] bd d
| lrun_cons bd d a ba acts bd' d' :
    drep c bd d -> bmatch a ba ->
    lrun c (bapply bd ba) (apply_act d a) acts bd' d' ->
    lrun c bd d (a :: acts) bd' d'.
