(* FaultISFacts2.v -- the IndexStart invariant under INJECTED FAULTS: the WAL
   operations.  Each lemma takes the byte-level link WL of the state (it gives
   tail_agree: the tail writer's index start is the seal offset of its file,
   so a write never goes to a file listed as sealed) and the facts a call has
   at its start (FaultIS.v), and shows FJ of the result, whatever fails. *)
From RW Require Import Base.Bytes Base.BytesFacts Fmt.Codec Fmt.Frame Seg.SegAbs Wal.Model Wal.Spec Wal.Hist Wal.FaultHist
     Wal.CrashInv Wal.CrashFacts0 Wal.CrashFacts1 Wal.CrashFacts2 Wal.CrashFacts3 Wal.CrashFacts4
     Link.Abs Link.AbsFacts1 Link.AbsFacts2 Link.Disk Link.DiskFacts1 Link.Compose Link.ComposeFacts1 Link.ComposeFacts3
     Link.IndexStart Link.IndexStartFacts1 Link.IndexStartFacts2
     Link.FaultDisk Link.FaultDiskFacts1 Link.FaultDiskFacts2 Link.FaultDiskFacts3
     Link.FaultIS Link.FaultISFacts1 Gen.Constants.
From Coq Require Import ZifyN ZifyNat ZifyBool.
Open Scope N_scope.

(* ---------------- from the byte-level link ---------------- *)
Lemma WL_tail_agree c w bd d : WL c w bd d -> tail_agree w d.
Proof.
  intros ((_ & _ & Ht) & _) tw f Et El. rewrite Et in Ht. destruct Ht as (info & bs & [Tn Th Tw Tf]).
  destruct (Tf f El) as (bf & pb & _ & R). pose proof (wfrep_unpend _ _ _ _ _ R) as Ru.
  rewrite (rw_istart _ _ Tw). change (df_seal f) with (df_seal (Abs.unpend f)). rewrite (rep_seal _ _ _ Ru). reflexivity.
Qed.

Lemma tail_agree_target w d tw : tail_agree w d -> st_tail w = Some tw -> unsealed_target tw d.
Proof. intros H Et Hz f Ef. rewrite (H tw f Et Ef). exact Hz. Qed.

Lemma WL_NoDup c w bd d : WL c w bd d -> NoDup (map fst (dk_files d)).
Proof. intros ((_ & H & _) & _). exact H. Qed.

Lemma new_segment_IS' c d id base : ISseg' d (new_segment c id base).
Proof. apply ISseg'_unsealed. reflexivity. Qed.

Lemma FJ_mem w d : FJ w d -> ISs' d (st_segs w).
Proof. intros H. apply ISs'_app in H. apply H. Qed.

Lemma FJ_ext w w' d : st_segs w' = st_segs w -> FJ w d -> FJ w' d.
Proof. unfold FJ. intros ->. auto. Qed.

(* ids: a created segment's name differs from every listed one *)
Lemma ids_name_neq (L : list seginfo) nid base s c :
  Forall (fun x => si_id x < nid) L -> In s L -> name_of s <> name_of (new_segment c nid base).
Proof.
  intros H Hin E. rewrite Forall_forall in H. specialize (H s Hin). unfold name_of in E. cbn in E. inversion E. lia.
Qed.

(* ---------------- createNextSegment transactions ---------------- *)
(* outcome of an operation, as far as the next call is concerned *)
Definition same_state (w w' : wal) (e e' : env) : Prop :=
  st_segs w' = st_segs w /\ st_tail w' = st_tail w /\ st_next_id w' = st_next_id w /\
  (st_failed w' = true \/
   (dk_files (e_disk e') = dk_files (e_disk e) /\ dk_meta (e_disk e') = dk_meta (e_disk e))).

Lemma mutate_gen_create_FJ c defer w e segs nb nid segs2 si del r w' e' dels :
  NoDup (map fst (dk_files (e_disk e))) -> FJ w (e_disk e) -> ids_ok w ->
  ISs' (e_disk e) segs -> Forall (fun x => si_id x < st_next_id w) segs ->
  create_next c (st_next_id w) segs nb = (nid, segs2, si) ->
  mutate_gen defer w {| tx_next_id := nid; tx_segs := segs2; tx_delete := del; tx_create := Some si; tx_tail := None |} e
    = (r, w', e', dels) ->
  FJ w' (e_disk e') /\ NoDup (map fst (dk_files (e_disk e'))) /\
  (same_state w w' e e' \/
   (r = ROk /\ st_next_id w' = (st_next_id w + 1) mod two64 /\ st_tail w' = Some (new_wseg si) /\
    forall x, In x (st_segs w') -> x = si \/ In x segs)).
Proof.
  intros ND HJ Hids Hsegs Hsid Ecn Hm. unfold create_next in Ecn. inversion Ecn; subst nid segs2 si. clear Ecn.
  match type of Hm with mutate_gen _ _ ?t _ = _ => destruct (mutate_gen_FJ defer w t e r w' e' dels ND HJ) with (3 := Hm) as (HJ' & ND' & Hcase) end.
  - cbn [tx_segs]. eapply ISs'_incl; [|exact Hsegs]. intros x Hx. apply in_seg_set in Hx as [->|Hx]; [right; apply new_segment_IS'|left; exact Hx].
  - cbn [tx_create tx_segs]. intros si' [= <-] s Hs Hse. apply in_app_or in Hs as [Hs|Hs].
    + apply (ids_name_neq (st_segs w) _ _ s c Hids Hs).
    + apply in_seg_set in Hs as [->|Hs]; [discriminate|]. apply (ids_name_neq segs _ _ s c Hsid Hs).
  - split; [exact HJ'|]. split; [exact ND'|]. destruct Hcase as [(A & B & C & D)|(A & B & C & _ & D)].
    + left. split; [exact A|]. split; [exact B|]. split; [exact C|].
      destruct D as [D|[(_ & D & _)|(D1 & D2 & _)]]; [left; exact D|right; rewrite D; auto|right; auto].
    + right. split; [exact A|]. split; [exact C|]. split; [apply D; reflexivity|].
      rewrite B. cbn [tx_segs]. intros x Hx. apply in_seg_set in Hx. exact Hx.
Qed.

Lemma mutate_gen_rotate defer w t e r w' e' dels :
  mutate_gen defer w t e = (r, w', e', dels) -> st_rotate w' = st_rotate w.
Proof.
  unfold mutate_gen. destruct (io _ e) as [ok e1]. destruct ok; cbn [negb]; [|intros [= _ <- _ _]; reflexivity].
  destruct (tx_create t).
  - destruct (seg_create _ _) as [[sw|] e2]; intros [= _ <- _ _]; reflexivity.
  - intros [= _ <- _ _]; reflexivity.
Qed.

(* ---------------- rotation ---------------- *)
Lemma rotate_FJ c w e w' e' :
  NoDup (map fst (dk_files (e_disk e))) -> FJ w (e_disk e) -> ids_ok w -> rot_facts w (e_disk e) -> tail_agree w (e_disk e) ->
  st_next_id w + 1 < two64 ->
  rotate c w e = (w', e') ->
  FJ w' (e_disk e') /\ NoDup (map fst (dk_files (e_disk e'))) /\ st_rotate w' = None /\
  (same_state w w' e e' \/
   (ids_ok w' /\ exists si, st_tail w' = Some (new_wseg si))).
Proof.
  intros ND HJ Hids Hrf Hta Hn. unfold rotate.
  assert (Hsame : forall e0, e_disk e0 = e_disk e ->
            FJ {| st_next_id := st_next_id w; st_segs := st_segs w; st_tail := st_tail w; st_rotate := None;
                  st_failed := st_failed w; st_closed := st_closed w |} (e_disk e0) /\
            NoDup (map fst (dk_files (e_disk e0))) /\ @None N = None /\
            (same_state w {| st_next_id := st_next_id w; st_segs := st_segs w; st_tail := st_tail w; st_rotate := None;
                  st_failed := st_failed w; st_closed := st_closed w |} e e0 \/
             (ids_ok {| st_next_id := st_next_id w; st_segs := st_segs w; st_tail := st_tail w; st_rotate := None;
                  st_failed := st_failed w; st_closed := st_closed w |} /\ exists si, st_tail w = Some (new_wseg si)))).
  { intros e0 Ed. rewrite Ed. split; [exact HJ|]. split; [exact ND|]. split; [reflexivity|]. left.
    repeat split; auto. right. rewrite Ed. auto. }
  destruct (st_rotate w) as [istart|] eqn:Er.
  2:{ intros [= <- <-]. split; [exact HJ|]. split; [exact ND|]. split; [exact Er|]. left. repeat split; auto. }
  destruct (st_closed w); [intros [= <- <-]; apply (Hsame e eq_refl)|].
  destruct (tail_info (st_segs w)) as [t|] eqn:Et; [|intros [= <- <-]; apply (Hsame _ eq_refl)].
  destruct (Hrf istart Er) as (tw & Etw & Hix & Hpos & Hnm & Hcl).
  set (t' := {| si_id := si_id t; si_base := si_base t; si_min := si_min t; si_max := tail_last (st_tail w);
                si_codec := si_codec t; si_index_start := istart; si_sealed := true; si_size_limit := si_size_limit t |}).
  set (w0 := {| st_next_id := st_next_id w; st_segs := st_segs w; st_tail := st_tail w; st_rotate := None;
                st_failed := st_failed w; st_closed := false |}).
  match goal with |- context [create_next c ?a ?b ?d] => destruct (create_next c a b d) as [[nid segs2] si] eqn:Ecn end.
  unfold mutate.
  match goal with |- context [mutate_gen false w0 ?tx ?e0] => destruct (mutate_gen false w0 tx e0) as [[[r1 w1] e1] dels] eqn:Em end.
  intros [= <- <-].
  assert (Hin_t : In t (st_segs w)) by (apply tail_info_In; exact Et).
  assert (Ht' : ISseg' (e_disk e) t').
  { intros _ f Hf. change (name_of t') with (name_of t) in Hf. rewrite (Hnm t Et) in Hf.
    cbn [t' si_index_start]. rewrite (Hta tw f Etw Hf), Hix. split; [reflexivity|]. split; [lia|apply Hcl; exact Hf]. }
  assert (Hsegs1 : ISs' (e_disk e) (seg_set t' (st_segs w))).
  { eapply ISs'_incl; [|apply (FJ_mem _ _ HJ)]. intros x Hx. apply in_seg_set in Hx as [->|Hx]; auto. }
  assert (Hids1 : Forall (fun x => si_id x < st_next_id w) (seg_set t' (st_segs w))).
  { unfold ids_ok in Hids. rewrite Forall_forall in *. intros x Hx. apply in_seg_set in Hx as [->|Hx]; [apply (Hids t Hin_t)|apply Hids; exact Hx]. }
  match type of Em with mutate_gen _ _ _ ?e0 = _ =>
    destruct (mutate_gen_create_FJ c false w0 e0 (seg_set t' (st_segs w)) 0 nid segs2 si [] r1 w1 e1 dels ND HJ Hids Hsegs1 Hids1 Ecn Em) as (HJ' & ND' & Hcase) end.
  split; [exact HJ'|]. split; [exact ND'|].
  pose proof (mutate_gen_rotate _ _ _ _ _ _ _ _ Em) as Hro. cbn [w0 st_rotate] in Hro.
  destruct Hcase as [(A & B & C & D)|(A & B & C & D)].
  - split; [exact Hro|left; repeat split; auto].
  - split; [exact Hro|].
    + right. split; [|eauto]. unfold ids_ok. rewrite B. cbn [w0 st_next_id]. rewrite N.mod_small by exact Hn.
      rewrite Forall_forall in *. intros x Hx. destruct (D x Hx) as [->|Hx'].
      * unfold create_next in Ecn. inversion Ecn. cbn. lia.
      * specialize (Hids1 x Hx'). lia.
Qed.

(* ---------------- StoreLogs ---------------- *)
Lemma reset_first_FJ c w nb e r w' e' dels :
  NoDup (map fst (dk_files (e_disk e))) -> FJ w (e_disk e) -> ids_ok w ->
  reset_first c w nb e = (r, w', e', dels) ->
  FJ w' (e_disk e') /\ NoDup (map fst (dk_files (e_disk e'))).
Proof.
  intros ND HJ Hids. unfold reset_first. destruct (0 <? last_index _ _); [intros [= <- <- <- <-]; auto|].
  pose proof (FJ_mem _ _ HJ) as HJm.
  destruct (tail_info (st_segs w)) as [t|].
  - destruct (si_base t =? nb).
    + intros Hm.
      match type of Hm with mutate_gen _ _ ?tx _ = _ => pose proof (mutate_gen_FJ true w tx e r w' e' dels ND HJ) as X end.
      cbn [tx_segs tx_create] in X. destruct (X HJm ltac:(intros si; discriminate) Hm) as (A & B & _). auto.
    + match goal with |- context [create_next c ?a ?b ?d] => destruct (create_next c a b d) as [[nid segs2] si] eqn:Ecn end.
      intros Hm.
      assert (H1 : ISs' (e_disk e) (seg_del (si_base t) (st_segs w))).
      { eapply ISs'_incl; [|exact HJm]. intros x Hx. left. eapply in_seg_del; eauto. }
      assert (H2 : Forall (fun x => si_id x < st_next_id w) (seg_del (si_base t) (st_segs w))).
      { unfold ids_ok in Hids. rewrite Forall_forall in *. intros x Hx. apply Hids. eapply in_seg_del; eauto. }
      destruct (mutate_gen_create_FJ c true w e _ _ _ _ _ _ _ _ _ _ ND HJ Hids H1 H2 Ecn Hm) as (A & B & _). auto.
  - match goal with |- context [create_next c ?a ?b ?d] => destruct (create_next c a b d) as [[nid segs2] si] eqn:Ecn end.
    intros Hm. destruct (mutate_gen_create_FJ c true w e _ _ _ _ _ _ _ _ _ _ ND HJ Hids HJm Hids Ecn Hm) as (A & B & _). auto.
Qed.

Lemma sl_go_FJ c last ls w bd e r w' e' :
  WL c w bd (e_disk e) -> FJ w (e_disk e) ->
  sl_go last ls w e = (r, w', e') -> FJ w' (e_disk e') /\ NoDup (map fst (dk_files (e_disk e'))).
Proof.
  intros HW HJ. pose proof (WL_NoDup _ _ _ _ HW) as ND. unfold sl_go. destruct (check_logs last ls) as [res nbytes].
  destruct res; try (intros [= <- <- <-]; auto).
  destruct (st_tail w) as [tw|] eqn:Et; [|intros [= <- <- <-]; auto].
  destruct (seg_append tw ls e) as [[r0 tw'] e1] eqn:Ea.
  destruct (seg_append_frame tw ls e r0 tw' e1 _ (tail_agree_target _ _ _ (WL_tail_agree _ _ _ _ HW) Et) HJ ND Ea) as (A & B & C).
  rewrite <- (meta_segs_files _ _ C) in A.
  destruct r0; intros [= <- <- <-]; auto.
Qed.

Theorem store_logs_FJ c w ls bd e r w' e' :
  cfg_ok c -> WL c w bd (e_disk e) -> st_next_id w + 1 < two64 -> FJ w (e_disk e) -> ids_ok w ->
  store_logs c w ls e = (r, w', e') -> FJ w' (e_disk e') /\ NoDup (map fst (dk_files (e_disk e'))).
Proof.
  intros Hc HW Hn HJ Hids. pose proof (WL_NoDup _ _ _ _ HW) as ND. rewrite store_logs_unfold.
  destruct (st_closed w); [intros [= <- <- <-]; auto|].
  destruct ls as [|l0 lr]; [intros [= <- <- <-]; auto|]. destruct (st_failed w); [intros [= <- <- <-]; auto|].
  cbn zeta. destruct (tail_info (st_segs w)) as [ti|]; [|intros [= <- <- <-]; auto].
  destruct (_ && _).
  - destruct (reset_first c w (l_index l0) e) as [[[r1 w1] e1] dels] eqn:Er.
    destruct (reset_first_FJ _ _ _ _ _ _ _ _ ND HJ Hids Er) as (HJ1 & ND1).
    destruct (reset_first_wlink c w _ bd e r1 w1 e1 dels Hc HW Hn Er) as (bd1 & _ & HW1).
    destruct r1; try (intros [= <- <- <-]; auto).
    destruct (sl_go _ _ w1 e1) as [[r2 w2] e2] eqn:Eg. intros [= <- <- <-].
    destruct (sl_go_FJ c _ _ w1 bd1 e1 r2 w2 e2 HW1 HJ1 Eg) as (HJ2 & ND2).
    destruct (delete_files_frame dels e2 _ ND2 HJ2) as (A & B & C). rewrite <- (meta_segs_files _ _ C) in A. auto.
  - intros H. eapply sl_go_FJ; eauto.
Qed.

(* ---------------- DeleteRange ---------------- *)
Lemma truncate_head_FJ c w nm e r w' e' :
  NoDup (map fst (dk_files (e_disk e))) -> FJ w (e_disk e) -> ids_ok w ->
  truncate_head c w nm e = (r, w', e') -> FJ w' (e_disk e') /\ NoDup (map fst (dk_files (e_disk e'))).
Proof.
  intros ND HJ Hids. pose proof (FJ_mem _ _ HJ) as HJm. unfold truncate_head.
  destruct (head_scan nm (tail_last (st_tail w)) (st_segs w) [] 0) as [[[rest del] ntr] head] eqn:Eh.
  destruct (head_scan_in _ _ _ _ _ _ _ _ _ Eh) as (Hrest & Hhead).
  destruct head as [h|].
  - unfold mutate. match goal with |- context [mutate_gen false w ?tx ?e0] => destruct (mutate_gen false w tx e0) as [[[r1 w1] e1] dels] eqn:Em end.
    intros [= <- <- <-].
    assert (H1 : ISs' (e_disk e) (seg_set {| si_id := si_id h; si_base := si_base h; si_min := nm; si_max := si_max h;
                   si_codec := si_codec h; si_index_start := si_index_start h; si_sealed := si_sealed h;
                   si_size_limit := si_size_limit h |} rest)).
    { eapply ISs'_incl; [|exact HJm]. intros x Hx.
      apply in_seg_set in Hx as [->|Hx]; [right|left; apply Hrest; exact Hx].
      unfold ISs' in HJm. rewrite Forall_forall in HJm. eapply ISseg'_same; [| | |apply (HJm h (Hhead h eq_refl))]; reflexivity. }
    match type of Em with mutate_gen _ _ ?tx ?e0 = _ => pose proof (mutate_gen_FJ false w tx e0 r1 w1 e1 dels ND HJ) as X end.
    cbn [tx_segs tx_create] in X. destruct (X H1 ltac:(intros si; discriminate) Em) as (A & B & _). auto.
  - match goal with |- context [create_next c ?a ?b ?d] => destruct (create_next c a b d) as [[nid segs2] si] eqn:Ecn end.
    unfold mutate. match goal with |- context [mutate_gen false w ?tx ?e0] => destruct (mutate_gen false w tx e0) as [[[r1 w1] e1] dels] eqn:Em end.
    intros [= <- <- <-].
    match type of Em with mutate_gen _ _ _ ?e0 = _ =>
      destruct (mutate_gen_create_FJ c false w e0 [] _ nid segs2 si del r1 w1 e1 dels ND HJ Hids ltac:(constructor) ltac:(constructor) Ecn Em) as (A & B & _) end.
    auto.
Qed.

Lemma truncate_tail_FJ c w nm bd e r w' e' :
  WL c w bd (e_disk e) -> FJ w (e_disk e) -> ids_ok w -> trunc_facts w (e_disk e) ->
  truncate_tail c w nm e = (r, w', e') -> FJ w' (e_disk e') /\ NoDup (map fst (dk_files (e_disk e'))).
Proof.
  intros HW HJ Hids HT. pose proof (WL_NoDup _ _ _ _ HW) as ND. pose proof (FJ_mem _ _ HJ) as HJm. unfold truncate_tail.
  destruct (tail_scan nm _ (rev (st_segs w)) [] 0) as [[rrest del] ntr] eqn:Et.
  pose proof (tail_scan_in _ _ _ _ _ _ _ _ Et) as Hin.
  assert (Hin' : forall x, In x rrest -> In x (st_segs w)) by (intros x Hx; apply in_rev; apply Hin; exact Hx).
  destruct rrest as [|t rr].
  - match goal with |- context [create_next c ?a ?b ?d] => destruct (create_next c a b d) as [[nid segs2] si] eqn:Ecn end.
    unfold mutate. match goal with |- context [mutate_gen false w ?tx ?e0] => destruct (mutate_gen false w tx e0) as [[[r1 w1] e1] dels] eqn:Em end.
    intros [= <- <- <-].
    destruct (mutate_gen_create_FJ c false w e [] _ nid segs2 si del r1 w1 e1 dels ND HJ Hids ltac:(constructor) ltac:(constructor) Ecn Em) as (A & B & _).
    auto.
  - assert (Hfin : forall t' tw0 e0 ntr',
              NoDup (map fst (dk_files (e_disk e0))) -> FJ w (e_disk e0) -> ISseg' (e_disk e0) t' -> si_id t' < st_next_id w ->
              (let segs1 := seg_set t' (rev (t :: rr)) in
               let '(nid, segs2, si) := create_next c (st_next_id w) segs1 0 in
               mutate {| st_next_id := st_next_id w; st_segs := st_segs w; st_tail := tw0; st_rotate := st_rotate w;
                         st_failed := st_failed w; st_closed := st_closed w |}
                      {| tx_next_id := nid; tx_segs := segs2; tx_delete := del; tx_create := Some si; tx_tail := None |}
                      (add_m e0 ntr')) = (r, w', e') -> FJ w' (e_disk e') /\ NoDup (map fst (dk_files (e_disk e')))).
    { intros t' tw0 e0 ntr' ND0 HJ0 Ht' Hid'. cbn zeta.
      match goal with |- context [create_next c ?a ?b ?d] => destruct (create_next c a b d) as [[nid segs2] si] eqn:Ecn end.
      unfold mutate. match goal with |- context [mutate_gen false ?w0 ?tx ?e1] => destruct (mutate_gen false w0 tx e1) as [[[r1 w1] e1'] dels] eqn:Em end.
      intros [= <- <- <-].
      assert (H1 : ISs' (e_disk e0) (seg_set t' (rev (t :: rr)))).
      { eapply ISs'_incl; [|apply (FJ_mem _ _ HJ0)]. intros x Hx.
        apply in_seg_set in Hx as [->|Hx]; [right; exact Ht'|]. left. apply Hin'. apply in_rev. exact Hx. }
      assert (H2 : Forall (fun x => si_id x < st_next_id w) (seg_set t' (rev (t :: rr)))).
      { unfold ids_ok in Hids. rewrite Forall_forall in *. intros x Hx.
        apply in_seg_set in Hx as [->|Hx]; [exact Hid'|]. apply Hids. apply Hin'. apply in_rev. exact Hx. }
      match type of Em with mutate_gen _ ?w0 _ ?e1 = _ =>
        destruct (mutate_gen_create_FJ c false w0 e1 (seg_set t' (rev (t :: rr))) 0 nid segs2 si del r1 w1 e1' dels ND0 HJ0 Hids H1 H2 Ecn Em)
          as (A & B & _) end. auto. }
    assert (Hidt : si_id t < st_next_id w).
    { unfold ids_ok in Hids. rewrite Forall_forall in Hids. apply Hids. apply Hin'. left. reflexivity. }
    destruct (si_sealed t) eqn:Ets.
    + intros H. eapply (Hfin _ _ e _ ND HJ); [| |exact H]; [|exact Hidt].
      unfold ISs' in HJm. rewrite Forall_forall in HJm.
      eapply ISseg'_same; [| | |apply (HJm t (Hin' t (or_introl eq_refl)))]; [reflexivity|reflexivity|cbn; symmetry; exact Ets].
    + destruct (st_tail w) as [tw|] eqn:Etw; [|intros [= <- <- <-]; auto].
      destruct (seg_force_seal tw e) as [[r1 tw'] e1] eqn:Efs.
      destruct (seg_force_seal_frame tw e r1 tw' e1 _ (tail_agree_target _ _ _ (WL_tail_agree _ _ _ _ HW) Etw) HJ ND Efs)
        as (A & B & C & Hcase).
      rewrite <- (meta_segs_files _ _ C) in A.
      destruct r1; try (intros [= <- <- <-]; cbn [st_segs]; auto).
      specialize (Hcase eq_refl).
      intros H. eapply (Hfin _ _ e1 _ B A); [| |exact H]; [|exact Hidt].
      intros _ f1 Hf1. change (name_of _) with (name_of t) in Hf1. cbn [si_index_start].
      destruct Hcase as [(-> & -> & Hpos)|(Hpos & Hn0 & Hfile)].
      * destruct (HT tw Etw (or_intror Hpos)) as (Hun & Hcl).
        rewrite (Hun t (Hin' t (or_introl eq_refl)) Ets) in Hf1.
        rewrite (WL_tail_agree _ _ _ _ HW tw f1 Etw Hf1). split; [reflexivity|]. split; [lia|apply (Hcl Hpos f1 Hf1)].
      * destruct (HT tw Etw (or_introl Hn0)) as (Hun & _).
        rewrite (Hun t (Hin' t (or_introl eq_refl)) Ets) in Hf1.
        destruct (Hfile f1 Hf1) as (Hs1 & Hp1). rewrite Hs1. split; [reflexivity|]. split; [lia|exact Hp1].
Qed.

Theorem delete_range_FJ c w mn mx bd e r w' e' :
  WL c w bd (e_disk e) -> FJ w (e_disk e) -> ids_ok w -> trunc_facts w (e_disk e) ->
  delete_range c w mn mx e = (r, w', e') -> FJ w' (e_disk e') /\ NoDup (map fst (dk_files (e_disk e'))).
Proof.
  intros HW HJ Hids HT. pose proof (WL_NoDup _ _ _ _ HW) as ND. unfold delete_range.
  destruct (st_closed w); [intros [= <- <- <-]; auto|].
  destruct (mx <? mn); [intros [= <- <- <-]; auto|].
  destruct (st_failed w); [intros [= <- <- <-]; auto|]. cbn zeta.
  destruct (_ || _); [intros [= <- <- <-]; auto|].
  destruct (mn <=? _); [apply truncate_head_FJ; assumption|].
  destruct (_ <=? mx); [eapply truncate_tail_FJ; eassumption|].
  intros [= <- <- <-]; auto.
Qed.

(* ---------------- restart: adopt_disk, Open ---------------- *)
Lemma ISs'_adopt d L : NoDup (map fst (dk_files d)) -> ISs' d L -> ISs' (adopt_disk d) L.
Proof.
  intros ND. unfold ISs'. apply Forall_impl. intros s H Hs f' Hf'.
  cbn [adopt_disk dk_files] in Hf'.
  assert (E : lookup (name_of s) (map (fun nf => (fst nf, adopt_file (snd nf))) (dk_files d)) =
              option_map adopt_file (lookup (name_of s) (dk_files d))).
  { clear. induction (dk_files d) as [|[m g] r IH]; cbn [map lookup fst snd option_map]; [reflexivity|].
    destruct (fname_eqb (name_of s) m); [reflexivity|exact IH]. }
  rewrite E in Hf'. destruct (lookup (name_of s) (dk_files d)) as [f|] eqn:Ef; [|discriminate].
  cbn in Hf'. inversion Hf'; subst f'. destruct (H Hs f Ef) as (A & B & C).
  unfold adopt_file. rewrite C. auto.
Qed.

(* sealed and unsealed listed segments have different files *)
Definition names_sep (P : list seginfo) : Prop :=
  forall s u, In s P -> In u P -> si_sealed s = true -> si_sealed u = false -> name_of s <> name_of u.

Lemma open_segs_FJ c P segs : forall acc e r segs' tail e1,
  NoDup (map fst (dk_files (e_disk e))) -> no_pend (e_disk e) -> ISs' (e_disk e) P -> names_sep P ->
  (forall x, In x segs -> In x P) -> (forall x, In x acc -> In x P) ->
  open_segs c segs acc e = (r, segs', tail, e1) ->
  ISs' (e_disk e1) P /\ NoDup (map fst (dk_files (e_disk e1))) /\ dk_meta (e_disk e1) = dk_meta (e_disk e) /\
  (r = ROk -> ISs' (e_disk e1) segs' /\ forall x, In x segs' -> exists y, In y P /\ si_id x = si_id y).
Proof.
  induction segs as [|si rest IH]; intros acc e r segs' tail e1 ND Hnp HP Hsep Hsub Hacc H.
  - cbn [open_segs] in H. inversion H; subst. split; [exact HP|]. split; [exact ND|]. split; [reflexivity|]. intros _.
    rewrite rev_append_rev, app_nil_r. split.
    + eapply ISs'_incl; [|exact HP]. intros x Hx. left. apply Hacc. apply in_rev. exact Hx.
    + intros x Hx. exists x. split; [apply Hacc; apply in_rev; exact Hx|reflexivity].
  - assert (Hsame : (r <> ROk /\ e1 = e) ->
              ISs' (e_disk e1) P /\ NoDup (map fst (dk_files (e_disk e1))) /\ dk_meta (e_disk e1) = dk_meta (e_disk e) /\
              (r = ROk -> ISs' (e_disk e1) segs' /\ forall x, In x segs' -> exists y, In y P /\ si_id x = si_id y)).
    { intros (Hr & ->). split; [exact HP|]. split; [exact ND|]. split; [reflexivity|]. intros K. congruence. }
    assert (Hsi : In si P) by (apply Hsub; left; reflexivity).
    cbn [open_segs] in H.
    destruct (negb (si_codec si =? c_codec c)); [inversion H; subst; apply Hsame; split; [discriminate|reflexivity]|].
    destruct (si_sealed si) eqn:Ese; cbn [negb] in H.
    + destruct (lookup (name_of si) (dk_files (e_disk e))) as [f|] eqn:Ef; [|inversion H; subst; apply Hsame; split; [discriminate|reflexivity]].
      destruct (cur_end f =? 0); [inversion H; subst; apply Hsame; split; [discriminate|reflexivity]|].
      apply (IH (si :: acc) e r segs' tail e1 ND Hnp HP Hsep); [| |exact H].
      * intros x Hx. apply Hsub. right. exact Hx.
      * intros x [<-|Hx]; [exact Hsi|apply Hacc; exact Hx].
    + destruct rest as [|s2 rest']; [|inversion H; subst; apply Hsame; split; [discriminate|reflexivity]].
      assert (Hres : forall d', ISs' d' P -> ISs' d' (rev_append acc [si]) /\
                       forall x, In x (rev_append acc [si]) -> exists y, In y P /\ si_id x = si_id y).
      { intros d' HP'. split.
        - eapply ISs'_incl; [|exact HP']. intros x Hx. rewrite rev_append_rev in Hx. apply in_app_or in Hx as [Hx|[<-|[]]].
          + left. apply Hacc. apply in_rev. exact Hx.
          + left. exact Hsi.
        - intros x Hx. rewrite rev_append_rev in Hx. apply in_app_or in Hx as [Hx|[<-|[]]].
          + exists x. split; [apply Hacc; apply in_rev; exact Hx|reflexivity].
          + exists si. auto. }
      destruct (seg_recover si e) as [[sw|]|] eqn:Erec.
      * unfold seg_recover in Erec. destruct (lookup (name_of si) (dk_files (e_disk e))) as [f|] eqn:Ef; [|discriminate].
        inversion Erec; subst sw. cbn [ws_index_start] in H.
        destruct (0 <? cur_seal f) eqn:Es.
        -- inversion H; subst. split; [exact HP|]. split; [exact ND|]. split; [reflexivity|]. intros _. split.
           ++ rewrite rev_append_rev. apply ISs'_app. split.
              ** eapply ISs'_incl; [|exact HP]. intros x Hx. left. apply Hacc. apply in_rev. exact Hx.
              ** constructor; [|constructor]. intros _ f' Hf'. change (name_of _) with (name_of si) in Hf'.
                 rewrite Ef in Hf'. inversion Hf'; subst f'. cbn [si_index_start].
                 pose proof (Hnp _ _ Ef) as Hp. unfold cur_seal in Es. rewrite Hp in Es. split; [unfold cur_seal; rewrite Hp; reflexivity|]. split; [lia|exact Hp].
           ++ intros x Hx. rewrite rev_append_rev in Hx. apply in_app_or in Hx as [Hx|[<-|[]]].
              ** exists x. split; [apply Hacc; apply in_rev; exact Hx|reflexivity].
              ** exists si. auto.
        -- inversion H; subst. split; [exact HP|]. split; [exact ND|]. split; [reflexivity|]. intros _. apply Hres. exact HP.
      * inversion H; subst. apply Hsame; split; [discriminate|reflexivity].
      * destruct (seg_create si e) as [sw e2] eqn:Es.
        assert (Hn : forall s, In s P -> si_sealed s = true -> name_of s <> name_of si).
        { intros s Hs Hss. apply (Hsep s si Hs Hsi Hss Ese). }
        destruct (seg_create_frame si e sw e2 P ND Hn HP Es) as (A & B & C).
        destruct sw as [sw|].
        -- assert (Hsw : ws_index_start sw = 0).
           { unfold seg_create in Es. destruct (si_base si =? 0); [discriminate|].
             destruct (lookup _ _); [destruct (io _ e); discriminate|]. destruct (io _ e) as [ok' ex].
             destruct ok'; [inversion Es; reflexivity|discriminate]. }
           rewrite Hsw in H. cbn in H. inversion H; subst. split; [exact A|]. split; [exact B|]. split; [exact C|].
           intros _. apply Hres. exact A.
        -- inversion H; subst. split; [exact A|]. split; [exact B|]. split; [exact C|]. discriminate.
Qed.

Lemma open_newtail_FJ c nid0 segs garbage e res e' :
  NoDup (map fst (dk_files (e_disk e))) -> ISs' (e_disk e) segs -> Forall (fun x => si_id x < nid0) segs ->
  open_newtail c nid0 segs garbage e = (res, e') ->
  NoDup (map fst (dk_files (e_disk e'))) /\
  match res with
  | OOk w => FJ w (e_disk e')
  | OErr _ => ISs' (e_disk e') (meta_segs (e_disk e')) \/
              (dk_files (e_disk e') = dk_files (e_disk e) /\ dk_meta (e_disk e') = dk_meta (e_disk e))
  end.
Proof.
  intros ND Hs Hid. unfold open_newtail. cbn zeta.
  set (base := match tail_info segs with Some t => (si_max t + 1) mod two64 | None => 1 end).
  set (si := new_segment c nid0 base).
  match goal with |- context [io ?a e] => destruct (io a e) as [ok1 e1] eqn:Eio end.
  pose proof (io_meta_files _ _ _ _ Eio I) as Ef1.
  assert (ND1 : NoDup (map fst (dk_files (e_disk e1)))) by (rewrite Ef1; exact ND).
  assert (H1 : ISs' (e_disk e1) (seg_set si segs)).
  { eapply ISs'_files; [exact Ef1|]. eapply ISs'_incl; [|exact Hs]. intros x Hx.
    apply in_seg_set in Hx as [->|Hx]; [right; apply new_segment_IS'|left; exact Hx]. }
  destruct (io_cases3 _ _ _ _ Eio) as [(-> & Ed)|[(-> & Ed)|(-> & _ & Ed)]]; cbn [negb].
  2:{ intros [= <- <-]. rewrite Ed. split; [exact ND|]. right. auto. }
  2:{ (* the commit is reported as failed and found applied *)
      intros [= <- <-]. split; [exact ND1|]. left.
      replace (meta_segs (e_disk e1)) with (seg_set si segs) by (rewrite Ed; reflexivity). exact H1. }
  assert (Em1 : meta_segs (e_disk e1) = seg_set si segs) by (rewrite Ed; reflexivity).
  destruct (seg_create si e1) as [sw e2] eqn:Es.
  assert (Hn : forall s, In s (seg_set si segs) -> si_sealed s = true -> name_of s <> name_of si).
  { intros s Hx Hss. apply in_seg_set in Hx as [->|Hx]; [discriminate|]. apply (ids_name_neq segs nid0 base s c Hid Hx). }
  destruct (seg_create_frame si e1 sw e2 _ ND1 Hn H1 Es) as (A & B & C).
  assert (Em2 : meta_segs (e_disk e2) = seg_set si segs) by (rewrite (meta_segs_files _ _ C); exact Em1).
  destruct sw as [sw|].
  - destruct (delete_files_frame garbage e2 _ B A) as (A3 & B3 & C3).
    intros [= <- <-]. split; [exact B3|]. unfold FJ. cbn [st_segs]. rewrite (meta_segs_files _ _ C3), Em2.
    apply ISs'_app. auto.
  - intros [= <- <-]. split; [exact B|]. left. rewrite Em2. exact A.
Qed.

Theorem open_wal_FJ c e res e' :
  NoDup (map fst (dk_files (e_disk e))) -> no_pend (e_disk e) ->
  ISs' (e_disk e) (meta_segs (e_disk e)) -> names_sep (meta_segs (e_disk e)) -> dids_ok (e_disk e) ->
  open_wal c e = (res, e') ->
  NoDup (map fst (dk_files (e_disk e'))) /\
  match res with
  | OOk w => FJ w (e_disk e')
  | OErr _ => ISs' (e_disk e') (meta_segs (e_disk e'))
  end.
Proof.
  intros ND Hnp HP Hsep Hdid. rewrite open_wal_unfold.
  destruct (_ && _); [intros [= <- <-]; auto|].
  assert (Hrest : forall e0, dk_files (e_disk e0) = dk_files (e_disk e) -> dk_meta (e_disk e0) = dk_meta (e_disk e) ->
            open_rest c e0 = (res, e') ->
            NoDup (map fst (dk_files (e_disk e'))) /\
            match res with OOk w => FJ w (e_disk e') | OErr _ => ISs' (e_disk e') (meta_segs (e_disk e')) end).
  { intros e0 Ef0 Em0. unfold open_rest. cbn zeta.
    assert (ND0 : NoDup (map fst (dk_files (e_disk e0)))) by (rewrite Ef0; exact ND).
    assert (Hnp0 : no_pend (e_disk e0)) by (intros n f; rewrite Ef0; apply Hnp).
    assert (Ems : meta_segs (e_disk e0) = meta_segs (e_disk e)) by (apply meta_segs_files; exact Em0).
    set (ps := match dk_meta (e_disk e0) with Some ps => ps | None => {| ps_next_id := 0; ps_segs := [] |} end).
    assert (Eps : ps_segs ps = meta_segs (e_disk e)).
    { rewrite <- Ems. unfold ps, meta_segs. destruct (dk_meta (e_disk e0)); reflexivity. }
    assert (Hpid : Forall (fun x => si_id x < ps_next_id ps) (ps_segs ps)).
    { unfold ps, dids_ok in *. rewrite Em0. destruct (dk_meta (e_disk e)); [exact Hdid|constructor]. }
    destruct (open_segs c (ps_segs ps) [] e0) as [[[r segs] tail] e1] eqn:Eo.
    assert (HP0 : ISs' (e_disk e0) (ps_segs ps)) by (rewrite Eps; eapply ISs'_files; eauto).
    destruct (open_segs_FJ c (ps_segs ps) (ps_segs ps) [] e0 r segs tail e1 ND0 Hnp0 HP0) with (4 := Eo) as (A & B & C & D).
    - rewrite Eps. exact Hsep.
    - auto.
    - intros x [].
    - assert (Em1 : meta_segs (e_disk e1) = ps_segs ps).
      { rewrite (meta_segs_files _ _ C), Ems. symmetry. exact Eps. }
      destruct r; try (intros [= <- <-]; split; [exact B|rewrite Em1; exact A]).
      destruct (D eq_refl) as (D1 & D2).
      destruct tail as [tw|].
      + destruct (delete_files_frame (filter (fun n => negb (listed (ps_segs ps) n)) (map fst (dk_files (e_disk e0)))) e1
                    (segs ++ ps_segs ps) B) as (A3 & B3 & C3); [apply ISs'_app; auto|].
        intros [= <- <-]. split; [exact B3|]. unfold FJ. cbn [st_segs]. rewrite (meta_segs_files _ _ C3), Em1. exact A3.
      + intros Hn.
        assert (Hid4 : Forall (fun x => si_id x < ps_next_id ps) segs).
        { rewrite Forall_forall in *. intros x Hx. destruct (D2 x Hx) as (y & Hy & ->). apply Hpid. exact Hy. }
        destruct (open_newtail_FJ c (ps_next_id ps) segs _ e1 res e' B D1 Hid4 Hn) as (B4 & Hres).
        * split; [exact B4|]. destruct res as [w|x]; [exact Hres|].
          destruct Hres as [K|(K1 & K2)]; [exact K|]. rewrite (meta_segs_files _ _ K2), Em1. eapply ISs'_files; eauto. }
  destruct (dk_inited (e_disk e)).
  - cbn [negb]. destruct (armed e && fx_list (e_fx e)); [intros [= <- <-]; auto|]. apply (Hrest e); reflexivity.
  - destruct (io AInitMeta e) as [ok0 e0] eqn:Eio.
    pose proof (io_meta_files _ _ _ _ Eio I) as Ef0.
    assert (Em0 : dk_meta (e_disk e0) = dk_meta (e_disk e)).
    { destruct (io_cases _ _ _ _ Eio eq_refl) as [(_ & ->)|(_ & ->)]; reflexivity. }
    assert (Hbase : NoDup (map fst (dk_files (e_disk e0))) /\ ISs' (e_disk e0) (meta_segs (e_disk e0))).
    { split; [rewrite Ef0; exact ND|]. rewrite (meta_segs_files _ _ Em0). eapply ISs'_files; eauto. }
    destruct ok0; cbn [negb]; [|intros [= <- <-]; exact Hbase].
    destruct (armed e0 && fx_list (e_fx e0)); [intros [= <- <-]; cbn [list_failed e_disk]; exact Hbase|].
    apply (Hrest e0); auto.
Qed.
