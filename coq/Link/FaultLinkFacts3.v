(* FaultLinkFacts3.v -- the observable results of a history with injected faults,
   computed from BYTES.
     wtail_read     GetLog served by the tail writer of the RUNNING process: the
                    byte-level tail reader (offsets of the rolled-back writer)
                    on the byte-level file -- image, then whatever failed writes
                    left -- returns the encoding of what L2 returns; nothing of
                    a failed batch is visible
     wsealed_read   GetLog served by a sealed segment (given the recorded
                    IndexStart: seg_meta_ok)
     wget_log_link  GetLog of a linked WAL
     restart_tail   after a restart: the writer the byte-level recovery returns
                    for the tail file represents the writer L2's Open installs,
                    hence LastIndex / FirstIndex computed from the recovered
                    bytes are L2's *)
From RW Require Import Base.Bytes Base.BytesFacts Base.Crc32c Fmt.Codec Fmt.Frame Fmt.FrameFacts
     Seg.Writer Seg.Recover Seg.Reader Seg.SegAbs Seg.WriterFacts Seg.RecoverFacts Seg.ChainFacts Seg.FailFacts
     Wal.Model Wal.Spec Wal.Hist Wal.FaultHist Wal.CrashInv Wal.CrashFacts0 Wal.CrashFacts1 Wal.CrashCalls2
     Link.Abs Link.AbsFacts1 Link.AbsFacts2 Link.AbsFacts3 Link.AbsFacts4
     Link.Disk Link.DiskFacts1 Link.DiskFacts2 Link.DiskFacts3 Link.Compose Link.ComposeFacts1 Link.ComposeFacts7
     Link.FaultDisk Link.FaultDiskFacts1 Link.FaultDiskFacts2 Link.FaultLink Gen.Constants.
From Coq Require Import ZifyN ZifyNat ZifyBool.
Open Scope N_scope.

(* the byte-level read behind a GetLog of a WAL linked by the weak relation *)
Definition wbread (c : cfg) (w : wal) (bd : bdisk) (d : disk) (idx : N) (p : bytes) : Prop :=
  (exists tw info bs bf, st_tail w = Some tw /\ wtail_link c tw info bs bd d /\
      blookup (ws_name tw) bd = Some bf /\
      tail_get (wst info (cstate info bs)) (bf_data bf) idx = Reader.ROk p) \/
  (exists s bf, In s (st_segs w) /\ blookup (name_of s) bd = Some bf /\
      sealed_get s (bf_data bf) idx = Reader.ROk p).

Lemma tail_lookup_unpend tw info bs f d idx l0 :
  rep_w (wst info (cstate info bs)) tw -> rep info bs (Abs.unpend f) -> 1 <= ws_base tw ->
  lookup (ws_name tw) (dk_files d) = Some f ->
  tail_lookup tw idx d = Some l0 ->
  tail_lookup tw idx {| dk_files := [(ws_name tw, Abs.unpend f)]; dk_meta := None; dk_stable := []; dk_inited := false |} = Some l0 /\
  In l0 (df_ents f).
Proof.
  intros Rw Ru Hb El H. unfold tail_lookup in *.
  destruct ((idx <? ws_base tw) || (idx <? ws_min tw) || (ws_commit_idx tw <? idx)) eqn:G; [discriminate|].
  unfold seg_read in *. cbn [dk_files lookup]. rewrite fname_eqb_refl. rewrite El in H.
  change (cur_ents (Abs.unpend f)) with (df_ents f).
  pose proof (cur_rep_offs _ _ _ (rep_cur_rep _ _ _ Ru)) as Ln. change (cur_ents (Abs.unpend f)) with (df_ents f) in Ln.
  assert (Hi : (N.to_nat (idx - ws_base tw) < length (df_ents f))%nat).
  { rewrite (rw_cidx _ _ Rw), (rw_base _ _ Rw) in G. cbn [wst w_commit_idx w_info] in G. unfold commit_idx_of in G.
    cbn [w_offsets w_info] in G. rewrite (rw_base _ _ Rw) in Hb. cbn [wst w_info] in Hb.
    unfold len, llen in Ln. rewrite (rw_base _ _ Rw). cbn [wst w_info].
    destruct (c_offs (cstate info bs)) as [|o0 or] eqn:Eo; unfold len in G; cbn [length] in *; lia. }
  assert (E : nth_error (cur_ents f) (N.to_nat (idx - ws_base tw)) = nth_error (df_ents f) (N.to_nat (idx - ws_base tw))).
  { unfold cur_ents. destruct (df_pend f); [apply nth_error_app1; exact Hi|reflexivity]. }
  rewrite E in H. split; [exact H|eapply nth_error_In; eauto].
Qed.

(* GETLOG FROM THE TAIL OF THE RUNNING PROCESS, with leftovers in the file *)
Lemma wtail_read c tw info bs bd d idx l0 :
  wtail_link c tw info bs bd d -> 1 <= ws_base tw -> tail_lookup tw idx d = Some l0 ->
  exists bf p, blookup (ws_name tw) bd = Some bf /\
               tail_get (wst info (cstate info bs)) (bf_data bf) idx = Reader.ROk p /\
               decode_log p = Some (codec_view l0).
Proof.
  intros [Tn Th Tw Tf] Hb Hl.
  assert (Hr : seg_read (ws_name tw) (ws_base tw) idx d = Some l0).
  { unfold tail_lookup in Hl. destruct (_ || _); [discriminate|exact Hl]. }
  destruct (seg_read_lookup _ _ _ _ _ Hr) as (f & Ef & _).
  destruct (Tf f Ef) as (bf & pb & Hbl & R).
  pose proof (wfrep_unpend _ _ _ _ _ R) as Ru.
  destruct (tail_lookup_unpend tw info bs f d idx l0 Tw Ru Hb Ef Hl) as (Hl0 & Hin).
  set (d0 := {| dk_files := [(ws_name tw, Abs.unpend f)]; dk_meta := None; dk_stable := []; dk_inited := false |}) in *.
  pose proof (wr_ok _ _ _ _ _ R) as Hok.
  assert (Hok0 : Forall log_ok (df_ents f)).
  { unfold cur_ents in Hok. destruct (df_pend f); [apply Forall_app in Hok; apply Hok|exact Hok]. }
  assert (Hwf : wf_log l0). { rewrite Forall_forall in Hok0. apply (Hok0 l0 Hin). }
  destruct (wr_data _ _ _ _ _ R) as [R0 D].
  assert (Ex : exists X, bf_data bf = image info bs ++ X).
  { rewrite D. destruct pb as [b|]; cbn [opt_batch]; [rewrite image_snoc, <- app_assoc|rewrite app_nil_r]; eexists; reflexivity. }
  destruct Ex as [X Dx].
  assert (El0 : lookup (name_of info) (dk_files d0) = Some (Abs.unpend f)).
  { rewrite Tn. cbn [d0 dk_files lookup]. rewrite fname_eqb_refl. reflexivity. }
  destruct (get_sim_tail info bs (Abs.unpend f) d0 tw idx l0 X (rep_cur_rep _ _ _ Ru)
              (logs_ok_encs_ok _ Hok0) El0 Tw Hl0 Hwf) as (p & Hp & Hdec & _).
  exists bf, p. rewrite Dx. auto.
Qed.

(* GETLOG FROM A SEALED SEGMENT: any bytes may follow the image *)
Lemma wsealed_read c bd d s idx l0 f :
  wdrep c bd d -> lookup (name_of s) (dk_files d) = Some f ->
  seg_read (name_of s) (si_base s) idx d = Some l0 ->
  si_index_start s = cur_seal f -> cur_seal f <> 0 ->
  si_base s <= idx -> si_min s <= idx -> (si_max s = 0 \/ idx <= si_max s) ->
  exists bf p, blookup (name_of s) bd = Some bf /\
               sealed_get s (bf_data bf) idx = Reader.ROk p /\ decode_log p = Some (codec_view l0).
Proof.
  intros H0 El Hr Hist Hnz Hb Hmin Hmax.
  destruct (grel_lookup _ _ _ _ _ _ H0 El) as (bf & Hbl & Hh & bs & pb & R).
  set (info := finfo c (name_of s)) in *.
  destruct (wr_data _ _ _ _ _ R) as [R0 D].
  pose proof (wfrep_cur_rep _ _ _ _ _ R) as Hcr.
  pose proof (wr_ok _ _ _ _ _ R) as Hok.
  destruct (seg_read_lookup _ _ _ _ _ Hr) as (f' & Ef' & Hin). rewrite El in Ef'. inversion Ef'; subst f'.
  assert (Hwf : wf_log l0). { rewrite Forall_forall in Hok. apply (Hok l0 Hin). }
  assert (En : name_of info = name_of s) by apply finfo_name.
  assert (Eb : si_base info = si_base s) by reflexivity.
  assert (El' : lookup (name_of info) (dk_files d) = Some f) by (rewrite En; exact El).
  assert (Hb' : si_base info <= idx) by (rewrite Eb; exact Hb).
  assert (Hr' : seg_read (name_of info) (si_base info) idx d = Some l0) by (rewrite En, Eb; exact Hr).
  destruct (get_sim_sealed info s (bs ++ opt_batch pb) f d idx l0 R0 Hcr (logs_ok_encs_ok _ Hok)
              (wr_len _ _ _ _ _ R) El' Hnz (eq_sym Eb) Hist Hb' Hmin Hmax Hr' Hwf) as (p & Hp & Hdec & _).
  exists bf, p. rewrite D. auto.
Qed.

(* GETLOG DOWN TO BYTES for a WAL linked by the weak relation (a running
   process of a history with injected faults) *)
Theorem wget_log_link c w bd e idx l e' :
  WL c w bd (e_disk e) -> seg_meta_ok w (e_disk e) ->
  (forall tw, st_tail w = Some tw -> 1 <= ws_base tw) ->
  get_log w idx e = (RLog l, e') ->
  exists p, wbread c w bd (e_disk e) idx p /\ decode_log p = Some l.
Proof.
  intros ((H0 & Hnd & Ht) & _) Hmeta Hbase H. unfold get_log in H.
  destruct (st_closed w); [discriminate|]. cbn zeta in H.
  assert (Htail : forall tw l0, st_tail w = Some tw -> tail_lookup tw idx (e_disk e) = Some l0 ->
            exists p, wbread c w bd (e_disk e) idx p /\ decode_log p = Some (codec_view l0)).
  { intros tw l0 Et Hl. rewrite Et in Ht. destruct Ht as (info & bs & T).
    destruct (wtail_read c tw info bs bd _ idx l0 T (Hbase tw Et) Hl) as (bf & p & Hb & Hp & Hd).
    exists p. split; [|exact Hd]. left. exists tw, info, bs, bf. auto. }
  match type of H with context [match ?ft with Some _ => _ | None => _ end] =>
    destruct ft as [l0|] eqn:Eft end.
  - inversion H; subst l.
    destruct (st_tail w) as [tw|] eqn:Et; [|discriminate].
    assert (Hl : tail_lookup tw idx (e_disk e) = Some l0).
    { destruct (tail_info (st_segs w)) as [ti|]; [|exact Eft]. destruct (si_min ti <=? idx); [exact Eft|discriminate]. }
    eapply Htail; eauto.
  - destruct (find_segment (st_segs w) idx) as [s|] eqn:Efs; [|discriminate].
    destruct (find_segment_sound _ _ _ Efs) as (Hin & Hmin & Hmax).
    destruct (Hmeta s Hin) as (Hbs & Hist).
    match type of H with context [if ?b then _ else _] => destruct b eqn:Eis end.
    + destruct (st_tail w) as [tw|] eqn:Et; [|discriminate].
      destruct (tail_lookup tw idx (e_disk e)) as [l0|] eqn:Hl; [|discriminate].
      inversion H; subst l. eapply Htail; eauto.
    + destruct (seg_read (name_of s) (si_base s) idx (e_disk e)) as [l0|] eqn:Hr; [|discriminate].
      inversion H; subst l.
      destruct (seg_read_lookup _ _ _ _ _ Hr) as (f & Ef & _).
      destruct (Hist f Ef) as (Hi1 & Hi2).
      { intros tw Et. rewrite Et in Eis. apply fname_eqb_neq in Eis. exact Eis. }
      destruct (wsealed_read c bd _ s idx l0 f H0 Ef Hr Hi1 Hi2) as (bf & p & Hb & Hp & Hd); auto; [lia|].
      exists p. split; [|exact Hd]. right. exists s, bf. auto.
Qed.

(* AFTER A RESTART: what the byte-level recovery of a file returns.  bd is the
   byte disk BEFORE the restart, d the L2 disk before adopt_disk.  For every
   file: recover_state of the bytes (page cache) is the writer of the committed
   batches plus the batch of the last failed fsync, and it represents the
   writer seg_recover builds on L2's adopted file -- so the entry count, the
   write offset, the index start and the commit index (LastIndex) that Open
   installs are the ones read off the bytes. *)
Theorem restart_recovered c bd d n f e si :
  wdrep c bd d -> stale_free bd d -> lookup n (dk_files d) = Some f ->
  name_of si = n -> si_codec si = c_codec c ->
  e_disk e = adopt_disk d ->
  exists bf bs', blookup n bd = Some bf /\
    recover_state si (bf_data bf) = Some (wst si (cstate si bs')) /\
    seg_recover si e = Some (Some (recw si (adopt_file f))) /\
    rep_w (wst si (cstate si bs')) (recw si (adopt_file f)).
Proof.
  intros H0 Hsf El Hn Hc He.
  destruct (grel_lookup _ _ _ _ _ _ H0 El) as (bf & Hb & Hh & bs & pb & R).
  assert (Heq : hdr_eq (finfo c n) si).
  { subst n. unfold hdr_eq, finfo, name_of. cbn. auto. }
  pose proof (wfrep_at_hdr_eq _ _ _ _ _ _ Heq R) as R'.
  assert (Hh' : hdr_wf si).
  { destruct Hh as (A & B & C). unfold hdr_wf. subst n. cbn in A, B, C. rewrite <- Hc in C. auto. }
  destruct (wfrep_restart si bs pb bf f Hh' R' (Hsf n bf f Hb El)) as (Hrec & Rf).
  exists bf, (bs ++ opt_batch pb). split; [exact Hb|]. split; [exact Hrec|]. split.
  - apply seg_recover_char. rewrite He. cbn [adopt_disk dk_files]. subst n.
    clear - El. induction (dk_files d) as [|[m g] r IH]; cbn [lookup map fst snd] in *; [discriminate|].
    destruct (fname_eqb (name_of si) m); [inversion El; reflexivity|apply IH; exact El].
  - apply rep_w_recw, rep_cur_rep. apply (fr_rep _ _ _ _ _ Rf).
Qed.

(* ---------------- the "extend a pending batch" branch of apply_act ---------------- *)
(* A write of a linked tail writer goes to the SYNCED end of its file; a batch
   that is still pending there (its fsync failed) ends strictly behind it.  So
   the branch of apply_act that extends a pending batch (off = pb_end p, Link/
   DiskFacts3.v frep_extend, Props/Link.v Link_ex_merged_crash) is never taken
   by a write of a history with injected faults: the pending batch is REPLACED
   (apply_write_over).  Restarts clear pending batches (adopt_disk). *)
Theorem write_never_extends c tw info bs bd d f p :
  wtail_link c tw info bs bd d -> lookup (ws_name tw) (dk_files d) = Some f -> df_pend f = Some p ->
  ws_off tw < pb_end p.
Proof.
  intros [Tn Th Tw Tf] El Ep. destruct (Tf f El) as (bf & pb & _ & R).
  destruct R as [A _ _ _ _]. destruct pb as [b|].
  - destruct A as (_ & p' & Hp' & _ & Hb2 & _). rewrite Ep in Hp'. inversion Hp'; subst p'.
    rewrite Hb2, image_snoc, len_app, (rw_off _ _ Tw). cbn [wst w_off].
    pose proof (batch_write_pos info (cstate info bs) b). unfold image. lia.
  - rewrite (rep_pend _ _ _ A) in Ep. discriminate.
Qed.

(* the decidable form of the side condition, for examples *)
Lemma stale_freeb_spec bd d : NoDup (map fst bd) -> stale_freeb bd d = true -> stale_free bd d.
Proof.
  induction bd as [|[m g] r IH]; intros ND H n bf f Hb Hl; cbn [blookup] in Hb; [discriminate|].
  cbn [stale_freeb] in H. apply andb_true_iff in H as [H1 H2]. inversion ND as [|? ? Hni ND']; subst.
  destruct (fname_eqb n m) eqn:E.
  - apply fname_eqb_eq in E. subst m. inversion Hb; subst g. rewrite Hl in H1. apply no_stale_commitb_spec. exact H1.
  - apply (IH ND' H2 n bf f Hb Hl).
Qed.
