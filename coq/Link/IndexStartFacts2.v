(* IndexStartFacts2.v -- the IndexStart invariant: every operation of the WAL
   (fault-free, as in the histories of crash_refinement) performs a justified
   trace: each metadata commit installs segments whose recorded IndexStart is
   the index start of the file on the disk of that moment.
     rotate           the sealed tail gets st_rotate = df_seal of its file
     truncate_tail    the force-sealed tail gets the writer's index start,
                      which is the seal offset of the batch just synced
     open_wal         the interrupted rotation is completed with cur_seal of
                      the recovered file
     everything else  re-lists segments it found listed (or a new, unsealed one) *)
From RW Require Import Base.Bytes Base.BytesFacts Fmt.Codec Fmt.Frame Wal.Model Wal.Spec Wal.Hist
     Wal.CrashInv Wal.CrashFacts0 Wal.CrashFacts1 Wal.CrashFacts2 Wal.CrashFacts3 Wal.CrashFacts4
     Wal.CrashFacts6 Wal.CrashGlue Wal.CrashCalls4
     Link.IndexStart Link.IndexStartFacts1 Gen.Constants.
From Coq Require Import ZifyN ZifyNat ZifyBool.
Open Scope N_scope.

Lemma new_segment_IS c d id base : ISseg d (new_segment c id base).
Proof. apply ISseg_unsealed. reflexivity. Qed.

(* ---------------- rotation ---------------- *)
Definition rot_ok (w : wal) (d : disk) : Prop :=
  forall i t, st_rotate w = Some i -> tail_info (st_segs w) = Some t ->
    forall f, lookup (name_of t) (dk_files d) = Some f -> i = cur_seal f /\ cur_seal f <> 0.

Lemma rotate_ctr c w e w' e' :
  e_fault e = None -> ISs (e_disk e) (st_segs w) -> rot_ok w (e_disk e) ->
  rotate c w e = (w', e') -> ctr e e'.
Proof.
  intros Hf HI Hr. unfold rotate. destruct (st_rotate w) as [istart|] eqn:Er; [|intros [= <- <-]; apply ctr_refl; exact Hf].
  destruct (st_closed w); [intros [= <- <-]; apply ctr_refl; exact Hf|].
  destruct (tail_info (st_segs w)) as [t|] eqn:Et; [|intros [= <- <-]; apply ctr_add_m, ctr_refl; exact Hf].
  unfold create_next, mutate.
  match goal with |- context [mutate_gen false ?w0 ?tx ?e0] => destruct (mutate_gen false w0 tx e0) as [[[r w1] e1] dels] eqn:Em end.
  intros [= <- <-]. unfold add_m in Em. eapply ctr_from_m.
  eapply mutate_gen_ctr; [| |exact Em]; [exact Hf|]. cbn [tx_segs with_m e_disk].
  eapply ISs_incl; [|exact HI]. intros x Hx.
  apply in_seg_set in Hx as [->|Hx]; [right; apply new_segment_IS|].
  apply in_seg_set in Hx as [->|Hx]; [right|left; exact Hx].
  intros _ f Hfl. change (name_of _) with (name_of t) in Hfl. cbn [si_index_start]. apply (Hr istart t Er Et f Hfl).
Qed.

(* ---------------- reset of the empty first segment ---------------- *)
Lemma reset_first_ctr c w nb e r w' e' dels :
  e_fault e = None -> ISs (e_disk e) (st_segs w) ->
  reset_first c w nb e = (r, w', e', dels) ->
  ctr e e' /\ (r = ROk -> forall s, In s (st_segs w') -> In s (st_segs w) \/ si_sealed s = false).
Proof.
  intros Hf HI. unfold reset_first. destruct (0 <? last_index _ _); [intros [= <- <- <- <-]; split; [apply ctr_refl; exact Hf|discriminate]|].
  assert (Hgen : forall w0 tx, ISs (e_disk e) (tx_segs tx) ->
            (forall s, In s (tx_segs tx) -> In s (st_segs w) \/ si_sealed s = false) ->
            mutate_gen true w0 tx e = (r, w', e', dels) -> st_segs w0 = st_segs w ->
            ctr e e' /\ (r = ROk -> forall s, In s (st_segs w') -> In s (st_segs w) \/ si_sealed s = false)).
  { intros w0 tx H1 H2 Hm Hw0. split; [eapply mutate_gen_ctr; eauto|]. intros -> s Hs.
    unfold mutate_gen in Hm. rewrite (io_ok _ e Hf) in Hm. cbn [negb] in Hm.
    destruct (tx_create tx) as [si|].
    - destruct (seg_create si _) as [[sw|] e2]; [|discriminate]. inversion Hm; subst. cbn [st_segs] in Hs. apply H2. exact Hs.
    - inversion Hm; subst. cbn [st_segs] in Hs. apply H2. exact Hs. }
  destruct (tail_info (st_segs w)) as [t|].
  - destruct (si_base t =? nb).
    + intros Hm. eapply Hgen; [| |exact Hm|reflexivity]; cbn [tx_segs]; [exact HI|auto].
    + unfold create_next. intros Hm. eapply Hgen; [| |exact Hm|reflexivity]; cbn [tx_segs].
      * eapply ISs_incl; [|exact HI]. intros x Hx. apply in_seg_set in Hx as [->|Hx]; [right; apply new_segment_IS|].
        left. eapply in_seg_del; eauto.
      * intros x Hx. apply in_seg_set in Hx as [->|Hx]; [right; reflexivity|left; eapply in_seg_del; eauto].
  - unfold create_next. intros Hm. eapply Hgen; [| |exact Hm|reflexivity]; cbn [tx_segs].
    + eapply ISs_incl; [|exact HI]. intros x Hx. apply in_seg_set in Hx as [->|Hx]; [right; apply new_segment_IS|auto].
    + intros x Hx. apply in_seg_set in Hx as [->|Hx]; [right; reflexivity|auto].
Qed.

(* ---------------- StoreLogs ---------------- *)
Lemma store_go_ctr last ls w e r w' e' :
  e_fault e = None -> store_go last ls w e = (r, w', e') -> ctr e e'.
Proof.
  intros Hf. unfold store_go. destruct (check_logs last ls) as [res nbytes].
  destruct res; try (intros [= <- <- <-]; apply ctr_refl; exact Hf).
  destruct (st_tail w) as [tw|]; [|intros [= <- <- <-]; apply ctr_refl; exact Hf].
  destruct (seg_append tw ls e) as [[r1 tw'] e1] eqn:Ea. pose proof (seg_append_ctr _ _ _ _ _ _ Hf Ea) as C.
  destruct r1; intros [= <- <- <-]; exact C.
Qed.

Lemma store_logs_ctr c w ls e r w' e' :
  e_fault e = None -> ISs (e_disk e) (st_segs w) ->
  store_logs c w ls e = (r, w', e') -> ctr e e'.
Proof.
  intros Hf HI. rewrite store_logs_unfold. destruct (st_closed w); [intros [= <- <- <-]; apply ctr_refl; exact Hf|].
  destruct ls as [|l0 ls']; [intros [= <- <- <-]; apply ctr_refl; exact Hf|].
  destruct (st_failed w); [intros [= <- <- <-]; apply ctr_refl; exact Hf|]. cbn zeta.
  destruct (tail_info (st_segs w)) as [ti|]; [|intros [= <- <- <-]; apply ctr_refl; exact Hf].
  destruct (_ && _).
  - destruct (reset_first c w (l_index l0) e) as [[[r1 w1] e1] dels] eqn:Er.
    destruct (reset_first_ctr _ _ _ _ _ _ _ _ Hf HI Er) as (C1 & _).
    destruct r1; try (intros [= <- <- <-]; exact C1).
    destruct (store_go _ _ w1 e1) as [[r2 w2] e2] eqn:Eg. intros [= <- <- <-].
    pose proof (store_go_ctr _ _ _ _ _ _ _ (ctr_fault _ _ C1) Eg) as C2.
    eapply ctr_trans; [exact C1|]. eapply ctr_trans; [exact C2|]. apply delete_files_ctr. apply (ctr_fault _ _ C2).
  - apply store_go_ctr. exact Hf.
Qed.

(* ---------------- head truncation ---------------- *)
Lemma head_scan_in nm tl : forall segs del ntr rest del' ntr' head,
  head_scan nm tl segs del ntr = (rest, del', ntr', head) ->
  (forall x, In x rest -> In x segs) /\ (forall h, head = Some h -> In h segs).
Proof.
  induction segs as [|s r IH]; intros del ntr rest del' ntr' head; cbn [head_scan].
  - intros [= <- _ _ <-]. split; [auto|discriminate].
  - destruct (nm <=? _).
    + intros [= <- _ _ <-]. split; [auto|]. intros h [= <-]. left. reflexivity.
    + intros H. destruct (IH _ _ _ _ _ _ H) as (A & B). split; [intros x Hx; right; apply A; exact Hx|intros h Hh; right; apply B; exact Hh].
Qed.

Lemma truncate_head_ctr c w nm e r w' e' :
  e_fault e = None -> ISs (e_disk e) (st_segs w) ->
  truncate_head c w nm e = (r, w', e') -> ctr e e'.
Proof.
  intros Hf HI. unfold truncate_head.
  destruct (head_scan nm (tail_last (st_tail w)) (st_segs w) [] 0) as [[[rest del] ntr] head] eqn:Eh.
  destruct (head_scan_in _ _ _ _ _ _ _ _ _ Eh) as (Hrest & Hhead).
  destruct head as [h|].
  - unfold mutate. match goal with |- context [mutate_gen false w ?tx ?e0] => destruct (mutate_gen false w tx e0) as [[[r1 w1] e1] dels] eqn:Em end.
    intros [= <- <- <-]. unfold add_m in Em. eapply ctr_from_m. eapply mutate_gen_ctr; [| |exact Em]; [exact Hf|].
    cbn [tx_segs with_m e_disk]. eapply ISs_incl; [|exact HI]. intros x Hx.
    apply in_seg_set in Hx as [->|Hx]; [right|left; apply Hrest; exact Hx].
    unfold ISs in HI. rewrite Forall_forall in HI. eapply ISseg_same; [| | |apply (HI h (Hhead h eq_refl))]; reflexivity.
  - unfold create_next, mutate. match goal with |- context [mutate_gen false w ?tx ?e0] => destruct (mutate_gen false w tx e0) as [[[r1 w1] e1] dels] eqn:Em end.
    intros [= <- <- <-]. unfold add_m in Em. eapply ctr_from_m. eapply mutate_gen_ctr; [| |exact Em]; [exact Hf|].
    cbn [tx_segs]. constructor; [apply new_segment_IS|constructor].
Qed.

(* ---------------- tail truncation ---------------- *)
Lemma tail_scan_in nm li : forall rsegs del ntr rrest del' ntr',
  tail_scan nm li rsegs del ntr = (rrest, del', ntr') -> forall x, In x rrest -> In x rsegs.
Proof.
  induction rsegs as [|s r IH]; intros del ntr rrest del' ntr'; cbn [tail_scan].
  - intros [= <- _ _]. auto.
  - destruct (si_base s <=? nm).
    + intros [= <- _ _]. auto.
    + intros H x Hx. right. eapply IH; eauto.
Qed.

(* what the tail truncation needs of the state: the unsealed listed segment is
   the tail writer's; sealed segments have other files; a sealed tail writer
   carries the index start of its file *)
Definition tail_facts (w : wal) (d : disk) : Prop :=
  forall tw, st_tail w = Some tw ->
    (forall x, In x (st_segs w) -> si_sealed x = false -> name_of x = ws_name tw) /\
    (forall x, In x (st_segs w) -> si_sealed x = true -> name_of x <> ws_name tw) /\
    (forall f, lookup (ws_name tw) (dk_files d) = Some f -> 0 < ws_index_start tw -> cur_seal f = ws_index_start tw).

Lemma truncate_tail_ctr c w nm e r w' e' :
  e_fault e = None -> ISs (e_disk e) (st_segs w) -> tail_facts w (e_disk e) ->
  truncate_tail c w nm e = (r, w', e') -> ctr e e'.
Proof.
  intros Hf HI HT. unfold truncate_tail.
  destruct (tail_scan nm _ (rev (st_segs w)) [] 0) as [[rrest del] ntr] eqn:Et.
  pose proof (tail_scan_in _ _ _ _ _ _ _ _ Et) as Hin.
  assert (Hin' : forall x, In x rrest -> In x (st_segs w)) by (intros x Hx; apply in_rev; apply Hin; exact Hx).
  destruct rrest as [|t rr].
  - unfold create_next, mutate. match goal with |- context [mutate_gen false w ?tx ?e0] => destruct (mutate_gen false w tx e0) as [[[r1 w1] e1] dels] eqn:Em end.
    intros [= <- <- <-]. eapply mutate_gen_ctr; [| |exact Em]; [exact Hf|]. cbn [tx_segs]. constructor; [apply new_segment_IS|constructor].
  - assert (Hfin : forall t' w0 e0 ntr', ctr e e0 -> ISs (e_disk e0) (st_segs w) -> ISseg (e_disk e0) t' ->
              (let segs1 := seg_set t' (rev (t :: rr)) in
               let '(nid, segs2, si) := create_next c (st_next_id w) segs1 0 in
               mutate w0 {| tx_next_id := nid; tx_segs := segs2; tx_delete := del; tx_create := Some si; tx_tail := None |}
                      (add_m e0 ntr')) = (r, w', e') -> ctr e e').
    { intros t' w0 e0 ntr' C0 HI0 Ht'. cbn zeta. unfold create_next, mutate.
      match goal with |- context [mutate_gen false w0 ?tx ?e1] => destruct (mutate_gen false w0 tx e1) as [[[r1 w1] e1'] dels] eqn:Em end.
      intros [= <- <- <-]. eapply ctr_trans; [exact C0|]. unfold add_m in Em. eapply ctr_from_m.
      eapply mutate_gen_ctr; [| |exact Em]; [apply (ctr_fault _ _ C0)|].
      cbn [tx_segs with_m e_disk]. eapply ISs_incl; [|exact HI0]. intros x Hx.
      apply in_seg_set in Hx as [->|Hx]; [right; apply new_segment_IS|].
      apply in_seg_set in Hx as [->|Hx]; [right; exact Ht'|]. left. apply Hin'. apply in_rev. exact Hx. }
    destruct (si_sealed t) eqn:Ets.
    + intros H. eapply (Hfin _ _ e _ (ctr_refl _ Hf) HI); [|exact H].
      unfold ISs in HI. rewrite Forall_forall in HI.
      eapply ISseg_same; [| | |apply (HI t (Hin' t (or_introl eq_refl)))]; [reflexivity|reflexivity|cbn; symmetry; exact Ets].
    + destruct (st_tail w) as [tw|] eqn:Etw; [|intros [= <- <- <-]; apply ctr_refl; exact Hf].
      destruct (HT tw Etw) as (Hun & Hse & Hix).
      pose proof (Hun t (Hin' t (or_introl eq_refl)) Ets) as Hname.
      destruct (seg_force_seal tw e) as [[r1 tw'] e1] eqn:Efs.
      destruct (seg_force_seal_ctr _ _ _ _ _ Hf Efs) as (C1 & Hcase).
      destruct r1; try (intros [= <- <- <-]; exact C1).
      specialize (Hcase eq_refl).
      intros H. eapply (Hfin _ _ e1 _ C1); [| |exact H].
      * destruct Hcase as [(_ & -> & _)|(_ & Hoth & _)]; [exact HI|].
        unfold ISs in *. rewrite Forall_forall in *. intros x Hx Hxs. eapply ISseg_ext; [|apply (HI x Hx)|exact Hxs].
        apply Hoth. apply Hse; assumption.
      * intros _ f1 Hf1. change (name_of _) with (name_of t) in Hf1. cbn [si_index_start]. rewrite Hname in Hf1.
        destruct Hcase as [(-> & -> & Hpos)|(Hpos & _ & Hfile)].
        -- rewrite (Hix f1 Hf1 Hpos). split; [reflexivity|lia].
        -- rewrite (Hfile f1 Hf1). split; [reflexivity|lia].
Qed.

Lemma delete_range_ctr c w mn mx e r w' e' :
  e_fault e = None -> ISs (e_disk e) (st_segs w) -> tail_facts w (e_disk e) ->
  delete_range c w mn mx e = (r, w', e') -> ctr e e'.
Proof.
  intros Hf HI HT. unfold delete_range.
  destruct (st_closed w); [intros [= <- <- <-]; apply ctr_refl; exact Hf|].
  destruct (mx <? mn); [intros [= <- <- <-]; apply ctr_refl; exact Hf|].
  destruct (st_failed w); [intros [= <- <- <-]; apply ctr_refl; exact Hf|]. cbn zeta.
  destruct (_ || _); [intros [= <- <- <-]; apply ctr_refl; exact Hf|].
  destruct (mn <=? _); [apply truncate_head_ctr; assumption|].
  destruct (_ <=? mx); [apply truncate_tail_ctr; assumption|].
  intros [= <- <- <-]; apply ctr_refl; exact Hf.
Qed.

(* ---------------- the hypotheses, from the live invariant ---------------- *)
Lemma LInv_ISs c nb w d : LInv c nb w d -> ISd d -> ISs d (st_segs w).
Proof. intros (_ & _ & _ & _ & Hm & _) H. unfold ISd in H. rewrite Hm in H. exact H. Qed.

Lemma LInv_rot_ok c nb w d : LInv c nb w d -> rot_ok w d.
Proof.
  intros HL. destruct (LInv_view _ _ _ _ HL) as (S & t & f & tw & V).
  intros i t0 Hr Ht f0 Hf0. rewrite (lv_segs _ _ _ _ _ _ _ _ V), tail_info_app in Ht. inversion Ht; subst t0.
  rewrite (lv_file _ _ _ _ _ _ _ _ V) in Hf0. inversion Hf0; subst f0.
  rewrite (lv_rot _ _ _ _ _ _ _ _ V) in Hr. unfold cur_seal. rewrite (lv_pend _ _ _ _ _ _ _ _ V).
  destruct (0 <? df_seal f) eqn:E; [|discriminate]. inversion Hr. split; [reflexivity|lia].
Qed.

Lemma LInv_tail_facts c nb w d : LInv c nb w d -> tail_facts w d.
Proof.
  intros HL. destruct (LInv_view _ _ _ _ HL) as (S & t & f & tw & V).
  intros tw0 Ht. rewrite (lv_tail _ _ _ _ _ _ _ _ V) in Ht. inversion Ht; subst tw0.
  pose proof (lv_tw _ _ _ _ _ _ _ _ V) as (Hn & _ & _ & _ & _ & _ & Hix & _).
  pose proof (lv_tok _ _ _ _ _ _ _ _ V) as (Hu & _).
  pose proof (lv_sealed _ _ _ _ _ _ _ _ V) as Hso. rewrite Forall_forall in Hso.
  rewrite (lv_segs _ _ _ _ _ _ _ _ V). rewrite Hn.
  split; [|split].
  - intros x Hx Hxs. apply in_app_or in Hx as [Hx|[<-|[]]]; [|reflexivity].
    destruct (Hso x Hx) as (K & _). congruence.
  - intros x Hx Hxs. apply in_app_or in Hx as [Hx|[<-|[]]]; [|congruence].
    eapply DIs_sealed_neq; [apply (lv_dis _ _ _ _ _ _ _ _ V)|apply (lv_meta _ _ _ _ _ _ _ _ V)|reflexivity|exact Hx].
  - intros f0 Hf0 _. rewrite (lv_file _ _ _ _ _ _ _ _ V) in Hf0. inversion Hf0; subst f0.
    unfold cur_seal. rewrite (lv_pend _ _ _ _ _ _ _ _ V). symmetry. exact Hix.
Qed.

(* ---------------- Open ---------------- *)
Lemma open_newtail_ctr c nid0 segs garbage e1 res e' :
  e_fault e1 = None -> ISs (e_disk e1) segs ->
  open_newtail c nid0 segs garbage e1 = (res, e') -> ctr e1 e'.
Proof.
  intros Hf HI. unfold open_newtail. cbn zeta. rewrite (io_ok _ e1 Hf). cbn [negb].
  match goal with |- context [io_env (ACommit ?ps) e1] => assert (C1 : ctr e1 (io_env (ACommit ps) e1)) end.
  { apply ctr_commit; [exact Hf|]. cbn [ps_segs]. eapply ISs_incl; [|exact HI]. intros x Hx.
    apply in_seg_set in Hx as [->|Hx]; [right; apply new_segment_IS|left; exact Hx]. }
  destruct (seg_create _ _) as [sw e3] eqn:Ec. pose proof (seg_create_ctr _ _ _ _ (ctr_fault _ _ C1) Ec) as C2.
  destruct sw as [sw|]; intros [= <- <-].
  - eapply ctr_trans; [exact C1|]. eapply ctr_trans; [exact C2|]. apply delete_files_ctr. apply (ctr_fault _ _ C2).
  - eapply ctr_trans; eauto.
Qed.

Lemma open_rest_ctr c nb e0 res e' :
  e_fault e0 = None -> DIs c nb (e_disk e0) -> ISd (e_disk e0) ->
  open_rest c e0 = (res, e') -> ctr e0 e'.
Proof.
  intros Hf HD HI. unfold open_rest. destruct (dk_meta (e_disk e0)) as [ps|] eqn:Hm.
  - destruct (DIs_segs _ _ _ _ HD Hm) as (S & t & Hs).
    destruct (DIs_parts _ _ _ _ _ _ HD Hm Hs) as (_ & _ & _ & Hwf & _ & Hso & Ht).
    pose proof (tail_wf _ _ _ _ _ _ HD Hm Hs) as (_ & _ & Hwb1 & _).
    assert (Hcod : Forall (fun s => si_codec s = c_codec c) (S ++ [t])).
    { eapply Forall_impl; [|exact Hwf]. intros s Hsw. apply Hsw. }
    destruct Ht as (Hu & _).
    unfold ISd in HI. rewrite Hm, Hs in HI.
    rewrite Hs. rewrite (open_segs_tail c S t e0 Hso Hcod Hu Hf Hwb1).
    destruct (lookup (name_of t) (dk_files (e_disk e0))) as [f|] eqn:Ef.
    + destruct (0 <? cur_seal f) eqn:Eseal.
      * apply open_newtail_ctr; [exact Hf|]. unfold ISs in *. apply Forall_app in HI as (HI1 & _).
        apply Forall_app. split; [exact HI1|]. constructor; [|constructor].
        intros _ f0 Hf0. change (name_of _) with (name_of t) in Hf0. rewrite Ef in Hf0. inversion Hf0; subst f0.
        cbn [seal_info si_index_start]. split; [reflexivity|lia].
      * intros [= <- <-]. apply delete_files_ctr. exact Hf.
    + intros [= <- <-]. eapply ctr_trans; [|apply delete_files_ctr; reflexivity].
      apply ctr_io; [exact Hf|exact I].
  - cbn [ps_segs open_segs rev_append]. apply open_newtail_ctr; [exact Hf|constructor].
Qed.

Lemma open_wal_ctr c nb e res e' :
  e_fault e = None -> DIs c nb (e_disk e) -> ISd (e_disk e) ->
  open_wal c e = (res, e') -> ctr e e'.
Proof.
  intros Hf HD HI. rewrite open_wal_unfold. destruct (_ && _); [intros [= <- <-]; apply ctr_refl; exact Hf|].
  destruct (dk_inited (e_disk e)).
  - cbn [negb]. unfold armed. rewrite Hf. cbn [andb]. eapply open_rest_ctr; eauto.
  - rewrite (io_ok _ e Hf). cbn [negb]. unfold armed. cbn [io_env e_fault andb].
    intros H. eapply ctr_trans; [apply (ctr_io AInitMeta); [exact Hf|exact I]|].
    eapply (open_rest_ctr c nb); [reflexivity| | |exact H]; cbn [io_env e_disk].
    + apply DIs_initmeta. exact HD.
    + exact HI.
Qed.

(* ---------------- every call ---------------- *)
Lemma settle_ctr c s :
  e_fault (ss_env s) = None -> ISs (e_disk (ss_env s)) (st_segs (ss_wal s)) -> rot_ok (ss_wal s) (e_disk (ss_env s)) ->
  ctr (ss_env s) (ss_env (settle c s)).
Proof.
  intros Hf HI Hr. unfold settle. destruct (st_rotate (ss_wal s)); [|apply ctr_refl; exact Hf].
  destruct (rotate c (ss_wal s) (ss_env s)) as [w' e'] eqn:E. cbn [ss_env]. eapply rotate_ctr; eauto.
Qed.
