(* FaultDiskFacts3.v -- the WAL operations under INJECTED FAULTS in lock step
   with the byte disk (weak relation): mutate_gen (the commit may fail, the
   creation may fail and may leave the empty file, every deletion may fail),
   rotate, reset_first, store_logs, truncate_head, truncate_tail, delete_range.
   Each lemma: from WL (no hypothesis on e_fault / e_fx) the operation's
   effective actions are a weak lock-step run and the result satisfies WL. *)
From RW Require Import Base.Bytes Base.BytesFacts Base.Crc32c Fmt.Codec Fmt.Frame Fmt.FrameFacts
     Seg.Writer Seg.Recover Seg.SegAbs Seg.WriterFacts Seg.RecoverFacts Seg.ChainFacts
     Wal.Model Wal.Spec Wal.CrashFacts0 Wal.SeqFactsOps1
     Link.Abs Link.AbsFacts1 Link.AbsFacts2 Link.AbsFacts3 Link.AbsFacts4
     Link.Disk Link.DiskFacts1 Link.DiskFacts2 Link.DiskFacts3 Link.Compose Link.ComposeFacts1 Link.ComposeFacts2
     Link.ComposeFacts3 Link.FaultDisk Link.FaultDiskFacts1 Link.FaultDiskFacts2 Gen.Constants.
From Coq Require Import ZifyN ZifyNat ZifyBool.
Open Scope N_scope.

Lemma wop_link_same c w bd e : WL c w bd (e_disk e) -> wop_link c bd e w e.
Proof. intros H. exists bd. split; [apply werun_refl; apply H|exact H]. Qed.

Lemma wop_link_disk_r c bd e w' e1 e2 : e_disk e1 = e_disk e2 -> wop_link c bd e w' e1 -> wop_link c bd e w' e2.
Proof. intros E (bd' & R & W). exists bd'. split; [eapply werun_disk; eauto|rewrite <- E; exact W]. Qed.

Lemma wop_link_disk_l c bd e1 e2 w' e' : e_disk e1 = e_disk e2 -> wop_link c bd e1 w' e' -> wop_link c bd e2 w' e'.
Proof. intros E (bd' & R & W). exists bd'. split; [eapply werun_disk_l; eauto|exact W]. Qed.

Lemma wop_link_trans c bd e w1 e1 w2 e2 :
  wop_link c bd e w1 e1 -> (forall bd1, WL c w1 bd1 (e_disk e1) -> wop_link c bd1 e1 w2 e2) ->
  wop_link c bd e w2 e2.
Proof.
  intros (bd1 & E1 & W1) H. destruct (H bd1 W1) as (bd2 & E2 & W2). exists bd2. split; [eapply werun_trans; eauto|exact W2].
Qed.

Lemma WL_ext c w w' bd d :
  st_next_id w' = st_next_id w -> st_tail w' = st_tail w -> WL c w bd d -> WL c w' bd d.
Proof. intros H1 H2 (A & B & C & D). unfold WL, WG, tail_id. rewrite H1, H2. auto. Qed.

(* ---------------- mutateStateLocked ---------------- *)
Definition tx_ok (c : cfg) (w : wal) (t : txn) : Prop :=
  tx_next_id t < two64 /\ small_tail (tx_tail t) /\
  match tx_tail t with Some tw => snd (ws_name tw) < tx_next_id t | None => True end /\
  forall si, tx_create t = Some si ->
    si_codec si = c_codec c /\ hdr_wf (finfo c (name_of si)) /\ small_tw (new_wseg si) /\
    si_id si < tx_next_id t /\ other_name (st_tail w) (name_of si).

Lemma mutate_gen_wlink c defer w t bd e r w' e' dels :
  WL c w bd (e_disk e) -> wtail_linked c (tx_tail t) bd (e_disk e) -> tx_ok c w t ->
  mutate_gen defer w t e = (r, w', e', dels) ->
  wop_link c bd e w' e'.
Proof.
  intros ((H0 & Hnd & Ht) & (Hid & Hsm & Htid)) Htt (Hnid & Htsm & Httid & Hcr) Hm. unfold mutate_gen in Hm.
  set (a := ACommit {| ps_next_id := tx_next_id t; ps_segs := tx_segs t |}) in *.
  destruct (io a e) as [ok e1] eqn:Eio.
  pose proof (werun_meta c bd e a ok e1 Eio I H0) as E1.
  pose proof (io_meta_files _ _ _ _ Eio I) as Ef1.
  assert (H1 : wdrep c bd (e_disk e1)) by (apply (werun_end _ _ _ _ _ E1)).
  assert (Hnd1 : NoDup (map fst (dk_files (e_disk e1)))) by (rewrite Ef1; exact Hnd).
  assert (Ht1 : wtail_linked c (st_tail w) bd (e_disk e1)) by (eapply wtail_linked_files; eauto).
  assert (Htt1 : wtail_linked c (tx_tail t) bd (e_disk e1)) by (eapply wtail_linked_files; eauto).
  destruct ok; cbn [negb] in Hm.
  2:{ inversion Hm; subst. exists bd. split; [exact E1|]. repeat split; assumption. }
  destruct (tx_create t) as [si|] eqn:Ec.
  - destruct (seg_create si e1) as [sw e2] eqn:Es.
    destruct (Hcr si eq_refl) as (Hc & Hh & Hs1 & Hsid & Hon).
    destruct (seg_create_wlink c si bd e1 sw e2 (st_tail w) H1 Hnd1 Hc Hh Ht1 Hon Es) as (bd2 & E2 & Hnd2 & Ht2 & Hsw).
    pose proof (werun_trans _ _ _ _ _ _ _ E1 E2) as E12.
    destruct sw as [sw|].
    + destruct Hsw as [-> Hl].
      assert (HG : WG {| st_next_id := tx_next_id t; st_segs := tx_segs t; st_tail := Some (new_wseg si);
                         st_rotate := st_rotate w; st_failed := st_failed w; st_closed := st_closed w |}).
      { split; [exact Hnid|]. split; [exact Hs1|]. unfold tail_id. cbn [st_tail st_next_id new_wseg ws_name name_of snd]. exact Hsid. }
      destruct defer.
      * inversion Hm; subst. exists bd2. split; [exact E12|]. split; [|exact HG].
        split; [apply (werun_end _ _ _ _ _ E12)|]. split; [exact Hnd2|]. cbn [st_tail wtail_linked]. eauto.
      * assert (Hl2 : wtail_linked c (Some (new_wseg si)) bd2 (e_disk e2)) by (cbn; eauto).
        destruct (delete_files_wlink c (tx_delete t) bd2 e2 (Some (new_wseg si)) (werun_end _ _ _ _ _ E2) Hnd2 Hl2)
          as (bd3 & E3 & Hnd3 & Hl3).
        inversion Hm; subst. exists bd3. split; [eapply werun_trans; eauto|]. split; [|exact HG].
        split; [apply (werun_end _ _ _ _ _ E3)|]. split; [exact Hnd3|exact Hl3].
    + inversion Hm; subst. exists bd2. split; [exact E12|]. split; [|split; [exact Hid|split; [exact Hsm|exact Htid]]].
      split; [apply (werun_end _ _ _ _ _ E12)|]. split; [exact Hnd2|exact Ht2].
  - assert (HG : WG {| st_next_id := tx_next_id t; st_segs := tx_segs t; st_tail := tx_tail t;
                       st_rotate := st_rotate w; st_failed := st_failed w; st_closed := st_closed w |}).
    { split; [exact Hnid|]. split; [exact Htsm|]. exact Httid. }
    destruct defer.
    + inversion Hm; subst. exists bd. split; [exact E1|]. split; [|exact HG]. split; [exact H1|]. split; [exact Hnd1|exact Htt1].
    + destruct (delete_files_wlink c (tx_delete t) bd e1 (tx_tail t) H1 Hnd1 Htt1) as (bd3 & E3 & Hnd3 & Hl3).
      inversion Hm; subst. exists bd3. split; [eapply werun_trans; eauto|]. split; [|exact HG].
      split; [apply (werun_end _ _ _ _ _ E3)|]. split; [exact Hnd3|exact Hl3].
Qed.

Lemma mutate_wlink c w t bd e r w' e' :
  WL c w bd (e_disk e) -> wtail_linked c (tx_tail t) bd (e_disk e) -> tx_ok c w t ->
  mutate w t e = (r, w', e') -> wop_link c bd e w' e'.
Proof.
  intros HW Ht Hok Hm. unfold mutate in Hm.
  destruct (mutate_gen false w t e) as [[[r0 w0] e0] d0] eqn:Eg. inversion Hm; subst.
  eapply mutate_gen_wlink; eauto.
Qed.

(* a transaction that creates the segment createNextSegment hands out *)
Lemma create_next_tx c w segs nb nid segs2 si del :
  cfg_ok c -> WG w -> st_next_id w + 1 < two64 ->
  create_next c (st_next_id w) segs nb = (nid, segs2, si) ->
  tx_ok c w {| tx_next_id := nid; tx_segs := segs2; tx_delete := del; tx_create := Some si; tx_tail := None |}.
Proof.
  intros Hc (Hid & _ & Htid) Hn Ecn.
  destruct (create_next_facts _ _ _ _ _ _ _ Hc Hid Ecn) as (Hn' & Hcod & Hh & Hsm).
  unfold create_next in Ecn. inversion Ecn; subst. clear Ecn.
  rewrite (N.mod_small (st_next_id w + 1)) by exact Hn.
  split; [cbn [tx_next_id]; exact Hn|]. split; [exact I|]. split; [exact I|].
  intros si' [= <-]. split; [reflexivity|]. split; [exact Hh|]. split; [exact Hsm|].
  split; [cbn [new_segment si_id tx_next_id]; lia|].
  unfold other_name, tail_id in *. destruct (st_tail w) as [tw|]; [|exact I].
  intros E. rewrite E in Htid. cbn [name_of new_segment si_base si_id snd] in Htid. lia.
Qed.

Lemma mutate_gen_create_wlink c defer w bd e segs nb nid segs2 si del r w' e' dels :
  cfg_ok c -> WL c w bd (e_disk e) -> st_next_id w + 1 < two64 ->
  create_next c (st_next_id w) segs nb = (nid, segs2, si) ->
  mutate_gen defer w {| tx_next_id := nid; tx_segs := segs2; tx_delete := del; tx_create := Some si; tx_tail := None |} e
    = (r, w', e', dels) ->
  wop_link c bd e w' e'.
Proof.
  intros Hc HW Hn Ecn Hm. eapply mutate_gen_wlink; [exact HW| | |exact Hm]; [exact I|].
  eapply create_next_tx; eauto. apply HW.
Qed.

Lemma mutate_create_wlink c w bd e segs nb nid segs2 si del r w' e' :
  cfg_ok c -> WL c w bd (e_disk e) -> st_next_id w + 1 < two64 ->
  create_next c (st_next_id w) segs nb = (nid, segs2, si) ->
  mutate w {| tx_next_id := nid; tx_segs := segs2; tx_delete := del; tx_create := Some si; tx_tail := None |} e
    = (r, w', e') ->
  wop_link c bd e w' e'.
Proof.
  intros Hc HW Hn Ecn Hm. unfold mutate in Hm.
  match type of Hm with context [mutate_gen false w ?t e] => destruct (mutate_gen false w t e) as [[[r0 w0] e0] d0] eqn:Eg end.
  inversion Hm; subst. eapply mutate_gen_create_wlink; eauto.
Qed.

(* the next id after a transaction: unchanged, or one more *)
Lemma mutate_gen_nid defer w t e r w' e' dels :
  mutate_gen defer w t e = (r, w', e', dels) -> st_next_id w' = st_next_id w \/ st_next_id w' = tx_next_id t.
Proof.
  unfold mutate_gen. destruct (io _ e) as [ok e1]. destruct ok; cbn [negb]; [|intros [= _ <- _ _]; auto].
  destruct (tx_create t).
  - destruct (seg_create _ _) as [[sw|] e2]; intros [= _ <- _ _]; auto.
  - intros [= _ <- _ _]; auto.
Qed.

(* ---------------- rotateSegmentLocked ---------------- *)
Lemma rotate_wlink c w bd e w' e' :
  cfg_ok c -> WL c w bd (e_disk e) -> st_next_id w + 1 < two64 ->
  rotate c w e = (w', e') ->
  wop_link c bd e w' e' /\ st_next_id w' <= st_next_id w + 1.
Proof.
  intros Hc HW Hn Hr. unfold rotate in Hr.
  destruct (st_rotate w) as [istart|]; [|inversion Hr; subst; split; [apply wop_link_same; assumption|lia]].
  set (w0 := {| st_next_id := st_next_id w; st_segs := st_segs w; st_tail := st_tail w; st_rotate := None;
                st_failed := st_failed w; st_closed := st_closed w |}) in *.
  assert (HW0 : WL c w0 bd (e_disk e)) by (eapply WL_ext; [| |exact HW]; reflexivity).
  destruct (st_closed w).
  { inversion Hr; subst. split; [exists bd; split; [apply werun_refl; apply HW|exact HW0]|cbn; lia]. }
  destruct (tail_info (st_segs w)) as [t|].
  2:{ inversion Hr; subst. split; [exists bd; split; [eapply werun_disk; [|apply werun_refl; apply HW]; reflexivity|exact HW0]|cbn; lia]. }
  match type of Hr with context [create_next c ?a ?b ?d] => destruct (create_next c a b d) as [[nid segs2] si] eqn:Ecn end.
  match type of Hr with context [mutate w0 ?t ?e0] => destruct (mutate w0 t e0) as [[r1 w1] e1] eqn:Em end.
  inversion Hr; subst w1 e1. clear Hr.
  split.
  - eapply wop_link_disk_l; [|eapply (mutate_create_wlink c w0); [exact Hc| |exact Hn|exact Ecn|exact Em]]; [reflexivity|exact HW0].
  - unfold mutate in Em.
    match type of Em with context [mutate_gen false w0 ?t ?e0] => destruct (mutate_gen false w0 t e0) as [[[r0 w2] e2] d0] eqn:Eg end.
    inversion Em; subst. destruct (mutate_gen_nid _ _ _ _ _ _ _ _ Eg) as [->| ->]; cbn [w0 st_next_id tx_next_id]; [lia|].
    unfold create_next in Ecn. inversion Ecn; subst. rewrite N.mod_small by exact Hn. lia.
Qed.

(* ---------------- resetEmptyFirstSegmentBaseIndex ---------------- *)
Lemma reset_first_wlink c w nb bd e r w' e' dels :
  cfg_ok c -> WL c w bd (e_disk e) -> st_next_id w + 1 < two64 ->
  reset_first c w nb e = (r, w', e', dels) ->
  wop_link c bd e w' e'.
Proof.
  intros Hc HW Hn Hr. pose proof HW as ((_ & _ & Ht) & (Hid & Hsm & Htid)). unfold reset_first in Hr.
  destruct (0 <? last_index (st_segs w) (st_tail w)).
  { inversion Hr; subst. apply wop_link_same; assumption. }
  destruct (tail_info (st_segs w)) as [t|].
  - destruct (si_base t =? nb).
    + eapply mutate_gen_wlink; [exact HW| | |exact Hr]; cbn [tx_tail]; [exact Ht|].
      split; [exact Hid|]. split; [exact Hsm|]. split; [exact Htid|]. intros si; discriminate.
    + match type of Hr with context [create_next c ?a ?b ?d] => destruct (create_next c a b d) as [[nid segs2] si] eqn:Ecn end.
      eapply mutate_gen_create_wlink; eauto.
  - match type of Hr with context [create_next c ?a ?b ?d] => destruct (create_next c a b d) as [[nid segs2] si] eqn:Ecn end.
    eapply mutate_gen_create_wlink; eauto.
Qed.

(* ---------------- StoreLogs ---------------- *)
Lemma sl_go_wlink c last ls w bd e r w' e' :
  WL c w bd (e_disk e) -> logs_ok ls -> frames_size ls < two30 ->
  sl_go last ls w e = (r, w', e') -> wop_link c bd e w' e'.
Proof.
  intros HW Hls Hfs H. unfold sl_go in H.
  destruct (check_logs last ls) as [res nbytes] eqn:Ec.
  assert (Hsame : (w', e') = (w, e) -> wop_link c bd e w' e').
  { intros [= -> ->]. apply wop_link_same; assumption. }
  destruct res; try (inversion H; subst; apply Hsame; reflexivity).
  destruct (st_tail w) as [tw|] eqn:Et; [|inversion H; subst; apply Hsame; reflexivity].
  destruct (seg_append tw ls e) as [[r0 tw'] e1] eqn:Ea.
  pose proof HW as ((H0 & Hnd & Ht) & (Hid & Hs & Htid)). rewrite Et in Ht, Hs. destruct Ht as (info & bs & T).
  unfold tail_id in Htid. rewrite Et in Htid.
  assert (Hcon : consec ls) by (apply (check_logs_consec last); [exact Hls|rewrite Ec; reflexivity]).
  assert (Hg : ws_index_start tw = 0 -> ws_off tw + l2_total tw ls < two32).
  { intros Hz. cbn [small_tail] in Hs. destruct (Hs Hz) as (S1 & S2 & S3). apply l2_append_guard; assumption. }
  destruct (seg_append_wlink c tw info bs ls bd e r0 tw' e1 H0 Hnd T Hcon Hls Hg Ea) as (bd' & bs' & E & Hnd' & T' & Hcase).
  assert (Hsm' : small_tw tw').
  { destruct Hcase as [->|(_ & Hne & Hz & ->)]; [exact Hs|]. apply small_after; assumption. }
  assert (Hn' : ws_name tw' = ws_name tw) by (destruct Hcase as [->|(_ & _ & _ & ->)]; reflexivity).
  assert (HWfail : tw' = tw -> wop_link c bd e w e1).
  { intros ->. exists bd'. split; [exact E|]. split; [split; [apply (werun_end _ _ _ _ _ E)|split; [exact Hnd'|]]|].
    - rewrite Et. cbn. eauto.
    - split; [exact Hid|]. split; [rewrite Et; exact Hs|]. unfold tail_id. rewrite Et. exact Htid. }
  destruct r0; try (inversion H; subst; destruct Hcase as [Hx|(Hr0 & _)]; [apply HWfail; exact Hx|discriminate]).
  inversion H; subst. exists bd'. split; [eapply werun_disk; [|exact E]; reflexivity|].
  unfold add_m. cbn [with_m e_disk]. split; [split; [apply (werun_end _ _ _ _ _ E)|split; [exact Hnd'|]]|].
  - cbn [st_tail wtail_linked]. eauto.
  - split; [exact Hid|]. split; [exact Hsm'|]. unfold tail_id. cbn [st_tail st_next_id]. rewrite Hn'. exact Htid.
Qed.

Theorem store_logs_wlink c w ls bd e r w' e' :
  cfg_ok c -> WL c w bd (e_disk e) -> st_next_id w + 1 < two64 ->
  logs_ok ls -> frames_size ls < two30 ->
  store_logs c w ls e = (r, w', e') -> wop_link c bd e w' e'.
Proof.
  intros Hc HW Hn Hls Hfs H. rewrite store_logs_unfold in H.
  assert (Hsame : (w', e') = (w, e) -> wop_link c bd e w' e').
  { intros [= -> ->]. apply wop_link_same; assumption. }
  destruct (st_closed w); [inversion H; subst; apply Hsame; reflexivity|].
  destruct ls as [|l0 lr]; [inversion H; subst; apply Hsame; reflexivity|]. set (ls := l0 :: lr) in *.
  destruct (st_failed w); [inversion H; subst; apply Hsame; reflexivity|].
  cbn zeta in H. destruct (tail_info (st_segs w)) as [ti|]; [|inversion H; subst; apply Hsame; reflexivity].
  destruct ((last_index (st_segs w) (st_tail w) =? 0) && negb (l_index l0 =? si_base ti)).
  - destruct (reset_first c w (l_index l0) e) as [[[r1 w1] e1] dels] eqn:Er.
    pose proof (reset_first_wlink c w _ bd e r1 w1 e1 dels Hc HW Hn Er) as (bd1 & E1 & HW1).
    assert (Hgo : r1 = ROk -> wop_link c bd e w' e').
    { intros ->. destruct (sl_go (last_index (st_segs w) (st_tail w)) ls w1 e1) as [[r2 w2] e2] eqn:Eg.
      inversion H; subst r2 w2 e'. clear H.
      destruct (sl_go_wlink c _ ls w1 bd1 e1 r w' e2 HW1 Hls Hfs Eg) as (bd2 & E2 & HW2).
      pose proof HW2 as ((H2 & Hnd2 & Ht2) & HG2).
      destruct (delete_files_wlink c dels bd2 e2 (st_tail w') H2 Hnd2 Ht2) as (bd3 & E3 & Hnd3 & Ht3).
      exists bd3. split; [eapply werun_trans; [exact E1|eapply werun_trans; eauto]|].
      split; [|exact HG2]. split; [apply (werun_end _ _ _ _ _ E3)|]. auto. }
    destruct r1; try solve [inversion H; subst; exists bd1; split; assumption]. apply Hgo. reflexivity.
  - eapply sl_go_wlink; eauto.
Qed.

(* ---------------- DeleteRange ---------------- *)
Lemma truncate_head_wlink c w nm bd e r w' e' :
  cfg_ok c -> WL c w bd (e_disk e) -> st_next_id w + 1 < two64 ->
  truncate_head c w nm e = (r, w', e') -> wop_link c bd e w' e'.
Proof.
  intros Hc HW Hn H. pose proof HW as ((_ & _ & Ht) & (Hid & Hsm & Htid)). unfold truncate_head in H.
  destruct (head_scan nm (tail_last (st_tail w)) (st_segs w) [] 0) as [[[rest del] ntr] head].
  destruct head as [h|].
  - eapply wop_link_disk_l; [|eapply (mutate_wlink c w); [| | |exact H]]; [reflexivity|exact HW|exact Ht|].
    split; [exact Hid|]. split; [exact Hsm|]. split; [exact Htid|]. intros si; discriminate.
  - match type of H with context [create_next c ?a ?b ?d] => destruct (create_next c a b d) as [[nid segs2] si] eqn:Ecn end.
    eapply wop_link_disk_l; [|eapply (mutate_create_wlink c w); [exact Hc| |exact Hn|exact Ecn|exact H]]; [reflexivity|exact HW].
Qed.

Lemma truncate_tail_wlink c w nm bd e r w' e' :
  cfg_ok c -> WL c w bd (e_disk e) -> st_next_id w + 1 < two64 ->
  truncate_tail c w nm e = (r, w', e') -> wop_link c bd e w' e'.
Proof.
  intros Hc HW Hn H. pose proof HW as ((H0 & Hnd & Ht) & (Hid & Hs & Htid)). unfold truncate_tail in H.
  destruct (tail_scan nm (last_index (st_segs w) (st_tail w)) (rev (st_segs w)) [] 0) as [[rrest del] ntr].
  assert (Hfin : forall tw0 bd0 e0 t' ntr' rest,
            WL c {| st_next_id := st_next_id w; st_segs := st_segs w; st_tail := tw0; st_rotate := st_rotate w;
                    st_failed := st_failed w; st_closed := st_closed w |} bd0 (e_disk e0) ->
            werun c bd e bd0 e0 ->
            (let segs1 := seg_set t' rest in
             let '(nid, segs2, si) := create_next c (st_next_id w) segs1 0 in
             let e1 := add_m e0 (fun m => {| m_bytes_written := m_bytes_written m; m_entries_written := m_entries_written m;
                                     m_appends := m_appends m; m_bytes_read := m_bytes_read m;
                                     m_entries_read := m_entries_read m; m_rotations := m_rotations m;
                                     m_head_trunc := m_head_trunc m; m_tail_trunc := (m_tail_trunc m + ntr') mod two64;
                                     m_stable_gets := m_stable_gets m; m_stable_sets := m_stable_sets m |}) in
             mutate {| st_next_id := st_next_id w; st_segs := st_segs w; st_tail := tw0; st_rotate := st_rotate w;
                       st_failed := st_failed w; st_closed := st_closed w |}
                    {| tx_next_id := nid; tx_segs := segs2; tx_delete := del; tx_create := Some si; tx_tail := None |} e1)
            = (r, w', e') -> wop_link c bd e w' e').
  { intros tw0 bd0 e0 t' ntr' rest HW0 E0 Hm. cbn zeta in Hm.
    match type of Hm with context [create_next c ?a ?b ?d] => destruct (create_next c a b d) as [[nid segs2] si] eqn:Ecn end.
    match type of Hm with mutate ?w0 _ ?e1 = _ =>
      pose proof (mutate_create_wlink c w0 bd0 e1 _ _ _ _ _ _ r w' e' Hc HW0 Hn Ecn Hm) as (bd1 & E1 & HW1) end.
    exists bd1. split; [eapply werun_trans; [exact E0|]; eapply werun_disk_l; [|exact E1]; reflexivity|exact HW1]. }
  destruct rrest as [|t rr].
  - match type of H with context [create_next c ?a ?b ?d] => destruct (create_next c a b d) as [[nid segs2] si] eqn:Ecn end.
    eapply (mutate_create_wlink c w); eauto.
  - destruct (si_sealed t).
    + eapply (Hfin (st_tail w) bd e); [|apply werun_refl; exact H0|exact H].
      eapply WL_ext; [| |exact HW]; reflexivity.
    + destruct (st_tail w) as [tw|] eqn:Et; [|inversion H; subst; apply wop_link_same; rewrite <- Et in *; exact HW].
      destruct (seg_force_seal tw e) as [[r0 tw'] e1] eqn:Ea.
      destruct Ht as (info & bs & T).
      assert (Hg : ws_index_start tw = 0 -> ws_off tw + fs_total tw < two32).
      { intros Hz. cbn [small_tail] in Hs. destruct (Hs Hz) as (S1 & S2 & S3). apply l2_force_seal_guard; assumption. }
      destruct (seg_force_seal_wlink c tw info bs bd e r0 tw' e1 H0 Hnd T Hg Ea) as (bd' & bs' & E & Hnd' & T' & Hcase).
      assert (Hn' : ws_name tw' = ws_name tw).
      { destruct Hcase as [->|_]; [reflexivity|]. unfold seg_force_seal in Ea.
        destruct (0 <? ws_index_start tw); [inversion Ea; reflexivity|]. destruct (ws_n tw =? 0); [inversion Ea; reflexivity|].
        cbn zeta in Ea. destruct (io _ e) as [ok1 ex1]. destruct (negb ok1); [inversion Ea; reflexivity|].
        destruct (io _ ex1) as [ok2 ex2]. destruct (negb ok2); inversion Ea; reflexivity. }
      assert (HW1 : WL c {| st_next_id := st_next_id w; st_segs := st_segs w; st_tail := Some tw';
                            st_rotate := st_rotate w; st_failed := st_failed w; st_closed := st_closed w |}
                       bd' (e_disk e1)).
      { split; [split; [apply (werun_end _ _ _ _ _ E)|split; [exact Hnd'|cbn [st_tail wtail_linked]; eauto]]|].
        split; [exact Hid|]. split.
        - cbn [st_tail small_tail]. destruct Hcase as [->|Hpos]; [exact Hs|]. intros Hz. lia.
        - unfold tail_id in *. cbn [st_tail st_next_id]. rewrite Hn'. rewrite Et in Htid. exact Htid. }
      destruct r0; try solve [inversion H; subst; exists bd'; split; assumption].
      eapply (Hfin (Some tw') bd' e1); [exact HW1|exact E|exact H].
Qed.

Theorem delete_range_wlink c w mn mx bd e r w' e' :
  cfg_ok c -> WL c w bd (e_disk e) -> st_next_id w + 1 < two64 ->
  delete_range c w mn mx e = (r, w', e') -> wop_link c bd e w' e'.
Proof.
  intros Hc HW Hn H. unfold delete_range in H.
  assert (Hsame : (w', e') = (w, e) -> wop_link c bd e w' e').
  { intros [= -> ->]. apply wop_link_same; assumption. }
  destruct (st_closed w); [inversion H; subst; apply Hsame; reflexivity|].
  destruct (mx <? mn); [inversion H; subst; apply Hsame; reflexivity|].
  destruct (st_failed w); [inversion H; subst; apply Hsame; reflexivity|].
  cbn zeta in H.
  destruct ((mx <? first_index (st_segs w) (st_tail w)) || (last_index (st_segs w) (st_tail w) <? mn));
    [inversion H; subst; apply Hsame; reflexivity|].
  destruct (mn <=? first_index (st_segs w) (st_tail w)); [eapply truncate_head_wlink; eauto|].
  destruct (last_index (st_segs w) (st_tail w) <=? mx); [eapply truncate_tail_wlink; eauto|].
  inversion H; subst; apply Hsame; reflexivity.
Qed.
