(* DiskFacts1.v -- the directory level of the link, part 1:
     - finite-map facts of the byte-level directory, in lock step with L2's;
     - the bytes of a segment file depend on its info only through the header
       fields (hdr_eq): cstate / image / rep / frep_at transfer;
     - torn_over (a torn write over arbitrary old content) over zeros is
       RecoverFacts.torn;
     - every byte-level action preserves drep w.r.t. the L2 action it stands
       for: create, write (via commit_rep), fsync, delete, metadata. *)
From RW Require Import Base.Bytes Base.BytesFacts Base.Crc32c Fmt.Codec Fmt.Frame Fmt.FrameFacts
     Seg.Writer Seg.Recover Seg.SegAbs Seg.WriterFacts Seg.RecoverFacts Seg.ChainFacts
     Wal.Model Wal.Spec Wal.CrashFacts0 Link.Abs Link.AbsFacts1 Link.AbsFacts2 Link.AbsFacts3 Link.AbsFacts4
     Link.Disk Gen.Constants.
From Coq Require Import ZifyN ZifyNat ZifyBool.
Open Scope N_scope.

(* ---------------- the byte-level directory ---------------- *)
Lemma blookup_bupdate_eq n f bd : blookup n (bupdate n f bd) = Some f.
Proof.
  induction bd as [|[m g] r IH]; cbn [bupdate blookup].
  - rewrite fname_eqb_refl; reflexivity.
  - destruct (fname_eqb n m) eqn:E; cbn [blookup]; [rewrite fname_eqb_refl; reflexivity|rewrite E; exact IH].
Qed.

Lemma blookup_bupdate_neq n m f bd : n <> m -> blookup n (bupdate m f bd) = blookup n bd.
Proof.
  intros Hne. induction bd as [|[k g] r IH]; cbn [bupdate blookup].
  - replace (fname_eqb n m) with false by (symmetry; apply fname_eqb_neq; exact Hne). reflexivity.
  - destruct (fname_eqb m k) eqn:E; cbn [blookup].
    + apply fname_eqb_eq in E. subst k.
      replace (fname_eqb n m) with false by (symmetry; apply fname_eqb_neq; exact Hne). reflexivity.
    + rewrite IH. reflexivity.
Qed.

Lemma finfo_name c n : name_of (finfo c n) = n.
Proof. destruct n. reflexivity. Qed.

(* lock step: lookup *)
Lemma frel_lookup c bd fs n f :
  frel c bd fs -> lookup n fs = Some f ->
  exists bf, blookup n bd = Some bf /\ hdr_wf (finfo c n) /\ frep (finfo c n) bf f.
Proof.
  intros H. induction H as [|[m bf] [m' g] bd fs (Hn & Hh & Hf) _ IH]; cbn [lookup blookup]; [discriminate|].
  cbn [fst snd] in *. subst m'. destruct (fname_eqb n m) eqn:E.
  - apply fname_eqb_eq in E. subst m. intros [= ->]. exists bf. auto.
  - exact IH.
Qed.

Lemma frel_lookup_none c bd fs n : frel c bd fs -> lookup n fs = None -> blookup n bd = None.
Proof.
  intros H. induction H as [|[m bf] [m' g] bd fs (Hn & _) _ IH]; cbn [lookup blookup]; [reflexivity|].
  cbn [fst] in Hn. subst m'. destruct (fname_eqb n m); [discriminate|exact IH].
Qed.

Lemma frel_blookup c bd fs n bf :
  frel c bd fs -> blookup n bd = Some bf -> exists f, lookup n fs = Some f.
Proof.
  intros H Hb. destruct (lookup n fs) as [f|] eqn:E; [eauto|].
  rewrite (frel_lookup_none _ _ _ _ H E) in Hb. discriminate.
Qed.

Lemma frel_keys c bd fs : frel c bd fs -> map fst bd = map fst fs.
Proof.
  intros H. induction H as [|x y bd fs (Hn & _) _ IH]; [reflexivity|]. cbn [map]. rewrite Hn, IH. reflexivity.
Qed.

(* lock step: update, remove *)
Lemma frel_update c bd fs n bf f :
  frel c bd fs -> hdr_wf (finfo c n) -> frep (finfo c n) bf f ->
  frel c (bupdate n bf bd) (update n f fs).
Proof.
  intros H Hh Hf. induction H as [|[m b] [m' g] bd fs (Hn & Hx) Hr IH]; cbn [update bupdate].
  - constructor; [|constructor]. cbn [fst snd]. auto.
  - cbn [fst snd] in *. subst m'. destruct (fname_eqb n m).
    + constructor; [|exact Hr]. cbn [fst snd]. auto.
    + constructor; [|exact IH]. cbn [fst snd]. auto.
Qed.

Lemma frel_remove c bd fs n : frel c bd fs -> frel c (bremove n bd) (remove n fs).
Proof.
  intros H. induction H as [|[m b] [m' g] bd fs (Hn & Hx) Hr IH]; cbn [remove bremove]; [constructor|].
  cbn [fst snd] in *. subst m'. destruct (fname_eqb n m); [exact Hr|].
  constructor; [|exact IH]. cbn [fst snd]. auto.
Qed.

(* ---------------- the bytes depend on the header fields only ---------------- *)
Lemma hdr_eq_refl i : hdr_eq i i.
Proof. unfold hdr_eq. auto. Qed.
Lemma hdr_eq_sym i j : hdr_eq i j -> hdr_eq j i.
Proof. unfold hdr_eq. intuition congruence. Qed.

Lemma file_header_hdr_eq i j : hdr_eq i j -> file_header i = file_header j.
Proof. intros (A & B & C). unfold file_header. rewrite A, B, C. reflexivity. Qed.

Lemma cstep_hdr_eq i j s b : hdr_eq i j -> cstep i s b = cstep j s b.
Proof.
  intros H. pose proof (file_header_hdr_eq _ _ H) as Hh.
  unfold cstep, batch_write, batch_body, c_offs', c_pos, c_pend. rewrite Hh. reflexivity.
Qed.

Lemma cstate_hdr_eq i j bs : hdr_eq i j -> cstate i bs = cstate j bs.
Proof.
  intros H. unfold cstate. generalize c0. induction bs as [|b r IH]; intros s; cbn [fold_left]; [reflexivity|].
  rewrite (cstep_hdr_eq _ _ _ _ H). apply IH.
Qed.

Lemma image_hdr_eq i j bs : hdr_eq i j -> image i bs = image j bs.
Proof. intros H. unfold image. rewrite (cstate_hdr_eq _ _ _ H). reflexivity. Qed.

Lemma batch_write_hdr_eq i j s b : hdr_eq i j -> batch_write i s b = batch_write j s b.
Proof.
  intros H. unfold batch_write, batch_body, c_offs', c_pos, c_pend. rewrite (file_header_hdr_eq _ _ H). reflexivity.
Qed.

Lemma rep_hdr_eq i j bs f : hdr_eq i j -> rep i bs f -> rep j bs f.
Proof.
  intros H [A B C D]. constructor; auto.
  - rewrite <- (image_hdr_eq _ _ _ H). exact B.
  - rewrite <- (cstate_hdr_eq _ _ _ H). exact C.
Qed.

Lemma rep_p_hdr_eq i j bs b f : hdr_eq i j -> rep_p i bs b f -> rep_p j bs b f.
Proof.
  intros H (R & pb & Hp & Hb1 & Hb2 & Hb3). split; [eapply rep_hdr_eq; eauto|].
  exists pb. split; [exact Hp|]. split; [exact Hb1|].
  rewrite <- (image_hdr_eq _ _ _ H), <- (cstate_hdr_eq _ _ _ H). auto.
Qed.

Lemma frep_at_hdr_eq i j bs pb bf f : hdr_eq i j -> frep_at i bs pb bf f -> frep_at j bs pb bf f.
Proof.
  intros H [A B C D E F G]. constructor; auto.
  - destruct pb; [eapply rep_p_hdr_eq|eapply rep_hdr_eq]; eauto.
  - rewrite <- (image_hdr_eq _ _ _ H). exact C.
  - rewrite <- (image_hdr_eq _ _ _ H). exact D.
  - rewrite E. destruct pb; [|reflexivity].
    rewrite (image_hdr_eq _ _ _ H), (cstate_hdr_eq _ _ _ H), (batch_write_hdr_eq _ _ _ _ H). reflexivity.
Qed.

Lemma frep_hdr_eq i j bf f : hdr_eq i j -> frep i bf f -> frep j bf f.
Proof. intros H (bs & pb & R). exists bs, pb. eapply frep_at_hdr_eq; eauto. Qed.

(* ---------------- torn writes ---------------- *)
Lemma torn_over_length old new T : torn_over old new T -> length old = length new /\ length T = length new.
Proof.
  induction 1 as [|co cn old new T Hco Hcn _ [IH1 IH2]|co cn old new T Hco Hcn _ [IH1 IH2]];
    [auto|rewrite !app_length; lia..].
Qed.

Lemma zeros_split8 n c r : length c = 8%nat -> c ++ r = zeros n -> c = zeros 8 /\ r = zeros (n - 8) /\ (8 <= n)%nat.
Proof.
  intros Hc H. assert (Hn : (8 <= n)%nat).
  { apply (f_equal (@length N)) in H. rewrite app_length, zeros_length in H. lia. }
  replace n with (8 + (n - 8))%nat in H by lia. rewrite zeros_app in H.
  assert (H1 : firstn 8 (c ++ r) = firstn 8 (zeros 8 ++ zeros (n - 8))) by (rewrite H; reflexivity).
  assert (H2 : skipn 8 (c ++ r) = skipn 8 (zeros 8 ++ zeros (n - 8))) by (rewrite H; reflexivity).
  rewrite <- Hc in H1 at 1. rewrite <- Hc in H2 at 1.
  rewrite firstn_app_exact in H1. rewrite skipn_app_exact in H2.
  change 8%nat with (length (zeros 8)) in H1 at 1. change 8%nat with (length (zeros 8)) in H2 at 1.
  rewrite firstn_app_exact in H1. rewrite skipn_app_exact in H2. auto.
Qed.

Lemma torn_over_zeros new T n : torn_over (zeros n) new T -> torn new T.
Proof.
  intros H. remember (zeros n) as old eqn:E. revert n E.
  induction H as [|co cn old new T Hco Hcn _ IH|co cn old new T Hco Hcn _ IH]; intros n E.
  - constructor.
  - destruct (zeros_split8 n co old Hco E) as (_ & Er & _). apply torn_keep; [exact Hcn|]. eapply IH; eauto.
  - destruct (zeros_split8 n co old Hco E) as (Ec & Er & _). subst co. apply torn_zero; [exact Hcn|]. eapply IH; eauto.
Qed.

Lemma torn_torn_over new T : torn new T -> torn_over (zeros (length new)) new T.
Proof.
  induction 1 as [|c new T Hc _ IH|c new T Hc _ IH].
  - constructor.
  - rewrite app_length, Hc, zeros_app. apply tov_new; [apply zeros_length|exact Hc|exact IH].
  - rewrite app_length, Hc, zeros_app. apply tov_old; [apply zeros_length|exact Hc|exact IH].
Qed.

Lemma region_zeros a k n : region (a ++ zeros k) (length a) n = zeros n.
Proof.
  unfold region. rewrite skipn_app_exact. rewrite <- zeros_app, firstn_zeros. f_equal. lia.
Qed.

(* ---------------- one file: create, write, fsync ---------------- *)
Definition bwrite_file (bf : bfile) (off : N) (bs : bytes) : bfile :=
  {| bf_data := pwrite (bf_data bf) (off, bs); bf_sync := bf_sync bf;
     bf_pend := bf_pend bf ++ [(off, bs)]; bf_dir := bf_dir bf |}.
Definition bsync_file (bf : bfile) : bfile :=
  {| bf_data := bf_data bf; bf_sync := bf_data bf; bf_pend := []; bf_dir := true |}.

Lemma bapply_write bd n off bs bf :
  blookup n bd = Some bf -> bapply bd (BWrite n off bs) = bupdate n (bwrite_file bf off bs) bd.
Proof. intros H. cbn [bapply]. rewrite H. reflexivity. Qed.

Lemma bapply_sync bd n bf :
  blookup n bd = Some bf -> bapply bd (BSync n) = bupdate n (bsync_file bf) bd.
Proof. intros H. cbn [bapply]. rewrite H. reflexivity. Qed.

Lemma apply_sync_files d n f :
  lookup n (dk_files d) = Some f -> dk_files (apply_act d (ASync n)) = update n (crashed true f) (dk_files d).
Proof. intros H. cbn [apply_act]. rewrite H. unfold crashed, synced. destruct (df_pend f); reflexivity. Qed.

Lemma apply_write_files d n off l pb f :
  lookup n (dk_files d) = Some f -> df_pend f = None ->
  dk_files (apply_act d (AWrite n off l pb)) = update n (written f pb) (dk_files d).
Proof. intros H Hp. cbn [apply_act]. rewrite H, Hp. reflexivity. Qed.

Lemma image_nil info : image info [] = [].
Proof. reflexivity. Qed.

Lemma frep_create info size : frep_at info [] None (bcreated size) (created size).
Proof.
  constructor; cbn [opt_batch app bcreated created bf_sync bf_pend bf_dir df_dir cur_ents df_pend df_ents].
  - constructor; reflexivity.
  - constructor.
  - rewrite image_nil. unfold two32. cbn. lia.
  - exists (N.to_nat size). reflexivity.
  - reflexivity.
  - reflexivity.
  - reflexivity.
Qed.

Lemma cur_ents_crashed_true f : cur_ents (crashed true f) = cur_ents f.
Proof. unfold crashed, cur_ents, synced. destruct (df_pend f); reflexivity. Qed.

(* fsync: what was pending is committed; the durable image is the content *)
Lemma frep_sync info bs pb bf f :
  frep_at info bs pb bf f -> frep_at info (bs ++ opt_batch pb) None (bsync_file bf) (crashed true f).
Proof.
  intros [A B C [k D] E F G]. unfold bf_wf in F. rewrite D, E in F.
  constructor; cbn [opt_batch bsync_file bf_sync bf_pend bf_dir bf_data].
  - destruct pb as [b|]; cbn [opt_batch].
    + apply (rep_crashed info bs b f true A).
    + rewrite app_nil_r. destruct A as [A1 A2 A3 A4]. unfold crashed. rewrite A4.
      constructor; cbn [df_ents df_end df_seal df_pend]; auto.
  - rewrite cur_ents_crashed_true. exact B.
  - rewrite app_nil_r. exact C.
  - rewrite F. destruct pb as [b|]; cbn [opt_batch pwrites fold_left pwrite fst snd].
    + unfold pwrite. cbn [fst snd].
      rewrite to_nat_len, overwrite_app, skipn_zeros, app_assoc, <- image_snoc. eexists. reflexivity.
    + rewrite app_nil_r. exists k. reflexivity.
  - reflexivity.
  - reflexivity.
  - unfold crashed, synced. destruct (df_pend f); reflexivity.
Qed.

(* pwrite of the bytes of one more batch right behind the image *)
Lemma frep_write info bs bf f b pb :
  frep_at info bs None bf f -> rep_p info bs b (written f pb) -> Forall log_ok (pb_ents pb) ->
  len (image info (bs ++ [b])) < two32 ->
  frep_at info bs (Some b) (bwrite_file bf (len (image info bs)) (batch_write info (cstate info bs) b))
          (written f pb).
Proof.
  intros [A B C D E F G] Rp Hok Hlen. cbn [opt_batch] in *.
  constructor; cbn [opt_batch bwrite_file bf_sync bf_pend bf_dir bf_data written df_dir].
  - exact Rp.
  - unfold cur_ents. cbn [written df_pend df_ents]. apply Forall_app. split; [|exact Hok].
    unfold cur_ents in B. rewrite (rep_pend _ _ _ A) in B. exact B.
  - exact Hlen.
  - exact D.
  - rewrite E. reflexivity.
  - unfold bf_wf in *. cbn [bwrite_file bf_data bf_sync bf_pend]. unfold pwrites. rewrite fold_left_app. cbn [fold_left].
    unfold pwrites in F. rewrite <- F. reflexivity.
  - exact G.
Qed.

(* ---------------- disks: every action preserves drep ---------------- *)
Theorem bcreate_drep c bd d n size :
  drep c bd d -> hdr_wf (finfo c n) ->
  drep c (bapply bd (BCreate n size)) (apply_act d (ACreate n size)).
Proof.
  intros H Hh. unfold drep. cbn [apply_act dk_files bapply]. apply frel_update; [exact H|exact Hh|].
  exists [], None. apply frep_create.
Qed.

Theorem bsync_drep c bd d n :
  drep c bd d -> drep c (bapply bd (BSync n)) (apply_act d (ASync n)).
Proof.
  intros H. unfold drep in *. destruct (lookup n (dk_files d)) as [f|] eqn:El.
  - destruct (frel_lookup _ _ _ _ _ H El) as (bf & Hb & Hh & bs & pb & R).
    rewrite (bapply_sync _ _ _ Hb), (apply_sync_files _ _ _ El).
    apply frel_update; [exact H|exact Hh|]. eexists. exists None. apply frep_sync. exact R.
  - pose proof (frel_lookup_none _ _ _ _ H El) as Hb. cbn [apply_act bapply]. rewrite El, Hb. exact H.
Qed.

Theorem bdelete_drep c bd d n :
  drep c bd d -> drep c (bapply bd (BDelete n)) (apply_act d (ADelete n)).
Proof. intros H. unfold drep in *. cbn [apply_act dk_files bapply]. apply frel_remove. exact H. Qed.

(* metadata commit, stable store, database initialisation, failed attempt *)
Definition meta_act (a : act) : Prop :=
  match a with ACommit _ | ASetStable _ _ | AInitMeta | AFail _ => True | _ => False end.

Lemma meta_act_files d a : meta_act a -> dk_files (apply_act d a) = dk_files d.
Proof. destruct a; cbn; intros H; try contradiction; reflexivity. Qed.

Theorem bnone_drep c bd d a : meta_act a -> drep c bd d -> drep c (bapply bd BNone) (apply_act d a).
Proof. intros Hm H. unfold drep in *. rewrite (meta_act_files _ _ Hm). exact H. Qed.

(* a write to a missing file has no effect at either level *)
Lemma bwrite_missing_drep c bd d n off l pb bytes :
  drep c bd d -> lookup n (dk_files d) = None ->
  drep c (bapply bd (BWrite n off bytes)) (apply_act d (AWrite n off l pb)).
Proof.
  intros H El. unfold drep in *. pose proof (frel_lookup_none _ _ _ _ H El) as Hb.
  cbn [apply_act bapply]. rewrite El, Hb. exact H.
Qed.

(* THE WRITE.  The file n represents the committed batches bs (nothing pending).
   One successful byte-level operation of the writer of that image (info: any
   segment info with the header fields of the file) commits the batch b: it
   writes [batch_write] at the end of the image.  The byte-level pwrite of
   exactly these bytes and L2's AWrite abstracting it lead to drep-related
   disks (the crash window: b pending on both sides), and so do the fsyncs. *)
Theorem bwrite_drep c bd d info n bs bf f op w1' acts b ls :
  let s := cstate info bs in
  let new := batch_write info s b in
  let off := len (image info bs) in
  let aw := AWrite n off (len new) (pb_of ls w1') in
  drep c bd d -> name_of info = n -> hdr_eq info (finfo c n) ->
  lookup n (dk_files d) = Some f -> blookup n bd = Some bf -> frep_at info bs None bf f ->
  wrun (wst info s) [op] = Some (w1', acts, [b]) -> fst b = map enc ls -> logs_ok ls ->
  len (image info (bs ++ [b])) < two32 ->
  acts = [WWrite off new; WSync] /\ w1' = wst info (cstate info (bs ++ [b])) /\
  drep c (bapply bd (BWrite n off new)) (apply_act d aw) /\
  drep c (bapply (bapply bd (BWrite n off new)) (BSync n)) (apply_act (apply_act d aw) (ASync n)) /\
  frep_at info bs (Some b) (bwrite_file bf off new) (written f (pb_of ls w1')) /\
  frep_at info (bs ++ [b]) None (bsync_file (bwrite_file bf off new)) (synced f (pb_of ls w1')).
Proof.
  intros s new off aw H Hn He El Hb R Hrun Hfb Hls Hlen. subst n.
  pose proof (fr_rep _ _ _ _ _ R) as Rr. cbn in Rr.
  destruct (commit_rep info bs f op w1' acts b ls d Rr El Hrun Hfb Hlen) as (Ea & Ew & _ & _ & Rp & _ & _).
  fold s new off in Ea, Rp.
  assert (Rw : frep_at info bs (Some b) (bwrite_file bf off new) (written f (pb_of ls w1'))).
  { apply frep_write; auto. }
  assert (Hh : hdr_wf (finfo c (name_of info))).
  { destruct (frel_lookup _ _ _ _ _ H El) as (_ & _ & Hh & _). exact Hh. }
  assert (D1 : drep c (bapply bd (BWrite (name_of info) off new)) (apply_act d aw)).
  { unfold drep, aw. rewrite (bapply_write _ _ _ _ _ Hb).
    rewrite (apply_write_files _ _ _ _ _ _ El (rep_pend _ _ _ Rr)).
    apply frel_update; [exact H|exact Hh|]. exists bs, (Some b). eapply frep_at_hdr_eq; eauto. }
  split; [exact Ea|]. split; [exact Ew|]. split; [exact D1|]. split; [apply bsync_drep; exact D1|]. split; [exact Rw|].
  pose proof (frep_sync _ _ _ _ _ Rw) as Rs. cbn [opt_batch] in Rs.
  replace (crashed true (written f (pb_of ls w1'))) with (synced f (pb_of ls w1')) in Rs by reflexivity.
  exact Rs.
Qed.

Lemma torn_over_zeros_iff new T :
  (forall n, torn_over (zeros n) new T -> torn new T) /\ (torn new T -> torn_over (zeros (length new)) new T).
Proof. split; [intros n; apply torn_over_zeros|apply torn_torn_over]. Qed.
