(* Abs.v -- the link between the two models of a segment file (definitions).

   L1 (Seg/*.v) is the byte level: the writer buffers frames and emits
   WWrite/WSync with concrete byte strings, recovery scans a byte image,
   readers decode frames.  L2 (Wal/Model.v) is the abstract file [dfile] and
   the numeric writer [wseg] every WAL-level theorem is about.

   This file defines how an L2 object REPRESENTS an L1 object:
     enc / ent / ents   the payload bytes of a log record, the L1 batch of an
                        L2 batch of records
     rep info bs f      the abstract file f stands for the byte image
                        [image info bs] of the committed L1 batches bs
     rep_p info bs b f  ... with one more batch b written but not yet synced
     rep_w w1 w2        the numeric writer w2 stands for the byte writer w1
     res_abs, abs_acts  L1 results / I/O actions seen at L2
   The theorems are in Link/AbsFacts*.v, their statements in Props/Link.v. *)
From RW Require Import Base.Bytes Base.Crc32c Fmt.Codec Fmt.Frame Seg.Writer Seg.SegAbs
     Seg.Recover Seg.Reader Wal.Model Gen.Constants.
Open Scope N_scope.

(* ------------------------------------------------------------------ *)
(* payloads                                                             *)
(* the bytes stored for a record (the empty string for a record the codec
   refuses; StoreLogs never hands such a record to the segment writer) *)
Definition enc (l : log) : bytes :=
  match encode_log l with Some b => b | None => [] end.

Definition ent (l : log) : entry := (l_index l, enc l).
Definition ents (ls : list log) : list entry := map ent ls.

(* what the byte-level theorems need to know about a stored record: its
   encoding consists of bytes, and it is not larger than the writer accepts *)
Definition enc_ok (l : log) : Prop := wf_bytes (enc l) /\ len (enc l) <= MaxEntrySize.
Definition encs_ok (ls : list log) : Prop := Forall enc_ok ls.

(* consecutive indexes starting at i (seg_append only looks at the first index
   of a batch: StoreLogs has checked the rest) *)
Fixpoint consec_from (i : N) (ls : list log) : Prop :=
  match ls with
  | [] => True
  | l :: r => l_index l = i /\ consec_from (i + 1) r
  end.
Definition consec (ls : list log) : Prop :=
  match ls with [] => True | l0 :: _ => consec_from (l_index l0) ls end.

(* ------------------------------------------------------------------ *)
(* files                                                                *)
(* entry payloads of a list of L1 batches, oldest first *)
Definition pls (bs : list batch) : list bytes := flat_map fst bs.

(* f stands for the file whose bytes are [image info bs] (followed by zeros):
   same entries, same end offset, same index start, nothing pending *)
Record rep (info : seginfo) (bs : list batch) (f : dfile) : Prop := {
  rep_ents : pls bs = map enc (df_ents f);
  rep_end  : df_end f = len (image info bs);
  rep_seal : df_seal f = c_istart (cstate info bs);
  rep_pend : df_pend f = None }.

Definition unpend (f : dfile) : dfile :=
  {| df_ents := df_ents f; df_end := df_end f; df_seal := df_seal f; df_pend := None;
     df_dir := df_dir f; df_size := df_size f |}.

(* the L2 batch pb stands for the L1 batch b written behind bs *)
Definition rep_b (info : seginfo) (bs : list batch) (b : batch) (pb : pbatch) : Prop :=
  fst b = map enc (pb_ents pb) /\
  pb_end pb = len (image info (bs ++ [b])) /\
  pb_seal pb = c_istart (cstate info (bs ++ [b])).

(* f stands for [image info bs] with the bytes of b written behind it but not
   yet known to be durable *)
Definition rep_p (info : seginfo) (bs : list batch) (b : batch) (f : dfile) : Prop :=
  rep info bs (unpend f) /\ exists pb, df_pend f = Some pb /\ rep_b info bs b pb.

(* ------------------------------------------------------------------ *)
(* writers                                                              *)
Record rep_w (w1 : wstate) (w2 : wseg) : Prop := {
  rw_name   : ws_name w2 = name_of (w_info w1);
  rw_base   : ws_base w2 = si_base (w_info w1);
  rw_min    : ws_min w2 = si_min (w_info w1);
  rw_limit  : ws_limit w2 = si_size_limit (w_info w1);
  rw_n      : ws_n w2 = len (w_offsets w1);
  rw_off    : ws_off w2 = w_off w1;
  rw_buf    : w_buf w1 = if ws_hdr w2 then file_header (w_info w1) else [];
  rw_crc    : w_crc w1 = crc32c (w_buf w1);
  rw_istart : ws_index_start w2 = w_index_start w1;
  rw_cidx   : ws_commit_idx w2 = w_commit_idx w1 }.

(* the abstraction as a function (rep_w w1 (wabs w1) whenever the buffer of w1
   is empty or holds just the file header: lemma rep_w_wabs) *)
Definition wabs (w : wstate) : wseg :=
  {| ws_name := name_of (w_info w); ws_base := si_base (w_info w); ws_min := si_min (w_info w);
     ws_limit := si_size_limit (w_info w); ws_n := len (w_offsets w); ws_off := w_off w;
     ws_hdr := negb (len (w_buf w) =? 0); ws_index_start := w_index_start w;
     ws_commit_idx := w_commit_idx w |}.

(* results *)
Definition res_abs (r : wres) : result :=
  match r with
  | WOk => ROk | WErrSealed => RErrSealed | WErrTooBig => RErrTooBig
  | WErrNonMono => RErrNonMono | WErrShortBuf => RErrOther | WErrIO => RErrIO
  end.

(* the L2 view of the I/O actions of one L1 operation that committed the
   records ls and left the writer w1': a write of len bs bytes at off carrying
   the abstract batch, and the fsync *)
Definition pb_of (ls : list log) (w1' : wstate) : pbatch :=
  {| pb_ents := ls; pb_end := w_off w1'; pb_seal := w_index_start w1' |}.

Definition act_abs (n : fname) (pb : pbatch) (a : waction) : act :=
  match a with
  | WWrite off bs => AWrite n off (len bs) pb
  | WSync => ASync n
  end.
Definition abs_acts (n : fname) (pb : pbatch) (acts : list waction) : list act :=
  map (act_abs n pb) acts.

(* performing a list of L2 actions in an environment, up to and including the
   first one that fails (Wal/Model.v io: the failed attempt is recorded as
   AFail and has no effect on the disk) *)
Fixpoint do_acts (e : env) (acts : list act) : env :=
  match acts with
  | [] => e
  | a :: r => let '(ok, e') := io a e in if ok then do_acts e' r else e'
  end.

(* L1 fault of the L2 fault counter: the first action of an operation is the
   write, the second the fsync *)
Definition wfault_of (fl : option nat) : wfault :=
  match fl with
  | Some O => FWrite
  | Some (S O) => FSync
  | _ => FNone
  end.

(* a segment info as the sealed reader gets it (index start filled in) *)
Definition sealed_info (info : seginfo) (istart mn mx : N) : seginfo :=
  {| si_id := si_id info; si_base := si_base info; si_min := mn; si_max := mx;
     si_codec := si_codec info; si_index_start := istart; si_sealed := true;
     si_size_limit := si_size_limit info |}.

(* ------------------------------------------------------------------ *)
(* the whole link, as an invariant of a segment file's life            *)
(* bs: the L1 batches committed so far; f: the L2 file; w1 / w2: the L1 / L2
   writers; file: the bytes on the disk *)
Record linked (info : seginfo) (bs : list batch) (f : dfile) (w1 : wstate) (w2 : wseg)
              (file : bytes) : Prop := {
  lk_rep  : rep info bs f;
  lk_ok   : encs_ok (df_ents f);
  lk_len  : len (image info bs) < two32;
  lk_w1   : w1 = wst info (cstate info bs);
  lk_w2   : rep_w w1 w2;
  lk_file : exists k, file = image info bs ++ zeros k }.

(* the file Filer.Create leaves (Wal/Model.v apply_act ACreate) *)
Definition created (size : N) : dfile :=
  {| df_ents := []; df_end := 0; df_seal := 0; df_pend := None; df_dir := false; df_size := size |}.
