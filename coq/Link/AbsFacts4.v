(* AbsFacts4.v -- the link as an invariant of the life of a segment file:
   [linked info bs f w1 w2 file] (Link/Abs.v) is established by Create and
   preserved by every successful Append / ForceSeal, by a power loss in the
   middle of one (any torn image of the bytes in flight) followed by recovery,
   and by a restart with nothing in flight.  So along any such history the L2
   file, the L2 writer and the bytes on the disk stay in correspondence. *)
From RW Require Import Base.Bytes Base.BytesFacts Base.Crc32c Base.Crc32cFacts Fmt.Codec Fmt.Frame Fmt.FrameFacts
     Seg.Writer Seg.Recover Seg.SegAbs Seg.WriterFacts Seg.ScanFacts Seg.RecoverFacts Seg.ChainFacts
     Seg.ReaderFacts Wal.Model Link.Abs Link.AbsFacts1 Link.AbsFacts2 Gen.Constants.
From Coq Require Import ZifyN ZifyNat ZifyBool.
Open Scope N_scope.

(* ---------------- Create ---------------- *)
Theorem linked_create info size k :
  linked info [] (created size) (init_empty info) (new_wseg info) (zeros k).
Proof.
  constructor.
  - constructor; reflexivity.
  - apply Forall_nil.
  - change (len (image info [])) with 0. unfold two32. lia.
  - change (cstate info []) with c0. symmetry. apply wst_c0.
  - apply rep_w_init.
  - exists k. reflexivity.
Qed.

(* the file ACreate puts into the directory *)
Lemma create_lookup d n size :
  lookup n (dk_files (apply_act d (ACreate n size))) = Some (created size).
Proof. cbn [apply_act dk_files]. apply lookup_update_same. Qed.

(* ---------------- helpers ---------------- *)
Lemma seg_append_ok_guards w l0 lr e w' e' :
  seg_append w (l0 :: lr) e = (Model.ROk, w', e') ->
  (0 <? ws_index_start w) = false /\
  existsb (fun l => MaxEntrySize <? enc_len l) (l0 :: lr) = false /\
  l_index l0 = ws_base w + ws_n w.
Proof.
  unfold seg_append. intros H.
  destruct (0 <? ws_index_start w); [discriminate|].
  destruct (existsb (fun l => MaxEntrySize <? enc_len l) (l0 :: lr)); [discriminate|].
  destruct (l_index l0 =? ws_base w + ws_n w) eqn:E; [|discriminate].
  apply N.eqb_eq in E. auto.
Qed.

Lemma seg_force_seal_ok_guards w e w' e' :
  seg_force_seal w e = (Model.ROk, w', e') -> ws_index_start w = 0 -> (ws_n w =? 0) = false.
Proof.
  unfold seg_force_seal. intros H Hz. rewrite Hz in H. cbn [N.ltb N.compare] in H.
  destruct (ws_n w =? 0); [discriminate|reflexivity].
Qed.

Lemma sealed_l2 w1' w2 ls : rep_w w1' (l2_after w2 ls) -> sealed w1' = l2_seal w2 ls.
Proof.
  intros R. unfold sealed. rewrite <- (rw_istart _ _ R). cbn [l2_after ws_index_start]. unfold l2_istart.
  destruct (l2_seal w2 ls); [apply N.ltb_lt; lia|reflexivity].
Qed.

Lemma len_c_offs' info s b : len (c_offs' info s b) = len (c_offs s) + N.of_nat (length (fst b)).
Proof. unfold c_offs'. rewrite len_app. unfold len. rewrite entry_offsets_length. reflexivity. Qed.

(* the number of bytes L2 accounts for an append is the length of the bytes
   of the L1 batch *)
Lemma len_batch_write_l2 info bs w2 ls (s := cstate info bs) :
  rep_w (wst info s) w2 -> ls <> [] ->
  len (batch_write info s (map enc ls, l2_seal w2 ls)) = l2_total w2 ls.
Proof.
  intros R Hne. pose proof (len_rw_buf _ _ R) as Lb. cbn [wst w_buf] in Lb.
  pose proof (rw_n _ _ R) as Ln. cbn [wst w_offsets] in Ln.
  rewrite len_batch_write, len_batch_body, len_c_offs'. cbn [fst snd]. rewrite map_length.
  unfold l2_total. rewrite Lb, <- frames_size_eq, Ln.
  destruct (l2_seal w2 ls); [|lia].
  unfold index_frame_size, llen.
  replace (len (c_offs s) + N.of_nat (length ls) =? 0) with false.
  2:{ symmetry. apply N.eqb_neq. destruct ls; [congruence|]. cbn [length]. lia. }
  replace (4 * (len (c_offs s) + N.of_nat (length ls))) with ((len (c_offs s) + N.of_nat (length ls)) * 4) by lia.
  lia.
Qed.

Lemma len_batch_write_fs info bs w2 (s := cstate info bs) :
  rep_w (wst info s) w2 -> (ws_n w2 =? 0) = false ->
  len (batch_write info s ([], true)) = fs_total w2.
Proof.
  intros R Hn. pose proof (len_rw_buf _ _ R) as Lb. cbn [wst w_buf] in Lb.
  pose proof (rw_n _ _ R) as Ln. cbn [wst w_offsets] in Ln.
  rewrite len_batch_write, len_batch_body, len_c_offs'. cbn [fst snd length].
  change (len (entries_bytes [])) with 0.
  unfold fs_total, index_frame_size. rewrite Lb, Hn, Ln.
  replace (4 * (len (c_offs s) + N.of_nat 0)) with (len (c_offs s) * 4) by lia. lia.
Qed.

Lemma apply_write_file a k off new :
  off = len a ->
  apply_wactions (a ++ zeros k) [WWrite off new; WSync] = (a ++ new) ++ zeros (k - length new).
Proof.
  intros ->. unfold apply_wactions. cbn [fold_left apply_waction].
  rewrite to_nat_len, overwrite_app, skipn_zeros, app_assoc. reflexivity.
Qed.

Lemma encs_ok_app a b : encs_ok a -> encs_ok b -> encs_ok (a ++ b).
Proof. intros Ha Hb. apply Forall_app. auto. Qed.

(* ---------------- Append ---------------- *)
(* an acknowledged L2 append whose write ends below 4 GiB: the L1 writer
   acknowledges it too, writes exactly the bytes of one more batch at the
   offset and of the length L2 recorded, and the link holds again *)
Theorem linked_append info bs f w1 w2 file ls e w2' e' :
  let n := name_of info in
  linked info bs f w1 w2 file -> lookup n (dk_files (e_disk e)) = Some f ->
  consec ls -> ls <> [] -> encs_ok ls -> e_fault e = None ->
  ws_off w2 + l2_total w2 ls < two32 ->
  seg_append w2 ls e = (Model.ROk, w2', e') ->
  exists w1' new f',
    append w1 (ents ls) FNone = (WOk, w1', [WWrite (ws_off w2) new; WSync]) /\
    len new = l2_total w2 ls /\ sealed w1' = l2_seal w2 ls /\
    lookup n (dk_files (e_disk e')) = Some f' /\
    linked info (bs ++ [(map enc ls, sealed w1')]) f' w1' w2'
           (apply_wactions file [WWrite (ws_off w2) new; WSync]).
Proof.
  intros n [R Hok Hlen Ew1 Rw [k Ef]] Hl Hc Hne Hls Hf Hguard H2.
  destruct ls as [|l0 lr]; [congruence|]. set (ls := l0 :: lr) in *.
  destruct (seg_append_ok_guards _ _ _ _ _ _ H2) as (Hs & Hb & Hi).
  destruct (append_l1_char w1 w2 l0 lr Rw Hc Hs Hb Hi) as (w1' & new & Ea & Lnew & Rw').
  fold ls in Ea, Lnew, Rw'.
  pose proof (sealed_l2 _ _ _ Rw') as Hsl.
  set (s := cstate info bs) in *. subst w1.
  set (b := (map enc ls, sealed w1')).
  assert (Hoff : ws_off w2 = len (image info bs)) by (rewrite (rw_off _ _ Rw); reflexivity).
  assert (Hlen' : len (image info (bs ++ [b])) < two32).
  { rewrite image_snoc, len_app. fold s. unfold b. rewrite Hsl.
    pose proof (len_batch_write_l2 info bs w2 ls Rw Hne) as Lb. cbn zeta in Lb. fold s in Lb.
    rewrite Lb. lia. }
  destruct (append_sim_rep info bs f w2 ls e w1' _ w2' e' R Hl Rw Hc Hne Hf Ea H2 Hlen')
    as (Eacts & Ew1' & Rw2 & Hl' & R').
  fold s b in Eacts, Ew1', R'. fold n in Hl'.
  exists w1', new, (synced f (pb_of ls w1')).
  split; [exact Ea|]. split; [exact Lnew|]. split; [exact Hsl|]. split; [exact Hl'|].
  inversion Eacts as [[Eo En]].
  constructor; try assumption.
  - cbn [synced df_ents pb_of pb_ents]. apply encs_ok_app; assumption.
  - rewrite Ef. rewrite apply_write_file by exact Hoff. rewrite image_snoc. fold s b. rewrite <- En.
    eexists. reflexivity.
Qed.

(* ---------------- ForceSeal ---------------- *)
Theorem linked_force_seal info bs f w1 w2 file e w2' e' :
  let n := name_of info in
  linked info bs f w1 w2 file -> lookup n (dk_files (e_disk e)) = Some f ->
  e_fault e = None -> ws_index_start w2 = 0 ->
  ws_off w2 + fs_total w2 < two32 ->
  seg_force_seal w2 e = (Model.ROk, w2', e') ->
  exists w1' new f',
    force_seal w1 FNone = (WOk, w1', [WWrite (ws_off w2) new; WSync]) /\
    len new = fs_total w2 /\ sealed w1' = true /\
    lookup n (dk_files (e_disk e')) = Some f' /\
    linked info (bs ++ [([], true)]) f' w1' w2'
           (apply_wactions file [WWrite (ws_off w2) new; WSync]).
Proof.
  intros n [R Hok Hlen Ew1 Rw [k Ef]] Hl Hf Hu Hguard H2.
  pose proof (seg_force_seal_ok_guards _ _ _ _ H2 Hu) as Hn.
  assert (Hs : (0 <? ws_index_start w2) = false) by (rewrite Hu; reflexivity).
  destruct (force_seal_l1_char w1 w2 Rw Hs Hn) as (w1' & new & Ea & Lnew & Rw').
  set (s := cstate info bs) in *. subst w1.
  set (b := (@nil bytes, true)).
  assert (Hoff : ws_off w2 = len (image info bs)) by (rewrite (rw_off _ _ Rw); reflexivity).
  assert (Hlen' : len (image info (bs ++ [b])) < two32).
  { rewrite image_snoc, len_app. fold s. unfold b.
    pose proof (len_batch_write_fs info bs w2 Rw Hn) as Lb. cbn zeta in Lb. fold s in Lb.
    rewrite Lb. lia. }
  destruct (force_seal_sim_rep info bs f w2 e w1' _ w2' e' R Hl Rw Hf Hu Ea H2 Hlen')
    as (Eacts & Ew1' & Rw2 & Hl' & R').
  fold s b in Eacts, Ew1', R'. fold n in Hl'.
  exists w1', new, (synced f (pb_of [] w1')).
  split; [exact Ea|]. split; [exact Lnew|]. split.
  { unfold sealed. rewrite <- (rw_istart _ _ Rw'). cbn [fs_after ws_index_start]. unfold fs_istart.
    apply N.ltb_lt. lia. }
  split; [exact Hl'|].
  inversion Eacts as [[Eo En]].
  constructor; try assumption.
  - cbn [synced df_ents pb_of pb_ents]. rewrite app_nil_r. exact Hok.
  - rewrite Ef. rewrite apply_write_file by exact Hoff. rewrite image_snoc. fold s b. rewrite <- En.
    eexists. reflexivity.
Qed.

(* ---------------- power loss during a commit, then recovery ---------------- *)
(* The L1 operation [op] (an append of the records ls, or a force-seal with
   ls = []) is in flight: L2 has performed the AWrite (its file is
   [written f pb]), the bytes [new] are on their way to offset [off].  The
   machine loses power; of [new] the torn image T reached the disk.  L2's
   adversary picks keep = "T is complete".  Then byte-level recovery
   (RecoverTail incl. zeroStaleTail) and L2's crash + seg_recover end in
   linked states again: with the batch if T is complete, without it
   otherwise. *)
Theorem linked_crash info bs f w1 w2 file op w1' off new b ls c T :
  let n := name_of info in
  hdr_wf info ->
  linked info bs f w1 w2 file -> encs_ok ls ->
  wrun w1 [op] = Some (w1', [WWrite off new; WSync], [b]) -> fst b = map enc ls ->
  len (image info (bs ++ [b])) < two32 ->
  torn new T -> no_torn_collision new T ->
  let fm := written f (pb_of ls w1') in
  (df_dir f = true \/ mem_name n (cc_keep_file c) = true) ->
  mem_name n (cc_keep_batch c) = beq_bytes T new ->
  let file1 := overwrite file (N.to_nat off) T in
  let bs' := if beq_bytes T new then bs ++ [b] else bs in
  exists f' w1r acts,
    crash_file c (n, fm) = [(n, f')] /\
    recover_tail info file1 = Some (w1r, acts) /\
    linked info bs' f' w1r (recw info f') (apply_wactions file1 acts).
Proof.
  intros n Hhw [R Hok Hlen Ew1 Rw [k Ef]] Hls Hrun Hb Hlen' HT Hnc fm Hsurv Hkeep file1 bs'. subst n. set (n := name_of info) in *.
  set (s := cstate info bs) in *. subst w1.
  pose proof (rep_pend _ _ _ R) as Hp.
  assert (Hl0 : lookup n (dk_files {| dk_files := [(n, f)]; dk_meta := None; dk_stable := []; dk_inited := false |}) = Some f).
  { cbn [dk_files lookup]. rewrite fname_eqb_refl'. reflexivity. }
  destruct (commit_rep info bs f op w1' _ b ls _ R Hl0 Hrun Hb Hlen')
    as (Eacts & Ew1' & _ & _ & Rp & _ & _).
  fold s in Eacts. inversion Eacts as [[Eo En]]. fold fm in Rp.
  assert (Hokm : encs_ok (cur_ents fm)).
  { unfold cur_ents, fm. cbn [written df_pend df_ents pb_of pb_ents]. apply encs_ok_app; assumption. }
  assert (Ef1 : file1 = image info bs ++ T ++ zeros (k - length T)).
  { unfold file1. rewrite Ef, Eo, to_nat_len, overwrite_app, skipn_zeros. reflexivity. }
  assert (Hsurv' : df_dir fm = true \/ mem_name n (cc_keep_file c) = true) by exact Hsurv.
  rewrite En in HT, Hnc, Hkeep. 
  destruct (crash_file_sound info bs b fm c T (k - length T) Hhw Rp Hokm Hlen' HT Hnc Hsurv' Hkeep)
    as (f' & Hcf & R' & Hdir & _ & (acts & Hrt & Happ) & Rw' & _).
  fold s in R', Hrt, Happ, Rw'. rewrite <- En in R', Hrt, Happ, Rw'. fold bs' in R', Hrt, Happ, Rw'.
  rewrite <- Ef1 in Hrt, Happ.
  exists f', (wst info (cstate info bs')), acts. split; [exact Hcf|]. split; [exact Hrt|].
  constructor.
  - exact R'.
  - (* entries of the surviving file *)
    fold n in Hcf. rewrite (crash_file_char c n fm Hsurv') in Hcf. inversion Hcf as [Ef'].
    unfold crashed, fm. cbn [written df_pend]. rewrite Hkeep. rewrite <- En.
    destruct (beq_bytes T new); cbn [synced written df_ents pb_of pb_ents]; [apply encs_ok_app; assumption|exact Hok].
  - unfold bs'. destruct (beq_bytes T new); assumption.
  - reflexivity.
  - exact Rw'.
  - rewrite Happ. eexists. reflexivity.
Qed.

(* ---------------- restart with nothing in flight ---------------- *)
Theorem linked_restart info bs f w1 w2 file c :
  let n := name_of info in
  hdr_wf info -> linked info bs f w1 w2 file ->
  (df_dir f = true \/ mem_name n (cc_keep_file c) = true) ->
  exists f' acts,
    crash_file c (n, f) = [(n, f')] /\
    recover_tail info file = Some (w1, acts) /\
    linked info bs f' w1 (recw info f') (apply_wactions file acts).
Proof.
  intros n Hhw [R Hok Hlen Ew1 Rw [k Ef]] Hsurv.
  set (s := cstate info bs) in *.
  pose proof (rep_pend _ _ _ R) as Hp.
  assert (Hwf : chain_wf info c0 bs).
  { eapply chain_wf_cur; [apply rep_cur_rep; exact R| |exact Hlen].
    unfold cur_ents. rewrite Hp. exact Hok. }
  pose proof (recover_complete info bs k Hhw Hwf) as Hrs. fold s in Hrs.
  set (f' := crashed (mem_name n (cc_keep_batch c)) f).
  assert (R' : rep info bs f').
  { unfold f', crashed. rewrite Hp. destruct R as [R1 R2 R3 R4].
    constructor; cbn [df_ents df_end df_seal df_pend]; auto. }
  exists f', (scrub_actions file (w_off w1)).
  split; [apply crash_file_char; exact Hsurv|]. split.
  { unfold recover_tail. rewrite Ef, Hrs, Ew1. reflexivity. }
  constructor.
  - exact R'.
  - unfold f', crashed. rewrite Hp. exact Hok.
  - exact Hlen.
  - exact Ew1.
  - rewrite Ew1. apply rep_w_recw, rep_cur_rep. exact R'.
  - rewrite Ew1, Ef. change (w_off (wst info s)) with (len (image info bs)).
    rewrite recover_leaves_zero_tail. eexists. reflexivity.
Qed.

(* ---------------- the 2^32 guards from L2's own size invariants ---------------- *)
(* The hypotheses are those of Wal/CrashCalls4.v append_sizes, i.e. what
   cfg_ok / sop_ok / CrashInv.fsz_ok give for the tail segment: limit and batch
   below 2^30, write offset at most limit + 8 while unsealed, at least 8 bytes
   per entry. *)
Lemma frames_size_ge8 ls : 8 * llen ls <= frames_size ls.
Proof.
  rewrite frames_size_eq. unfold llen. induction ls as [|l r IH].
  - cbn. lia.
  - cbn [map length]. rewrite len_entries_bytes_cons.
    pose proof (enc_frame_size_ge (len (enc l))). lia.
Qed.

Lemma index_frame_size_le' n : index_frame_size n <= 4 * n + 15.
Proof.
  unfold index_frame_size. destruct (n =? 0); [lia|]. unfold enc_frame_size.
  pose proof (pad_len_lt (n * 4)). lia.
Qed.

Theorem l2_append_guard w2 ls :
  ws_limit w2 < 1073741824 -> ws_off w2 <= ws_limit w2 + 8 -> 8 * ws_n w2 <= ws_off w2 ->
  frames_size ls < 1073741824 ->
  ws_off w2 + l2_total w2 ls < two32.
Proof.
  intros HL Hoff Hn HF. pose proof (frames_size_ge8 ls) as Hk.
  pose proof (index_frame_size_le' (ws_n w2 + llen ls)) as Hi.
  unfold l2_total, hdr_len, two32. destruct (l2_seal w2 ls); destruct (ws_hdr w2); lia.
Qed.

Theorem l2_force_seal_guard w2 :
  ws_limit w2 < 1073741824 -> ws_off w2 <= ws_limit w2 + 8 -> 8 * ws_n w2 <= ws_off w2 ->
  ws_off w2 + fs_total w2 < two32.
Proof.
  intros HL Hoff Hn. pose proof (index_frame_size_le' (ws_n w2)) as Hi.
  unfold fs_total, hdr_len, two32. destruct (ws_hdr w2); lia.
Qed.
