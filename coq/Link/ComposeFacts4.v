(* ComposeFacts4.v -- DeleteRange in lock step: truncate_head, truncate_tail
   (force-seal of the tail, then the transaction installing a new tail),
   delete_range. *)
From RW Require Import Base.Bytes Base.BytesFacts Base.Crc32c Fmt.Codec Fmt.Frame Fmt.FrameFacts
     Seg.Writer Seg.Recover Seg.SegAbs Seg.WriterFacts Seg.RecoverFacts Seg.ChainFacts
     Wal.Model Wal.Spec Wal.CrashFacts0
     Link.Abs Link.AbsFacts1 Link.AbsFacts2 Link.AbsFacts3 Link.AbsFacts4
     Link.Disk Link.DiskFacts1 Link.DiskFacts2 Link.Compose Link.ComposeFacts1 Link.ComposeFacts2
     Link.ComposeFacts3 Gen.Constants.
From Coq Require Import ZifyN ZifyNat ZifyBool.
Open Scope N_scope.

Lemma truncate_head_link c w nm bd e r w' e' :
  cfg_ok c -> wlink c w bd (e_disk e) -> e_fault e = None ->
  truncate_head c w nm e = (r, w', e') -> op_link c bd e w' e'.
Proof.
  intros Hc HW Hf H. pose proof HW as (_ & _ & Hid & Ht). unfold truncate_head in H.
  destruct (head_scan nm (tail_last (st_tail w)) (st_segs w) [] 0) as [[[rest del] ntr] head].
  destruct head as [h|].
  - match type of H with mutate _ ?t ?e0 = _ => pose proof (mutate_link c w t bd e0 r w' e') as HM end.
    cbn [tx_tail tx_next_id tx_create] in HM.
    assert (X : forall si', @None seginfo = Some si' -> si_codec si' = c_codec c /\ hdr_wf (finfo c (name_of si')))
      by discriminate.
    destruct (HM HW Hf Ht Hid X H) as (HL & _). apply op_link_with_m in HL. exact HL.
  - match type of H with context [create_next c ?a ?b ?d] => destruct (create_next c a b d) as [[nid segs2] si] eqn:Ecn end.
    match type of H with mutate _ _ ?e0 = _ =>
      destruct (mutate_create_link c w bd e0 _ _ _ _ _ _ _ r w' e' Hc HW Hf Hid Ecn H) as (HL & _) end.
    apply op_link_with_m in HL. exact HL.
Qed.

Lemma truncate_tail_link c w nm bd e r w' e' :
  cfg_ok c -> wlink c w bd (e_disk e) -> e_fault e = None -> small_tail (st_tail w) ->
  truncate_tail c w nm e = (r, w', e') -> op_link c bd e w' e'.
Proof.
  intros Hc HW Hf Hs H. pose proof HW as (H0 & Hnd & Hid & Ht). unfold truncate_tail in H.
  destruct (tail_scan nm (last_index (st_segs w) (st_tail w)) (rev (st_segs w)) [] 0) as [[rrest del] ntr].
  (* the common end: install a new tail after (maybe) replacing the tail writer *)
  assert (Hfin : forall tw0 bd0 e0 t' ntr' rest,
            wlink c {| st_next_id := st_next_id w; st_segs := st_segs w; st_tail := tw0; st_rotate := st_rotate w;
                       st_failed := st_failed w; st_closed := st_closed w |} bd0 (e_disk e0) ->
            e_fault e0 = None -> erun c bd e bd0 e0 ->
            (let segs1 := seg_set t' rest in
             let '(nid, segs2, si) := create_next c (st_next_id w) segs1 0 in
             let e1 := add_m e0 (fun m => {| m_bytes_written := m_bytes_written m; m_entries_written := m_entries_written m;
                                     m_appends := m_appends m; m_bytes_read := m_bytes_read m;
                                     m_entries_read := m_entries_read m; m_rotations := m_rotations m;
                                     m_head_trunc := m_head_trunc m; m_tail_trunc := (m_tail_trunc m + ntr') mod two64;
                                     m_stable_gets := m_stable_gets m; m_stable_sets := m_stable_sets m |}) in
             mutate {| st_next_id := st_next_id w; st_segs := st_segs w; st_tail := tw0; st_rotate := st_rotate w;
                       st_failed := st_failed w; st_closed := st_closed w |}
                    {| tx_next_id := nid; tx_segs := segs2; tx_delete := del; tx_create := Some si; tx_tail := None |} e1)
            = (r, w', e') -> op_link c bd e w' e').
  { intros tw0 bd0 e0 t' ntr' rest HW0 Hf0 E0 Hm. cbn zeta in Hm.
    match type of Hm with context [create_next c ?a ?b ?d] => destruct (create_next c a b d) as [[nid segs2] si] eqn:Ecn end.
    match type of Hm with mutate ?w0 _ ?e1 = _ =>
      destruct (mutate_create_link c w0 bd0 e1 _ _ _ _ _ _ _ r w' e' Hc HW0 Hf0 Hid Ecn Hm) as (HL & _) end.
    apply op_link_with_m in HL. destruct HL as (bd1 & E1 & HW1). exists bd1. split; [eapply erun_trans; eauto|exact HW1]. }
  destruct rrest as [|t rr].
  - match type of H with context [create_next c ?a ?b ?d] => destruct (create_next c a b d) as [[nid segs2] si] eqn:Ecn end.
    destruct (mutate_create_link c w bd e _ _ _ _ _ _ _ r w' e' Hc HW Hf Hid Ecn H) as (HL & _). exact HL.
  - destruct (si_sealed t).
    + eapply (Hfin (st_tail w) bd e); [|exact Hf|apply erun_refl; assumption|exact H].
      eapply wlink_tail_ext; [| |exact HW]; reflexivity.
    + destruct (st_tail w) as [tw|] eqn:Et; [|inversion H; subst; apply op_link_same; assumption].
      destruct (seg_force_seal tw e) as [[r0 tw'] e1] eqn:Ea.
      destruct Ht as (info & bs & T).
      assert (Hg : ws_index_start tw = 0 -> ws_off tw + fs_total tw < two32).
      { intros Hz. cbn [small_tail] in Hs. destruct (Hs Hz) as (S1 & S2 & S3). apply l2_force_seal_guard; assumption. }
      destruct (seg_force_seal_link c tw info bs bd e r0 tw' e1 H0 Hnd Hf T Hg Ea) as (bd' & bs' & E & Hnd' & T').
      assert (HW1 : wlink c {| st_next_id := st_next_id w; st_segs := st_segs w; st_tail := Some tw';
                               st_rotate := st_rotate w; st_failed := st_failed w; st_closed := st_closed w |}
                          bd' (e_disk e1)).
      { split; [apply (erun_end _ _ _ _ _ E)|]. split; [exact Hnd'|]. split; [exact Hid|]. cbn [st_tail tail_linked]. eauto. }
      destruct r0; try solve [inversion H; subst; exists bd'; split; assumption].
      eapply (Hfin (Some tw') bd' e1); [exact HW1|apply (erun_fault _ _ _ _ _ E)|exact E|exact H].
Qed.

Theorem delete_range_link c w mn mx bd e r w' e' :
  cfg_ok c -> wlink c w bd (e_disk e) -> e_fault e = None -> small_tail (st_tail w) ->
  delete_range c w mn mx e = (r, w', e') -> op_link c bd e w' e'.
Proof.
  intros Hc HW Hf Hs H. unfold delete_range in H.
  assert (Hsame : (w', e') = (w, e) -> op_link c bd e w' e').
  { intros [= -> ->]. apply op_link_same; assumption. }
  destruct (st_closed w); [inversion H; subst; apply Hsame; reflexivity|].
  destruct (mx <? mn); [inversion H; subst; apply Hsame; reflexivity|].
  destruct (st_failed w); [inversion H; subst; apply Hsame; reflexivity|].
  cbn zeta in H.
  destruct ((mx <? first_index (st_segs w) (st_tail w)) || (last_index (st_segs w) (st_tail w) <? mn));
    [inversion H; subst; apply Hsame; reflexivity|].
  destruct (mn <=? first_index (st_segs w) (st_tail w)); [eapply truncate_head_link; eauto|].
  destruct (last_index (st_segs w) (st_tail w) <=? mx); [eapply truncate_tail_link; eauto|].
  inversion H; subst; apply Hsame; reflexivity.
Qed.
