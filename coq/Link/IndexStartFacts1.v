(* IndexStartFacts1.v -- the IndexStart invariant (Link/IndexStart.v):
   generic facts.
     ISd_step      a single action between two DIs disks keeps ISd, provided a
                   metadata commit installs justified segments
     ISd_prefix    ... hence every prefix of a list of actions whose
                   intermediate disks all satisfy DIs and whose commits are
                   justified
     ISd_crash     a power loss keeps ISd (sealed files are durable and have
                   nothing pending)
     ctr_*         the calculus of justified traces and the primitives of the
                   WAL (delete_files, seg_create, seg_append, seg_force_seal,
                   mutate_gen) *)
From RW Require Import Base.Bytes Base.BytesFacts Fmt.Codec Fmt.Frame Wal.Model Wal.Spec Wal.Hist
     Wal.CrashInv Wal.CrashFacts0 Wal.CrashFacts1 Wal.CrashFacts2 Wal.CrashFacts3 Wal.CrashFacts4 Wal.CrashGlue
     Link.IndexStart Gen.Constants.
From Coq Require Import ZifyN ZifyNat ZifyBool.
Open Scope N_scope.

(* ---------------- ISseg depends on the file of the segment only ---------------- *)
Lemma ISseg_ext d d' s :
  lookup (name_of s) (dk_files d') = lookup (name_of s) (dk_files d) -> ISseg d s -> ISseg d' s.
Proof. unfold ISseg. intros ->. auto. Qed.

Lemma ISs_ext d d' segs :
  (forall s, In s segs -> lookup (name_of s) (dk_files d') = lookup (name_of s) (dk_files d)) ->
  ISs d segs -> ISs d' segs.
Proof.
  unfold ISs. rewrite !Forall_forall. intros H H0 s Hin. eapply ISseg_ext; [apply H; exact Hin|apply H0; exact Hin].
Qed.

Lemma ISs_files d d' segs : dk_files d' = dk_files d -> ISs d segs -> ISs d' segs.
Proof. intros E. apply ISs_ext. intros s _. rewrite E. reflexivity. Qed.

Lemma ISseg_unsealed d s : si_sealed s = false -> ISseg d s.
Proof. unfold ISseg. intros -> H. discriminate. Qed.

Lemma ISseg_same d s s' :
  name_of s' = name_of s -> si_index_start s' = si_index_start s -> si_sealed s' = si_sealed s ->
  ISseg d s -> ISseg d s'.
Proof. unfold ISseg. intros -> -> ->. auto. Qed.

Lemma ISs_incl d l l' : (forall s, In s l' -> In s l \/ ISseg d s) -> ISs d l -> ISs d l'.
Proof.
  unfold ISs. rewrite !Forall_forall. intros H H0 s Hin. destruct (H s Hin) as [K|K]; [apply H0; exact K|exact K].
Qed.

Lemma in_seg_set si l x : In x (seg_set si l) -> x = si \/ In x l.
Proof.
  induction l as [|y r IH]; cbn [seg_set]; [intros [<-|[]]; auto|].
  destruct (si_base si <? si_base y); [intros [<-|H]; auto|].
  destruct (si_base si =? si_base y).
  - intros [<-|H]; [auto|right; right; exact H].
  - intros [<-|H]; [right; left; reflexivity|]. destruct (IH H) as [->|K]; [auto|right; right; exact K].
Qed.

Lemma in_seg_del b l x : In x (seg_del b l) -> In x l.
Proof.
  induction l as [|y r IH]; cbn [seg_del]; [auto|].
  destruct (si_base y =? b); [intros H; right; exact H|intros [<-|H]; [left; reflexivity|right; apply IH; exact H]].
Qed.

(* ---------------- one action ---------------- *)
Lemma DIs_sealed_member c nb d ps s :
  DIs c nb d -> dk_meta d = Some ps -> In s (ps_segs ps) -> si_sealed s = true -> sealed_ok d s.
Proof.
  intros HD Hm Hin Hse. destruct (DIs_segs _ _ _ _ HD Hm) as (S & t & Hs).
  destruct (DIs_parts _ _ _ _ _ _ HD Hm Hs) as (_ & _ & _ & _ & _ & Hso & (Hu & _)).
  rewrite Hs in Hin. apply in_app_or in Hin as [Hin|[<-|[]]].
  - rewrite Forall_forall in Hso. apply Hso. exact Hin.
  - congruence.
Qed.

Lemma ISd_step c nb nb' d a :
  DIs c nb d -> DIs c nb' (apply_act d a) -> ISd d ->
  (forall ps, a = ACommit ps -> ISs d (ps_segs ps)) ->
  ISd (apply_act d a).
Proof.
  intros HD HD' HI Hc.
  assert (Hframe : dk_meta (apply_act d a) = dk_meta d ->
            (forall s f f', lookup (name_of s) (dk_files d) = Some f -> df_pend f = None ->
               lookup (name_of s) (dk_files (apply_act d a)) = Some f' -> df_pend f' = None -> df_end f' <> 0 ->
               cur_seal f' = cur_seal f) ->
            ISd (apply_act d a)).
  { intros Em Hsame. unfold ISd in *. rewrite Em. destruct (dk_meta d) as [ps|] eqn:Hm; [|exact I].
    unfold ISs in *. rewrite Forall_forall in *. intros s Hin Hse f' Hf'.
    assert (Hm' : dk_meta (apply_act d a) = Some ps) by exact Em.
    destruct (DIs_sealed_member _ _ _ _ _ HD Hm Hin Hse) as (_ & _ & f & Hf & _ & Hp & _).
    destruct (DIs_sealed_member _ _ _ _ _ HD' Hm' Hin Hse) as (_ & _ & f2 & Hf2 & _ & Hp2 & He2 & _).
    rewrite Hf' in Hf2. inversion Hf2; subst f2.
    rewrite (Hsame s f f' Hf Hp Hf' Hp2 He2). apply (HI s Hin Hse f Hf). }
  pose proof (DIs_NoDup _ _ _ HD) as ND.
  destruct a; cbn [apply_act] in *.
  - (* create *)
    apply Hframe; [reflexivity|]. cbn [dk_files]. intros s f f' Hf Hp Hf' Hp' He'.
    rewrite lookup_update in Hf'. destruct (fname_eqb (name_of s) n).
    + inversion Hf'; subst f'. cbn in He'. congruence.
    + rewrite Hf in Hf'. inversion Hf'; reflexivity.
  - (* write *)
    destruct (lookup n (dk_files d)) as [g|] eqn:Eg; [|exact HI].
    apply Hframe; [reflexivity|]. cbn [dk_files]. intros s f f' Hf Hp Hf' Hp' He'.
    rewrite lookup_update in Hf'. destruct (fname_eqb (name_of s) n).
    + inversion Hf'; subst f'. cbn in Hp'. discriminate.
    + rewrite Hf in Hf'. inversion Hf'; reflexivity.
  - (* fsync *)
    destruct (lookup n (dk_files d)) as [g|] eqn:Eg; [|exact HI].
    apply Hframe; [reflexivity|]. cbn [dk_files]. intros s f f' Hf Hp Hf' Hp' He'.
    rewrite lookup_update in Hf'. destruct (fname_eqb (name_of s) n) eqn:E.
    + apply fname_eqb_eq in E. rewrite E in Hf. rewrite Eg in Hf. inversion Hf; subst g.
      rewrite Hp in Hf'. inversion Hf'; subst f'. unfold cur_seal. cbn. rewrite Hp. reflexivity.
    + rewrite Hf in Hf'. inversion Hf'; reflexivity.
  - (* delete *)
    apply Hframe; [reflexivity|]. cbn [dk_files]. intros s f f' Hf Hp Hf' Hp' He'.
    rewrite (lookup_remove _ _ _ ND) in Hf'. destruct (fname_eqb (name_of s) n); [discriminate|].
    rewrite Hf in Hf'. inversion Hf'; reflexivity.
  - (* commit *)
    unfold ISd. cbn [dk_meta]. eapply ISs_files; [|apply (Hc ps eq_refl)]. reflexivity.
  - apply Hframe; [reflexivity|]. cbn [dk_files]. intros s f f' Hf _ Hf' _ _. rewrite Hf in Hf'. inversion Hf'; reflexivity.
  - apply Hframe; [reflexivity|]. cbn [dk_files]. intros s f f' Hf _ Hf' _ _. rewrite Hf in Hf'. inversion Hf'; reflexivity.
  - exact HI.
  - exact HI.
Qed.

(* ---------------- every prefix of a justified trace ---------------- *)
Lemma commits_ok_app d a1 a2 :
  commits_ok d (a1 ++ a2) <-> commits_ok d a1 /\ commits_ok (fold_left apply_act a1 d) a2.
Proof.
  revert d. induction a1 as [|a r IH]; intros d; cbn [app commits_ok fold_left]; [tauto|].
  rewrite IH. tauto.
Qed.

Lemma ISd_prefix c nb acts : forall d,
  (forall j, DIs c nb (fold_left apply_act (firstn j acts) d)) -> commits_ok d acts -> ISd d ->
  forall j, ISd (fold_left apply_act (firstn j acts) d).
Proof.
  induction acts as [|a r IH]; intros d HD Hc HI j.
  - rewrite firstn_nil. exact HI.
  - destruct j as [|j]; [exact HI|]. cbn [firstn fold_left]. destruct Hc as (Hc1 & Hc2).
    apply IH; [intros k; apply (HD (S k))|exact Hc2|].
    apply (ISd_step c nb nb d a); [apply (HD O)|apply (HD 1%nat)|exact HI|].
    intros ps ->. exact Hc1.
Qed.

(* ---------------- power loss ---------------- *)
Lemma ISd_crash c nb cc d : DIs c nb d -> ISd d -> ISd (crash_disk cc d).
Proof.
  intros HD HI. unfold ISd in *. cbn [crash_disk dk_meta]. destruct (dk_meta d) as [ps|] eqn:Hm; [|exact I].
  unfold ISs in *. rewrite Forall_forall in *. intros s Hin Hse f' Hf'.
  destruct (DIs_sealed_member _ _ _ _ _ HD Hm Hin Hse) as (_ & _ & f & Hf & Hd & Hp & _).
  cbn [crash_disk dk_files] in Hf'. rewrite (lookup_crash cc _ _ (DIs_NoDup _ _ _ HD)), Hf in Hf'.
  rewrite Hd in Hf'. cbn [negb andb] in Hf'. inversion Hf'; subst f'.
  replace (cur_seal (crashed_file _ f)) with (cur_seal f); [apply (HI s Hin Hse f Hf)|].
  unfold crashed_file, cur_seal. rewrite Hp. reflexivity.
Qed.

(* ---------------- justified traces ---------------- *)
Lemma ctr_refl e : e_fault e = None -> ctr e e.
Proof. intros Hf. split; [exact Hf|]. exists []. cbn. auto. Qed.

Lemma ctr_trans e0 e1 e2 : ctr e0 e1 -> ctr e1 e2 -> ctr e0 e2.
Proof.
  intros (_ & a1 & A1 & D1 & C1) (F2 & a2 & A2 & D2 & C2). split; [exact F2|].
  exists (a1 ++ a2). split; [rewrite A2, A1, rev_app_distr, app_assoc; reflexivity|].
  split; [rewrite fold_left_app, <- D1; exact D2|]. apply commits_ok_app. split; [exact C1|rewrite <- D1; exact C2].
Qed.

Lemma ctr_fault e e' : ctr e e' -> e_fault e' = None.
Proof. intros (H & _). exact H. Qed.

Lemma ctr_with_m e e' m : ctr e e' -> ctr e (with_m e' m).
Proof. intros (F & acts & A & D & C). split; [exact F|]. exists acts. cbn. auto. Qed.
Lemma ctr_add_m e e' f : ctr e e' -> ctr e (add_m e' f).
Proof. apply ctr_with_m. Qed.
Lemma ctr_from_m e m e' : ctr (with_m e m) e' -> ctr e e'.
Proof. intros (F & acts & A & D & C). split; [exact F|]. exists acts. cbn in *. auto. Qed.

Definition not_commit (a : act) : Prop := match a with ACommit _ => False | _ => True end.

Lemma ctr_io a e : e_fault e = None -> not_commit a -> ctr e (io_env a e).
Proof.
  intros Hf Hn. split; [reflexivity|]. exists [a]. cbn [io_env e_acts e_disk rev app fold_left commits_ok].
  split; [reflexivity|]. split; [reflexivity|]. split; [destruct a; try exact I; destruct Hn|exact I].
Qed.

Lemma ctr_commit ps e : e_fault e = None -> ISs (e_disk e) (ps_segs ps) -> ctr e (io_env (ACommit ps) e).
Proof.
  intros Hf H. split; [reflexivity|]. exists [ACommit ps]. cbn [io_env e_acts e_disk rev app fold_left commits_ok]. auto.
Qed.

(* ---------------- primitives ---------------- *)
Lemma lookup_write_neq d n m off l b :
  m <> n -> lookup m (dk_files (apply_act d (AWrite n off l b))) = lookup m (dk_files d).
Proof.
  intros Hn. cbn [apply_act]. destruct (lookup n (dk_files d)); [|reflexivity]. cbn [dk_files].
  apply lookup_update_neq. exact Hn.
Qed.

Lemma lookup_sync_neq d n m :
  m <> n -> lookup m (dk_files (apply_act d (ASync n))) = lookup m (dk_files d).
Proof.
  intros Hn. cbn [apply_act]. destruct (lookup n (dk_files d)); [|reflexivity]. cbn [dk_files].
  apply lookup_update_neq. exact Hn.
Qed.

Lemma lookup_write_eq d n off l b f :
  lookup n (dk_files d) = Some f ->
  exists f', lookup n (dk_files (apply_act d (AWrite n off l b))) = Some f' /\ cur_seal f' = pb_seal b.
Proof.
  intros Hf. cbn [apply_act]. rewrite Hf. cbn [dk_files]. rewrite lookup_update_eq. eexists. split; [reflexivity|].
  unfold cur_seal. cbn. destruct (df_pend f) as [p|]; [destruct (off =? pb_end p)|]; reflexivity.
Qed.

Lemma lookup_sync_eq d n f :
  lookup n (dk_files d) = Some f -> lookup n (dk_files (apply_act d (ASync n))) = Some (synced_file f).
Proof. intros Hf. rewrite (apply_sync d n f Hf). cbn [dk_files]. apply lookup_update_eq. Qed.
Lemma delete_files_ctr ns : forall e, e_fault e = None -> ctr e (delete_files ns e).
Proof.
  unfold delete_files. induction ns as [|n ns IH]; intros e Hf; cbn [fold_left]; [apply ctr_refl; exact Hf|].
  rewrite (io_ok _ e Hf). cbn [snd]. eapply ctr_trans; [apply (ctr_io (ADelete n)); [exact Hf|exact I]|]. apply IH. reflexivity.
Qed.

Lemma seg_create_ctr si e sw e' : e_fault e = None -> seg_create si e = (sw, e') -> ctr e e'.
Proof.
  intros Hf. unfold seg_create. destruct (si_base si =? 0); [intros [= <- <-]; apply ctr_refl; exact Hf|].
  destruct (lookup (name_of si) (dk_files (e_disk e))).
  - rewrite (io_ok _ e Hf). intros [= <- <-]. apply (ctr_io (AFail _)); [exact Hf|exact I].
  - rewrite (io_ok _ e Hf). intros [= <- <-]. apply (ctr_io (ACreate _ _)); [exact Hf|exact I].
Qed.

(* what seg_create does to the files: nothing, or one new empty file under a
   name that did not exist *)
Lemma seg_create_files si e sw e' :
  e_fault e = None -> seg_create si e = (sw, e') ->
  forall n, lookup n (dk_files (e_disk e')) = lookup n (dk_files (e_disk e)) \/
            (n = name_of si /\ lookup n (dk_files (e_disk e)) = None /\
             lookup n (dk_files (e_disk e')) = Some (fresh_file (si_size_limit si))).
Proof.
  intros Hf. unfold seg_create. destruct (si_base si =? 0); [intros [= <- <-]; auto|].
  destruct (lookup (name_of si) (dk_files (e_disk e))) eqn:El.
  - rewrite (io_ok _ e Hf). intros [= <- <-]. auto.
  - rewrite (io_ok _ e Hf). intros [= <- <-] n. cbn [io_env e_disk apply_act dk_files].
    rewrite lookup_update. destruct (fname_eqb n (name_of si)) eqn:E; [|auto].
    apply fname_eqb_eq in E. subst n. right. auto.
Qed.

Lemma seg_append_ctr tw ls e r tw' e' : e_fault e = None -> seg_append tw ls e = (r, tw', e') -> ctr e e'.
Proof.
  intros Hf. unfold seg_append. destruct ls as [|l0 ls']; [intros [= <- <- <-]; apply ctr_refl; exact Hf|].
  destruct (0 <? ws_index_start tw); [intros [= <- <- <-]; apply ctr_refl; exact Hf|].
  destruct (existsb _ _); [intros [= <- <- <-]; apply ctr_refl; exact Hf|].
  destruct (negb _); [intros [= <- <- <-]; apply ctr_refl; exact Hf|].
  cbn zeta. rewrite (io_ok _ e Hf). cbn [negb]. rewrite (io_ok _ (io_env _ e) eq_refl). cbn [negb].
  intros [= <- <- <-]. eapply ctr_trans; [|apply ctr_io; [reflexivity|exact I]]; apply ctr_io; [exact Hf|exact I].
Qed.

(* ForceSeal: nothing (already sealed, or refused), or a write and an fsync
   after which the file of the writer, if it exists, is sealed at the writer's
   index start *)
Lemma seg_force_seal_ctr tw e r tw' e' :
  e_fault e = None -> seg_force_seal tw e = (r, tw', e') ->
  ctr e e' /\
  (r = ROk ->
   (tw' = tw /\ e' = e /\ 0 < ws_index_start tw) \/
   (0 < ws_index_start tw' /\
    (forall n, n <> ws_name tw -> lookup n (dk_files (e_disk e')) = lookup n (dk_files (e_disk e))) /\
    (forall f', lookup (ws_name tw) (dk_files (e_disk e')) = Some f' -> cur_seal f' = ws_index_start tw'))).
Proof.
  intros Hf. unfold seg_force_seal. destruct (0 <? ws_index_start tw) eqn:Es.
  { intros [= <- <- <-]. split; [apply ctr_refl; exact Hf|]. intros _. left. split; [reflexivity|]. split; [reflexivity|lia]. }
  destruct (ws_n tw =? 0); [intros [= <- <- <-]; split; [apply ctr_refl; exact Hf|discriminate]|].
  cbn zeta. rewrite (io_ok _ e Hf). cbn [negb]. rewrite (io_ok _ (io_env _ e) eq_refl). cbn [negb].
  intros [= <- <- <-]. split; [eapply ctr_trans; [|apply ctr_io; [reflexivity|exact I]]; apply ctr_io; [exact Hf|exact I]|].
  intros _. right. cbn [ws_index_start ws_name io_env e_disk]. split; [destruct (ws_hdr tw); lia|].
  set (b := {| pb_ents := []; pb_end := _; pb_seal := _ |}).
  split.
  - intros n Hn. rewrite lookup_sync_neq, lookup_write_neq by exact Hn. reflexivity.
  - intros f' Ef'. destruct (lookup (ws_name tw) (dk_files (e_disk e))) as [f|] eqn:Ef.
    + destruct (lookup_write_eq (e_disk e) (ws_name tw) (ws_off tw) ((if ws_hdr tw then 32 else 0) + index_frame_size (ws_n tw) + 8) b f Ef)
        as (f1 & Ef1 & Hs1).
      rewrite (lookup_sync_eq _ _ _ Ef1) in Ef'. inversion Ef'; subst f'. unfold synced_file, cur_seal at 1. cbn. exact Hs1.
    + exfalso. cbn [apply_act] in Ef'. rewrite Ef in Ef'. cbn [apply_act] in Ef'. rewrite Ef in Ef'. rewrite Ef in Ef'. discriminate.
Qed.

Lemma mutate_gen_ctr defer w t e r w' e' dels :
  e_fault e = None -> ISs (e_disk e) (tx_segs t) ->
  mutate_gen defer w t e = (r, w', e', dels) -> ctr e e'.
Proof.
  intros Hf HI. unfold mutate_gen. rewrite (io_ok _ e Hf). cbn [negb].
  assert (C1 : ctr e (io_env (ACommit {| ps_next_id := tx_next_id t; ps_segs := tx_segs t |}) e))
    by (apply ctr_commit; assumption).
  destruct (tx_create t) as [si|].
  - destruct (seg_create si _) as [sw e2] eqn:Ec.
    pose proof (seg_create_ctr _ _ _ _ (ctr_fault _ _ C1) Ec) as C2.
    destruct sw as [sw|]; intros [= <- <- <- <-].
    + destruct defer; [eapply ctr_trans; eauto|].
      eapply ctr_trans; [exact C1|]. eapply ctr_trans; [exact C2|]. apply delete_files_ctr. apply (ctr_fault _ _ C2).
    + eapply ctr_trans; eauto.
  - intros [= <- <- <- <-]. destruct defer; [exact C1|].
    eapply ctr_trans; [exact C1|]. apply delete_files_ctr. reflexivity.
Qed.
