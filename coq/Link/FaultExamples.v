(* FaultExamples.v -- a concrete history with injected faults, at both levels
   (definitions only; evaluated by vm_compute in Props/Link.v).  It is the
   multi-failure history of Seg/FailFacts.v (fx_ops) lifted to the WAL:
     StoreLogs [1]          ok
     StoreLogs [2a;3a;4a]   the fsync fails (count 1: the write succeeds)
     StoreLogs [2b;3b]      the fsync fails
     StoreLogs [2c]         ok, shorter than the failed writes
   so behind the commit frame of 2c the tail file holds the rest of 2b/3b and
   of 3a/4a, commit frames included.  Then a restart and reads. *)
From RW Require Import Base.Bytes Fmt.Codec Fmt.Frame Seg.Writer Seg.SegAbs Seg.Recover Seg.FailFacts
     Wal.Model Wal.Spec Wal.Hist Wal.FaultHist Link.Abs Link.Disk Link.FaultDisk Link.FaultLink Gen.Constants.
Open Scope N_scope.

Definition fe_time : gotime := {| t_sec := 63800000000; t_nsec := 0; t_zone := None |}.
Definition fe_log (i term n : N) : log :=
  {| l_index := i; l_term := term; l_type := 0; l_data := repeat (64 + term) (N.to_nat n); l_ext := []; l_time := fe_time |}.

Definition fe_c : cfg := {| c_seg_size := 4096; c_codec := 1 |}.
Definition fe_s0 : sstate :=
  match initial fe_c with Some s => s | None => {| ss_wal := close {| st_next_id := 0; st_segs := []; st_tail := None; st_rotate := None; st_failed := false; st_closed := true |}; ss_env := fresh_env |} end.

Definition fe_b1 : list log := [fe_log 1 1 24].
Definition fe_ba : list log := [fe_log 2 2 24; fe_log 3 2 24; fe_log 4 2 16].
Definition fe_bb : list log := [fe_log 2 3 24; fe_log 3 3 16].
Definition fe_bc : list log := [fe_log 2 4 16].

Definition fe_calls : list fstep :=
  [FOp None fx_none (OStore fe_b1); FOp (Some 1%nat) fx_none (OStore fe_ba);
   FOp (Some 1%nat) fx_none (OStore fe_bb); FOp None fx_none (OStore fe_bc)].
Definition fe_steps : list fstep := fe_calls ++ [FRestart; FOp None fx_none (OStore [fe_log 3 5 8])].

(* L2: the state after the four calls *)
Definition fe_h : fstate := fault_run fe_c (fault_init fe_s0) fe_calls.
Definition fe_d : disk := fdisk fe_h.

(* L1: the tail file (1, 0) under the same operations *)
Definition fe_n : fname := (1, 0).
Definition fe_info : seginfo := finfo fe_c fe_n.
Definition fe_ops : list fop :=
  [(OpAppend (ents fe_b1), FNone); (OpAppend (ents fe_ba), FSync);
   (OpAppend (ents fe_bb), FSync); (OpAppend (ents fe_bc), FNone)].
Definition fe_st : FailFacts.fstate := frun fe_info 4096 fe_ops.
Definition fe_bf : bfile :=
  {| bf_data := FailFacts.fs_file fe_st; bf_sync := FailFacts.fs_sync fe_st; bf_pend := FailFacts.fs_pw fe_st; bf_dir := true |}.
Definition fe_bd : bdisk := [(fe_n, fe_bf)].

(* projections *)
Definition fe_tail_file : option dfile := lookup fe_n (dk_files fe_d).
Definition fe_after_restart : fstate := fault_run fe_c (fault_init fe_s0) (fe_calls ++ [FRestart]).
