(* ComposeFacts1.v -- lock-step runs and the primitives of the WAL:
   metadata io, seg_create, delete_files, seg_append, seg_force_seal,
   seg_recover.  Each primitive, started with a byte disk that is
   drep-related (and a linked tail writer), performs its L2 actions in lock
   step with byte-level actions and re-establishes the link. *)
From RW Require Import Base.Bytes Base.BytesFacts Base.Crc32c Fmt.Codec Fmt.Frame Fmt.FrameFacts
     Seg.Writer Seg.Recover Seg.SegAbs Seg.WriterFacts Seg.RecoverFacts Seg.ChainFacts
     Wal.Model Wal.Spec Wal.CrashFacts0 Link.Abs Link.AbsFacts1 Link.AbsFacts2 Link.AbsFacts3 Link.AbsFacts4
     Link.Disk Link.DiskFacts1 Link.DiskFacts2 Link.Compose Gen.Constants.
From Coq Require Import ZifyN ZifyNat ZifyBool.
Open Scope N_scope.

(* ---------------- lock-step runs ---------------- *)
Lemma lrun_start c bd d acts bd' d' : lrun c bd d acts bd' d' -> drep c bd d.
Proof. destruct 1; assumption. Qed.

Lemma lrun_end c bd d acts bd' d' : lrun c bd d acts bd' d' -> drep c bd' d'.
Proof. induction 1; assumption. Qed.

Lemma lrun_disk c bd d acts bd' d' : lrun c bd d acts bd' d' -> d' = fold_left apply_act acts d.
Proof. induction 1; [reflexivity|]. cbn [fold_left]. assumption. Qed.

Lemma lrun_app c bd d a1 bd1 d1 a2 bd2 d2 :
  lrun c bd d a1 bd1 d1 -> lrun c bd1 d1 a2 bd2 d2 -> lrun c bd d (a1 ++ a2) bd2 d2.
Proof.
  induction 1 as [|bd d a ba acts bd' d' H0 Hm _ IH]; intros H2; [exact H2|].
  cbn [app]. econstructor; eauto.
Qed.

Lemma lrun_one c bd d a ba :
  drep c bd d -> bmatch a ba -> drep c (bapply bd ba) (apply_act d a) ->
  lrun c bd d [a] (bapply bd ba) (apply_act d a).
Proof. intros H0 Hm H1. econstructor; eauto. constructor. exact H1. Qed.

(* every point of a lock-step run is a lock-step run: the byte disk reached
   after any number j of actions is drep-related to L2's disk at that point *)
Lemma lrun_prefix c bd d acts bd' d' j :
  lrun c bd d acts bd' d' ->
  exists bdj, lrun c bd d (firstn j acts) bdj (fold_left apply_act (firstn j acts) d).
Proof.
  intros H. revert j. induction H as [bd d H0|bd d a ba acts bd' d' H0 Hm _ IH]; intros j.
  - rewrite firstn_nil. exists bd. constructor. exact H0.
  - destruct j as [|j]; cbn [firstn fold_left].
    + exists bd. constructor. exact H0.
    + destruct (IH j) as [bdj Hj]. exists bdj. econstructor; eauto.
Qed.

(* ---------------- environment steps ---------------- *)
Lemma erun_refl c bd e : drep c bd (e_disk e) -> e_fault e = None -> erun c bd e bd e.
Proof. intros H Hf. split; [exact Hf|]. exists []. split; [reflexivity|constructor; exact H]. Qed.

Lemma erun_trans c bd e bd1 e1 bd2 e2 : erun c bd e bd1 e1 -> erun c bd1 e1 bd2 e2 -> erun c bd e bd2 e2.
Proof.
  intros (_ & a1 & E1 & L1) (F2 & a2 & E2 & L2). split; [exact F2|].
  exists (a1 ++ a2). split; [rewrite E2, E1, rev_app_distr, app_assoc; reflexivity|].
  eapply lrun_app; eauto.
Qed.

Lemma erun_start c bd e bd' e' : erun c bd e bd' e' -> drep c bd (e_disk e).
Proof. intros (_ & acts & _ & L). eapply lrun_start; eauto. Qed.
Lemma erun_end c bd e bd' e' : erun c bd e bd' e' -> drep c bd' (e_disk e').
Proof. intros (_ & acts & _ & L). eapply lrun_end; eauto. Qed.
Lemma erun_fault c bd e bd' e' : erun c bd e bd' e' -> e_fault e' = None.
Proof. intros (F & _). exact F. Qed.

(* metrics are not part of the run *)
Lemma erun_with_m_l c bd e m bd' e' : erun c bd (with_m e m) bd' e' <-> erun c bd e bd' e'.
Proof. unfold erun. cbn [with_m e_acts e_disk]. tauto. Qed.
Lemma erun_with_m_r c bd e m bd' e' : erun c bd e bd' (with_m e' m) <-> erun c bd e bd' e'.
Proof. unfold erun. cbn [with_m e_acts e_disk e_fault]. tauto. Qed.

(* one successful action *)
Lemma io_nofault a e : e_fault e = None -> io a e = (true, io_ok e a).
Proof.
  intros Hf. unfold io, io_ok, armed. rewrite Hf. destruct (is_delete a); reflexivity.
Qed.

Lemma erun_io c bd e a ba :
  e_fault e = None -> drep c bd (e_disk e) -> bmatch a ba ->
  drep c (bapply bd ba) (apply_act (e_disk e) a) ->
  erun c bd e (bapply bd ba) (io_ok e a).
Proof.
  intros Hf H0 Hm H1. split; [cbn [io_ok e_fault]; rewrite Hf; reflexivity|].
  exists [a]. split; [reflexivity|]. cbn [io_ok e_disk]. apply lrun_one; assumption.
Qed.

Lemma io_ok_fault e a : e_fault e = None -> e_fault (io_ok e a) = None.
Proof. intros Hf. cbn [io_ok e_fault]. rewrite Hf. reflexivity. Qed.

Lemma erun_meta c bd e a :
  meta_act a -> e_fault e = None -> drep c bd (e_disk e) -> erun c bd e bd (io_ok e a).
Proof.
  intros Hm Hf H0. change bd with (bapply bd BNone) at 2. apply erun_io; auto.
  - destruct a; cbn in Hm |- *; try contradiction; reflexivity.
  - apply bnone_drep; assumption.
Qed.

(* ---------------- the tail link across actions on other files ---------------- *)
Lemma tail_link_frame c tw info bs bd d bd' d' :
  tail_link c tw info bs bd d ->
  (forall f, lookup (ws_name tw) (dk_files d') = Some f ->
             lookup (ws_name tw) (dk_files d) = Some f /\ blookup (ws_name tw) bd' = blookup (ws_name tw) bd) ->
  tail_link c tw info bs bd' d'.
Proof.
  intros [A B C D] H. constructor; auto. intros f Hf. destruct (H f Hf) as [H1 H2]. rewrite H2. apply D. exact H1.
Qed.

Lemma NoDup_apply d a : NoDup (map fst (dk_files d)) -> NoDup (map fst (dk_files (apply_act d a))).
Proof.
  intros H. destruct a; cbn [apply_act dk_files]; auto.
  - apply update_NoDup. exact H.
  - destruct (lookup n (dk_files d)); [|exact H]. cbn [dk_files]. apply update_NoDup. exact H.
  - destruct (lookup n (dk_files d)); [|exact H]. cbn [dk_files]. apply update_NoDup. exact H.
  - apply remove_NoDup. exact H.
Qed.

Lemma blookup_bremove_neq n m bd : n <> m -> blookup n (bremove m bd) = blookup n bd.
Proof.
  intros Hne. induction bd as [|[k g] r IH]; cbn [bremove blookup]; [reflexivity|].
  destruct (fname_eqb m k) eqn:E.
  - apply fname_eqb_eq in E. subst k.
    replace (fname_eqb n m) with false by (symmetry; apply fname_eqb_neq; exact Hne). reflexivity.
  - cbn [blookup]. rewrite IH. reflexivity.
Qed.

Lemma tail_link_meta c tw info bs bd d a :
  meta_act a -> tail_link c tw info bs bd d -> tail_link c tw info bs bd (apply_act d a).
Proof.
  intros Hm H. eapply tail_link_frame; [exact H|]. intros f Hf. rewrite (meta_act_files _ _ Hm) in Hf. auto.
Qed.

Lemma tail_link_delete c tw info bs bd d m :
  NoDup (map fst (dk_files d)) -> tail_link c tw info bs bd d ->
  tail_link c tw info bs (bapply bd (BDelete m)) (apply_act d (ADelete m)).
Proof.
  intros Hnd H. eapply tail_link_frame; [exact H|]. cbn [apply_act dk_files bapply]. intros f Hf.
  destruct (fname_eqb (ws_name tw) m) eqn:E.
  - apply fname_eqb_eq in E. subst m. rewrite lookup_remove_eq in Hf by exact Hnd. discriminate.
  - apply fname_eqb_neq in E. rewrite lookup_remove_neq in Hf by exact E. split; [exact Hf|].
    apply blookup_bremove_neq. exact E.
Qed.

Lemma tail_link_create_other c tw info bs bd d m size :
  ws_name tw <> m -> tail_link c tw info bs bd d ->
  tail_link c tw info bs (bapply bd (BCreate m size)) (apply_act d (ACreate m size)).
Proof.
  intros Hne H. eapply tail_link_frame; [exact H|]. cbn [apply_act dk_files bapply]. intros f Hf.
  rewrite lookup_update_neq in Hf by exact Hne. split; [exact Hf|]. apply blookup_bupdate_neq. exact Hne.
Qed.

Lemma tail_linked_meta c t bd d a : meta_act a -> tail_linked c t bd d -> tail_linked c t bd (apply_act d a).
Proof.
  intros Hm. destruct t as [tw|]; [|auto]. intros (info & bs & H). exists info, bs. apply tail_link_meta; assumption.
Qed.

(* ---------------- delete_files ---------------- *)
Lemma delete_files_link c ns : forall bd e t,
  drep c bd (e_disk e) -> NoDup (map fst (dk_files (e_disk e))) -> e_fault e = None ->
  tail_linked c t bd (e_disk e) ->
  exists bd', erun c bd e bd' (delete_files ns e) /\
              NoDup (map fst (dk_files (e_disk (delete_files ns e)))) /\
              tail_linked c t bd' (e_disk (delete_files ns e)).
Proof.
  induction ns as [|n ns IH]; intros bd e t H0 Hnd Hf Ht.
  - exists bd. split; [apply erun_refl; assumption|]. auto.
  - unfold delete_files. cbn [fold_left]. fold (delete_files ns (snd (io (ADelete n) e))).
    rewrite (io_nofault _ _ Hf). cbn [snd].
    assert (H1 : drep c (bapply bd (BDelete n)) (apply_act (e_disk e) (ADelete n))) by (apply bdelete_drep; exact H0).
    assert (E1 : erun c bd e (bapply bd (BDelete n)) (io_ok e (ADelete n))).
    { apply erun_io; auto. reflexivity. }
    destruct (IH (bapply bd (BDelete n)) (io_ok e (ADelete n)) t) as (bd' & E2 & Hnd' & Ht').
    + exact H1.
    + apply NoDup_apply. exact Hnd.
    + apply io_ok_fault. exact Hf.
    + destruct t as [tw|]; [|exact I]. destruct Ht as (info & bs & Ht). exists info, bs.
      apply tail_link_delete; assumption.
    + exists bd'. split; [eapply erun_trans; eauto|]. auto.
Qed.

(* ---------------- seg_create ---------------- *)
Lemma hdr_eq_new_segment c id base : hdr_eq (new_segment c id base) (finfo c (base, id)).
Proof. apply hdr_eq_refl. Qed.

Lemma tail_link_created c si bd d :
  si_codec si = c_codec c ->
  tail_link c (new_wseg si) si [] (bapply bd (BCreate (name_of si) (si_size_limit si)))
            (apply_act d (ACreate (name_of si) (si_size_limit si))).
Proof.
  intros Hc. constructor.
  - reflexivity.
  - cbn [new_wseg ws_name]. unfold hdr_eq, finfo, name_of. cbn. auto.
  - change (cstate si []) with c0. rewrite wst_c0. apply rep_w_init.
  - cbn [new_wseg ws_name apply_act dk_files bapply]. intros f Hf. rewrite lookup_update_eq in Hf. inversion Hf; subst f.
    exists (bcreated (si_size_limit si)). split; [apply blookup_bupdate_eq|]. apply frep_create.
Qed.

(* result: the writer of the created file, linked; or nothing happened to the files *)
Lemma seg_create_link c si bd e sw e' t :
  drep c bd (e_disk e) -> NoDup (map fst (dk_files (e_disk e))) -> e_fault e = None ->
  si_codec si = c_codec c -> hdr_wf (finfo c (name_of si)) ->
  tail_linked c t bd (e_disk e) ->
  seg_create si e = (sw, e') ->
  exists bd', erun c bd e bd' e' /\ NoDup (map fst (dk_files (e_disk e'))) /\
    match sw with
    | Some tw => tw = new_wseg si /\ tail_link c tw si [] bd' (e_disk e')
    | None => tail_linked c t bd' (e_disk e')
    end.
Proof.
  intros H0 Hnd Hf Hc Hh Ht. unfold seg_create. destruct (si_base si =? 0).
  - intros [= <- <-]. exists bd. split; [apply erun_refl; assumption|]. auto.
  - destruct (lookup (name_of si) (dk_files (e_disk e))) as [f|] eqn:El.
    + rewrite (io_nofault _ _ Hf). intros [= <- <-]. exists bd.
      split; [apply erun_meta; [exact I|assumption..]|]. split; [exact Hnd|].
      apply tail_linked_meta; [exact I|exact Ht].
    + rewrite (io_nofault _ _ Hf). intros [= <- <-].
      exists (bapply bd (BCreate (name_of si) (si_size_limit si))).
      split; [apply erun_io; auto; [reflexivity|apply bcreate_drep; assumption]|].
      split; [apply NoDup_apply; exact Hnd|]. split; [reflexivity|]. apply tail_link_created. exact Hc.
Qed.

Lemma lrun_prefix_drep c bd d acts bd' d' j :
  lrun c bd d acts bd' d' ->
  exists bdj, lrun c bd d (firstn j acts) bdj (fold_left apply_act (firstn j acts) d) /\
              drep c bdj (fold_left apply_act (firstn j acts) d).
Proof.
  intros L. destruct (lrun_prefix c bd d acts bd' d' j L) as [bdj Lj].
  exists bdj. split; [exact Lj|exact (lrun_end _ _ _ _ _ _ Lj)].
Qed.
