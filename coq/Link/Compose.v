(* Compose.v -- lifting the WAL-level model to bytes (definitions only).

   The L2 operations (store_logs, delete_range, rotate, open_wal, ...) touch
   the disk only through [io]; every action is recorded in e_acts.  Instead of
   re-defining the WAL over bytes, the byte-level disk is run in LOCK STEP with
   the L2 actions (Link/Disk.v lrun: each AWrite is matched by a pwrite of the
   bytes a byte-level writer emits; every intermediate pair of disks is
   drep-related).
     tail_link   the running WAL's tail writer (numeric, wseg) is represented
                 by a byte-level writer [wst info (cstate info bs)] and, if the
                 file exists, the file holds exactly the image of bs
     wlink       the invariant of a running WAL and a byte disk
     erun        an L2 environment step whose new actions are a lock-step run
     small_tw    the size facts of an unsealed tail writer from which the 2^32
                 guard of a write follows (Link_l2_append_guard)
     HL          the invariant of histories (Wal/Hist.v hstate) *)
From RW Require Import Base.Bytes Base.Crc32c Fmt.Codec Fmt.Frame Seg.Writer Seg.SegAbs Seg.Recover
     Seg.Reader Seg.RecoverFacts Wal.Model Wal.Spec Wal.Hist Link.Abs Link.AbsFacts2 Link.Disk Gen.Constants.
Open Scope N_scope.

Record tail_link (c : cfg) (tw : wseg) (info : seginfo) (bs : list batch) (bd : bdisk) (d : disk) : Prop := {
  tl_name : name_of info = ws_name tw;
  tl_hdr  : hdr_eq info (finfo c (ws_name tw));
  tl_w    : rep_w (wst info (cstate info bs)) tw;
  tl_file : forall f, lookup (ws_name tw) (dk_files d) = Some f ->
              exists bf, blookup (ws_name tw) bd = Some bf /\ frep_at info bs None bf f }.

Definition tail_linked (c : cfg) (t : option wseg) (bd : bdisk) (d : disk) : Prop :=
  match t with
  | Some tw => exists info bs, tail_link c tw info bs bd d
  | None => True
  end.

Definition wlink (c : cfg) (w : wal) (bd : bdisk) (d : disk) : Prop :=
  drep c bd d /\ NoDup (map fst (dk_files d)) /\ st_next_id w < two64 /\
  tail_linked c (st_tail w) bd d.

(* e' is e after some more successful actions, performed in lock step *)
Definition erun (c : cfg) (bd : bdisk) (e : env) (bd' : bdisk) (e' : env) : Prop :=
  e_fault e' = None /\
  exists acts, e_acts e' = rev acts ++ e_acts e /\ lrun c bd (e_disk e) acts bd' (e_disk e').

(* size facts of a tail writer that can still be written to *)
Definition small_tw (tw : wseg) : Prop :=
  ws_index_start tw = 0 ->
  ws_limit tw < two30 /\ ws_off tw <= ws_limit tw + 8 /\ 8 * ws_n tw <= ws_off tw.

Definition small_tail (t : option wseg) : Prop :=
  match t with Some tw => small_tw tw | None => True end.

(* histories *)
Definition HL (c : cfg) (h : hstate) (bd : bdisk) : Prop :=
  match hs_mode h with
  | Up s => wlink c (ss_wal s) bd (e_disk (ss_env s))
  | Down d => drep c bd d /\ NoDup (map fst (dk_files d))
  end.
