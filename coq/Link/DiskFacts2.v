(* DiskFacts2.v -- the directory level of the link, part 2: POWER LOSS.
   bcrash_sound: for every outcome of the byte-level crash adversary on a byte
     disk that is drep-related to an L2 disk d (every file independently: a
     non-durable directory entry kept or dropped, the write in flight torn per
     8-byte chunk) there is an L2 crash choice cc such that, after RecoverTail
     (recoverTailState + zeroStaleTail), the byte disk is drep-related to
     [crash_disk cc d];
   bcrash_tight: every L2 crash choice is realised by a byte-level outcome;
   bcrash_file_sound: the same per file with everything recovery returns (the
     recovered byte writer is represented by the writer L2's seg_recover
     builds; before zeroStaleTail the file is "image, then leftovers").
   Files without a write in flight are not changed by RecoverTail. *)
From RW Require Import Base.Bytes Base.BytesFacts Base.Crc32c Fmt.Codec Fmt.Frame Fmt.FrameFacts
     Seg.Writer Seg.Recover Seg.SegAbs Seg.WriterFacts Seg.RecoverFacts Seg.ChainFacts
     Wal.Model Wal.Spec Wal.CrashFacts0 Link.Abs Link.AbsFacts1 Link.AbsFacts2 Link.AbsFacts3 Link.AbsFacts4
     Link.Disk Link.DiskFacts1 Gen.Constants.
From Coq Require Import ZifyN ZifyNat ZifyBool.
Open Scope N_scope.

(* the file a power loss leaves when the directory entry survives *)
Definition bkept (s : bytes) : bfile := {| bf_data := s; bf_sync := s; bf_pend := []; bf_dir := true |}.

Lemma logs_ok_encs_ok' ls : Forall log_ok ls -> encs_ok ls.
Proof. apply logs_ok_encs_ok. Qed.

(* ---------------- RecoverTail on "image, then anything" ---------------- *)
Lemma bscrub_file_char info bs x :
  recover_state info (image info bs ++ x) = Some (wst info (cstate info bs)) ->
  let bf' := bscrub_file info (bkept (image info bs ++ x)) in
  bf_data bf' = image info bs ++ zeros (length x) /\ bf_sync bf' = bf_data bf' /\
  bf_pend bf' = [] /\ bf_dir bf' = true.
Proof.
  intros Hr. cbn zeta. unfold bscrub_file, recover_tail. cbn [bkept bf_data]. rewrite Hr.
  change (w_off (wst info (cstate info bs))) with (len (image info bs)).
  pose proof (recover_leaves_zero_tail (image info bs) x) as Hz.
  destruct (scrub_actions (image info bs ++ x) (len (image info bs))) as [|a0 ar] eqn:Ea.
  - cbn [bkept bf_data bf_sync bf_pend bf_dir]. cbn in Hz. auto.
  - cbn [bf_data bf_sync bf_pend bf_dir]. auto.
Qed.

Lemma frep_scrubbed info bs x f' :
  rep info bs f' -> Forall log_ok (cur_ents f') -> len (image info bs) < two32 -> df_dir f' = true ->
  recover_state info (image info bs ++ x) = Some (wst info (cstate info bs)) ->
  frep_at info bs None (bscrub_file info (bkept (image info bs ++ x))) f'.
Proof.
  intros R Hok Hlen Hd Hr. destruct (bscrub_file_char info bs x Hr) as (A & B & C & D).
  constructor; cbn [opt_batch].
  - exact R.
  - exact Hok.
  - rewrite app_nil_r. exact Hlen.
  - rewrite B, A. eexists. reflexivity.
  - exact C.
  - unfold bf_wf. rewrite C, B. reflexivity.
  - rewrite D, Hd. reflexivity.
Qed.

(* ---------------- one file, nothing in flight ---------------- *)
Lemma frep_chain info bs pb bf f :
  frep_at info bs pb bf f -> chain_wf info c0 (bs ++ opt_batch pb).
Proof.
  intros [A B C _ _ _ _]. destruct pb as [b|]; cbn [opt_batch] in *.
  - eapply chain_wf_cur; [apply rep_p_cur_rep; exact A|apply logs_ok_encs_ok'; exact B|exact C].
  - rewrite app_nil_r in *. eapply chain_wf_cur; [apply rep_cur_rep; exact A|apply logs_ok_encs_ok'; exact B|exact C].
Qed.

Lemma crashed_none keep f : df_pend f = None -> cur_ents (crashed keep f) = cur_ents f.
Proof. intros H. unfold crashed, cur_ents. rewrite H. reflexivity. Qed.

Lemma frep_crash_clean info bs bf f keep :
  hdr_wf info -> frep_at info bs None bf f ->
  frep_at info bs None (bscrub_file info (bkept (bf_sync bf))) (crashed keep f) /\
  recover_state info (bf_sync bf) = Some (wst info (cstate info bs)) /\
  bf_data (bscrub_file info (bkept (bf_sync bf))) = bf_sync bf.
Proof.
  intros Hh R. pose proof (frep_chain _ _ _ _ _ R) as Hwf. cbn [opt_batch] in Hwf. rewrite app_nil_r in Hwf.
  destruct R as [A B C [k D] E F G]. cbn [opt_batch] in *. rewrite app_nil_r in C.
  pose proof (recover_complete info bs k Hh Hwf) as Hr. rewrite D.
  pose proof (rep_pend _ _ _ A) as Hp.
  split; [|split; [exact Hr|]].
  - apply frep_scrubbed; auto.
    + destruct A as [A1 A2 A3 A4]. unfold crashed. rewrite A4. constructor; cbn [df_ents df_end df_seal df_pend]; auto.
    + rewrite (crashed_none _ _ Hp). exact B.
    + unfold crashed. rewrite Hp. reflexivity.
  - destruct (bscrub_file_char info bs (zeros k) Hr) as (A' & _). cbn zeta in A'. rewrite A', zeros_length. reflexivity.
Qed.

(* ---------------- one file, a torn write in flight ---------------- *)
Lemma frep_crash_torn info bs b bf f T :
  let new := batch_write info (cstate info bs) b in
  let keep := beq_bytes T new in
  let bs' := if keep then bs ++ [b] else bs in
  let s' := overwrite (bf_sync bf) (N.to_nat (len (image info bs))) T in
  hdr_wf info -> frep_at info bs (Some b) bf f -> torn new T -> no_torn_collision new T ->
  frep_at info bs' None (bscrub_file info (bkept s')) (crashed keep f) /\
  recover_state info s' = Some (wst info (cstate info bs')) /\
  (exists junk, s' = image info bs' ++ junk) /\
  rep_w (wst info (cstate info bs')) (recw info (crashed keep f)).
Proof.
  intros new keep bs' s' Hh R HT Hnc.
  pose proof (frep_chain _ _ _ _ _ R) as Hwf. cbn [opt_batch] in Hwf.
  destruct R as [A B C [k D] E F G]. cbn [opt_batch] in *.
  pose proof (seg_recover_torn info bs b T k Hh Hwf HT Hnc) as Hr. cbn zeta in Hr. fold new keep in Hr.
  assert (Es : s' = image info bs ++ T ++ zeros (k - length T)).
  { unfold s'. rewrite D, to_nat_len, overwrite_app, skipn_zeros. reflexivity. }
  assert (Es' : exists x, s' = image info bs' ++ x /\
                          recover_state info (image info bs' ++ x) = Some (wst info (cstate info bs'))).
  { unfold bs'. destruct keep eqn:Ek.
    - apply beq_bytes_eq in Ek. exists (zeros (k - length T)). rewrite image_snoc, <- app_assoc. fold new. rewrite <- Ek.
      split; [exact Es|].
      pose proof (seg_recover_torn info bs b T (k - length T) Hh Hwf HT Hnc) as Hr2. cbn zeta in Hr2.
      fold new in Hr2. rewrite Ek, beq_bytes_refl in Hr2. rewrite cstate_snoc. rewrite Ek. exact Hr2.
    - exists (T ++ zeros (k - length T)). split; [exact Es|].
      pose proof (seg_recover_torn info bs b T (k - length T) Hh Hwf HT Hnc) as Hr2. cbn zeta in Hr2.
      fold new keep in Hr2. rewrite Ek in Hr2. exact Hr2. }
  destruct Es' as (x & Ex & Hrx).
  pose proof (rep_crashed info bs b f keep A) as R'. fold bs' in R'.
  assert (Hd : df_dir (crashed keep f) = true).
  { destruct A as (_ & pb & Hp & _). unfold crashed. rewrite Hp. destruct keep; reflexivity. }
  assert (Hok : Forall log_ok (cur_ents (crashed keep f))).
  { destruct A as (_ & pb & Hp & _). unfold crashed, cur_ents in *. rewrite Hp in *.
    destruct keep; cbn [synced df_pend df_ents]; [exact B|]. apply Forall_app in B. apply B. }
  assert (Hl : len (image info bs') < two32).
  { unfold bs'. destruct keep; [exact C|apply (len_image_snoc_lt _ _ _ C)]. }
  split; [rewrite Ex; apply frep_scrubbed; auto|].
  split; [rewrite Ex; exact Hrx|]. split; [exists x; exact Ex|].
  apply rep_w_recw, rep_cur_rep. exact R'.
Qed.

(* the outcomes of the adversary on a file that satisfies frep_at *)
Lemma torn_apply_one s off new s' :
  torn_apply s [(off, new)] s' ->
  exists T, torn_over (region s (N.to_nat off) (length new)) new T /\ no_torn_collision new T /\
            s' = overwrite s (N.to_nat off) T.
Proof.
  intros H. inversion H as [|? ? ? T ? ? HT Hnc Hr]; subst. inversion Hr; subst. exists T. auto.
Qed.

(* PER FILE.  Whatever the adversary leaves of a file (that survives), there is
   a decision keep such that: byte-level recovery of what is left returns the
   writer of bs' = the committed batches, plus the one in flight iff keep; L2's
   crashed file [crashed keep f] represents bs' and yields, by seg_recover, a
   writer representing the recovered byte writer; what is left is "image of
   bs', then leftovers", and RecoverTail re-establishes frep. *)
Theorem bcrash_file_sound info bs pb bf f s' :
  hdr_wf info -> frep_at info bs pb bf f -> torn_apply (bf_sync bf) (bf_pend bf) s' ->
  exists keep : bool,
    let bs' := if keep then bs ++ opt_batch pb else bs in
    (pb = None -> s' = bf_sync bf /\ bf_data (bscrub_file info (bkept s')) = s') /\
    frep_at info bs' None (bscrub_file info (bkept s')) (crashed keep f) /\
    recover_state info s' = Some (wst info (cstate info bs')) /\
    (exists junk, s' = image info bs' ++ junk) /\
    rep_w (wst info (cstate info bs')) (recw info (crashed keep f)).
Proof.
  intros Hh R Ht. destruct pb as [b|].
  - rewrite (fr_pend _ _ _ _ _ R) in Ht. destruct (torn_apply_one _ _ _ _ Ht) as (T & HT & Hnc & ->).
    destruct (fr_sync _ _ _ _ _ R) as [k D]. rewrite D, to_nat_len, region_zeros in HT. apply torn_over_zeros in HT.
    exists (beq_bytes T (batch_write info (cstate info bs) b)).
    destruct (frep_crash_torn info bs b bf f T Hh R HT Hnc) as (P1 & P2 & P3 & P4).
    cbn [opt_batch]. split; [discriminate|]. auto.
  - rewrite (fr_pend _ _ _ _ _ R) in Ht. inversion Ht; subst. exists true. cbn [opt_batch]. rewrite app_nil_r.
    destruct (frep_crash_clean info bs bf f true Hh R) as (P1 & P2 & P3).
    split; [auto|]. split; [exact P1|]. split; [exact P2|].
    split; [destruct (fr_sync _ _ _ _ _ R) as [k D]; eexists; exact D|].
    apply rep_w_recw, rep_cur_rep. apply (fr_rep _ _ _ _ _ P1).
Qed.

(* ---------------- whole disks ---------------- *)
Lemma crash_file_cong cc cc' n f :
  mem_name n (cc_keep_file cc) = mem_name n (cc_keep_file cc') ->
  mem_name n (cc_keep_batch cc) = mem_name n (cc_keep_batch cc') ->
  crash_file cc (n, f) = crash_file cc' (n, f).
Proof. intros H1 H2. unfold crash_file. rewrite H1, H2. reflexivity. Qed.

Lemma flat_crash_cong cc cc' fs :
  (forall n, In n (map fst fs) -> mem_name n (cc_keep_file cc) = mem_name n (cc_keep_file cc') /\
                                  mem_name n (cc_keep_batch cc) = mem_name n (cc_keep_batch cc')) ->
  flat_map (crash_file cc) fs = flat_map (crash_file cc') fs.
Proof.
  induction fs as [|[n f] r IH]; intros H; [reflexivity|]. cbn [flat_map]. f_equal.
  - destruct (H n) as [H1 H2]; [left; reflexivity|]. apply crash_file_cong; assumption.
  - apply IH. intros m Hm. apply H. right. exact Hm.
Qed.

Lemma mem_name_cons m n l : mem_name m (n :: l) = fname_eqb m n || mem_name m l.
Proof. reflexivity. Qed.

(* one entry of the directory: the crash choice bits that match a byte-level outcome *)
Lemma bcrash_entry c n bf f l :
  hdr_wf (finfo c n) -> frep (finfo c n) bf f -> bcrash_file (n, bf) l ->
  exists kf kb : bool, forall cc,
    mem_name n (cc_keep_file cc) = kf -> mem_name n (cc_keep_batch cc) = kb ->
    frel c (bscrub c l) (crash_file cc (n, f)).
Proof.
  intros Hh (bs & pb & R) Hc. inversion Hc as [? ? Hd|? ? s' Ht]; subst.
  - exists false, false. intros cc H1 _. unfold crash_file.
    rewrite <- (fr_dir _ _ _ _ _ R), Hd, H1. constructor.
  - destruct (bcrash_file_sound _ _ _ _ _ _ Hh R Ht) as (keep & _ & R' & _).
    exists true, keep. intros cc H1 H2. rewrite crash_file_char by (right; exact H1). rewrite H2.
    cbn [bscrub map fst snd]. constructor; [|constructor]. cbn [fst snd].
    split; [reflexivity|]. split; [exact Hh|]. eexists. exists None. exact R'.
Qed.

Lemma frel_app c a b x y : frel c a x -> frel c b y -> frel c (a ++ b) (x ++ y).
Proof. apply Forall2_app. Qed.

Lemma bscrub_app c a b : bscrub c (a ++ b) = bscrub c a ++ bscrub c b.
Proof. apply map_app. Qed.

Lemma bcrash_sound_gen c bd fs :
  frel c bd fs -> NoDup (map fst fs) -> forall bd', bcrash bd bd' ->
  exists cc,
    (forall m, ~ In m (map fst fs) -> mem_name m (cc_keep_file cc) = false /\ mem_name m (cc_keep_batch cc) = false) /\
    frel c (bscrub c bd') (flat_map (crash_file cc) fs).
Proof.
  intros H. induction H as [|[m bf] [n f] bd fs (Hn & Hh & Hf) Hr IH]; intros Hnd bd' Hc.
  - inversion Hc; subst. exists {| cc_keep_file := []; cc_keep_batch := [] |}. split; [auto|constructor].
  - cbn [fst snd] in *. subst m. inversion Hc as [|? l r r' Hc1 Hc2]; subst.
    cbn [map fst] in Hnd. inversion Hnd as [|? ? Hni Hnd']; subst.
    destruct (IH Hnd' _ Hc2) as (cc0 & Hout & Hrel).
    destruct (bcrash_entry c n bf f l Hh Hf Hc1) as (kf & kb & Hent).
    set (cc := {| cc_keep_file := if kf then n :: cc_keep_file cc0 else cc_keep_file cc0;
                  cc_keep_batch := if kb then n :: cc_keep_batch cc0 else cc_keep_batch cc0 |}).
    destruct (Hout n Hni) as [Hn1 Hn2].
    assert (Hm : forall m, m <> n -> mem_name m (cc_keep_file cc) = mem_name m (cc_keep_file cc0) /\
                                     mem_name m (cc_keep_batch cc) = mem_name m (cc_keep_batch cc0)).
    { intros m Hne. apply fname_eqb_neq in Hne. unfold cc. cbn [cc_keep_file cc_keep_batch].
      destruct kf, kb; rewrite ?mem_name_cons, ?Hne; auto. }
    exists cc. split.
    + intros m Hm'. cbn [map fst] in Hm'. assert (Hne : m <> n) by (intros ->; apply Hm'; left; reflexivity).
      destruct (Hm m Hne) as [-> ->]. apply Hout. intros Hi. apply Hm'. right. exact Hi.
    + cbn [flat_map]. rewrite bscrub_app. apply frel_app.
      * apply Hent; unfold cc; cbn [cc_keep_file cc_keep_batch].
        -- destruct kf; [rewrite mem_name_cons, fname_eqb_refl; reflexivity|exact Hn1].
        -- destruct kb; [rewrite mem_name_cons, fname_eqb_refl; reflexivity|exact Hn2].
      * rewrite (flat_crash_cong cc cc0); [exact Hrel|].
        intros m Hi. apply Hm. intros ->. contradiction.
Qed.

(* DISK-LEVEL CRASH SOUNDNESS *)
Theorem bcrash_sound c bd d bd' :
  drep c bd d -> NoDup (map fst (dk_files d)) -> bcrash bd bd' ->
  exists cc, drep c (bscrub c bd') (crash_disk cc d).
Proof.
  intros H Hnd Hc. destruct (bcrash_sound_gen c bd (dk_files d) H Hnd bd' Hc) as (cc & _ & Hr).
  exists cc. exact Hr.
Qed.

(* ... and every L2 crash choice is the outcome of a byte-level crash *)
Lemma bcrash_entry_tight c cc n bf f :
  hdr_wf (finfo c n) -> frep (finfo c n) bf f ->
  exists l, bcrash_file (n, bf) l /\ frel c (bscrub c l) (crash_file cc (n, f)).
Proof.
  intros Hh (bs & pb & R).
  destruct (negb (df_dir f) && negb (mem_name n (cc_keep_file cc))) eqn:Ed.
  - exists []. split.
    + apply andb_true_iff in Ed as [Ed _]. apply negb_true_iff in Ed.
      apply bcf_drop. rewrite (fr_dir _ _ _ _ _ R). exact Ed.
    + unfold crash_file. rewrite Ed. constructor.
  - assert (Hs : df_dir f = true \/ mem_name n (cc_keep_file cc) = true).
    { apply andb_false_iff in Ed as [Ed|Ed]; apply negb_false_iff in Ed; auto. }
    rewrite (crash_file_char _ _ _ Hs). set (keep := mem_name n (cc_keep_batch cc)).
    destruct pb as [b|].
    + set (new := batch_write (finfo c n) (cstate (finfo c n) bs) b).
      destruct (crash_file_tight (finfo c n) (cstate (finfo c n) bs) b keep) as (T & HT & Hnc & Hk). fold new in HT, Hnc, Hk.
      destruct (fr_sync _ _ _ _ _ R) as [k D].
      exists [(n, bkept (overwrite (bf_sync bf) (N.to_nat (len (image (finfo c n) bs))) T))]. split.
      * apply bcf_keep. rewrite (fr_pend _ _ _ _ _ R). fold new. econstructor; [|exact Hnc|constructor].
        rewrite D, to_nat_len, region_zeros. apply torn_torn_over. exact HT.
      * destruct (frep_crash_torn _ bs b bf f T Hh R HT Hnc) as (P1 & _). fold new in P1. rewrite Hk in P1.
        cbn [bscrub map fst snd]. constructor; [|constructor]. cbn [fst snd].
        split; [reflexivity|]. split; [exact Hh|]. eexists. exists None. exact P1.
    + exists [(n, bkept (bf_sync bf))]. split.
      * apply bcf_keep. rewrite (fr_pend _ _ _ _ _ R). constructor.
      * destruct (frep_crash_clean _ bs bf f keep Hh R) as (P1 & _).
        cbn [bscrub map fst snd]. constructor; [|constructor]. cbn [fst snd].
        split; [reflexivity|]. split; [exact Hh|]. eexists. exists None. exact P1.
Qed.

Theorem bcrash_tight c bd d cc :
  drep c bd d -> exists bd', bcrash bd bd' /\ drep c (bscrub c bd') (crash_disk cc d).
Proof.
  unfold drep. cbn [crash_disk dk_files]. generalize (dk_files d). intros fs H.
  induction H as [|[m bf] [n f] bd fs (Hn & Hh & Hf) Hr IH].
  - exists []. split; constructor.
  - cbn [fst snd] in *. subst m. destruct IH as (r' & Hc & Hrel).
    destruct (bcrash_entry_tight c cc n bf f Hh Hf) as (l & Hl & Hlr).
    exists (l ++ r'). split; [constructor; assumption|].
    cbn [flat_map]. rewrite bscrub_app. apply frel_app; assumption.
Qed.

(* RecoverTail does not change a file that had no write in flight: after a
   crash only the files with a torn write are touched by bscrub *)
Theorem bscrub_clean info bs bf f :
  hdr_wf info -> frep_at info bs None bf f ->
  bf_data (bscrub_file info (bkept (bf_sync bf))) = bf_sync bf /\ bf_data bf = bf_sync bf.
Proof.
  intros Hh R. destruct (frep_crash_clean info bs bf f true Hh R) as (_ & _ & P). split; [exact P|].
  rewrite (fr_wf _ _ _ _ _ R), (fr_pend _ _ _ _ _ R). reflexivity.
Qed.
