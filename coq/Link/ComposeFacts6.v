(* ComposeFacts6.v -- the composition: every call of the model (step_model) in
   lock step, and histories with crashes (Wal/Hist.v).
     step_link         one API call from a linked state: its new L2 actions are a
                       lock-step run, the result is linked
     hist_step_link    the invariant HL is kept by every step of a history; for
                       the crash steps the byte-level outcome is the one that
                       realises the history's crash choice (bcrash_tight)
     hist_link         every history accepted by crash_refinement has a
                       byte-level run: at the end (hence at every prefix) the
                       byte disk is drep-related to L2's disk
     crash_in_call_covered / crash_in_open_covered
                       the other direction at every crash point: WHATEVER the
                       byte-level adversary leaves after j actions of a call
                       (of Open), there is an L2 crash choice cc for which the
                       history continues linked, after RecoverTail *)
From RW Require Import Base.Bytes Base.BytesFacts Base.Crc32c Fmt.Codec Fmt.Frame Fmt.FrameFacts
     Seg.Writer Seg.Recover Seg.SegAbs Seg.WriterFacts Seg.RecoverFacts Seg.ChainFacts
     Wal.Model Wal.Spec Wal.Hist Wal.CrashInv Wal.CrashFacts0 Wal.CrashFacts1 Wal.CrashFacts2 Wal.CrashFacts3
     Wal.CrashFacts4 Wal.CrashGlue Wal.CrashCalls10
     Link.Abs Link.AbsFacts1 Link.AbsFacts2 Link.AbsFacts3 Link.AbsFacts4
     Link.Disk Link.DiskFacts1 Link.DiskFacts2 Link.Compose Link.ComposeFacts1 Link.ComposeFacts2
     Link.ComposeFacts3 Link.ComposeFacts4 Link.ComposeFacts5 Gen.Constants.
From Coq Require Import ZifyN ZifyNat ZifyBool.
Open Scope N_scope.

(* ---------------- the guards, from the invariants of crash_refinement ---------------- *)
Lemma LInv_small c nb w d : cfg_ok c -> LInv c nb w d -> small_tail (st_tail w).
Proof.
  intros (_ & _ & _ & Hsz) (_ & _ & HD & _ & Hm & t & f & tw & Ht & Hl & Htw & Hok & _).
  rewrite Htw. cbn [small_tail]. intros Hz.
  destruct Hok as (_ & _ & _ & Hlim & Hn & Hoff & Hist & _).
  destruct HD as (_ & HD). rewrite Hm in HD. destruct HD as (_ & _ & S & t' & Hsegs & Hwf & _ & _ & Htok).
  cbn [persistent ps_segs] in Hsegs. rewrite Hsegs, tail_info_app in Ht. inversion Ht; subst t'.
  apply Forall_app in Hwf as [_ Hwf]. inversion Hwf as [|? ? (_ & Hl2 & _) _]; subst.
  destruct Htok as (_ & Htok). rewrite Hl in Htok. destruct Htok as ((F1 & F2 & F3 & _) & _).
  rewrite Hlim, Hl2, Hn, Hoff. rewrite Hist in Hz. specialize (F3 Hz). unfold two30 in *. lia.
Qed.

Lemma DIs_meta_small c nb d : DIs c nb d -> nb < two64 -> meta_small d.
Proof.
  intros (_ & HD) Hnb. unfold meta_small. destruct (dk_meta d) as [ps|]; [|exact I].
  destruct HD as (Hle & _ & S & t & Hsegs & Hwf & _). split; [lia|].
  rewrite Hsegs. eapply Forall_impl; [|exact Hwf]. intros s (_ & _ & _ & Hb & _ & Hi). split; [exact Hb|lia].
Qed.

(* ---------------- one call ---------------- *)
Lemma settle_link c s bd :
  cfg_ok c -> wlink c (ss_wal s) bd (e_disk (ss_env s)) -> e_fault (ss_env s) = None ->
  small_tail (st_tail (ss_wal s)) ->
  op_link c bd (ss_env s) (ss_wal (settle c s)) (ss_env (settle c s)) /\
  small_tail (st_tail (ss_wal (settle c s))).
Proof.
  intros Hc HW Hf Hs. unfold settle. destruct (st_rotate (ss_wal s)) eqn:Er.
  - destruct (rotate c (ss_wal s) (ss_env s)) as [w' e'] eqn:Ero. cbn [ss_wal ss_env].
    destruct (rotate_link c _ bd _ w' e' Hc HW Hf Ero) as (HL & [Ht|(si & Hsm & Ht)]).
    + split; [exact HL|]. rewrite Ht. exact Hs.
    + split; [exact HL|]. rewrite Ht. exact Hsm.
  - split; [apply op_link_same; assumption|exact Hs].
Qed.

Lemma op_link_trans c bd e w1 e1 w2 e2 :
  op_link c bd e w1 e1 -> (forall bd1, wlink c w1 bd1 (e_disk e1) -> op_link c bd1 e1 w2 e2) ->
  op_link c bd e w2 e2.
Proof.
  intros (bd1 & E1 & W1) H. destruct (H bd1 W1) as (bd2 & E2 & W2). exists bd2. split; [eapply erun_trans; eauto|exact W2].
Qed.

Lemma op_link_fault c bd e w' e' : op_link c bd e w' e' -> e_fault e' = None.
Proof. intros (bd' & E & _). apply (erun_fault _ _ _ _ _ E). Qed.

Lemma erun_meta_m c bd e m a :
  meta_act a -> e_fault e = None -> drep c bd (e_disk e) -> erun c bd e bd (io_ok (with_m e m) a).
Proof.
  intros Hm Hf H0. pose proof (erun_meta c bd (with_m e m) a Hm Hf H0) as (F & acts & Ea & L).
  split; [exact F|]. exists acts. auto.
Qed.

Theorem step_link c nb s o bd r s' :
  cfg_ok c -> sop_ok o ->
  wlink c (ss_wal s) bd (e_disk (ss_env s)) -> e_fault (ss_env s) = None ->
  LInv c nb (ss_wal s) (e_disk (ss_env s)) -> nb < two64 ->
  step_model c s o = (r, s') -> (o = OReopen -> r = ROk) ->
  op_link c bd (ss_env s) (ss_wal s') (ss_env s').
Proof.
  intros Hc Ho HW Hf HL Hnb H Hre. pose proof (LInv_small _ _ _ _ Hc HL) as Hs.
  destruct o; cbn [step_model] in H.
  - (* StoreLogs *)
    destruct (settle_link c s bd Hc HW Hf Hs) as (HL1 & Hs1). set (s1 := settle c s) in *.
    destruct (store_logs c (ss_wal s1) ls (ss_env s1)) as [[r0 w'] e'] eqn:Es. inversion H; subst. cbn [ss_wal ss_env].
    eapply op_link_trans; [exact HL1|]. intros bd1 W1. destruct Ho as (Hls & Hfs).
    eapply store_logs_link; eauto. apply (op_link_fault _ _ _ _ _ HL1).
  - (* DeleteRange *)
    destruct (settle_link c s bd Hc HW Hf Hs) as (HL1 & Hs1). set (s1 := settle c s) in *.
    destruct (delete_range c (ss_wal s1) mn mx (ss_env s1)) as [[r0 w'] e'] eqn:Es. inversion H; subst. cbn [ss_wal ss_env].
    eapply op_link_trans; [exact HL1|]. intros bd1 W1.
    eapply delete_range_link; eauto. apply (op_link_fault _ _ _ _ _ HL1).
  - (* GetLog: counters only *)
    destruct (get_log (ss_wal s) i (ss_env s)) as [r0 e'] eqn:Eg. inversion H; subst. cbn [ss_wal ss_env].
    assert (He : exists m, e' = with_m (ss_env s) m).
    { unfold get_log in Eg. destruct (st_closed (ss_wal s)); [inversion Eg; subst; exists (e_m (ss_env s)); destruct (ss_env s); reflexivity|].
      cbn zeta in Eg. unfold inc_read, add_m in Eg.
      repeat match type of Eg with context [match ?x with _ => _ end] => destruct x end;
        inversion Eg; subst; eexists; reflexivity. }
    destruct He as [m ->]. apply op_link_with_m_r. apply op_link_same; assumption.
  - inversion H; subst. apply op_link_same; assumption.
  - inversion H; subst. apply op_link_same; assumption.
  - (* SetStable *)
    destruct (set_stable (ss_wal s) k v is_nil (ss_env s)) as [r0 e'] eqn:Eg. inversion H; subst. cbn [ss_wal ss_env].
    unfold set_stable in Eg. destruct (st_closed (ss_wal s)); [inversion Eg; subst; apply op_link_same; assumption|].
    cbn zeta in Eg. destruct (negb (key_ok k)).
    + inversion Eg; subst. unfold inc_stable, add_m. apply op_link_with_m_r. apply op_link_same; assumption.
    + unfold inc_stable, add_m in Eg. rewrite io_nofault in Eg by exact Hf. inversion Eg; subst.
      exists bd. destruct HW as (H0 & Hnd & Hid & Ht).
      split; [apply erun_meta_m; [exact I|exact Hf|exact H0]|].
      cbn [io_ok with_m e_disk]. split; [apply bnone_drep; [exact I|exact H0]|].
      split; [apply NoDup_apply; exact Hnd|]. split; [exact Hid|]. apply tail_linked_meta; [exact I|exact Ht].
  - (* GetStable *)
    destruct (get_stable (ss_wal s) k (ss_env s)) as [r0 e'] eqn:Eg. inversion H; subst. cbn [ss_wal ss_env].
    unfold get_stable in Eg. destruct (st_closed (ss_wal s)); inversion Eg; subst; [apply op_link_same; assumption|].
    unfold inc_stable, add_m. apply op_link_with_m_r. apply op_link_same; assumption.
  - (* Close; Open *)
    destruct (open_wal c (ss_env s)) as [res e'] eqn:Eo.
    destruct HL as (_ & _ & HD & Hnp & _).
    destruct HW as (H0 & Hnd & _).
    destruct (open_wal_link c bd (ss_env s) res e' Hc H0 Hnd Hf Hnp (DIs_meta_small _ _ _ HD Hnb) Eo) as (bd' & E & Hres).
    destruct res as [w'|x].
    + inversion H; subst. exists bd'. auto.
    + assert (Hx := Hre eq_refl). inversion H; subst.
      (* Open returned ROk as an error value: impossible *)
      exfalso. clear - Eo. rewrite open_wal_unfold in Eo.
      destruct (_ && _); [discriminate|].
      destruct (if dk_inited (e_disk (ss_env s)) then (true, ss_env s) else io AInitMeta (ss_env s)) as [ok0 e0].
      destruct (negb ok0); [discriminate|].
      destruct (armed e0 && fx_list (e_fx e0)); [discriminate|]. unfold open_rest in Eo.
      destruct (open_segs _ _ _ _) as [[[r segs] tail] e1] eqn:Es. destruct r.
      * destruct tail; [discriminate|]. unfold open_newtail in Eo. cbn zeta in Eo.
        destruct (io _ e1) as [ok1 e2]. destruct (negb ok1); [discriminate|].
        destruct (seg_create _ e2) as [[sw|] e3]; discriminate.
      * inversion Eo. 
      * inversion Eo.
      * inversion Eo.
      * inversion Eo.
      * inversion Eo.
      * inversion Eo.
      * inversion Eo.
      * inversion Eo.
      * inversion Eo.
      * inversion Eo.
      * inversion Eo.
      * inversion Eo.
      * inversion Eo.
Qed.

(* ---------------- crash points of a lock-step run ---------------- *)
Lemma NoDup_fold acts : forall d, NoDup (map fst (dk_files d)) -> NoDup (map fst (dk_files (fold_left apply_act acts d))).
Proof. induction acts as [|a r IH]; intros d H; [exact H|]. cbn [fold_left]. apply IH, NoDup_apply. exact H. Qed.

Lemma crash_disk_NoDup cc d : NoDup (map fst (dk_files d)) -> NoDup (map fst (dk_files (crash_disk cc d))).
Proof. intros H. cbn [crash_disk dk_files]. apply crash_NoDup. exact H. Qed.

(* after any number j of the actions: the byte disk reached is related; every
   L2 crash choice is realised by a byte-level outcome; every byte-level
   outcome is covered by an L2 crash choice *)
Lemma crash_point c bd d acts bd' d' j :
  lrun c bd d acts bd' d' -> NoDup (map fst (dk_files d)) ->
  let dj := fold_left apply_act (firstn j acts) d in
  exists bdj, lrun c bd d (firstn j acts) bdj dj /\
    (forall cc, exists out, bcrash bdj out /\ drep c (bscrub c out) (crash_disk cc dj)) /\
    (forall out, bcrash bdj out -> exists cc, drep c (bscrub c out) (crash_disk cc dj)) /\
    (forall cc, NoDup (map fst (dk_files (crash_disk cc dj)))).
Proof.
  intros L Hnd dj. destruct (lrun_prefix c bd d acts bd' d' j L) as [bdj Lj]. exists bdj.
  pose proof (lrun_end _ _ _ _ _ _ Lj) as Hj. fold dj in Lj, Hj.
  assert (Hndj : NoDup (map fst (dk_files dj))) by (apply NoDup_fold; exact Hnd).
  split; [exact Lj|]. split; [intros cc; apply bcrash_tight; exact Hj|].
  split; [intros out Ho; eapply bcrash_sound; eauto|]. intros cc. apply crash_disk_NoDup. exact Hndj.
Qed.

Lemma new_acts_erun c bd e bd' e' :
  erun c bd e bd' e' -> lrun c bd (e_disk e) (new_acts e e') bd' (e_disk e').
Proof.
  intros (_ & acts & Ha & L). replace (new_acts e e') with acts; [exact L|].
  unfold new_acts. rewrite Ha, app_length.
  replace (length (rev acts) + length (e_acts e) - length (e_acts e))%nat with (length (rev acts)) by lia.
  rewrite firstn_app. rewrite Nat.sub_diag. cbn. rewrite app_nil_r, firstn_all.
  rewrite rev_append_rev, app_nil_r. symmetry. apply rev_involutive.
Qed.

Lemma reopen_ok a r : result_eqb (res_class r) (fst (step_spec a OReopen)) = true -> r = ROk.
Proof. cbn [step_spec fst]. destruct r; cbn; congruence. Qed.

(* a call from a linked Up state of a history *)
Lemma call_link c nb h s o bd :
  cfg_ok c -> sop_ok o -> nb + 2 < two64 -> GI c nb h -> hs_mode h = Up s -> HL c h bd ->
  exists r s', step_model c s o = (r, s') /\
               op_link c bd (ss_env s) (ss_wal s') (ss_env s') /\
               NoDup (map fst (dk_files (e_disk (ss_env s)))).
Proof.
  intros Hc Ho Hnb (Hok & Hga & Hgm & HM) Emode HLk. unfold HL in HLk. rewrite Emode in HM, HLk.
  destruct HM as (_ & HLi & Hf & Hsp & _).
  destruct (call_ok_all c o nb s (hs_acked h) Hc Ho Hnb HLi Hf Hsp Hga) as (r & s' & Hst & Hres & _).
  exists r, s'. split; [exact Hst|]. split; [|apply HLk].
  eapply step_link; eauto; [lia|]. intros ->. eapply reopen_ok; eauto.
Qed.

Lemma open_link c nb h d bd :
  cfg_ok c -> nb + 2 < two64 -> GI c nb h -> hs_mode h = Down d -> HL c h bd ->
  exists w e, open_wal c (env_of d) = (OOk w, e) /\ op_link c bd (env_of d) w e.
Proof.
  intros Hc Hnb (Hok & Hga & Hgm & HM) Emode HLk. unfold HL in HLk. rewrite Emode in HM, HLk.
  destruct HM as (HD & HN & _). destruct HLk as (H0 & Hnd).
  destruct (open_wal_ok c nb (env_of d) Hc eq_refl HD HN) as (w & e' & Ho & _); [lia|].
  exists w, e'. split; [exact Ho|].
  destruct (open_wal_link c bd (env_of d) (OOk w) e' Hc H0 Hnd eq_refl HN) with (2 := Ho) as (bd' & E & HW).
  - eapply DIs_meta_small; eauto. lia.
  - exists bd'. auto.
Qed.

(* ---------------- histories ---------------- *)
Theorem hist_step_link c nb h st bd :
  cfg_ok c -> hstep_wf st -> nb + 2 < two64 -> GI c nb h -> HL c h bd ->
  exists bd', HL c (hstep_run c h st) bd'.
Proof.
  intros Hc Hwf Hnb HG HLk. unfold hstep_run. destruct (hs_mode h) as [s|d] eqn:Emode.
  - destruct st as [o|o j cc| |j cc]; try (exists bd; exact HLk).
    + destruct (call_link c nb h s o bd Hc Hwf Hnb HG Emode HLk) as (r & s' & Hst & (bd' & E & HW) & _).
      rewrite Hst. destruct (step_spec (hs_acked h) o) as [r' sp']. exists bd'. exact HW.
    + destruct (call_link c nb h s o bd Hc Hwf Hnb HG Emode HLk) as (r & s' & Hst & (bd' & E & HW) & Hnd).
      rewrite Hst. destruct (step_spec (hs_acked h) o) as [r' sp'].
      destruct (crash_point c bd _ _ bd' _ j (new_acts_erun _ _ _ _ _ E) Hnd) as (bdj & _ & Ht & _ & Hndc).
      destruct (Ht cc) as (out & _ & Hd). exists (bscrub c out).
      destruct (Nat.leb _ j); unfold HL; cbn [hs_mode]; split; auto.
  - destruct st as [o|o j cc| |j cc]; try (exists bd; exact HLk).
    + destruct (open_link c nb h d bd Hc Hnb HG Emode HLk) as (w & e & Ho & (bd' & E & HW)).
      rewrite Ho. exists bd'. exact HW.
    + destruct (open_link c nb h d bd Hc Hnb HG Emode HLk) as (w & e & Ho & (bd' & E & HW)).
      rewrite Ho. unfold HL in HLk. rewrite Emode in HLk. destruct HLk as (_ & Hnd).
      pose proof (new_acts_erun _ _ _ _ _ E) as L. unfold new_acts in L. cbn [env_of e_acts length] in L.
      rewrite Nat.sub_0_r, firstn_all in L. cbn [env_of e_disk] in L.
      destruct (crash_point c bd d _ bd' _ j L Hnd) as (bdj & _ & Ht & _ & Hndc).
      destruct (Ht cc) as (out & _ & Hd). exists (bscrub c out). unfold HL; cbn [hs_mode]. split; auto.
Qed.

Lemma HL_init c : HL c hist_init [].
Proof. unfold HL, hist_init. cbn. split; constructor. Qed.

Lemma hist_link_gen c steps : forall nb h,
  cfg_ok c -> nb + 2 * N.of_nat (length steps) < two64 -> Forall hstep_wf steps ->
  GI c nb h -> (exists bd, HL c h bd) -> exists bd, HL c (hist_run c h steps) bd.
Proof.
  unfold hist_run. induction steps as [|st steps IH]; intros nb h Hc Hnb Hwf HG HLk; [exact HLk|].
  inversion Hwf as [|? ? Hw1 Hw2]; subst. cbn [fold_left length] in *. destruct HLk as [bd HLk].
  apply (IH (nb + 2)); auto; [lia| |].
  - eapply (GI_step c nb h st (fun _ => True)); eauto; [intros o _; apply call_ok_all|lia|destruct st; exact I].
  - eapply hist_step_link; eauto. lia.
Qed.

(* EVERY HISTORY HAS A BYTE-LEVEL RUN *)
Theorem hist_link c steps :
  cfg_ok c -> Forall hstep_wf steps -> short_enough steps ->
  exists bd, HL c (hist_run c hist_init steps) bd.
Proof.
  intros Hc Hwf Hshort. apply (hist_link_gen c steps 0 hist_init); auto.
  - unfold short_enough in Hshort. unfold two64. lia.
  - apply GI_init.
  - exists []. apply HL_init.
Qed.

(* the invariant GI of crash_refinement, at the end of any accepted history *)
Lemma hist_GI c steps :
  cfg_ok c -> Forall hstep_wf steps -> short_enough steps ->
  GI c (2 * N.of_nat (length steps)) (hist_run c hist_init steps).
Proof.
  intros Hc Hwf Hshort.
  apply (GI_run c (fun _ => True) steps 0 hist_init Hc); auto.
  - intros o _. apply call_ok_all.
  - unfold short_enough in Hshort. unfold two64. lia.
  - rewrite Forall_forall. intros st _. destruct st; exact I.
  - apply GI_init.
Qed.

(* EVERY BYTE-LEVEL CRASH OUTCOME IS COVERED.  After any accepted history that
   leaves the WAL running, linked to the byte disk bd: for a call o and any j,
   the byte disk bdj reached after the first j actions of the call is related
   to L2's; whatever the byte-level adversary makes of bdj, there is a crash
   choice cc such that the history continued with "power loss after j actions
   of o, choice cc" is linked to the outcome after RecoverTail -- and that
   continued history is again accepted by crash_refinement. *)
Theorem crash_in_call_covered c nb h s o j bd :
  cfg_ok c -> sop_ok o -> nb + 2 < two64 -> GI c nb h -> hs_mode h = Up s -> HL c h bd ->
  let s' := snd (step_model c s o) in
  let acts := new_acts (ss_env s) (ss_env s') in
  let dj := fold_left apply_act (firstn j acts) (e_disk (ss_env s)) in
  exists bdj, lrun c bd (e_disk (ss_env s)) (firstn j acts) bdj dj /\
    forall out, bcrash bdj out ->
      exists cc, HL c (hstep_run c h (HCrashIn o j cc)) (bscrub c out) /\
                 hs_mode (hstep_run c h (HCrashIn o j cc)) = Down (crash_disk cc dj) /\
                 GI c (nb + 2) (hstep_run c h (HCrashIn o j cc)).
Proof.
  intros Hc Ho Hnb HG Emode HLk s' acts dj.
  assert (HGI : forall cc, GI c (nb + 2) (hstep_run c h (HCrashIn o j cc))).
  { intros cc. apply (GI_step c nb h (HCrashIn o j cc) (fun _ => True) Hc);
      [intros o' _; apply call_ok_all|exact Hnb|exact Ho|exact I|exact HG]. }
  destruct (call_link c nb h s o bd Hc Ho Hnb HG Emode HLk) as (r & s1 & Hst & (bd' & E & HW) & Hnd).
  destruct (crash_point c bd _ _ bd' _ j (new_acts_erun _ _ _ _ _ E) Hnd) as (bdj & Lj & _ & Hs & Hndc).
  exists bdj. unfold dj, acts, s'. rewrite Hst. cbn [snd]. split; [exact Lj|]. intros out Hout.
  destruct (Hs out Hout) as (cc & Hd). exists cc. split; [|split; [|apply HGI]].
  - unfold hstep_run. rewrite Emode, Hst. destruct (step_spec (hs_acked h) o) as [r' sp'].
    destruct (Nat.leb _ j); unfold HL; cbn [hs_mode]; auto.
  - unfold hstep_run. rewrite Emode, Hst. destruct (step_spec (hs_acked h) o) as [r' sp'].
    destruct (Nat.leb _ j); reflexivity.
Qed.

Theorem crash_in_open_covered c nb h d j bd :
  cfg_ok c -> nb + 2 < two64 -> GI c nb h -> hs_mode h = Down d -> HL c h bd ->
  let acts := rev_append (e_acts (snd (open_wal c (env_of d)))) [] in
  let dj := fold_left apply_act (firstn j acts) d in
  exists bdj, lrun c bd d (firstn j acts) bdj dj /\
    forall out, bcrash bdj out ->
      exists cc, HL c (hstep_run c h (HCrashInOpen j cc)) (bscrub c out) /\
                 hs_mode (hstep_run c h (HCrashInOpen j cc)) = Down (crash_disk cc dj) /\
                 GI c (nb + 2) (hstep_run c h (HCrashInOpen j cc)).
Proof.
  intros Hc Hnb HG Emode HLk acts dj.
  assert (HGI : forall cc, GI c (nb + 2) (hstep_run c h (HCrashInOpen j cc))).
  { intros cc. apply (GI_step c nb h (HCrashInOpen j cc) (fun _ => True) Hc);
      [intros o' _; apply call_ok_all|exact Hnb|exact I|exact I|exact HG]. }
  destruct (open_link c nb h d bd Hc Hnb HG Emode HLk) as (w & e & Ho & (bd' & E & HW)).
  pose proof HLk as HLk'. unfold HL in HLk'. rewrite Emode in HLk'. destruct HLk' as (_ & Hnd).
  pose proof (new_acts_erun _ _ _ _ _ E) as L. unfold new_acts in L. cbn [env_of e_acts length] in L.
  rewrite Nat.sub_0_r, firstn_all in L. cbn [env_of e_disk] in L.
  assert (Ea : acts = rev_append (e_acts e) []) by (unfold acts; rewrite Ho; reflexivity).
  destruct (crash_point c bd d _ bd' _ j L Hnd) as (bdj & Lj & _ & Hs & Hndc).
  exists bdj. unfold dj. rewrite Ea. split; [exact Lj|]. intros out Hout.
  destruct (Hs out Hout) as (cc & Hd). exists cc. split; [|split; [|apply HGI]].
  - unfold hstep_run. rewrite Emode, Ho. unfold HL; cbn [hs_mode]. auto.
  - unfold hstep_run. rewrite Emode, Ho. reflexivity.
Qed.

(* which files can have a write in flight: on a disk satisfying the structural
   invariant of crash_refinement, a listed segment whose file has a pending
   batch is the unsealed tail -- the file Open hands to RecoverTail.  (Unlisted
   files are deleted by Open without being read.)  So of the files bscrub
   touches after a crash, the only one that is ever read is the recovered tail. *)
Lemma pending_only_tail c nb d ps n f s :
  DIs c nb d -> dk_meta d = Some ps -> lookup n (dk_files d) = Some f -> df_pend f <> None ->
  In s (ps_segs ps) -> name_of s = n -> si_sealed s = false /\ tail_info (ps_segs ps) = Some s.
Proof.
  intros (_ & HD) Hm Hl Hp Hin Hn. rewrite Hm in HD. destruct HD as (_ & _ & S & t & Hsegs & _ & _ & Hso & Htok).
  rewrite Hsegs in Hin |- *. rewrite tail_info_app. apply in_app_or in Hin as [Hin|[<-|[]]].
  - exfalso. rewrite Forall_forall in Hso. destruct (Hso s Hin) as (_ & _ & f' & Hl' & _ & Hp' & _).
    rewrite Hn, Hl in Hl'. inversion Hl'; subst f'. contradiction.
  - split; [apply Htok|reflexivity].
Qed.
