(* FaultDiskFacts1.v -- the weak representation relation (Link/FaultDisk.v):
   every byte-level action preserves it w.r.t. the L2 action, also when bytes
   of failed writes lie behind the valid chain; and a restart (page cache
   adopted, RecoverTail on every file) re-establishes the STRONG relation drep
   under the side condition stale_free (Seg/FailFacts.v recover_behind).
     frep_wfrep / drep_wdrep   strong implies weak
     wcreate / wdelete / wnone / wsync / wwrite_drep   the actions
     wfrep_restart, wrestart   the restart *)
From RW Require Import Base.Bytes Base.BytesFacts Base.Crc32c Fmt.Codec Fmt.Frame Fmt.FrameFacts
     Seg.Writer Seg.Recover Seg.SegAbs Seg.WriterFacts Seg.RecoverFacts Seg.ChainFacts Seg.FailFacts
     Wal.Model Wal.Spec Wal.CrashFacts0 Link.Abs Link.AbsFacts1 Link.AbsFacts2 Link.AbsFacts3 Link.AbsFacts4
     Link.Disk Link.DiskFacts1 Link.DiskFacts2 Link.DiskFacts3 Link.Compose Link.FaultDisk Gen.Constants.
From Coq Require Import ZifyN ZifyNat ZifyBool.
Open Scope N_scope.

(* ---------------- generic lock-step facts ---------------- *)
Section Grel.
Variable P : seginfo -> bfile -> dfile -> Prop.

Lemma grel_lookup c bd fs n f :
  grel P c bd fs -> lookup n fs = Some f ->
  exists bf, blookup n bd = Some bf /\ hdr_wf (finfo c n) /\ P (finfo c n) bf f.
Proof.
  intros H. induction H as [|[m bf] [m' g] bd fs (Hn & Hh & Hf) _ IH]; cbn [lookup blookup]; [discriminate|].
  cbn [fst snd] in *. subst m'. destruct (fname_eqb n m) eqn:E.
  - apply fname_eqb_eq in E. subst m. intros [= ->]. exists bf. auto.
  - exact IH.
Qed.

Lemma grel_lookup_none c bd fs n : grel P c bd fs -> lookup n fs = None -> blookup n bd = None.
Proof.
  intros H. induction H as [|[m bf] [m' g] bd fs (Hn & _) _ IH]; cbn [lookup blookup]; [reflexivity|].
  cbn [fst] in Hn. subst m'. destruct (fname_eqb n m); [discriminate|exact IH].
Qed.

Lemma grel_blookup c bd fs n bf :
  grel P c bd fs -> blookup n bd = Some bf -> exists f, lookup n fs = Some f /\ hdr_wf (finfo c n) /\ P (finfo c n) bf f.
Proof.
  intros H Hb. destruct (lookup n fs) as [f|] eqn:E.
  - destruct (grel_lookup _ _ _ _ _ H E) as (bf' & Hb' & Hh & Hp). rewrite Hb in Hb'. inversion Hb'; subst. eauto.
  - rewrite (grel_lookup_none _ _ _ _ H E) in Hb. discriminate.
Qed.

Lemma grel_keys c bd fs : grel P c bd fs -> map fst bd = map fst fs.
Proof.
  intros H. induction H as [|x y bd fs (Hn & _) _ IH]; [reflexivity|]. cbn [map]. rewrite Hn, IH. reflexivity.
Qed.

Lemma grel_update c bd fs n bf f :
  grel P c bd fs -> hdr_wf (finfo c n) -> P (finfo c n) bf f ->
  grel P c (bupdate n bf bd) (update n f fs).
Proof.
  intros H Hh Hf. induction H as [|[m b] [m' g] bd fs (Hn & Hx) Hr IH]; cbn [update bupdate].
  - constructor; [|constructor]. cbn [fst snd]. auto.
  - cbn [fst snd] in *. subst m'. destruct (fname_eqb n m).
    + constructor; [|exact Hr]. cbn [fst snd]. auto.
    + constructor; [|exact IH]. cbn [fst snd]. auto.
Qed.

Lemma grel_remove c bd fs n : grel P c bd fs -> grel P c (bremove n bd) (remove n fs).
Proof.
  intros H. induction H as [|[m b] [m' g] bd fs (Hn & Hx) Hr IH]; cbn [remove bremove]; [constructor|].
  cbn [fst snd] in *. subst m'. destruct (fname_eqb n m); [exact Hr|].
  constructor; [|exact IH]. cbn [fst snd]. auto.
Qed.
End Grel.

Lemma grel_impl (P Q : seginfo -> bfile -> dfile -> Prop) c bd fs :
  (forall i bf f, P i bf f -> Q i bf f) -> grel P c bd fs -> grel Q c bd fs.
Proof.
  intros HPQ H. induction H as [|x y bd fs (Hn & Hh & Hp) _ IH]; constructor; [|exact IH]. auto.
Qed.

Lemma frel_is_grel c bd fs : frel c bd fs <-> grel frep c bd fs.
Proof. reflexivity. Qed.

(* ---------------- strong implies weak ---------------- *)
Lemma frep_data info bs pb bf f :
  frep_at info bs pb bf f -> exists k, bf_data bf = image info (bs ++ opt_batch pb) ++ zeros k.
Proof.
  intros R. pose proof (frep_sync _ _ _ _ _ R) as Rs. destruct (fr_sync _ _ _ _ _ Rs) as [k D].
  exists k. exact D.
Qed.

Lemma frep_wfrep info bs pb bf f : frep_at info bs pb bf f -> wfrep_at info bs pb bf f.
Proof.
  intros R. destruct (frep_data _ _ _ _ _ R) as [k D]. destruct R as [A B C _ _ _ G].
  constructor; auto. exists (zeros k). exact D.
Qed.

Theorem drep_wdrep c bd d : drep c bd d -> wdrep c bd d.
Proof.
  unfold drep, wdrep. apply grel_impl. intros i bf f (bs & pb & R). exists bs, pb. apply frep_wfrep. exact R.
Qed.

Lemma wfrep_at_hdr_eq i j bs pb bf f : hdr_eq i j -> wfrep_at i bs pb bf f -> wfrep_at j bs pb bf f.
Proof.
  intros He [A B C D E]. pose proof (image_hdr_eq _ _ (bs ++ opt_batch pb) He) as Ei.
  constructor; auto.
  - destruct pb as [b|]; [eapply rep_p_hdr_eq; eauto|eapply rep_hdr_eq; eauto].
  - rewrite <- Ei. exact C.
  - rewrite <- Ei. exact D.
Qed.

(* the synced part of a weakly represented file *)
Lemma wfrep_unpend info bs pb bf f : wfrep_at info bs pb bf f -> rep info bs (Abs.unpend f).
Proof.
  intros [A _ _ _ _]. destruct pb as [b|]; [apply A|].
  destruct A as [A1 A2 A3 A4]. constructor; cbn [Abs.unpend df_ents df_end df_seal df_pend]; auto.
Qed.

Lemma wfrep_cur_rep info bs pb bf f : wfrep_at info bs pb bf f -> cur_rep info (bs ++ opt_batch pb) f.
Proof.
  intros [A _ _ _ _]. destruct pb as [b|]; cbn [opt_batch]; [apply rep_p_cur_rep; exact A|].
  rewrite app_nil_r. apply rep_cur_rep. exact A.
Qed.

Lemma wfrep_cur_end info bs pb bf f : wfrep_at info bs pb bf f -> cur_end f = len (image info (bs ++ opt_batch pb)).
Proof. intros R. destruct (wfrep_cur_rep _ _ _ _ _ R) as (_ & H & _). exact H. Qed.

Lemma wfrep_chain info bs pb bf f : wfrep_at info bs pb bf f -> chain_wf info c0 (bs ++ opt_batch pb).
Proof.
  intros R. eapply chain_wf_cur; [apply (wfrep_cur_rep _ _ _ _ _ R)|apply logs_ok_encs_ok'; apply (wr_ok _ _ _ _ _ R)|apply (wr_len _ _ _ _ _ R)].
Qed.

(* ---------------- the actions ---------------- *)
Lemma wfrep_create info size : wfrep_at info [] None (bcreated size) (created size).
Proof. apply frep_wfrep, frep_create. Qed.

Theorem wcreate_drep c bd d n size :
  wdrep c bd d -> hdr_wf (finfo c n) ->
  wdrep c (bapply bd (BCreate n size)) (apply_act d (ACreate n size)).
Proof.
  intros H Hh. unfold wdrep. cbn [apply_act dk_files bapply]. apply grel_update; [exact H|exact Hh|].
  exists [], None. apply wfrep_create.
Qed.

Theorem wdelete_drep c bd d n :
  wdrep c bd d -> wdrep c (bapply bd (BDelete n)) (apply_act d (ADelete n)).
Proof. intros H. unfold wdrep in *. cbn [apply_act dk_files bapply]. apply grel_remove. exact H. Qed.

Theorem wnone_drep c bd d a : meta_act a -> wdrep c bd d -> wdrep c (bapply bd BNone) (apply_act d a).
Proof. intros Hm H. unfold wdrep in *. rewrite (meta_act_files _ _ Hm). exact H. Qed.

(* fsync: a pending batch (of a write whose own fsync failed, or of the write
   just issued) becomes committed; the bytes do not change *)
Lemma wfrep_sync info bs pb bf f :
  wfrep_at info bs pb bf f -> wfrep_at info (bs ++ opt_batch pb) None (bsync_file bf) (crashed true f).
Proof.
  intros [A B C D E]. constructor; cbn [opt_batch bsync_file bf_data bf_dir].
  - destruct pb as [b|]; cbn [opt_batch].
    + apply (rep_crashed info bs b f true A).
    + rewrite app_nil_r. destruct A as [A1 A2 A3 A4]. unfold crashed. rewrite A4.
      constructor; cbn [df_ents df_end df_seal df_pend]; auto.
  - rewrite cur_ents_crashed_true. exact B.
  - rewrite app_nil_r. exact C.
  - rewrite app_nil_r. exact D.
  - unfold crashed, synced. destruct (df_pend f); reflexivity.
Qed.

Theorem wsync_drep c bd d n :
  wdrep c bd d -> wdrep c (bapply bd (BSync n)) (apply_act d (ASync n)).
Proof.
  intros H. unfold wdrep in *. destruct (lookup n (dk_files d)) as [f|] eqn:El.
  - destruct (grel_lookup _ _ _ _ _ _ H El) as (bf & Hb & Hh & bs & pb & R).
    rewrite (bapply_sync _ _ _ Hb), (apply_sync_files _ _ _ El).
    apply grel_update; [exact H|exact Hh|]. eexists. exists None. apply wfrep_sync. exact R.
  - pose proof (grel_lookup_none _ _ _ _ _ H El) as Hb. cbn [apply_act bapply]. rewrite El, Hb. exact H.
Qed.

Lemma wwrite_missing_drep c bd d n off l pb bytes :
  wdrep c bd d -> lookup n (dk_files d) = None ->
  wdrep c (bapply bd (BWrite n off bytes)) (apply_act d (AWrite n off l pb)).
Proof.
  intros H El. unfold wdrep in *. pose proof (grel_lookup_none _ _ _ _ _ H El) as Hb.
  cbn [apply_act bapply]. rewrite El, Hb. exact H.
Qed.

(* L2's write at the synced end: a pending batch (left by a failed fsync) is
   replaced, never extended -- its end lies behind the synced end *)
Lemma apply_write_over d n l q f info bs pb bf :
  lookup n (dk_files d) = Some f -> wfrep_at info bs pb bf f ->
  dk_files (apply_act d (AWrite n (len (image info bs)) l q)) = update n (written f q) (dk_files d).
Proof.
  intros El R. destruct (df_pend f) as [p|] eqn:Ep.
  - apply (apply_replace_files d n _ l p q f El Ep).
    destruct R as [A _ _ _ _]. destruct pb as [b|].
    + destruct A as (_ & p' & Hp' & _ & Hb2 & _). rewrite Ep in Hp'. inversion Hp'; subst p'.
      rewrite Hb2, image_snoc, len_app. pose proof (batch_write_pos info (cstate info bs) b). lia.
    + rewrite (rep_pend _ _ _ A) in Ep. discriminate.
  - apply apply_write_files; assumption.
Qed.

(* THE WRITE OVER LEFTOVERS.  The file n represents the committed batches bs;
   behind their image lie arbitrary bytes (possibly a complete batch of a failed
   fsync, pending in L2).  One successful operation of the byte-level writer of
   the image of bs writes batch_write at the end of the image -- over those
   bytes.  Afterwards both sides hold the new batch as pending. *)
Theorem wwrite_drep c bd d info n bs pb0 bf f op w1' acts b ls :
  let s := cstate info bs in
  let new := batch_write info s b in
  let off := len (image info bs) in
  let aw := AWrite n off (len new) (pb_of ls w1') in
  wdrep c bd d -> name_of info = n -> hdr_eq info (finfo c n) ->
  lookup n (dk_files d) = Some f -> blookup n bd = Some bf -> wfrep_at info bs pb0 bf f ->
  SegAbs.wrun (wst info s) [op] = Some (w1', acts, [b]) -> fst b = map enc ls -> logs_ok ls ->
  len (image info (bs ++ [b])) < two32 ->
  acts = [WWrite off new; WSync] /\ w1' = wst info (cstate info (bs ++ [b])) /\
  wdrep c (bapply bd (BWrite n off new)) (apply_act d aw) /\
  lookup n (dk_files (apply_act d aw)) = Some (written f (pb_of ls w1')) /\
  blookup n (bapply bd (BWrite n off new)) = Some (bwrite_file bf off new) /\
  wfrep_at info bs (Some b) (bwrite_file bf off new) (written f (pb_of ls w1')).
Proof.
  intros s new off aw H Hn He El Hb R Hrun Hfb Hls Hlen. subst n.
  pose proof (wfrep_unpend _ _ _ _ _ R) as Ru.
  (* the L1 facts, from the per-file theorem on the synced part of the file *)
  set (d0 := {| dk_files := [(name_of info, Abs.unpend f)]; dk_meta := None; dk_stable := []; dk_inited := false |}).
  assert (El0 : lookup (name_of info) (dk_files d0) = Some (Abs.unpend f)).
  { cbn [d0 dk_files lookup]. rewrite fname_eqb_refl. reflexivity. }
  destruct (commit_rep info bs (Abs.unpend f) op w1' acts b ls d0 Ru El0 Hrun Hfb Hlen) as (Ea & Ew & _ & _ & Rp & _ & _).
  fold s new off in Ea, Rp.
  assert (Rw : wfrep_at info bs (Some b) (bwrite_file bf off new) (written f (pb_of ls w1'))).
  { destruct R as [A B C [R0 D] E]. constructor; cbn [opt_batch bwrite_file bf_data bf_dir written df_dir].
    - destruct Rp as (Rp1 & Rp2). split; [exact Rp1|exact Rp2].
    - unfold cur_ents. cbn [written df_pend df_ents]. apply Forall_app. split; [|exact Hls].
      unfold cur_ents in B. destruct (df_pend f); [apply Forall_app in B; apply B|exact B].
    - exact Hlen.
    - unfold pwrite. cbn [fst snd]. rewrite D.
      assert (Ex : exists X, image info (bs ++ opt_batch pb0) ++ R0 = image info bs ++ X).
      { destruct pb0 as [b0|]; cbn [opt_batch]; [rewrite image_snoc, <- app_assoc|rewrite app_nil_r]; eexists; reflexivity. }
      destruct Ex as [X ->]. unfold off. rewrite to_nat_len, overwrite_app, image_snoc.
      fold s new. eexists. rewrite <- app_assoc. reflexivity.
    - exact E. }
  assert (Hh : hdr_wf (finfo c (name_of info))).
  { destruct (grel_lookup _ _ _ _ _ _ H El) as (_ & _ & Hh & _). exact Hh. }
  assert (Ef : dk_files (apply_act d aw) = update (name_of info) (written f (pb_of ls w1')) (dk_files d)).
  { unfold aw, off. eapply apply_write_over; eauto. }
  split; [exact Ea|]. split; [exact Ew|]. split; [|split; [|split; [|exact Rw]]].
  - unfold wdrep. rewrite (bapply_write _ _ _ _ _ Hb), Ef.
    apply grel_update; [exact H|exact Hh|]. exists bs, (Some b). eapply wfrep_at_hdr_eq; eauto.
  - rewrite Ef. apply lookup_update_eq.
  - rewrite (bapply_write _ _ _ _ _ Hb). apply blookup_bupdate_eq.
Qed.

(* ---------------- lock-step runs ---------------- *)
Lemma wlrun_start c bd d acts bd' d' : wlrun c bd d acts bd' d' -> wdrep c bd d.
Proof. destruct 1; assumption. Qed.

Lemma wlrun_end c bd d acts bd' d' : wlrun c bd d acts bd' d' -> wdrep c bd' d'.
Proof. induction 1; assumption. Qed.

Lemma wlrun_disk c bd d acts bd' d' : wlrun c bd d acts bd' d' -> d' = fold_left apply_act acts d.
Proof. induction 1; [reflexivity|]. cbn [fold_left]. assumption. Qed.

Lemma wlrun_app c bd d a1 bd1 d1 a2 bd2 d2 :
  wlrun c bd d a1 bd1 d1 -> wlrun c bd1 d1 a2 bd2 d2 -> wlrun c bd d (a1 ++ a2) bd2 d2.
Proof.
  induction 1 as [|bd d a ba acts bd' d' H0 Hm _ IH]; intros H2; [exact H2|].
  cbn [app]. econstructor; eauto.
Qed.

Lemma wlrun_one c bd d a ba :
  wdrep c bd d -> bmatch a ba -> wdrep c (bapply bd ba) (apply_act d a) ->
  wlrun c bd d [a] (bapply bd ba) (apply_act d a).
Proof. intros H0 Hm H1. econstructor; eauto. constructor. exact H1. Qed.

(* a strong run is a weak run *)
Lemma lrun_wlrun c bd d acts bd' d' : lrun c bd d acts bd' d' -> wlrun c bd d acts bd' d'.
Proof.
  induction 1 as [bd d H|bd d a ba acts bd' d' H0 Hm _ IH].
  - constructor. apply drep_wdrep. exact H.
  - econstructor; [apply drep_wdrep; exact H0|exact Hm|exact IH].
Qed.

Lemma werun_refl c bd e : wdrep c bd (e_disk e) -> werun c bd e bd e.
Proof. intros H. exists []. constructor. exact H. Qed.

Lemma werun_trans c bd e bd1 e1 bd2 e2 : werun c bd e bd1 e1 -> werun c bd1 e1 bd2 e2 -> werun c bd e bd2 e2.
Proof. intros (a1 & L1) (a2 & L2). exists (a1 ++ a2). eapply wlrun_app; eauto. Qed.

Lemma werun_start c bd e bd' e' : werun c bd e bd' e' -> wdrep c bd (e_disk e).
Proof. intros (acts & L). eapply wlrun_start; eauto. Qed.
Lemma werun_end c bd e bd' e' : werun c bd e bd' e' -> wdrep c bd' (e_disk e').
Proof. intros (acts & L). eapply wlrun_end; eauto. Qed.

Lemma werun_disk c bd e bd' e1 e2 : e_disk e1 = e_disk e2 -> werun c bd e bd' e1 -> werun c bd e bd' e2.
Proof. intros E (acts & L). exists acts. rewrite <- E. exact L. Qed.
Lemma werun_disk_l c bd e1 e2 bd' e' : e_disk e1 = e_disk e2 -> werun c bd e1 bd' e' -> werun c bd e2 bd' e'.
Proof. intros E (acts & L). exists acts. rewrite <- E. exact L. Qed.

Lemma erun_werun c bd e bd' e' : erun c bd e bd' e' -> werun c bd e bd' e'.
Proof. intros (_ & acts & _ & L). exists acts. apply lrun_wlrun. exact L. Qed.

(* ---------------- the restart ---------------- *)
Lemma bscrub_file_gen info bs x bf :
  bf_data bf = image info bs ++ x ->
  recover_state info (image info bs ++ x) = Some (wst info (cstate info bs)) ->
  let bf' := bscrub_file info (badopt_file bf) in
  bf_data bf' = image info bs ++ zeros (length x) /\ bf_sync bf' = bf_data bf' /\
  bf_pend bf' = [] /\ bf_dir bf' = bf_dir bf.
Proof.
  intros Hd Hr. cbn zeta. unfold bscrub_file, recover_tail. cbn [badopt_file bf_data]. rewrite Hd, Hr.
  change (w_off (wst info (cstate info bs))) with (len (image info bs)).
  pose proof (recover_leaves_zero_tail (image info bs) x) as Hz.
  destruct (scrub_actions (image info bs ++ x) (len (image info bs))) as [|a0 ar] eqn:Ea.
  - cbn [badopt_file bf_data bf_sync bf_pend bf_dir]. cbn in Hz. rewrite Hd. auto.
  - cbn [badopt_file bf_data bf_sync bf_pend bf_dir]. auto.
Qed.

(* ONE FILE.  Whatever lies behind the image of the committed batches (and of
   the batch of the last write whose fsync failed): if no commit frame there
   verifies, RecoverTail returns the writer of bs ++ [b], zeroes the rest, and
   the file is again "image, then zeros" with nothing pending -- related by the
   STRONG relation to L2's adopted file. *)
Theorem wfrep_restart info bs pb bf f :
  hdr_wf info -> wfrep_at info bs pb bf f -> no_stale_commit (bf_data bf) (cur_end f) ->
  let bs' := bs ++ opt_batch pb in
  recover_state info (bf_data bf) = Some (wst info (cstate info bs')) /\
  frep_at info bs' None (bscrub_file info (badopt_file bf)) (adopt_file f).
Proof.
  intros Hh R Hns bs'. pose proof (wfrep_chain _ _ _ _ _ R) as Hwf. fold bs' in Hwf.
  pose proof (wfrep_cur_end _ _ _ _ _ R) as Hce. fold bs' in Hce.
  pose proof (wfrep_cur_rep _ _ _ _ _ R) as Hcr. fold bs' in Hcr.
  destruct R as [A B C [R0 D] E]. fold bs' in C, D.
  assert (Hr : recover_state info (image info bs' ++ R0) = Some (wst info (cstate info bs'))).
  { apply (recover_behind info bs' R0 Hh Hwf). rewrite D, Hce in Hns. exact Hns. }
  split; [rewrite D; exact Hr|].
  destruct (bscrub_file_gen info bs' R0 bf D Hr) as (P1 & P2 & P3 & P4).
  constructor; cbn [opt_batch].
  - destruct Hcr as (H1 & H2 & H3). unfold adopt_file, cur_ents, cur_end, cur_seal in *.
    destruct (df_pend f) as [p|] eqn:Ep; constructor; cbn [df_ents df_end df_seal df_pend]; auto.
  - rewrite cur_ents_adopt. exact B.
  - rewrite app_nil_r. exact C.
  - rewrite P2, P1. eexists. reflexivity.
  - exact P3.
  - unfold bf_wf. rewrite P3, P2. reflexivity.
  - rewrite P4, E. unfold adopt_file. destruct (df_pend f); reflexivity.
Qed.

Lemma lookup_some_in' n f fs : lookup n fs = Some f -> In n (map fst fs).
Proof. intros H. apply lookup_In in H. apply in_map_iff. exists (n, f). auto. Qed.

(* THE DISK.  After a restart without power loss, byte-level recovery of every
   file yields a disk related by the strong relation to L2's adopt_disk. *)
Theorem wrestart c bd d :
  wdrep c bd d -> NoDup (map fst (dk_files d)) -> stale_free bd d ->
  drep c (brestart c bd) (adopt_disk d).
Proof.
  unfold wdrep, drep, brestart, stale_free. cbn [adopt_disk dk_files]. generalize (dk_files d). intros fs H.
  induction H as [|[m bf] [n f] bd fs (Hn & Hh & bs & pb & R) Hr IH]; intros ND Hs; cbn [badopt bscrub map]; [constructor|].
  cbn [fst snd] in *. subst m. inversion ND as [|? ? Hni ND']; subst.
  constructor.
  - cbn [fst snd]. split; [reflexivity|]. split; [exact Hh|]. eexists. exists None.
    apply (wfrep_restart _ _ _ _ _ Hh R). apply (Hs n bf f); cbn [blookup lookup]; rewrite fname_eqb_refl; reflexivity.
  - apply IH; [exact ND'|]. intros k bf' f' Hb Hl. apply (Hs k bf' f'); cbn [blookup lookup].
    + destruct (fname_eqb k n) eqn:E; [|exact Hb]. apply fname_eqb_eq in E. subst k. exfalso. apply Hni.
      eapply lookup_some_in'. exact Hl.
    + destruct (fname_eqb k n) eqn:E; [|exact Hl]. apply fname_eqb_eq in E. subst k. exfalso. apply Hni.
      eapply lookup_some_in'. exact Hl.
Qed.
