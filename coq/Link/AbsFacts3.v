(* AbsFacts3.v -- reader simulation: reading entry idx of the abstract file
   (Wal/Model.v seg_read / tail_lookup) returns the record whose encoding the
   byte-level readers (Seg/Reader.v tail_get / sealed_get) return on the byte
   image, and decoding those bytes gives the record back. *)
From RW Require Import Base.Bytes Base.BytesFacts Base.Crc32c Fmt.Codec Fmt.CodecFacts Fmt.Frame Fmt.FrameFacts
     Seg.Writer Seg.Recover Seg.Reader Seg.SegAbs Seg.WriterFacts Seg.ScanFacts Seg.RecoverFacts Seg.ReaderFacts
     Wal.Model Wal.Spec Link.Abs Link.AbsFacts1 Link.AbsFacts2 Gen.Constants.
From Coq Require Import ZifyN ZifyNat ZifyBool.
Open Scope N_scope.

(* ---------------- the codec ---------------- *)
Lemma wf_put_uvarint_aux fuel : forall v, wf_bytes (put_uvarint_aux fuel v).
Proof.
  induction fuel as [|fuel IH]; intros v; cbn [put_uvarint_aux]; [constructor|].
  destruct (v <? 128) eqn:E.
  - constructor; [|constructor]. unfold wf_byte. lia.
  - constructor; [|apply IH]. unfold wf_byte. pose proof (N.mod_lt v 128). lia.
Qed.

Lemma wf_put_uvarint v : wf_bytes (put_uvarint v).
Proof. apply wf_put_uvarint_aux. Qed.

Lemma wf_enc_bytes bs : wf_bytes bs -> wf_bytes (enc_bytes bs).
Proof. intros H. unfold enc_bytes. apply wf_bytes_app; split; [apply wf_put_uvarint|exact H]. Qed.

(* the stored bytes of a well-formed record: its encoding; it decodes to the
   record; GetLog's view of the record is the record *)
Theorem enc_decode l :
  wf_log l -> encode_log l = Some (enc l) /\ decode_log (enc l) = Some l /\ codec_view l = l /\ wf_bytes (enc l).
Proof.
  intros H. destruct (decode_encode l H) as (bs & E1 & E2).
  assert (Ee : enc l = bs) by (unfold enc; rewrite E1; reflexivity).
  split; [rewrite Ee; exact E1|]. split; [rewrite Ee; exact E2|].
  split; [unfold codec_view; rewrite E1, E2; reflexivity|].
  destruct H as (_ & _ & _ & Hd & He & _ & _ & Htm).
  destruct (time_roundtrip _ Htm) as (tb & Hm & _ & Hwt).
  unfold enc, encode_log. rewrite Hm.
  apply wf_bytes_app; split; [apply wf_put_uvarint|].
  apply wf_bytes_app; split; [apply wf_put_uvarint|].
  apply wf_bytes_app; split; [apply wf_put_uvarint|].
  apply wf_bytes_app; split; [apply wf_enc_bytes; exact Hd|].
  apply wf_bytes_app; split; [apply wf_enc_bytes; exact He|exact Hwt].
Qed.

(* the WAL-level guard on records implies the byte-level one *)
Lemma log_ok_enc_ok l : log_ok l -> enc_ok l.
Proof.
  intros (Hw & _ & _ & Hm). split; [apply (enc_decode l Hw)|].
  rewrite <- enc_len_enc. exact Hm.
Qed.

Lemma logs_ok_encs_ok ls : logs_ok ls -> encs_ok ls.
Proof. intros H. eapply Forall_impl; [|exact H]. apply log_ok_enc_ok. Qed.

(* ---------------- where record i is in the image ---------------- *)
Lemma cur_rep_entry info bs f i l :
  cur_rep info bs f -> nth_error (cur_ents f) i = Some l ->
  exists off a r, nth_error (c_offs (cstate info bs)) i = Some off /\
                  image info bs = a ++ enc_frame FrameEntry (enc l) ++ r /\ len a = off.
Proof.
  intros C Hl. pose proof (cur_rep_offs _ _ _ C) as Ln. destruct C as (He & _ & _).
  assert (Hp : nth_error (payloads bs) i = Some (enc l)).
  { rewrite <- pls_payloads, He. apply map_nth_error. exact Hl. }
  assert (Hi : (i < length (c_offs (cstate info bs)))%nat).
  { rewrite c_offs_length. apply nth_error_Some. congruence. }
  destruct (nth_error (c_offs (cstate info bs)) i) as [off|] eqn:Eo; [|apply nth_error_None in Eo; lia].
  destruct (image_entry info bs i off (enc l) Eo Hp) as (a & r & E & La).
  exists off, a, r. auto.
Qed.

(* ---------------- the tail reader ---------------- *)
(* READER SIMULATION, tail.  Whatever idx: the byte-level tail reader on the
   image returns the encoding of exactly the record L2's tail lookup returns,
   and ErrNotFound exactly when L2 finds nothing. *)
Theorem read_sim_tail info bs f d w2 idx r :
  cur_rep info bs f -> encs_ok (cur_ents f) ->
  lookup (name_of info) (dk_files d) = Some f ->
  rep_w (wst info (cstate info bs)) w2 ->
  tail_get (wst info (cstate info bs)) (image info bs ++ r) idx =
    match tail_lookup w2 idx d with
    | Some l => Reader.ROk (enc l)
    | None => RNotFound
    end.
Proof.
  intros C Hok Hl Rw. set (s := cstate info bs) in *.
  unfold tail_get, tail_offset, tail_lookup.
  rewrite (rw_base _ _ Rw), (rw_min _ _ Rw), (rw_cidx _ _ Rw), (rw_name _ _ Rw).
  change (w_info (wst info s)) with info.
  destruct ((idx <? si_base info) || (idx <? si_min info) || (w_commit_idx (wst info s) <? idx));
    [reflexivity|].
  unfold seg_read. rewrite Hl. change (w_offsets (wst info s)) with (c_offs s).
  set (i := N.to_nat (idx - si_base info)).
  destruct (nth_error (cur_ents f) i) as [l|] eqn:El.
  - destruct (cur_rep_entry info bs f i l C El) as (off & a & r' & Eo & Ei & La). fold s in Eo.
    rewrite Eo, Ei, <- !app_assoc, <- La. apply read_frame_entry.
    unfold encs_ok in Hok. rewrite Forall_forall in Hok. apply (Hok l). eapply nth_error_In. exact El.
  - apply nth_error_None in El.
    pose proof (cur_rep_offs _ _ _ C) as Ln. fold s in Ln. unfold len, llen in Ln.
    assert (Hn : nth_error (c_offs s) i = None) by (apply nth_error_None; lia).
    rewrite Hn. reflexivity.
Qed.

(* ---------------- the sealed reader ---------------- *)
(* READER SIMULATION, sealed.  A sealed reader opened with the index start
   recorded in the abstract file returns the encoding of the record L2 reads. *)
Theorem read_sim_sealed info info' bs f d idx l r :
  cur_rep info bs f -> encs_ok (cur_ents f) -> len (image info bs) < two32 ->
  lookup (name_of info) (dk_files d) = Some f ->
  cur_seal f <> 0 ->
  si_base info' = si_base info -> si_index_start info' = cur_seal f ->
  si_base info <= idx -> si_min info' <= idx -> (si_max info' = 0 \/ idx <= si_max info') ->
  seg_read (name_of info) (si_base info) idx d = Some l ->
  sealed_get info' (image info bs ++ r) idx = Reader.ROk (enc l).
Proof.
  intros C Hok Hlen Hl Hsealed Hbase His Hge Hmin Hmax Hrd.
  unfold seg_read in Hrd. rewrite Hl in Hrd. set (i := N.to_nat (idx - si_base info)) in *.
  destruct (cur_rep_entry info bs f i l C Hrd) as (off & a & r' & Eo & E & La).
  pose proof C as (_ & _ & Hs). set (s := cstate info bs) in *.
  assert (Hpl : len (enc l) <= MaxEntrySize).
  { unfold encs_ok in Hok. rewrite Forall_forall in Hok. apply (Hok l). eapply nth_error_In. exact Hrd. }
  destruct (image_index info bs ltac:(fold s; lia)) as (ia & ir & Eidx & Lia). fold s in Eidx, Lia.
  destruct (index_payload_nth _ _ _ Eo) as (x & y & Ex & Lx).
  assert (Hoff : off < two32).
  { rewrite <- La. rewrite E in Hlen. rewrite !len_app in Hlen. lia. }
  assert (Hist : c_istart s + 4 * N.of_nat i + 4 <= len (image info bs)).
  { rewrite Eidx, Ex, !len_app, len_le32. lia. }
  assert (Eidx' : idx = si_base info + N.of_nat i) by (unfold i; lia).
  unfold sealed_get. rewrite His, Hbase, Hs.
  replace (c_istart s =? 0) with false by (symmetry; apply N.eqb_neq; lia).
  replace (idx <? si_min info') with false by (symmetry; apply N.ltb_ge; lia).
  replace ((0 <? si_max info') && (si_max info' <? idx)) with false.
  2:{ symmetry. apply andb_false_iff. destruct Hmax as [Hm|Hm]; [left; rewrite Hm; reflexivity|right; apply N.ltb_ge; exact Hm]. }
  cbn [orb].
  replace (idx - si_base info) with (N.of_nat i) by lia.
  replace ((c_istart s + N.of_nat i mod two64 * 4) mod two64) with (len (ia ++ x)).
  2:{ rewrite len_app, Lia, Lx. unfold two32, two64 in *. lia. }
  assert (Ef : image info bs ++ r = (ia ++ x) ++ le32 off ++ (y ++ ir ++ r)).
  { rewrite Eidx, Ex, <- !app_assoc. reflexivity. }
  assert (Eread : read_at (image info bs ++ r) (len (ia ++ x)) 4 = le32 off).
  { rewrite Ef. rewrite read_at_app. change (N.to_nat 4) with (length (le32 off)). apply firstn_app_exact. }
  rewrite Eread.
  replace (len (le32 off) <? 4) with false by reflexivity.
  rewrite rd32_le32 by (unfold two32 in Hoff; exact Hoff).
  rewrite E, <- !app_assoc, <- La. apply read_frame_entry. exact Hpl.
Qed.

(* ---------------- end to end ---------------- *)
(* GetLog down to bytes: the record L2 hands back for idx (codec_view l) is the
   decoding of the bytes the byte-level reader finds in the file, and it is
   the stored record itself. *)
Theorem get_sim_tail info bs f d w2 idx l r :
  cur_rep info bs f -> encs_ok (cur_ents f) ->
  lookup (name_of info) (dk_files d) = Some f ->
  rep_w (wst info (cstate info bs)) w2 ->
  tail_lookup w2 idx d = Some l -> wf_log l ->
  exists p, tail_get (wst info (cstate info bs)) (image info bs ++ r) idx = Reader.ROk p /\
            decode_log p = Some (codec_view l) /\ codec_view l = l.
Proof.
  intros C Hok Hl Rw Ht Hw. exists (enc l).
  rewrite (read_sim_tail info bs f d w2 idx r C Hok Hl Rw), Ht.
  destruct (enc_decode l Hw) as (_ & Hd & Hv & _). rewrite Hv. auto.
Qed.

Theorem get_sim_sealed info info' bs f d idx l r :
  cur_rep info bs f -> encs_ok (cur_ents f) -> len (image info bs) < two32 ->
  lookup (name_of info) (dk_files d) = Some f ->
  cur_seal f <> 0 ->
  si_base info' = si_base info -> si_index_start info' = cur_seal f ->
  si_base info <= idx -> si_min info' <= idx -> (si_max info' = 0 \/ idx <= si_max info') ->
  seg_read (name_of info) (si_base info) idx d = Some l -> wf_log l ->
  exists p, sealed_get info' (image info bs ++ r) idx = Reader.ROk p /\
            decode_log p = Some (codec_view l) /\ codec_view l = l.
Proof.
  intros C Hok Hlen Hl Hs Hb Hi Hge Hmin Hmax Hrd Hw. exists (enc l).
  rewrite (read_sim_sealed info info' bs f d idx l r C Hok Hlen Hl Hs Hb Hi Hge Hmin Hmax Hrd).
  destruct (enc_decode l Hw) as (_ & Hd & Hv & _). rewrite Hv. auto.
Qed.

(* ---------------- Filer.Open of a sealed segment ---------------- *)
Lemma hdr_inv_cstate info bs : hdr_inv info (cstate info bs).
Proof.
  induction bs as [|b bs IH] using rev_ind; [apply hdr_inv_c0|].
  rewrite cstate_snoc. apply hdr_inv_step. exact IH.
Qed.

Lemma image_starts_with_header info bs :
  image info bs <> [] -> exists r, image info bs = file_header info ++ r.
Proof.
  intros Hn. destruct (hdr_inv_cstate info bs) as [r H]. exists r.
  unfold image in *. unfold c_pend in H. destruct (c_img (cstate info bs)); [congruence|].
  rewrite app_nil_r in H. exact H.
Qed.

(* L2's Open refuses a sealed segment whose file has no committed header
   (cur_end = 0, Wal/Model.v open_segs: RErrCorrupt) and accepts it otherwise;
   the byte-level Open validates the 32-byte header of the image *)
Theorem open_sealed_sim info bs f r :
  hdr_wf info -> cur_rep info bs f ->
  open_sealed info (image info bs ++ r) = true <-> (cur_end f =? 0) = false \/ open_sealed info r = true.
Proof.
  intros (Hb & Hi & Hc) (_ & He & _). rewrite He.
  destruct (image info bs) as [|x im] eqn:Eim.
  - cbn [app]. change (len [] =? 0) with true. split; [auto|]. intros [H|H]; [discriminate|exact H].
  - assert (Hne : image info bs <> []) by (rewrite Eim; discriminate).
    destruct (image_starts_with_header info bs Hne) as [r' Hr']. rewrite <- Eim, Hr'.
    replace (len (file_header info ++ r') =? 0) with false
      by (symmetry; apply N.eqb_neq; rewrite len_app, len_file_header; lia).
    split; [auto|]. intros _.
    unfold open_sealed. rewrite <- app_assoc.
    replace (len (file_header info ++ r' ++ r) <? 32) with false
      by (symmetry; apply N.ltb_ge; rewrite len_app, len_file_header; lia).
    change 32%nat with (length (file_header info)). rewrite firstn_app_exact.
    rewrite <- (app_nil_r (file_header info)).
    rewrite read_file_header_hdr by assumption. apply validate_file_header_refl.
Qed.

Corollary open_sealed_sim_zeros info bs f k :
  hdr_wf info -> cur_rep info bs f ->
  open_sealed info (image info bs ++ zeros k) = negb (cur_end f =? 0).
Proof.
  intros Hhw C. pose proof (open_sealed_sim info bs f (zeros k) Hhw C) as H.
  assert (Hz : open_sealed info (zeros k) = false).
  { destruct (Nat.lt_ge_cases k 32) as [Hk|Hk].
    - apply open_sealed_short. rewrite len_zeros. lia.
    - apply open_sealed_bad_magic. replace k with (8 + (k - 8))%nat by lia. rewrite zeros_app.
      unfold magic. cbn. lia. }
  rewrite Hz in H. destruct (cur_end f =? 0); cbn [negb].
  - destruct (open_sealed info (image info bs ++ zeros k)); [|reflexivity].
    destruct H as [H _]. destruct (H eq_refl); discriminate.
  - apply H. left. reflexivity.
Qed.
