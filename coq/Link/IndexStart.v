(* IndexStart.v -- the metadata's IndexStart of a sealed segment is the index
   start of its file (definitions only).

   The sealed reader (Seg/Reader.v sealed_get) finds an entry through the index
   block whose offset it takes from the METADATA (si_index_start).  L2's
   seg_read ignores that field, so the invariants of crash_refinement
   (Wal/CrashInv.v DIs / LInv) do not mention it.  This file states the missing
   invariant:
     ISseg d s     if s is listed as sealed and its file exists on d, the
                   recorded IndexStart is the index start of the file, and it
                   is not 0
     ISd d         every segment of the metadata of d satisfies ISseg
     commits_ok    along a list of actions, every metadata commit installs
                   segments that satisfy ISseg on the disk of that moment
   Lemmas: Link/IndexStartFacts*.v; statements in Props/Link.v. *)
From RW Require Import Base.Bytes Fmt.Codec Fmt.Frame Wal.Model Wal.Spec Wal.Hist Wal.CrashInv Wal.CrashGlue
     Gen.Constants.
Open Scope N_scope.

Definition ISseg (d : disk) (s : seginfo) : Prop :=
  si_sealed s = true ->
  forall f, lookup (name_of s) (dk_files d) = Some f ->
    si_index_start s = cur_seal f /\ cur_seal f <> 0.

Definition ISs (d : disk) (segs : list seginfo) : Prop := Forall (ISseg d) segs.

Definition ISd (d : disk) : Prop :=
  match dk_meta d with
  | Some ps => ISs d (ps_segs ps)
  | None => True
  end.

Fixpoint commits_ok (d : disk) (acts : list act) : Prop :=
  match acts with
  | [] => True
  | a :: r => match a with ACommit ps => ISs d (ps_segs ps) | _ => True end /\
              commits_ok (apply_act d a) r
  end.

(* e' is e after successful actions whose commits are all justified *)
Definition ctr (e e' : env) : Prop :=
  e_fault e' = None /\
  exists acts, e_acts e' = rev acts ++ e_acts e /\
               e_disk e' = fold_left apply_act acts (e_disk e) /\
               commits_ok (e_disk e) acts.

(* the invariant of crash histories, extended by ISd *)
Definition hdisk (h : hstate) : disk :=
  match hs_mode h with Up s => e_disk (ss_env s) | Down d => d end.

Definition GIS (c : cfg) (nb : N) (h : hstate) : Prop := GI c nb h /\ ISd (hdisk h).

(* for the examples: the listed segments of the final state of a history as
   (base, sealed, recorded IndexStart, index start of the file) *)
Definition is_shape (c : cfg) (steps : list hstep) : list (N * bool * N * N) :=
  let d := hdisk (hist_run c hist_init steps) in
  match dk_meta d with
  | Some ps => map (fun s => (si_base s, si_sealed s, si_index_start s,
                              match lookup (name_of s) (dk_files d) with Some f => cur_seal f | None => 0 end))
                   (ps_segs ps)
  | None => []
  end.
