(* FaultISFacts1.v -- the IndexStart invariant under INJECTED FAULTS: frames
   for the single actions, the primitives, mutate_gen, rotate, store_logs,
   delete_range.  Every lemma: whatever fails, FJ holds of the result. *)
From RW Require Import Base.Bytes Base.BytesFacts Fmt.Codec Fmt.Frame Wal.Model Wal.Spec Wal.Hist Wal.FaultHist
     Wal.CrashInv Wal.CrashFacts0 Wal.CrashFacts2 Wal.CrashFacts3
     Link.Abs Link.AbsFacts1 Link.DiskFacts1 Link.ComposeFacts1 Link.ComposeFacts3
     Link.IndexStart Link.IndexStartFacts1 Link.IndexStartFacts2
     Link.FaultDiskFacts2 Link.FaultIS Gen.Constants.
From Coq Require Import ZifyN ZifyNat ZifyBool.
Open Scope N_scope.

Lemma ISseg'_ISseg d s : ISseg' d s -> ISseg d s.
Proof.
  intros H Hs f Hf. destruct (H Hs f Hf) as (A & B & C). unfold cur_seal. rewrite C. auto.
Qed.

Lemma ISseg'_ext d d' s :
  lookup (name_of s) (dk_files d') = lookup (name_of s) (dk_files d) -> ISseg' d s -> ISseg' d' s.
Proof. unfold ISseg'. intros ->. auto. Qed.

Lemma ISs'_files d d' L : dk_files d' = dk_files d -> ISs' d L -> ISs' d' L.
Proof.
  intros E. unfold ISs'. apply Forall_impl. intros s. apply ISseg'_ext. rewrite E. reflexivity.
Qed.

Lemma ISseg'_unsealed d s : si_sealed s = false -> ISseg' d s.
Proof. unfold ISseg'. intros -> H. discriminate. Qed.

Lemma ISseg'_same d s s' :
  name_of s' = name_of s -> si_index_start s' = si_index_start s -> si_sealed s' = si_sealed s ->
  ISseg' d s -> ISseg' d s'.
Proof. unfold ISseg'. intros -> -> ->. auto. Qed.

Lemma ISs'_incl d l l' : (forall s, In s l' -> In s l \/ ISseg' d s) -> ISs' d l -> ISs' d l'.
Proof.
  unfold ISs'. rewrite !Forall_forall. intros H H0 s Hin. destruct (H s Hin) as [K|K]; [apply H0; exact K|exact K].
Qed.

Lemma ISs'_app d a b : ISs' d (a ++ b) <-> ISs' d a /\ ISs' d b.
Proof. unfold ISs'. apply Forall_app. Qed.

(* ---------------- frames ---------------- *)
Lemma ISs'_create d L n sz :
  (forall s, In s L -> si_sealed s = true -> name_of s <> n) -> ISs' d L ->
  ISs' (apply_act d (ACreate n sz)) L.
Proof.
  intros Hn. unfold ISs'. rewrite !Forall_forall. intros H s Hin Hs f. cbn [apply_act dk_files].
  rewrite lookup_update_neq by (apply Hn; assumption). apply (H s Hin Hs).
Qed.

Lemma ISs'_write d L n off l b :
  (forall f, lookup n (dk_files d) = Some f -> df_seal f = 0) -> ISs' d L ->
  ISs' (apply_act d (AWrite n off l b)) L.
Proof.
  intros Hz. unfold ISs'. rewrite !Forall_forall. intros H s Hin Hs f'. cbn [apply_act].
  destruct (lookup n (dk_files d)) as [g|] eqn:Eg; [|apply (H s Hin Hs)]. cbn [dk_files].
  rewrite lookup_update. destruct (fname_eqb (name_of s) n) eqn:E; [|apply (H s Hin Hs)].
  apply fname_eqb_eq in E. exfalso. rewrite <- E in Eg. destruct (H s Hin Hs g Eg) as (_ & K & _).
  apply K. apply Hz. reflexivity.
Qed.

Lemma ISs'_sync d L n : ISs' d L -> ISs' (apply_act d (ASync n)) L.
Proof.
  unfold ISs'. rewrite !Forall_forall. intros H s Hin Hs f'. cbn [apply_act].
  destruct (lookup n (dk_files d)) as [g|] eqn:Eg; [|apply (H s Hin Hs)]. cbn [dk_files].
  rewrite lookup_update. destruct (fname_eqb (name_of s) n) eqn:E; [|apply (H s Hin Hs)].
  apply fname_eqb_eq in E. rewrite <- E in Eg. destruct (H s Hin Hs g Eg) as (A & B & C).
  rewrite C. intros [= <-]. cbn. auto.
Qed.

Lemma ISs'_delete d L n : NoDup (map fst (dk_files d)) -> ISs' d L -> ISs' (apply_act d (ADelete n)) L.
Proof.
  intros ND. unfold ISs'. rewrite !Forall_forall. intros H s Hin Hs f'. cbn [apply_act dk_files].
  rewrite (lookup_remove _ _ _ ND). destruct (fname_eqb (name_of s) n); [discriminate|apply (H s Hin Hs)].
Qed.

Lemma ISs'_meta d L a : meta_act a -> ISs' d L -> ISs' (apply_act d a) L.
Proof. intros Hm. apply ISs'_files. apply meta_act_files. exact Hm. Qed.

(* ---------------- primitives ---------------- *)
Lemma io_meta_frame a e ok e' L :
  io a e = (ok, e') -> meta_act a -> ISs' (e_disk e) L -> ISs' (e_disk e') L.
Proof. intros Hio Hm. apply ISs'_files. eapply io_meta_files; eauto. Qed.

Lemma delete_files_frame ns : forall e L,
  NoDup (map fst (dk_files (e_disk e))) -> ISs' (e_disk e) L ->
  ISs' (e_disk (delete_files ns e)) L /\ NoDup (map fst (dk_files (e_disk (delete_files ns e)))) /\
  dk_meta (e_disk (delete_files ns e)) = dk_meta (e_disk e).
Proof.
  induction ns as [|n ns IH]; intros e L ND H; [auto|].
  unfold delete_files. cbn [fold_left]. fold (delete_files ns (snd (io (ADelete n) e))).
  destruct (io (ADelete n) e) as [ok e1] eqn:Eio. cbn [snd].
  destruct (io_cases _ _ _ _ Eio eq_refl) as [(_ & Ed)|(_ & Ed)].
  - destruct (IH e1 L) as (A & B & C).
    + rewrite Ed. apply NoDup_apply. exact ND.
    + rewrite Ed. apply ISs'_delete; assumption.
    + split; [exact A|]. split; [exact B|]. rewrite C, Ed. reflexivity.
  - destruct (IH e1 L) as (A & B & C); [rewrite Ed; exact ND|rewrite Ed; exact H|].
    split; [exact A|]. split; [exact B|]. rewrite C, Ed. reflexivity.
Qed.

Lemma seg_create_frame si e sw e' L :
  NoDup (map fst (dk_files (e_disk e))) ->
  (forall s, In s L -> si_sealed s = true -> name_of s <> name_of si) -> ISs' (e_disk e) L ->
  seg_create si e = (sw, e') ->
  ISs' (e_disk e') L /\ NoDup (map fst (dk_files (e_disk e'))) /\ dk_meta (e_disk e') = dk_meta (e_disk e).
Proof.
  intros ND Hn H. unfold seg_create. destruct (si_base si =? 0); [intros [= <- <-]; auto|].
  destruct (lookup (name_of si) (dk_files (e_disk e))).
  - destruct (io _ e) as [ok e1] eqn:Eio. intros [= <- <-].
    pose proof (io_meta_files _ _ _ _ Eio I) as Ef.
    split; [eapply io_meta_frame; eauto; exact I|]. split; [rewrite Ef; exact ND|].
    destruct (io_cases _ _ _ _ Eio eq_refl) as [(_ & ->)|(_ & ->)]; reflexivity.
  - destruct (io _ e) as [ok e1] eqn:Eio.
    destruct (io_cases _ _ _ _ Eio eq_refl) as [(-> & Ed)|(-> & Ed)].
    + intros [= <- <-]. rewrite Ed. split; [apply ISs'_create; assumption|]. split; [apply NoDup_apply; exact ND|reflexivity].
    + destruct (fx_leave (e_fx e)); intros [= <- <-]; cbn [leave_entry e_disk]; rewrite Ed.
      * split; [apply ISs'_create; assumption|]. split; [apply NoDup_apply; exact ND|reflexivity].
      * auto.
Qed.

(* a write of the tail writer goes to a file that is not sealed *)
Definition unsealed_target (tw : wseg) (d : disk) : Prop :=
  ws_index_start tw = 0 -> forall f, lookup (ws_name tw) (dk_files d) = Some f -> df_seal f = 0.

Lemma seg_append_frame tw ls e r tw' e' L :
  unsealed_target tw (e_disk e) -> ISs' (e_disk e) L -> NoDup (map fst (dk_files (e_disk e))) ->
  seg_append tw ls e = (r, tw', e') ->
  ISs' (e_disk e') L /\ NoDup (map fst (dk_files (e_disk e'))) /\ dk_meta (e_disk e') = dk_meta (e_disk e).
Proof.
  intros Ht H ND. unfold seg_append. destruct ls as [|l0 lr]; [intros [= <- <- <-]; auto|].
  destruct (0 <? ws_index_start tw) eqn:E1; [intros [= <- <- <-]; auto|].
  destruct (existsb _ _); [intros [= <- <- <-]; auto|].
  destruct (negb _); [intros [= <- <- <-]; auto|].
  cbn zeta. assert (Hz : ws_index_start tw = 0) by lia.
  destruct (io _ e) as [ok1 e1] eqn:Eio1.
  assert (H1 : ISs' (e_disk e1) L /\ NoDup (map fst (dk_files (e_disk e1))) /\ dk_meta (e_disk e1) = dk_meta (e_disk e)).
  { destruct (io_cases _ _ _ _ Eio1 eq_refl) as [(_ & Ed)|(_ & Ed)]; rewrite Ed; [|auto].
    split; [apply ISs'_write; [apply Ht; exact Hz|exact H]|]. split; [apply NoDup_apply; exact ND|].
    cbn [apply_act]. destruct (lookup _ _); reflexivity. }
  destruct ok1; cbn [negb]; [|intros [= <- <- <-]; exact H1].
  destruct (io _ e1) as [ok2 e2] eqn:Eio2. destruct H1 as (A & B & C).
  assert (H2 : ISs' (e_disk e2) L /\ NoDup (map fst (dk_files (e_disk e2))) /\ dk_meta (e_disk e2) = dk_meta (e_disk e)).
  { destruct (io_cases _ _ _ _ Eio2 eq_refl) as [(_ & Ed)|(_ & Ed)]; rewrite Ed; [|auto].
    split; [apply ISs'_sync; exact A|]. split; [apply NoDup_apply; exact B|].
    rewrite <- C. cbn [apply_act]. destruct (lookup _ _); reflexivity. }
  destruct ok2; cbn [negb]; intros [= <- <- <-]; exact H2.
Qed.

Lemma seg_force_seal_frame tw e r tw' e' L :
  unsealed_target tw (e_disk e) -> ISs' (e_disk e) L -> NoDup (map fst (dk_files (e_disk e))) ->
  seg_force_seal tw e = (r, tw', e') ->
  ISs' (e_disk e') L /\ NoDup (map fst (dk_files (e_disk e'))) /\ dk_meta (e_disk e') = dk_meta (e_disk e) /\
  (r = ROk ->
   (tw' = tw /\ e' = e /\ 0 < ws_index_start tw) \/
   (0 < ws_index_start tw' /\ (ws_n tw =? 0) = false /\
    forall f', lookup (ws_name tw) (dk_files (e_disk e')) = Some f' -> df_seal f' = ws_index_start tw' /\ df_pend f' = None)).
Proof.
  intros Ht H ND. unfold seg_force_seal. destruct (0 <? ws_index_start tw) eqn:E1.
  { intros [= <- <- <-]. split; [exact H|]. split; [exact ND|]. split; [reflexivity|]. intros _. left. split; [reflexivity|]. split; [reflexivity|lia]. }
  destruct (ws_n tw =? 0) eqn:E2; [intros [= <- <- <-]; split; [exact H|]; split; [exact ND|]; split; [reflexivity|discriminate]|].
  cbn zeta. assert (Hz : ws_index_start tw = 0) by lia.
  set (b := {| pb_ents := []; pb_end := _; pb_seal := _ |}).
  destruct (io _ e) as [ok1 e1] eqn:Eio1.
  assert (H1 : ISs' (e_disk e1) L /\ NoDup (map fst (dk_files (e_disk e1))) /\ dk_meta (e_disk e1) = dk_meta (e_disk e)).
  { destruct (io_cases _ _ _ _ Eio1 eq_refl) as [(_ & Ed)|(_ & Ed)]; rewrite Ed; [|auto].
    split; [apply ISs'_write; [apply Ht; exact Hz|exact H]|]. split; [apply NoDup_apply; exact ND|].
    cbn [apply_act]. destruct (lookup _ _); reflexivity. }
  destruct ok1; cbn [negb]; [|intros [= <- <- <-]; destruct H1 as (A & B & C); split; [exact A|]; split; [exact B|]; split; [exact C|discriminate]].
  destruct (io _ e1) as [ok2 e2] eqn:Eio2. destruct H1 as (A & B & C).
  assert (H2 : ISs' (e_disk e2) L /\ NoDup (map fst (dk_files (e_disk e2))) /\ dk_meta (e_disk e2) = dk_meta (e_disk e)).
  { destruct (io_cases _ _ _ _ Eio2 eq_refl) as [(_ & Ed)|(_ & Ed)]; rewrite Ed; [|auto].
    split; [apply ISs'_sync; exact A|]. split; [apply NoDup_apply; exact B|].
    rewrite <- C. cbn [apply_act]. destruct (lookup _ _); reflexivity. }
  destruct ok2; cbn [negb]; intros [= <- <- <-]; destruct H2 as (A2 & B2 & C2);
    (split; [exact A2|]; split; [exact B2|]; split; [exact C2|]); [|discriminate].
  intros _. right. cbn [ws_index_start ws_name]. split; [destruct (ws_hdr tw); lia|]. split; [reflexivity|].
  destruct (io_cases _ _ _ _ Eio1 eq_refl) as [(_ & Ed1)|(K & _)]; [|discriminate].
  destruct (io_cases _ _ _ _ Eio2 eq_refl) as [(_ & Ed2)|(K & _)]; [|discriminate].
  rewrite Ed2, Ed1. intros f' Ef'.
  destruct (lookup (ws_name tw) (dk_files (e_disk e))) as [f|] eqn:Ef.
  - destruct (lookup_write_eq (e_disk e) (ws_name tw) (ws_off tw) ((if ws_hdr tw then 32 else 0) + index_frame_size (ws_n tw) + 8) b f Ef)
      as (f1 & Ef1 & Hs1).
    rewrite (lookup_sync_eq _ _ _ Ef1) in Ef'. inversion Ef'; subst f'. cbn [synced_file df_seal df_pend]. split; [exact Hs1|reflexivity].
  - exfalso. cbn [apply_act] in Ef'. rewrite Ef in Ef'. cbn [apply_act] in Ef'. rewrite Ef in Ef'. rewrite Ef in Ef'. discriminate.
Qed.

(* ---------------- mutateStateLocked ---------------- *)
Lemma meta_segs_files d d' : dk_meta d' = dk_meta d -> meta_segs d' = meta_segs d.
Proof. unfold meta_segs. intros ->. reflexivity. Qed.

Lemma mutate_gen_FJ defer w t e r w' e' dels :
  NoDup (map fst (dk_files (e_disk e))) -> FJ w (e_disk e) -> ISs' (e_disk e) (tx_segs t) ->
  (forall si, tx_create t = Some si ->
     forall s, In s (st_segs w ++ tx_segs t) -> si_sealed s = true -> name_of s <> name_of si) ->
  mutate_gen defer w t e = (r, w', e', dels) ->
  FJ w' (e_disk e') /\ NoDup (map fst (dk_files (e_disk e'))) /\
  ((st_segs w' = st_segs w /\ st_tail w' = st_tail w /\ st_next_id w' = st_next_id w /\
    ((st_failed w' = true) \/ (r <> ROk /\ e_disk e' = e_disk e /\ w' = w) \/
     (dk_files (e_disk e') = dk_files (e_disk e) /\ dk_meta (e_disk e') = dk_meta (e_disk e) /\ w' = w))) \/
   (r = ROk /\ st_segs w' = tx_segs t /\ st_next_id w' = tx_next_id t /\
    (tx_create t = None -> st_tail w' = tx_tail t) /\
    (forall si, tx_create t = Some si -> st_tail w' = Some (new_wseg si)))).
Proof.
  intros ND HJ Htx Hcr. unfold mutate_gen. unfold FJ in *. apply ISs'_app in HJ as (HJ1 & HJ2).
  set (a := ACommit {| ps_next_id := tx_next_id t; ps_segs := tx_segs t |}).
  destruct (io a e) as [ok e1] eqn:Eio.
  pose proof (io_meta_files _ _ _ _ Eio I) as Ef1.
  destruct (io_cases3 _ _ _ _ Eio) as [(-> & Ed)|[(-> & Ed)|(-> & _ & Ed)]]; cbn [negb].
  2:{ intros [= <- <- <- <-]. cbn [st_segs st_tail st_next_id st_failed]. rewrite Ed.
      split; [apply ISs'_app; auto|]. split; [exact ND|]. left. auto. }
  2:{ (* the commit is reported as failed and found applied *)
      intros [= <- <- <- <-]. cbn [st_segs st_tail st_next_id st_failed].
      assert (Em1 : meta_segs (e_disk e1) = tx_segs t) by (rewrite Ed; reflexivity).
      rewrite Em1. split; [apply ISs'_app; split; eapply ISs'_files; eauto|]. split; [rewrite Ef1; exact ND|]. left. auto. }
  assert (Em1 : meta_segs (e_disk e1) = tx_segs t) by (rewrite Ed; reflexivity).
  assert (ND1 : NoDup (map fst (dk_files (e_disk e1)))) by (rewrite Ef1; exact ND).
  assert (HA1 : ISs' (e_disk e1) (st_segs w ++ tx_segs t)).
  { apply ISs'_app. split; eapply ISs'_files; eauto. }
  destruct (tx_create t) as [si|] eqn:Ec.
  - destruct (seg_create si e1) as [sw e2] eqn:Es.
    destruct (seg_create_frame si e1 sw e2 _ ND1 (Hcr si eq_refl) HA1 Es) as (HA2 & ND2 & Em2).
    apply ISs'_app in HA2 as (HA2a & HA2b).
    assert (Ems2 : meta_segs (e_disk e2) = tx_segs t) by (rewrite (meta_segs_files _ _ Em2); exact Em1).
    destruct sw as [sw|].
    + assert (Hsw : sw = new_wseg si).
      { unfold seg_create in Es. destruct (si_base si =? 0); [discriminate|].
        destruct (lookup _ _); [destruct (io _ e1); discriminate|]. destruct (io _ e1) as [ok' ex]. destruct ok'; [inversion Es; reflexivity|discriminate]. }
      subst sw. destruct defer.
      * intros [= <- <- <- <-]. cbn [st_segs]. rewrite Ems2. split; [apply ISs'_app; auto|]. split; [exact ND2|].
        right. repeat split; auto; [discriminate|]. intros si' [= <-]. reflexivity.
      * destruct (delete_files_frame (tx_delete t) e2 (tx_segs t ++ tx_segs t) ND2) as (HA3 & ND3 & Em3); [apply ISs'_app; auto|].
        intros [= <- <- <- <-]. cbn [st_segs]. rewrite (meta_segs_files _ _ Em3), Ems2.
        split; [exact HA3|]. split; [exact ND3|]. right. repeat split; auto; [discriminate|]. intros si' [= <-]. reflexivity.
    + intros [= <- <- <- <-]. cbn [st_segs st_tail st_next_id st_failed]. rewrite Ems2.
      split; [apply ISs'_app; auto|]. split; [exact ND2|]. left. auto.
  - destruct defer.
    + intros [= <- <- <- <-]. cbn [st_segs]. rewrite Em1. apply ISs'_app in HA1 as (_ & HA1b).
      split; [apply ISs'_app; auto|]. split; [exact ND1|]. right. repeat split; auto. intros si; discriminate.
    + apply ISs'_app in HA1 as (_ & HA1b).
      destruct (delete_files_frame (tx_delete t) e1 (tx_segs t ++ tx_segs t) ND1) as (HA3 & ND3 & Em3); [apply ISs'_app; auto|].
      intros [= <- <- <- <-]. cbn [st_segs]. rewrite (meta_segs_files _ _ Em3), Em1.
      split; [exact HA3|]. split; [exact ND3|]. right. repeat split; auto. intros si; discriminate.
Qed.
