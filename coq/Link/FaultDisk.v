(* FaultDisk.v -- the byte-level disk along histories with I/O ERRORS
   (Wal/FaultHist.v; definitions only).

   After a failed fsync the bytes of the batch stay in the file behind the
   valid chain while both writers are rolled back; the next write goes over
   them and, when it is shorter, leaves the rest of the failed write behind its
   own commit frame.  So between two recoveries a file is NOT "image, then
   zeros" (Link/Disk.v frep_at): it is "image, then anything".
     wfrep_at info bs pb bf f   the abstract file f represents the committed
                      batches bs (and, pb = Some b, the batch b of the last write
                      whose fsync failed, still pending in L2); the content of
                      the byte-level file is the image of bs ++ [b] followed by
                      ARBITRARY bytes
     wdrep c bd d     same names in the same order, every file wfrep
     stale_free       the side condition of Seg/FailFacts.v for every file: no
                      commit frame behind the valid chain verifies
                      (no_stale_commit, decidable; the analogue of
                      no_torn_collision for leftovers)
     wlrun            lock-step run of effective L2 actions and byte-level
                      actions, every pair of disks on the way wdrep-related
     wtail_link, WL   the invariant of a running WAL and a byte disk
     brestart         the byte-level restart: the page cache is what the next
                      process sees (badopt), RecoverTail of every file (bscrub)
   There is no power loss in these histories, so the durable image and the list
   of unsynced writes of a byte-level file are not constrained here; after a
   restart the strong relation drep holds again (FaultDiskFacts1.v wrestart). *)
From RW Require Import Base.Bytes Base.Crc32c Fmt.Codec Fmt.Frame Seg.Writer Seg.SegAbs Seg.Recover
     Seg.Reader Seg.RecoverFacts Seg.FailFacts Wal.Model Wal.Spec Link.Abs Link.AbsFacts2 Link.Disk Link.DiskFacts3
     Link.Compose Gen.Constants.
Open Scope N_scope.

Record wfrep_at (info : seginfo) (bs : list batch) (pb : option batch) (bf : bfile) (f : dfile) : Prop := {
  wr_rep  : match pb with None => rep info bs f | Some b => rep_p info bs b f end;
  wr_ok   : Forall log_ok (cur_ents f);
  wr_len  : len (image info (bs ++ opt_batch pb)) < two32;
  wr_data : exists R, bf_data bf = image info (bs ++ opt_batch pb) ++ R;
  wr_dir  : bf_dir bf = df_dir f }.

Definition wfrep (info : seginfo) (bf : bfile) (f : dfile) : Prop := exists bs pb, wfrep_at info bs pb bf f.

(* two disks with the same names in the same order whose files are related by P *)
Definition grel (P : seginfo -> bfile -> dfile -> Prop) (c : cfg) (bd : bdisk) (fs : list (fname * dfile)) : Prop :=
  Forall2 (fun nb nf => fst nb = fst nf /\ hdr_wf (finfo c (fst nf)) /\ P (finfo c (fst nf)) (snd nb) (snd nf)) bd fs.

Definition wdrep (c : cfg) (bd : bdisk) (d : disk) : Prop := grel wfrep c bd (dk_files d).

(* no commit frame behind the valid chain of any file verifies *)
Definition stale_free (bd : bdisk) (d : disk) : Prop :=
  forall n bf f, blookup n bd = Some bf -> lookup n (dk_files d) = Some f ->
    no_stale_commit (bf_data bf) (cur_end f).

Fixpoint stale_freeb (bd : bdisk) (d : disk) : bool :=
  match bd with
  | [] => true
  | (n, bf) :: r =>
      match lookup n (dk_files d) with
      | Some f => no_stale_commitb (bf_data bf) (cur_end f)
      | None => true
      end && stale_freeb r d
  end.

(* lock-step runs of EFFECTIVE actions (a failed action has no effect and is
   not part of the run; the entry a failed creation leaves is) *)
Inductive wlrun (c : cfg) : bdisk -> disk -> list act -> bdisk -> disk -> Prop :=
| wlrun_nil bd d : wdrep c bd d -> wlrun c bd d [] bd d
| wlrun_cons bd d a ba acts bd' d' :
    wdrep c bd d -> bmatch a ba ->
    wlrun c (bapply bd ba) (apply_act d a) acts bd' d' ->
    wlrun c bd d (a :: acts) bd' d'.

Definition werun (c : cfg) (bd : bdisk) (e : env) (bd' : bdisk) (e' : env) : Prop :=
  exists acts, wlrun c bd (e_disk e) acts bd' (e_disk e').

(* the tail writer: rolled back to the committed chain bs; its file, if it
   exists, holds the image of bs and possibly the bytes of a failed write *)
Record wtail_link (c : cfg) (tw : wseg) (info : seginfo) (bs : list batch) (bd : bdisk) (d : disk) : Prop := {
  wt_name : name_of info = ws_name tw;
  wt_hdr  : hdr_eq info (finfo c (ws_name tw));
  wt_w    : rep_w (wst info (cstate info bs)) tw;
  wt_file : forall f, lookup (ws_name tw) (dk_files d) = Some f ->
              exists bf pb, blookup (ws_name tw) bd = Some bf /\ wfrep_at info bs pb bf f }.

Definition wtail_linked (c : cfg) (t : option wseg) (bd : bdisk) (d : disk) : Prop :=
  match t with
  | Some tw => exists info bs, wtail_link c tw info bs bd d
  | None => True
  end.

(* the byte-level part of the invariant, and the numeric guards (which follow
   from the live invariant LInv of the WAL-level proofs: FaultLinkFacts) *)
Definition WL0 (c : cfg) (t : option wseg) (bd : bdisk) (d : disk) : Prop :=
  wdrep c bd d /\ NoDup (map fst (dk_files d)) /\ wtail_linked c t bd d.

Definition tail_id (w : wal) : Prop :=
  match st_tail w with Some tw => snd (ws_name tw) < st_next_id w | None => True end.

Definition WG (w : wal) : Prop := st_next_id w < two64 /\ small_tail (st_tail w) /\ tail_id w.

Definition WL (c : cfg) (w : wal) (bd : bdisk) (d : disk) : Prop := WL0 c (st_tail w) bd d /\ WG w.

Definition wop_link (c : cfg) (bd : bdisk) (e : env) (w' : wal) (e' : env) : Prop :=
  exists bd', werun c bd e bd' e' /\ WL c w' bd' (e_disk e').

(* process restart without power loss, then RecoverTail on every file *)
Definition brestart (c : cfg) (bd : bdisk) : bdisk := bscrub c (badopt bd).
