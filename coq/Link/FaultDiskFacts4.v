(* FaultDiskFacts4.v -- Open under INJECTED FAULTS in lock step with the byte
   disk (weak relation): open_segs (the re-creation of a missing tail may fail
   and may leave the empty file), open_newtail (commit / creation / deletions
   may fail), open_wal (the initialisation of the metadata database and the
   directory listing may fail).  The disk Open starts from has no pending
   batch (adopt_disk / brestart came first). *)
From RW Require Import Base.Bytes Base.BytesFacts Base.Crc32c Fmt.Codec Fmt.Frame Fmt.FrameFacts
     Seg.Writer Seg.Recover Seg.SegAbs Seg.WriterFacts Seg.RecoverFacts Seg.ChainFacts
     Wal.Model Wal.Spec Wal.Hist Wal.CrashInv Wal.CrashFacts0 Wal.CrashFacts4
     Link.Abs Link.AbsFacts1 Link.AbsFacts2 Link.AbsFacts3 Link.AbsFacts4
     Link.Disk Link.DiskFacts1 Link.DiskFacts2 Link.DiskFacts3 Link.Compose Link.ComposeFacts1 Link.ComposeFacts2
     Link.ComposeFacts3 Link.ComposeFacts5
     Link.FaultDisk Link.FaultDiskFacts1 Link.FaultDiskFacts2 Link.FaultDiskFacts3 Gen.Constants.
From Coq Require Import ZifyN ZifyNat ZifyBool.
Open Scope N_scope.

(* RecoverTail on a file without a pending batch: the L2 writer is linked *)
Lemma seg_recover_wlink c si bd e f :
  wdrep c bd (e_disk e) -> si_codec si = c_codec c ->
  lookup (name_of si) (dk_files (e_disk e)) = Some f -> df_pend f = None ->
  seg_recover si e = Some (Some (recw si f)) /\
  exists bs, wtail_link c (recw si f) si bs bd (e_disk e).
Proof.
  intros H0 Hc El Hp. split; [apply seg_recover_char; exact El|].
  destruct (grel_lookup _ _ _ _ _ _ H0 El) as (bf & Hb & Hh & bs & pb & R).
  assert (He : hdr_eq (finfo c (name_of si)) si).
  { unfold hdr_eq, finfo, name_of. cbn. auto. }
  assert (Hpb : pb = None).
  { destruct pb as [b|]; [|reflexivity]. destruct (wr_rep _ _ _ _ _ R) as (_ & p & Hp' & _). congruence. }
  subst pb. pose proof (wfrep_at_hdr_eq _ _ _ _ _ _ He R) as R'.
  exists bs. constructor.
  - reflexivity.
  - cbn [recw ws_name]. apply hdr_eq_sym. exact He.
  - apply rep_w_recw, rep_cur_rep. apply (wr_rep _ _ _ _ _ R').
  - cbn [recw ws_name]. intros f' Hf'. rewrite El in Hf'. inversion Hf'; subst f'. exists bf, None. auto.
Qed.

Lemma open_segs_wlink c segs : forall acc bd e r segs' tail e1,
  cfg_ok c -> wdrep c bd (e_disk e) -> NoDup (map fst (dk_files (e_disk e))) ->
  no_pend (e_disk e) -> Forall name_small segs ->
  open_segs c segs acc e = (r, segs', tail, e1) ->
  exists bd', werun c bd e bd' e1 /\ NoDup (map fst (dk_files (e_disk e1))) /\
              wtail_linked c tail bd' (e_disk e1).
Proof.
  induction segs as [|si rest IH]; intros acc bd e r segs' tail e1 Hc H0 Hnd Hnp Hsm H.
  - cbn [open_segs] in H. inversion H; subst. exists bd. split; [apply werun_refl; assumption|]. split; [exact Hnd|exact I].
  - assert (Hsame : (tail, e1) = (None, e) ->
                    exists bd', werun c bd e bd' e1 /\ NoDup (map fst (dk_files (e_disk e1))) /\
                                wtail_linked c tail bd' (e_disk e1)).
    { intros [= -> ->]. exists bd. split; [apply werun_refl; assumption|]. split; [exact Hnd|exact I]. }
    inversion Hsm as [|? ? (Hb & Hi) Hsm']; subst.
    cbn [open_segs] in H.
    destruct (si_codec si =? c_codec c) eqn:Ecod; cbn [negb] in H; [|inversion H; subst; apply Hsame; reflexivity].
    apply N.eqb_eq in Ecod.
    destruct (si_sealed si); cbn [negb] in H.
    + destruct (lookup (name_of si) (dk_files (e_disk e))) as [f|]; [|inversion H; subst; apply Hsame; reflexivity].
      destruct (cur_end f =? 0); [inversion H; subst; apply Hsame; reflexivity|].
      eapply IH; eauto.
    + destruct rest as [|s2 rest']; [|inversion H; subst; apply Hsame; reflexivity].
      assert (Hh : hdr_wf (finfo c (name_of si))).
      { destruct Hc as (_ & Hcod & _). unfold hdr_wf, finfo, name_of, new_segment. cbn. auto. }
      destruct (lookup (name_of si) (dk_files (e_disk e))) as [f|] eqn:El.
      * destruct (seg_recover_wlink c si bd e f H0 Ecod El (Hnp _ _ El)) as (Hrec & bs & T).
        rewrite Hrec in H.
        destruct (0 <? ws_index_start (recw si f)); [inversion H; subst; apply Hsame; reflexivity|].
        inversion H; subst. exists bd. split; [apply werun_refl; assumption|]. split; [exact Hnd|].
        cbn [wtail_linked]. eauto.
      * rewrite (seg_recover_missing si e El) in H.
        destruct (seg_create si e) as [sw e2] eqn:Es.
        destruct (seg_create_wlink c si bd e sw e2 None H0 Hnd Ecod Hh I I Es) as (bd2 & E2 & Hnd2 & _ & Hsw).
        destruct sw as [sw|].
        -- destruct Hsw as [-> T].
           replace (0 <? ws_index_start (new_wseg si)) with false in H by reflexivity.
           inversion H; subst. exists bd2. split; [exact E2|]. split; [exact Hnd2|]. cbn [wtail_linked]. eauto.
        -- inversion H; subst. exists bd2. split; [exact E2|]. split; [exact Hnd2|exact I].
Qed.

Lemma open_newtail_wlink c nid0 segs garbage bd e res e' :
  cfg_ok c -> wdrep c bd (e_disk e) -> NoDup (map fst (dk_files (e_disk e))) ->
  nid0 < two64 ->
  open_newtail c nid0 segs garbage e = (res, e') ->
  exists bd', werun c bd e bd' e' /\ NoDup (map fst (dk_files (e_disk e'))) /\
              match res with OOk w => wtail_linked c (st_tail w) bd' (e_disk e') | OErr _ => True end.
Proof.
  intros Hc H0 Hnd Hid H. unfold open_newtail in H. cbn zeta in H.
  set (base := match tail_info segs with Some t => (si_max t + 1) mod two64 | None => 1 end) in *.
  set (si := new_segment c nid0 base) in *.
  match type of H with context [io ?a e] => destruct (io a e) as [ok1 e1] eqn:Eio end.
  pose proof (werun_meta c bd e _ ok1 e1 Eio I H0) as E1.
  pose proof (io_meta_files _ _ _ _ Eio I) as Ef1.
  assert (Hnd1 : NoDup (map fst (dk_files (e_disk e1)))) by (rewrite Ef1; exact Hnd).
  destruct ok1; cbn [negb] in H.
  2:{ inversion H; subst. exists bd. split; [exact E1|]. split; [exact Hnd1|exact I]. }
  assert (Hbase : base < two64).
  { unfold base. destruct (tail_info segs); [apply N.mod_lt; unfold two64; lia|unfold two64; lia]. }
  assert (Hh : hdr_wf (finfo c (name_of si))).
  { destruct Hc as (_ & Hcod & _). unfold hdr_wf, finfo, name_of, si, new_segment. cbn. auto. }
  destruct (seg_create si e1) as [sw e2] eqn:Es.
  destruct (seg_create_wlink c si bd e1 sw e2 None (werun_end _ _ _ _ _ E1) Hnd1 eq_refl Hh I I Es) as (bd2 & E2 & Hnd2 & _ & Hsw).
  destruct sw as [sw|].
  - destruct Hsw as [-> T].
    assert (Hl2 : wtail_linked c (Some (new_wseg si)) bd2 (e_disk e2)) by (cbn; eauto).
    destruct (delete_files_wlink c garbage bd2 e2 (Some (new_wseg si)) (werun_end _ _ _ _ _ E2) Hnd2 Hl2) as (bd3 & E3 & Hnd3 & Hl3).
    inversion H; subst. exists bd3. split; [eapply werun_trans; [exact E1|eapply werun_trans; eauto]|].
    split; [exact Hnd3|exact Hl3].
  - inversion H; subst. exists bd2. split; [eapply werun_trans; eauto|]. split; [exact Hnd2|exact I].
Qed.

Theorem open_wal_wlink c bd e res e' :
  cfg_ok c -> wdrep c bd (e_disk e) -> NoDup (map fst (dk_files (e_disk e))) ->
  no_pend (e_disk e) -> meta_small (e_disk e) ->
  open_wal c e = (res, e') ->
  exists bd', werun c bd e bd' e' /\ NoDup (map fst (dk_files (e_disk e'))) /\
              match res with OOk w => wtail_linked c (st_tail w) bd' (e_disk e') | OErr _ => True end.
Proof.
  intros Hc H0 Hnd Hnp Hms H. rewrite open_wal_unfold in H.
  destruct (negb (FirstExternalCodecID <=? c_codec c) && negb (c_codec c =? BinaryCodecID)).
  { inversion H; subst. exists bd. split; [apply werun_refl; assumption|]. split; [exact Hnd|exact I]. }
  assert (Hrest : forall e0,
            werun c bd e bd e0 -> dk_files (e_disk e0) = dk_files (e_disk e) -> dk_meta (e_disk e0) = dk_meta (e_disk e) ->
            open_rest c e0 = (res, e') ->
            exists bd', werun c bd e bd' e' /\ NoDup (map fst (dk_files (e_disk e'))) /\
                        match res with OOk w => wtail_linked c (st_tail w) bd' (e_disk e') | OErr _ => True end).
  { intros e0 E0 Ef0 Em0 Hr. unfold open_rest in Hr. cbn zeta in Hr.
    assert (Hnd0 : NoDup (map fst (dk_files (e_disk e0)))) by (rewrite Ef0; exact Hnd).
    assert (Hnp0 : no_pend (e_disk e0)) by (intros n f; rewrite Ef0; apply Hnp).
    set (ps := match dk_meta (e_disk e0) with Some ps => ps | None => {| ps_next_id := 0; ps_segs := [] |} end) in *.
    assert (Hps : ps_next_id ps < two64 /\ Forall name_small (ps_segs ps)).
    { unfold ps, meta_small in *. rewrite Em0. destruct (dk_meta (e_disk e)); [exact Hms|]. cbn. split; [unfold two64; lia|constructor]. }
    destruct Hps as [Hpid Hpsm].
    destruct (open_segs c (ps_segs ps) [] e0) as [[[r segs] tail] e1] eqn:Eo.
    destruct (open_segs_wlink c _ _ bd e0 r segs tail e1 Hc (werun_end _ _ _ _ _ E0) Hnd0 Hnp0 Hpsm Eo) as (bd1 & E1 & Hnd1 & Ht1).
    pose proof (werun_trans _ _ _ _ _ _ _ E0 E1) as E01.
    destruct r; try solve [inversion Hr; subst; exists bd1; split; [exact E01|split; [exact Hnd1|exact I]]].
    destruct tail as [tw|].
    - destruct (delete_files_wlink c (filter (fun n => negb (listed (ps_segs ps) n)) (map fst (dk_files (e_disk e0))))
                  bd1 e1 (Some tw) (werun_end _ _ _ _ _ E1) Hnd1 Ht1) as (bd2 & E2 & Hnd2 & Ht2).
      inversion Hr; subst. exists bd2. split; [eapply werun_trans; eauto|]. split; [exact Hnd2|exact Ht2].
    - destruct (open_newtail_wlink c _ _ _ bd1 e1 res e' Hc (werun_end _ _ _ _ _ E1) Hnd1 Hpid Hr) as (bd2 & E2 & Hres).
      exists bd2. split; [eapply werun_trans; eauto|exact Hres]. }
  destruct (dk_inited (e_disk e)).
  - cbn [negb] in H. destruct (armed e && fx_list (e_fx e)).
    + inversion H; subst. exists bd. split; [exists []; constructor; exact H0|]. split; [exact Hnd|exact I].
    + apply (Hrest e); auto. apply werun_refl; assumption.
  - destruct (io AInitMeta e) as [ok0 e0] eqn:Eio.
    pose proof (werun_meta c bd e _ ok0 e0 Eio I H0) as E0.
    pose proof (io_meta_files _ _ _ _ Eio I) as Ef0.
    assert (Em0 : dk_meta (e_disk e0) = dk_meta (e_disk e)).
    { destruct (io_cases _ _ _ _ Eio eq_refl) as [(_ & ->)|(_ & ->)]; reflexivity. }
    destruct ok0; cbn [negb] in H.
    2:{ inversion H; subst. exists bd. split; [exact E0|]. split; [rewrite Ef0; exact Hnd|exact I]. }
    destruct (armed e0 && fx_list (e_fx e0)).
    + inversion H; subst. exists bd. split; [eapply werun_disk; [|exact E0]; reflexivity|]. cbn [list_failed e_disk].
      split; [rewrite Ef0; exact Hnd|exact I].
    + apply (Hrest e0); auto.
Qed.
