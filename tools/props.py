# per-property configuration of tools/check.py
# streams: name, n=(quick, thorough), vm=(quick, thorough) sample sizes for the in-kernel cross-check

def S(name, q, t, **kw):
    d = {"name": name, "n": (q, t)}
    d.update(kw)
    return d

BBOLT = "bbolt transactions are atomic and durable (not modelled below the MetaStore API)"
GO = "Go compiler/runtime and standard library (encoding/binary, time, hash/crc32) -- differentially tested, not verified"

PROPS = {
    "C12": {
        "streams": [S("codec", 1500, 40000, vm=(60, 600))],
        "trusted": [GO],
        "assumptions": ["time.Time is projected to (seconds, nanoseconds, zone offset); monotonic readings are dropped by MarshalBinary",
                        "nil and empty byte slices are identified"],
        "rule": "seeded generator: raft.Logs over varint boundaries 2^(7k)+-1, MaxUint64, nil/empty/64KiB-crossing data, 7 time shapes x 6 zone shapes; malformed stream of 7 mutation kinds; distinct = distinct input lines",
    },
    "C09": {
        "streams": [S("format", 400, 8000, vm=(40, 400)), S("golden", 1, 1, vm=(8, 18), vm_maxlen=6000)],
        "trusted": [GO, "README.md sections 'Segment Files', 'Frames', 'Alignment', 'Sealing' as transcribed in coq/Fmt/ReadmeSpec.v (literal constants, independent encoder/decoder)",
                    "golden fixtures under golden/ were written by `wh mkgolden` with the tree pinned in round 1"],
        "assumptions": ["segment files stay below 2^32 bytes (offsets are uint32 in the format; guard of every theorem)",
                        "payload bytes are bytes (wf_bytes) where a CRC value is read back",
                        "README wording 'or just after the file header' for the first commit's CRC range is a documentation discrepancy (DESIGN.md section 10): code and spec include the header"],
        "rule": "format: seeded histories of appends (all padding residues, payloads that look like frames), size/forced sealing, tail and sealed reads, file dump byte-for-byte; golden: 5 committed directories (single tail, sealed+tail, head truncation, tail truncation + re-append, custom start index), each opened by the current code, each segment file decoded by the README-only parser; distinct = distinct input lines",
    },
    "C15": {
        "streams": [S("sizes", 150, 400, vm=(30, 200))],
        "trusted": [GO],
        "assumptions": ["L1 (single segment file) form; the WAL-level lifting is part of C05/C01",
                        "segment files stay below 2^32 bytes",
                        "the 64 MiB +- 1 cases run on the implementation only (thorough tier): a 128 MiB hex line is too large for the model driver; the theorems cover every size"],
        "rule": "sizes: payload 0 and all residues mod 8 alone and at each batch position, segment limit +- frame overhead for limits 256/512/1024, entries larger than the whole segment, payloads 65512..65544 around the 64 KiB read buffer (4 per quick run, all 33 in thorough), random mixes; thorough adds MaxEntrySize-1, MaxEntrySize, MaxEntrySize+1 alone and mid-batch",
    },
}
