# per-property configuration of tools/check.py
# streams: name, n=(quick, thorough), vm=(quick, thorough) sample sizes for the in-kernel cross-check

def S(name, q, t, **kw):
    d = {"name": name, "n": (q, t)}
    d.update(kw)
    return d

BBOLT = "bbolt transactions are atomic and durable (not modelled below the MetaStore API)"
GO = "Go compiler/runtime and standard library (encoding/binary, time, hash/crc32) -- differentially tested, not verified"

PROPS = {
    "C12": {
        "streams": [S("codec", 1500, 40000, vm=(60, 600))],
        "trusted": [GO],
        "assumptions": ["time.Time is projected to (seconds, nanoseconds, zone offset); monotonic readings are dropped by MarshalBinary",
                        "nil and empty byte slices are identified"],
        "rule": "seeded generator: raft.Logs over varint boundaries 2^(7k)+-1, MaxUint64, nil/empty/64KiB-crossing data, 7 time shapes x 6 zone shapes; malformed stream of 7 mutation kinds; distinct = distinct input lines",
    },
}

VFY_TRUSTED = [GO, "github.com/segmentio/fasthash/fnv1a -- modelled (Base/Fnv.v) and differentially tested: every sum in every report is an observable of the vfy stream",
               "raft.InmemStore / the WAL under a contract guard (harness guardStore: contiguous appends, prefix/suffix deletes = the C05 spec the model uses); at-rest corruption and StoreLogs faults are injected by that wrapper"]
VFY_ASSUME = ["StoreLogs and DeleteRange of one LogStore are atomic with respect to each other (raft calls them from one goroutine; log compaction's head truncation racing a StoreLogs can only make the next WrittenSum unclaimed or stale-but-true, see DESIGN.md 10 vfy)",
              "indexes are non-zero and below 2^64-1 (no uint64 wrap in idx+1 / max+1)",
              "the verifier reads a range atomically with respect to writers (property quantifier: ranges not modified while their verification runs); the store contents at that moment are an arbitrary parameter sv of the theorems",
              "the bootstrap exception (index 1 + LogConfiguration hashes to 0) is the explicit hypothesis no_bootstrap of the C17 range theorems"]
VFY_RULE = ("seeded generator of multi-node histories: clusters of 2-3 nodes (leader appends, checkpoints, replication with random batch splits, "
            "leadership changes with tail truncation of conflicting suffixes, follower restarts, head truncations, in-flight and at-rest single-field mutations, "
            "blocked ReportFn, injected store failures), per-position mutation sweeps (13 mutation kinds x in flight / at rest on follower / at rest on leader / swapped entries), "
            "invalid-operation soups (gaps, middle deletes, foreign Extensions, failing checkpoint fn) and drop scenarios; 1 line in 12 (quick) / 4 (thorough) runs over the real WAL; "
            "distinct = distinct input lines")
for _pid in ("C16", "C17", "C18"):
    PROPS[_pid] = {
        "streams": [S("vfy", 1500, 20000, vm=(40, 300), vm_maxlen=2500)],
        "trusted": VFY_TRUSTED, "assumptions": VFY_ASSUME, "rule": VFY_RULE,
    }
