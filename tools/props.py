# per-property configuration of tools/check.py
# streams: name, n=(quick, thorough), vm=(quick, thorough) sample sizes for the in-kernel cross-check

def S(name, q, t, **kw):
    d = {"name": name, "n": (q, t)}
    d.update(kw)
    return d

BBOLT = "bbolt transactions are atomic and durable (not modelled below the MetaStore API)"
GO = "Go compiler/runtime and standard library (encoding/binary, time, hash/crc32) -- differentially tested, not verified"

PROPS = {
    "C12": {
        "streams": [S("codec", 1500, 40000, vm=(60, 600))],
        "trusted": [GO],
        "assumptions": ["time.Time is projected to (seconds, nanoseconds, zone offset); monotonic readings are dropped by MarshalBinary",
                        "nil and empty byte slices are identified"],
        "rule": "seeded generator: raft.Logs over varint boundaries 2^(7k)+-1, MaxUint64, nil/empty/64KiB-crossing data, 7 time shapes x 6 zone shapes; malformed stream of 7 mutation kinds; distinct = distinct input lines",
    },
    "C14": {
        "streams": [S("sched14", 4500, 60000, vm=(25, 250), vm_maxlen=400, timeout=3000)],
        "trusted": [GO, "Go runtime scheduler/memory model: the model's atomic steps are the code's atomic actions and hook points; goroutine exit and file-handle release are observed (runtime.Stack, in-memory VFS accounting), not proved"],
        "assumptions": ["single writer goroutine (StoreLogs/DeleteRange are issued by one thread of the schedule); any number of readers, stable-store callers and Close callers",
                        "in-memory VFS/MetaStore emulate *os.File (read after Close fails) and BoltMetaDB (calls after Close fail)",
                        "proved for all schedules: after_close, mutual exclusion; no-panic is proved for states satisfying the tested invariant Inv1; deadlock freedom, rotator exit and handle release are judged on the implementation by the sched14 oracles"],
        "rule": "every API method x 9 call windows x 5 stages of Close x 3 initial logs; writer waiting for a pending rotation x rotator stage x Close stage; random programs/schedules; distinct = distinct input lines",
    },
    "C06": {
        "streams": [S("sched06", 2200, 40000, vm=(20, 200), vm_maxlen=400, timeout=3000)],
        "trusted": [GO, "Go memory model: data-race freedom is judged by the race detector on the harness binary (thorough tier), the model-level statement is C06_no_conflict_partial"],
        "assumptions": ["single writer; base-index resets are run on the implementation only (not in the model)",
                        "linearizability and use-after-close freedom are not proved: every read of every forced and free-running history is checked by the Go history checker (mirror of Readers.lin_check)"],
        "rule": "writer programs (append, rotation, head truncation with finalisation, tail truncation + re-append of other content, whole-log deletion) x reads x reader window x writer progress; two readers on one old state; random programs/schedules; 2 stress runs (8 readers); distinct = distinct input lines",
    },
}
