# per-property configuration of tools/check.py
# streams: name, n=(quick, thorough), vm=(quick, thorough) sample sizes for the in-kernel cross-check

def S(name, q, t, **kw):
    d = {"name": name, "n": (q, t)}
    d.update(kw)
    return d

BBOLT = "bbolt transactions are atomic and durable (not modelled below the MetaStore API)"
GO = "Go compiler/runtime and standard library (encoding/binary, time, hash/crc32) -- differentially tested, not verified"

PROPS = {
    "C12": {
        "streams": [S("codec", 1500, 40000, vm=(60, 600)), S("codecid", 60, 1500, vm=(4, 40), vm_maxlen=5000)],
        "trusted": [GO],
        "assumptions": ["time.Time is projected to (seconds, nanoseconds, zone offset); monotonic readings are dropped by MarshalBinary",
                        "nil and empty byte slices are identified"],
        "rule": "seeded generator: raft.Logs over varint boundaries 2^(7k)+-1, MaxUint64, nil/empty/64KiB-crossing data, 7 time shapes x 6 zone shapes; malformed stream of 7 mutation kinds; distinct = distinct input lines",
    },
    "C19": {
        "streams": [S("mig", 700, 12000, vm=(40, 300), vm_maxlen=2500)],
        "trusted": [GO, "raft.InmemStore and raft-boltdb/v2 as shipped in the module cache (used as source/destination stores)"],
        "assumptions": ["LogStores are abstracted to the contiguous-log spec {first; entries} (what C05 states for the WAL); source indexes start at 1 and the last index is below MaxUint64 (uint64 loop variable)",
                        "AppendedAt is projected to the instant (seconds, nanoseconds); nil and empty byte slices are identified",
                        "batchSize is a mathematical integer in the model (Go int does not overflow below 2^63 bytes of log data)",
                        "StableStore: byte and uint64 key spaces are disjoint; a key never set and an empty value are identified in the destination; what a source does for a key never set is a parameter of the model (InmemStore: Get fails; raft-boltdb: Get and GetUint64 fail; WAL: neither fails)"],
        "rule": "seeded generator: 9 store pairings x source length 0..80 (thorough ..400) x first index (1, small, 2^(7k), last = MaxUint64-1) x batchBytes (0, 1, negative, MinInt64, MaxInt64, around 1..4 entries, around the whole log) x cancellation point x injected GetLog/StoreLogs failure x source FirstIndex/LastIndex failure (injected, and a really closed WAL / raft-boltdb source; every pairing) x nil/buffered/unbuffered progress channel; CopyStable over 9 pairings x missing keys x extra keys x cancellation; distinct = distinct input lines",
    },
    "C07": {
        "streams": [S("fstrace", 40, 400, vm=(8, 40), vm_maxlen=40000, timeout=3000),
                    S("fsfault", 70, 1200, vm=(10, 60), vm_maxlen=4000, timeout=3000)],
        "trusted": ["strace 6.1 (-f -y): complete and correctly ordered log of the traced syscalls of the child process; ordering across threads is the order in which the tracer saw the syscall stops (causally ordered calls are never swapped)",
                    "strace fault injection (-e inject=<syscall>:error=<E>:when=<N>): the N-th invocation of the syscall in the thread returns the error and is NOT executed by the kernel (a failed call has no effect); the injected run is validated (exactly one call marked INJECTED, the one aimed at); real partial failures (an fsync that fails after writing some blocks) are not produced",
                    "the kernel/file system makes data durable on fsync/fdatasync of the file and directory entries (creation, rename, unlink) durable on fsync of the directory, fallocate zero-fills, O_EXCL is exclusive (README assumptions; this is the disk semantics `dstep` of Fs/DisciplineFacts.v, not something the check can observe)",
                    BBOLT, GO],
        "assumptions": ["workloads start in a fresh directory (every file is created inside the trace); the checker rejects traces that touch unknown segment files",
                        "a write is abstracted to its (offset, length) range; contents are not part of the trace",
                        "C07_model_traces_ok is conditional on the caller of the fs layer syncing every written file before it acknowledges (wf_ops) -- the segment writer's sync path; the fst lines check that on the real traces",
                        "fault scenarios: ONE injected failure per run, at the fs layer's own syscalls on segment files, the directory and the steps of safeInitBoltDB (of bbolt's internal I/O only the first fdatasync of a run); errno EIO/ENOSPC/EMFILE (fallocate's ENOTSUP/EINTR fallback to ftruncate is not exercised); 0 < segment size <= MaxInt32",
                        "harness conventions of the fsf child that are part of the model: one handle per name, calls without a handle issue no syscall and fail, Delete first closes the handle of that name, Load first closes a db left open"],
        "rule": "6 fixed scenarios (create+first commit, rotation, head/tail truncation deleting files, close/reopen/append, reset of the empty first segment, oversized batch/truncate to empty) + seeded random WAL workloads (segment sizes 512..8192, appends, waits, truncations, close/reopen) run on the production fs.FS + BoltMetaDB under strace; fso: seeded fs-layer call sequences (create/openwriter/write/sync/close/delete/meta init/commit) compared event by event with the model's fs_trace; fsfault: 21 fixed fault/retry scenarios (Delete failing in syncDir then retried, Create failing in the preallocation, Sync failing on the file / directory-open / directory fsync then retried, every step of the metadata db initialisation failing once then retried, invalid calls) + seeded fs-layer call sequences with retries and invalid calls, one strace-injected failure each (7 syscalls x EIO/ENOSPC/EMFILE, position drawn from the calls of a fault-free dry run), observed syscalls incl. the failed one and the ok/err result of every call compared with fs_xtrace; distinct = distinct input lines",
    },
    "C20": {
        "streams": [S("seqapi", 150, 3000, vm=(5, 100), vm_maxlen=5000)],
        "trusted": [GO, "go/ast translator harness/cmd/wh/facts.go (call-site scan) and the compiled MetricDefinitions tables"],
        "assumptions": ["segment_rotations: the true total is the number of rotation-shaped commits of the persisted-metadata history since the last Open (is_rotation, Wal/MetricsSpec.v; theorem C20_rotations_true, per lifetime); the implementation-side twin (crashFS.isRotation) needs the recorded commits and segment file images, so it runs on crashfs lines only, not on the real fs + BoltDB, and like the other counter oracles not after injected faults",
                        "the nine other totals come from the contiguous-log specification; all totals are per Open (a fresh collector at every Open)"],
        "rule": "seeded op sequences (stores incl. invalid shapes, deletes at all positions, reads, stable ops, reopen) over 7 segment sizes, on crashfs and on the real fs+BoltDB; metrics summary compared with the model after every M op and with independently computed true totals (all ten counters: nine from the reference log, segment_rotations from the commits crashfs recorded since the last Open); distinct = distinct input lines",
    },
    "C05": {
        "streams": [S("seqapi", 250, 6000, vm=(6, 120), vm_maxlen=5000)],
        "selftests": [{"name": "crash_refinement_stmt (crash-free histories included)", "args": [], "n": (1500, 40000)}],
        "trusted": [GO, BBOLT],
        "assumptions": ["indexes in [1, 2^64-2], one batch < 1 GiB, segment size < 1 GiB (no 32/64-bit wrap)", "rotation is awaited right after each StoreLogs (W barrier)"],
        "rule": "seeded op sequences (valid and invalid appends, deletes at every position class, reads around the boundaries, stable ops, reopen) over 7 segment sizes down to one entry per segment, on crashfs and on the real fs + BoltDB; every result, first/last, every entry, metrics, persisted metadata, directory listing and the I/O trace compared with the model; independent reference-log oracle; distinct = distinct input lines",
    },
    "C01": {
        "streams": [S("crash", 250, 6000, vm=(10, 100), vm_maxlen=8000)],
        "selftests": [{"name": "crash_refinement_stmt", "args": [], "n": (1500, 40000)}],
        "trusted": [GO, BBOLT, "segment-level recovery law (a torn batch is recovered as absent, a complete one as present) proved in Seg/RecoverFacts.v under the explicit no-CRC-collision hypothesis"],
        "assumptions": ["8-byte chunk granularity of torn writes (PSOW, README)", "bbolt commits are atomic and durable"],
        "rule": "seeded workloads; power loss after a random I/O action (never inside a run of deletions), adversary keeps/drops every non-durable file and every pending batch independently, nested second crash in 50%; then Open, audit, usability probe, clean reopen; oracle = acknowledged entries survive and the recovered log is exactly the acknowledged or the in-flight state; distinct = distinct input lines",
    },
    "C10": {
        "streams": [S("faults", 250, 6000, vm=(10, 100), vm_maxlen=8000), S("segcrash", 120, 4000, vm=(6, 60), vm_maxlen=6000),
                    S("walfault", 30, 600, vm=(0, 0), timeout=3000)],
        "selftests": [{"name": "fault_safety_stmt", "args": ["f"], "n": (1500, 40000)}],
        "trusted": [GO, BBOLT, "walfault: strace 6.1 fault injection (-e inject=<syscall>:error=<E>:when=<N>, counted per thread): the injected call is not executed by the kernel; what earlier calls wrote stays in the page cache and is what the next Open reads (no power loss)"],
        "assumptions": ["a failed VFS/MetaStore call has no partial effect (a failed write adds nothing to the abstract file - in the bytes it leaves nothing or, as a short write returning (n/2, io.EOF), the first half of its bytes behind the valid chain, which recovery discards; a failed fsync leaves the data written; a failed deletion keeps the file), except a failed creation that may leave the empty file and a failed CommitState / SetStable that may have taken effect (fault mode 8); no segment-file fsync fails although its effect reached the disk", "fault modes (every deletion fails / the next listing fails / a failed creation leaves the file / a failed metadata commit or stable write lands) are in force while a counted fault is armed; a count inside a run of deletions is not used (Go map order)", "I/O error + restart + later power loss is outside the model (adopted unsynced data is treated as synced)"],
        "rule": "seeded workloads with a fault armed before 1/2 of the calls (the k-th action from then fails, k in 0..5, alone or with fault modes, or only the mode 'every deletion fails'), targeted endings (fault in truncations, resets, sealing appends, stable writes; truncation whose deletions fail, Open whose clean-up fails; Open whose listing fails; rotation / truncation / reset whose Create leaves the file; tail truncation dropping the whole tail segment, rotation, head truncation, reset, stable write whose commit fails and lands, followed by appends that must be refused), in-process audits, restart, reopen, usability probe; oracles = acknowledged entries readable and unchanged in-process and after reopen, an Open without an injected fault succeeds; segcrash (byte level, one segment file): 24 (thorough 400) chains 'long batch whose fsync fails, shorter batch whose fsync fails, even shorter batch that succeeds or fails' with coinciding frame boundaries (failures drawn from fsync failure, write failure, SHORT write leaving the first half of the bytes), with and without an acknowledged prefix, then restart or a complete / torn crash image of the last write, plus random mixes of failing and succeeding appends; oracle = after recovery the segment serves the acknowledged entries or those plus a whole failed batch; walfault (implementation only, not compared with the model): the REAL WAL on production fs.FS + BoltMetaDB in a real directory (segment sizes 512..4096) runs seeded workloads (appends of 1-4 self-describing entries, head / tail truncations, retries, Set / SetUint64, Close / Open, waits for the rotation) in a child under strace with ONE injected syscall failure (fsync, fdatasync = bbolt commits, pwrite64, openat, fallocate, unlinkat, renameat, ftruncate x EIO/ENOSPC/EMFILE) at a position drawn from the calls a fault-free dry run makes on the WAL directory (4 positions per workload, a third of them metadata commits), then a clean reopen in a second process; oracles = reference of acknowledged entries / values audited in the running process after every call and after every Open (all-or-nothing for failed calls), no panic / hang, clean Open succeeds and accepts an append; distinct = distinct input lines",
    },
    "C09": {
        "streams": [S("format", 250, 8000, vm=(16, 400)), S("golden", 1, 1, vm=(8, 18), vm_maxlen=6000)],
        "trusted": [GO, "README.md sections 'Segment Files', 'Frames', 'Alignment', 'Sealing' as transcribed in coq/Fmt/ReadmeSpec.v (literal constants, independent encoder/decoder)",
                    "golden fixtures under golden/ were written by `wh mkgolden` with the tree pinned in round 1"],
        "assumptions": ["segment files stay below 2^32 bytes (offsets are uint32 in the format; guard of every theorem)",
                        "payload bytes are bytes (wf_bytes) where a CRC value is read back",
                        "README wording 'or just after the file header' for the first commit's CRC range is a documentation discrepancy (DESIGN.md section 10): code and spec include the header"],
        "rule": "format: seeded histories of appends (all padding residues, payloads that look like frames), size/forced sealing, tail and sealed reads, file dump byte-for-byte; golden: 5 committed directories (single tail, sealed+tail, head truncation, tail truncation + re-append, custom start index), each opened by the current code, each segment file decoded by the README-only parser; distinct = distinct input lines",
    },
    "C15": {
        "streams": [S("sizes", 120, 400, vm=(12, 200))],
        "trusted": [GO],
        "assumptions": ["L1 (single segment file) form; the WAL-level lifting is part of C05/C01",
                        "segment files stay below 2^32 bytes",
                        "the 64 MiB +- 1 cases run on the implementation only (thorough tier): a 128 MiB hex line is too large for the model driver; the theorems cover every size"],
        "rule": "sizes: payload 0 and all residues mod 8 alone and at each batch position, segment limit +- frame overhead for limits 256/512/1024, entries larger than the whole segment, payloads 65512..65544 around the 64 KiB read buffer (the 10 sizes at which frame, payload or payload+header cross 65536 and the window ends in quick, all 33 in thorough), random mixes; thorough adds MaxEntrySize-1, MaxEntrySize, MaxEntrySize+1 alone and mid-batch at segment level; both tiers run, through wal.StoreLogs/GetLog/Close/Open (implementation only), payloads whose encoding crosses the limit (Data of MaxEntrySize-8 and MaxEntrySize bytes, 48 MiB Data + 17 MiB Extensions) and one batch of three 22 MiB entries that must survive a reopen of the unsealed tail",
    },
}
PROPS["C11"] = {
    "streams": [S("corrupt", 400, 20000, vm=(16, 200), vm_maxlen=5000), S("openfail", 28, 280, vm=(0, 0)),
                S("codec", 800, 30000, vm=(20, 200)), S("dumplogs", 150, 4000, vm=(5, 60), vm_maxlen=6000),
                S("metafuzz", 500, 15000, vm=(0, 0))],
    "trusted": [GO, BBOLT],
    "assumptions": ["'nothing locked or open after a failed Open', 'never hangs' and the allocation bound of the Go code are observed (watchdog, runtime.MemStats), not proved; the model proves termination (fuel bound) and allocation bounds of its own explicit accounting"],
    "rule": "corrupt: valid tails and sealed files damaged by bit flips, 8-byte splices, truncation at any offset, length-field edits (0xffffffff, MaxEntrySize+1, small), zero runs, frame-type bytes; then recovery or sealed open, reads, dump - outcome kind and recovered entries compared with the model, watchdog + allocation measurement; dumplogs: directories of several segment files built by the real WAL (small segments, appends, head/tail truncations), a third of them damaged (bit flips, cuts, zeroed headers, huge length fields, garbage tails, left-over generations, a misnamed *.wal file), Filer.DumpLogs with windows over after/before compared entry by entry with the model, watchdog + allocation measurement; metafuzz (implementation only): directories written by the real WAL whose stored metadata record is edited while staying decodable (a field of a SegmentInfo or NextSegmentID set to 0 / off by one / huge / a neighbour's value, seal flag flipped, segments dropped, duplicated, swapped), then Open, First/LastIndex, GetLog around every index that ever existed, an append, truncations and Close under a watchdog with panic capture and allocation measurement; openfail: 7 kinds of damage to real directories (missing / short / zeroed / bad-magic / swapped-header sealed segment, garbage metadata record, foreign codec), Open must fail, a second Open in the same process must not block and, damage undone, must present the original log; codec: malformed encodings (7 mutation kinds) must yield errors, never panics",
}

VFY_TRUSTED = [GO, "github.com/segmentio/fasthash/fnv1a -- modelled (Base/Fnv.v) and differentially tested: every sum in every report is an observable of the vfy stream",
               "raft.InmemStore / the WAL under a contract guard (harness guardStore: contiguous appends, prefix/suffix deletes = the C05 spec the model uses); at-rest corruption and StoreLogs faults are injected by that wrapper"]
VFY_ASSUME = ["the model is sequential: StoreLogs and DeleteRange of one LogStore are atomic with respect to each other; the one interleaving raft really produces (compaction = head truncation from the snapshot goroutine during StoreLogs) leaves the verifier state untouched since 8c5a9f9 and is exercised on the implementation by the #race case of the vfy stream on every run",
              "indexes are non-zero and below 2^64-1 (no uint64 wrap in idx+1 / max+1)",
              "the verifier reads a range atomically with respect to writers (property quantifier: ranges not modified while their verification runs); the store contents at that moment are an arbitrary parameter sv of the theorems",
              "the bootstrap exception (index 1 + LogConfiguration hashes to 0) is the explicit hypothesis no_bootstrap of the C17 range theorems"]
VFY_RULE = ("seeded generator of multi-node histories: clusters of 2-3 nodes (leader appends, checkpoints, replication with random batch splits, "
            "leadership changes with tail truncation of conflicting suffixes, follower restarts, head truncations, in-flight and at-rest single-field mutations, "
            "blocked ReportFn, injected store failures), per-position mutation sweeps (13 mutation kinds x in flight / at rest on follower / at rest on leader / swapped entries), "
            "invalid-operation soups (gaps, middle deletes, foreign Extensions, failing checkpoint fn) and drop scenarios; 1 line in 12 (quick) / 4 (thorough) runs over the real WAL; "
            "distinct = distinct input lines")
for _pid in ("C16", "C17", "C18"):
    PROPS[_pid] = {
        "streams": [S("vfy", 1500, 20000, vm=(40, 300), vm_maxlen=2500)],
        "trusted": VFY_TRUSTED, "assumptions": VFY_ASSUME, "rule": VFY_RULE,
    }
for _p in ("C02", "C03", "C04", "C13"):
    PROPS[_p] = dict(PROPS["C01"])
PROPS["C02"]["streams"] = [S("crash", 250, 6000, vm=(10, 100), vm_maxlen=8000), S("segcrash", 300, 8000, vm=(6, 60), vm_maxlen=6000),
                           S("stalechain", 40, 1500, vm=(4, 40), vm_maxlen=6000)]
PROPS["C03"]["streams"] = [S("crash", 250, 6000, vm=(10, 100), vm_maxlen=8000), S("segcrash", 250, 8000, vm=(6, 60), vm_maxlen=6000),
                           S("initcrash", 60, 1200, vm=(0, 0))]
PROPS["C03"]["rule"] = PROPS["C01"]["rule"] + "; initcrash (implementation only, real fs + BoltDB): the states a crash during the very first Open can leave (empty / partial / garbage / complete wal-meta.db.tmp, final name plus stray tmp, repeated) must open, accept an append and present it after a clean reopen"
# C13 also runs the faults stream: left-over files and failed deletions are where "meta DB + live segments" is at stake
PROPS["C13"]["streams"] = [S("crash", 250, 6000, vm=(10, 100), vm_maxlen=8000), S("faults", 150, 3000, vm=(5, 50), vm_maxlen=8000)]
PROPS["C13"]["selftests"] = PROPS["C01"]["selftests"] + [
    {"name": "live_dir_exact_stmt (directory exact in every Up state of random crash histories)", "args": ["d"], "n": (1500, 40000)}]
PROPS["C13"]["rule"] = PROPS["C01"]["rule"] + "; live directory oracle: after every DeleteRange of a non-empty range that returns nil and after every rotation barrier (fault-free runs on crashfs) the directory listing must equal the file names of the committed segment list"
PROPS["C08"] = dict(PROPS["C05"])
PROPS["C01"]["streams"] = [S("crash", 300, 8000, vm=(10, 100), vm_maxlen=8000), S("segcrash", 250, 8000, vm=(6, 60), vm_maxlen=6000)]
PROPS["C08"]["streams"] = [S("stable", 120, 3000, vm=(5, 60), vm_maxlen=5000), S("seqapi", 100, 3000, vm=(3, 60), vm_maxlen=5000), S("crash", 100, 3000, vm=(4, 50), vm_maxlen=8000),
                           S("faults", 150, 3000, vm=(5, 50), vm_maxlen=8000)]

# Props/Link.v (byte level <-> abstract files) is re-checked and audited with the properties whose
# statements are about abstract files and whose content is bytes on disk
for _p in ("C01", "C02", "C05", "C10"):
    PROPS[_p]["extra_props"] = ["Link"]

PROPS['C14'] = {'assumptions': ['single writer goroutine (StoreLogs/DeleteRange are issued by one thread of the schedule); any number of readers, stable-store callers and '
                 'Close callers',
                 'in-memory VFS/MetaStore emulate *os.File (read after Close fails) and BoltMetaDB (calls after Close fail)',
                 'proved for all schedules: after_close, mutual exclusion; proved for all reachable states of a single-writer system (inductive invariant '
                 'Safe /\\ Inv1 /\\ Inv2, and the sealed-tail invariant Inv4): no panic, no deadlock, rotator exit, only results or ErrClosed (strict: no '
                 'ErrSealed, no I/O or metaDB error), all handles released exactly once'],
 'rule': 'every API method x 9 call windows x 5 stages of Close x 3 initial logs; writer waiting for a pending rotation x rotator stage x Close stage; random '
         'programs/schedules; distinct = distinct input lines',
 'streams': [{'n': (4500, 60000), 'name': 'sched14', 'timeout': 3000, 'vm': (25, 250), 'vm_maxlen': 400}],
 'trusted': ['Go compiler/runtime and standard library (encoding/binary, time, hash/crc32) -- differentially tested, not verified',
             "Go runtime scheduler/memory model: the model's atomic steps are the code's atomic actions and hook points; goroutine exit and file-handle "
             'release are observed (runtime.Stack, in-memory VFS accounting), not proved']}

PROPS['C06'] = {'assumptions': ['single writer; base-index resets are run on the implementation only (not in the model)',
                 'linearizability of every read and use-after-close freedom are proved for the model (all schedules); the Go history checker judges every '
                 'read of every forced and free-running history of the implementation'],
 'rule': 'writer programs (append, rotation, head truncation with finalisation, tail truncation + re-append of other content, whole-log deletion) x reads x '
         'reader window x writer progress; two readers on one old state; random programs/schedules; 2 stress runs (8 readers); distinct = distinct input lines',
 'streams': [{'n': (2200, 40000), 'name': 'sched06', 'timeout': 3000, 'vm': (20, 200), 'vm_maxlen': 400}],
 'trusted': ['Go compiler/runtime and standard library (encoding/binary, time, hash/crc32) -- differentially tested, not verified',
             'Go memory model: data-race freedom is judged by the race detector on the harness binary (stream race06 in both tiers, plus the sched06 '
             'stress under -race in the thorough tier), the model-level statement is '
             'C06_no_conflict_partial']}

# C06: stress under the Go race detector (implementation only; bin/wh-race is built by check.py)
PROPS["C06"]["race"] = True
PROPS["C06"]["streams"] = PROPS["C06"]["streams"] + [S("race06", 3, 60, vm=(0, 0), timeout=3000)]
PROPS["C06"]["rule"] = PROPS["C06"].get("rule", "") + "; race06 (implementation only): a copy of the harness built with the Go race detector runs one writer (appends with rotation over sealed segments written by an earlier process, entries above 64 KiB, head truncations, tail truncations + re-appends) against three readers on a memory-backed real directory; oracles: no data race report, GetLog returns the entry asked for with intact self-describing payload, an entry returned earlier stays intact under later reads, no error for an entry no truncation overlapped"

# C12 "StoreLogs followed by GetLog returns an equal log" is exercised through the WAL as well
PROPS["C12"]["streams"] = PROPS["C12"]["streams"] + [S("seqapi", 80, 2000, vm=(3, 40), vm_maxlen=5000)]

# C14 "after Close returns, every LogStore and StableStore method returns ErrClosed": the sequential
# stream probes every method (also empty batches / empty ranges) after each Close
PROPS["C14"]["streams"] = PROPS["C14"]["streams"] + [S("seqapi", 60, 1500, vm=(3, 40), vm_maxlen=5000)]

# C13 with concurrent readers pinning old state: Props/C13Conc.v (L3: once every call has returned and the
# rotation goroutine is idle, every handle outside the current state has been closed exactly once) and the
# directory-vs-metadata oracle of the forced-schedule runner (witness unlisted-file-after-readers)
PROPS["C13"]["extra_props"] = ["C13Conc"]
PROPS["C13"]["streams"] = PROPS["C13"]["streams"] + [S("sched06", 700, 12000, vm=(8, 80), vm_maxlen=400, timeout=3000)]
PROPS["C13"]["rule"] = PROPS["C13"]["rule"] + "; sched06 (forced schedules of readers against the single writer, see C06): after every case whose calls all returned the in-memory directory must hold exactly the files of the committed metadata's segments (readers that pinned an older state across a truncation have released it)"

# C08 "across any interleaving ... sequential and concurrent": stable-store calls of two clients overlapping
# inside the store, on the real BoltMetaDB; per-key register linearizability (implementation only)
PROPS["C08"]["streams"] = PROPS["C08"]["streams"] + [S("stableconc", 40, 1500, vm=(0, 0), timeout=3000)]
PROPS["C08"]["rule"] = PROPS["C08"].get("rule", "") + "; stableconc (implementation only, real BoltMetaDB behind a pass-through MetaStore): while a Get/Set of the main caller is inside the store -- effect done, result not yet seen by the WAL -- other keys are committed directly on the BoltMetaDB (large values: page reuse) and a second client runs whole Set/Get/SetUint64/GetUint64/StoreLogs/DeleteRange calls on the same keys; every call is recorded with invocation and return instants and the history of every key must be linearizable as a register (Wing-Gong search), also across clean reopens; the log must equal what was appended"

# readfault (implementation only): transient READ errors in GetLog and in Open, and two reads in flight at once
# (nested GetLog from inside the codec): C10 (no acknowledged entry lost / Open not broken by a failed read),
# C12 and C06 (a pooled read buffer is never shared by two reads)
for _p in ("C10", "C12", "C06"):
    PROPS[_p]["streams"] = PROPS[_p]["streams"] + [S("readfault", 150, 4000, vm=(0, 0), timeout=3000)]
    PROPS[_p]["rule"] = PROPS[_p].get("rule", "") + "; readfault (implementation only, crashfs): one ReadAt of a segment file fails once with EIO -- the k-th read of a GetLog (result must be an error or the right entry; afterwards all entries read back, also with a second GetLog nested inside the first one's Decode, whose input bytes must not change) and the k-th read of an Open (Open fails or returns the complete log; the next Open and a clean reopen return the complete log)"

# C14 beyond the single-writer model: two mutating goroutines with a pending rotation (implementation only)
PROPS["C14"]["streams"] = PROPS["C14"]["streams"] + [S("twowriters", 32, 640, vm=(0, 0), timeout=3000)]
PROPS["C14"]["rule"] = PROPS["C14"].get("rule", "") + "; twowriters (implementation only): StoreLogs on one goroutine, DeleteRange (whole log, suffix, prefix, far beyond) on another, both waiting for a queued rotation, woken in either order while the next rotation is queued; the log must equal the two calls applied in lock order, accept the next append and survive two Close/Open cycles"

# C14 for any number of mutating threads: Props/C14Multi.v (no call past its awaitRotation check runs with a rotation queued)
PROPS["C14"]["extra_props"] = ["C14Multi"]

# C13: a left-over segment file next to a foreign *.wal file (implementation only)
PROPS["C13"]["streams"] = PROPS["C13"]["streams"] + [S("strayfile", 40, 800, vm=(0, 0), timeout=3000)]
PROPS["C13"]["rule"] = PROPS["C13"]["rule"] + "; strayfile (implementation only): a closed directory gets an unlisted file with a segment file name and, in half of the cases, a foreign file ending in .wal; Open may refuse, but if it succeeds no unlisted segment file may remain"
