# per-property configuration of tools/check.py
# streams: name, n=(quick, thorough), vm=(quick, thorough) sample sizes for the in-kernel cross-check

def S(name, q, t, **kw):
    d = {"name": name, "n": (q, t)}
    d.update(kw)
    return d

BBOLT = "bbolt transactions are atomic and durable (not modelled below the MetaStore API)"
GO = "Go compiler/runtime and standard library (encoding/binary, time, hash/crc32) -- differentially tested, not verified"

PROPS = {
    "C12": {
        "streams": [S("codec", 1500, 40000, vm=(60, 600))],
        "trusted": [GO],
        "assumptions": ["time.Time is projected to (seconds, nanoseconds, zone offset); monotonic readings are dropped by MarshalBinary",
                        "nil and empty byte slices are identified"],
        "rule": "seeded generator: raft.Logs over varint boundaries 2^(7k)+-1, MaxUint64, nil/empty/64KiB-crossing data, 7 time shapes x 6 zone shapes; malformed stream of 7 mutation kinds; distinct = distinct input lines",
    },
}
