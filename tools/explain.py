#!/usr/bin/env python3
# developer helper: align ops of a `wal` line with impl/model observations; usage: explain.py <caseid> [file]
import sys,subprocess,os
cid=sys.argv[1]; f=sys.argv[2] if len(sys.argv)>2 else '/tmp/c.txt'
for l in open(f):
    if l.startswith(cid+'\t'):
        i,inp,obs=l.rstrip('\n').split('\t')
        t=inp.split(' ')
        ops=[];j=4
        while j<len(t):
            op=t[j]
            if op=='S':
                k=int(t[j+1],16); idxs=[t[j+2+8*m] for m in range(k)]; szs=[len(t[j+2+8*m+3])//2 for m in range(k)]; ops.append(('S[%s sz %s]'%(','.join(idxs),szs),True)); j+=2+8*k
            elif op in('D','K','U'): ops.append((' '.join(t[j:j+3])[:60],True)); j+=3
            elif op in ('G','k','u'): ops.append((' '.join(t[j:j+2]),True)); j+=2
            elif op in ('!','Q'): ops.append((' '.join(t[j:j+2]),False)); j+=2
            elif op=='C':
                nf=int(t[j+2],16); p=j+3+2*nf; nb=int(t[p],16); q=p+1+2*nb; nt=int(t[q],16); ops.append(('C '+' '.join(x[:12] for x in t[j+1:q+1+3*nt]),False)); j=q+1+3*nt
            elif op in ('W','Z'): ops.append((op,False)); j+=1
            else: ops.append((op,True)); j+=1
        m=subprocess.run(['/verif/ocaml/_build/driver'],input='x\t'+inp+'\n',stdout=subprocess.PIPE,text=True).stdout.rstrip('\n').split('\t')[1]
        a=obs.split(' '); b=m.split(' ')
        k=0
        print(' '.join(t[:4]))
        for op,emits in ops:
            if not emits: print('      ',op); continue
            x=a[k] if k<len(a) else '?'; y=b[k] if k<len(b) else '?'
            mark='  ' if x==y else '!!'
            print('%s %-3d %-40s I:%s'%(mark,k,op,x[:150]))
            if x!=y: print('%s     %-40s M:%s'%(mark,'',y[:150]))
            k+=1
