#!/bin/sh
# offline setup: full .vo build of the Rocq development, extraction, driver, harness
set -e
cd "$(dirname "$0")/.."
export GOFLAGS=-mod=mod GOPROXY=off GOSUMDB=off GOTOOLCHAIN=local CGO_ENABLED=0
mkdir -p .work evidence replays coq/Gen
cp /repo/go.sum harness/go.sum
(cd harness && go build -tags verif -o bin/wh ./cmd/wh)
./harness/bin/wh translate all -out - | python3 tools/split_gen.py
(cd coq && timeout 3000 ./build.sh)
(cd ocaml && ./build.sh)
echo setup-ok
