#!/usr/bin/env python3
# writes the sections of `wh translate` output to coq/Gen/<name> (only when changed)
import os, sys
root = os.path.dirname(os.path.dirname(os.path.abspath(__file__)))
files, cur = {}, None
for line in sys.stdin:
    if line.startswith("=== "):
        cur = line[4:].strip(); files[cur] = ""
    elif cur:
        files[cur] += line
for n, c in files.items():
    p = os.path.join(root, "coq", "Gen", n)
    if not os.path.exists(p) or open(p).read() != c:
        open(p, "w").write(c)
