#!/usr/bin/env python3
"""prints the markdown table of seeded changes and which check caught them (from seeded/*/meta.json)"""
import json, glob, os
root = os.path.dirname(os.path.dirname(os.path.abspath(__file__)))
rows = []
for d in sorted(glob.glob(os.path.join(root, "seeded", "*"))):
    mp = os.path.join(d, "meta.json")
    if not os.path.exists(mp):
        continue
    m = json.load(open(mp))
    det = m.get("detection", [])
    if m.get("obsolete_after"):
        rows.append("| %s | %s | (obsolete after %s: %s) | | |" % (m["id"], (m.get("title") or "")[:110].replace("|", "/"), m["obsolete_after"]["commit"], m["obsolete_after"]["why"][:160]))
        continue
    last = {}
    for r in det:            # latest result per check (records are in chronological order; the checks
        last.pop((r["check"], "quick"), None)      # were strengthened between runs, an older run of
        last.pop((r["check"], "thorough"), None)   # the same check in another tier is superseded)
        last[(r["check"], r["tier"])] = r
    caught = sorted({"%s(%s)" % (k[0], k[1]) for k, r in last.items() if r["caught"]})
    missed = sorted({"%s(%s)" % (k[0], k[1]) for k, r in last.items() if not r["caught"]})
    how = ""
    for k, r in last.items():
        if r["caught"]:
            rep = r.get("replay") or {}
            how = rep.get("signature") or rep.get("what", "")[:60] or ("tie only" if any("no-failing-input-found" in l for l in r["lines"]) else "")
            if any("no-failing-input-found" in l for l in r["lines"]):
                how = (how + " (model/implementation disagreement, no oracle witness)").strip()
            break
    title = (m.get("title") or m.get("what_it_breaks", ""))[:110].replace("|", "/")
    rows.append("| %s | %s | %s | %s | %s |" % (m["id"], title, ", ".join(caught) or "-", ", ".join(missed) or "-", how[:90]))
print("| id | seeded change | caught by | missed by | first witness |")
print("|---|---|---|---|---|")
print("\n".join(rows))
