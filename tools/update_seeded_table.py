#!/usr/bin/env python3
"""replaces the table of seeded changes in DESIGN.md (section 10.3) by the output of tools/seeded_table.py"""
import os, subprocess, sys
root = os.path.dirname(os.path.dirname(os.path.abspath(__file__)))
tab = subprocess.run([sys.executable, os.path.join(root, "tools", "seeded_table.py")], stdout=subprocess.PIPE, text=True).stdout
p = os.path.join(root, "DESIGN.md")
s = open(p).read()
i = s.index("| id | seeded change | caught by | missed by | first witness |")
j = s.index("**Round 2.**", i)
s = s[:i] + tab.rstrip("\n") + "\n\n" + s[j:]
open(p, "w").write(s)
print("table rows:", tab.count("\n") - 2)
