HOOK_COMMITS = ["3e8fe93"]

CHECKS = {
    "C12": {
        "text": "Kernel-checked theorem: for every raft.Log representable in Go, decode_log (encode_log l) = Some l (incl. binary.Uvarint and time.MarshalBinary models); the model is tied to codec.go by differential execution on thousands of generated and malformed inputs per run, with an independent round-trip/aliasing oracle on the implementation.",
        "note": "Trusted: Coq kernel, extraction (ExtrOcamlBasic), harness. time.Time projected to (sec,nsec,zone).",
        "technique": "Rocq proof (round-trip theorem) + model/implementation correspondence",
        "ref": "DESIGN.md 5 C12",
    },
    "C19": {
        "text": "Kernel-checked theorems over an executable model of migrate.CopyLogs/CopyStable (abstract contiguous-log stores, cancellation as the k-th ctx.Err() check, injected GetLog/StoreLogs failures, deferred close as an explicit flag): for every well-formed source (any length incl. 0, any first index), every batchBytes : Z and an empty destination the copy returns Ok with dst = src (First, Last, every GetLog), using non-empty consecutive batches that start at last+1; under every cancellation point/fault the destination holds a prefix and Canceled is returned exactly when the cancellation precedes the last loop check; progress is closed on every return path; CopyStable transfers all standard and extra keys when the source does not fail on missing keys. The model is tied to /repo/migrate by differential execution of the real functions on all 9 pairings of raft.InmemStore, the real WAL and raft-boltdb/v2 (result kind, channel closed, number of GetLog calls, batch sizes, destination contents), with model-independent oracles (dst == src, prefix on cancel, channel closed, context's own error).",
        "note": "Trusted: Coq kernel, extraction, harness. Stores are abstracted to the contiguous-log spec; guards: source indexes >= 1, last index < MaxUint64, disjoint byte/uint64 stable key spaces. The theorem for CopyStable assumes the source does not fail on never-set keys; raft-boltdb and InmemStore do fail there and CopyStable then stops with an error (modelled and exercised; reported as a suspected defect in DESIGN.md 10 mig/fs, not counted as a violation because the property speaks about keys with values).",
        "technique": "Rocq proof (induction over the source log / key lists) + model/implementation correspondence",
        "ref": "DESIGN.md 5 C19",
    },
}

_pending = "check not built yet in this round (machinery under construction; see DESIGN.md section 10)"
NOT_APPLICABLE = {("C%02d" % i): _pending for i in range(1, 21) if ("C%02d" % i) not in CHECKS}
