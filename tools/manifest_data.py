HOOK_COMMITS = ["3e8fe93"]

CHECKS = {
    "C12": {
        "text": "Kernel-checked theorem: for every raft.Log representable in Go, decode_log (encode_log l) = Some l (incl. binary.Uvarint and time.MarshalBinary models); the model is tied to codec.go by differential execution on thousands of generated and malformed inputs per run, with an independent round-trip/aliasing oracle on the implementation.",
        "note": "Trusted: Coq kernel, extraction (ExtrOcamlBasic), harness. time.Time projected to (sec,nsec,zone).",
        "technique": "Rocq proof (round-trip theorem) + model/implementation correspondence",
        "ref": "DESIGN.md 5 C12",
    },
}

_pending = "check not built yet in this round (machinery under construction; see DESIGN.md section 10)"
NOT_APPLICABLE = {("C%02d" % i): _pending for i in range(1, 21) if ("C%02d" % i) not in CHECKS}
