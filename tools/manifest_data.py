HOOK_COMMITS = ["3e8fe93"]

CHECKS = {
    "C12": {
        "text": "Kernel-checked theorem: for every raft.Log representable in Go, decode_log (encode_log l) = Some l (incl. binary.Uvarint and time.MarshalBinary models); the model is tied to codec.go by differential execution on thousands of generated and malformed inputs per run, with an independent round-trip/aliasing oracle on the implementation.",
        "note": "Trusted: Coq kernel, extraction (ExtrOcamlBasic), harness. time.Time projected to (sec,nsec,zone).",
        "technique": "Rocq proof (round-trip theorem) + model/implementation correspondence",
        "ref": "DESIGN.md 5 C12",
    },
    "C16": {
        "text": "Kernel-checked theorems over ALL multi-node histories (induction over event lists: StoreLogs of arbitrary batches on any node, DeleteRange, middleware restarts, at-rest tampering, verifier steps): the middleware's running sum is always the FNV chain over exactly the entries written since sumStartIdx and still held (C16_written_sum); hence a range stored as the leader checksummed it and read back unchanged yields a report without any error (C16_no_false_alarm), and a node whose log starts after Range.Start reports ErrRangeMismatch (C16_range_mismatch). The executable model is tied to verifier/store.go + verifier.go by differential execution of the same histories on the real verifier.LogStore (over InmemStore and over the real WAL), with a ground-truth oracle that is independent of the model.",
        "note": "Trusted: Coq kernel, extraction (ExtrOcamlBasic), harness incl. its contract guard under the middleware. Verification reads are atomic w.r.t. writers (the store at that moment is a free parameter of the theorems). StoreLogs/DeleteRange atomic w.r.t. each other.",
        "technique": "Rocq proof (history invariant + refinement of the contiguous-log spec) + model/implementation correspondence + ground-truth oracle",
        "ref": "DESIGN.md 5 C16, 10 vfy",
    },
    "C17": {
        "text": "Kernel-checked: the chained checksum is FNV-1a from state 0 over an explicit byte stream (C17_chain_is_fnv_of_stream); each FNV step is a bijection of uint64 (C17_fnv_step_bijective) so a divergence is never masked by later bytes and equal-length streams differing in one byte never collide (no caveat); detection theorem with the stream collision as explicit disjunct (C17_detect), every mutation leaving Data or Extensions alone changes the stream, in-flight blame is sound over all histories (C17_blame_inflight_sound). The clause 'any entry differs in Data or Extensions' is REFUTED on the faithful model: bytes moved across the Data/Extensions boundary hash identically (C17_stream_not_injective_refuted) -- open known finding data-ext-boundary-shift, reproduced on the implementation every run; any other undetected mutation is a VIOLATION.",
        "note": "Partial by refutation: injectivity of the hashed stream fails across the Data/Extensions boundary (wire-compatibility, not fixed). Multi-entry re-framings of the stream are outside the property's single-field quantifier and are covered only by the collision disjunct.",
        "technique": "Rocq proof (algebra of FNV-1a mod 2^64, stream characterisation) + refutation witness + model/implementation correspondence + mutation sweep with ground-truth oracle",
        "ref": "DESIGN.md 5 C17, 10 vfy",
    },
    "C18": {
        "text": "Kernel-checked: StoreLogs/DeleteRange through the middleware equal the same calls on the underlying store with a leader checkpoint gaining exactly the 24-byte metadata, errors leave store and verifier state untouched, foreign Extensions on a checkpoint are refused (C18_passthrough*, for every node state hence every sequence); small-step model of the 1-buffered verifyCh over ALL schedules of {StoreLogs caller, verifier goroutine, ReportFn return}: the caller's sends always complete even with no ReportFn return at all (C18_store_never_blocks), delivered+dropped+in_channel+in_progress+unsent = checkpoints at every point (C18_accounting), every processed report names exactly the range tiled by the checkpoints dropped before it (C18_skipped_range). Tied to the code by differential execution incl. deliberately blocked ReportFn, with twin-store, time-limit and accounting oracles on the implementation.",
        "note": "Schedules are interleavings of atomic channel operations (Go memory model trusted). SkippedRange is per LogStore lifetime: the first report after a middleware restart names none.",
        "technique": "Rocq proof (schedule-universal invariants of a small-step channel model; pass-through refinement) + model/implementation correspondence + twin-store / blocking / accounting oracles",
        "ref": "DESIGN.md 5 C18, 10 vfy",
    },
    "C19": {
        "text": "Kernel-checked theorems over an executable model of migrate.CopyLogs/CopyStable (abstract contiguous-log stores, cancellation as the k-th ctx.Err() check, injected GetLog/StoreLogs failures, a source whose FirstIndex/LastIndex fails (e.g. an already closed WAL), deferred close as an explicit flag): for every well-formed source (any length incl. 0, any first index), every batchBytes : Z and an empty destination the copy returns Ok with dst = src (First, Last, every GetLog), using non-empty consecutive batches that start at last+1; under every cancellation point/fault the destination holds a prefix and Canceled is returned exactly when the cancellation precedes the last loop check; progress is closed on every return path; CopyStable transfers all standard and extra keys when the source does not fail on missing keys. The model is tied to /repo/migrate by differential execution of the real functions on all 9 pairings of raft.InmemStore, the real WAL and raft-boltdb/v2 (result kind, channel closed, number of GetLog calls, batch sizes, destination contents), with model-independent oracles (dst == src, prefix on cancel, channel closed, context's own error).",
        "note": "Trusted: Coq kernel, extraction, harness. Stores are abstracted to the contiguous-log spec; guards: source indexes >= 1, last index < MaxUint64, disjoint byte/uint64 stable key spaces. The theorem for CopyStable assumes the source does not fail on never-set keys; raft-boltdb and InmemStore do fail there and CopyStable then stops with an error (modelled and exercised; reported as a suspected defect in DESIGN.md 10 mig/fs, not counted as a violation because the property speaks about keys with values).",
        "technique": "Rocq proof (induction over the source log / key lists) + model/implementation correspondence",
        "ref": "DESIGN.md 5 C19",
    },
    "C07": {
        "text": "Kernel-checked theorems about syscall traces: an executable checker `discipline` (every pwrite to a segment file is fsynced before the next ACK; a written file whose directory entry was not yet followed by a directory fsync gets one before the ACK; unlink is followed by a directory fsync before the ACK; segment files are created O_CREAT|O_EXCL and fallocated (mode 0, offset 0) to the requested size before any write; wal-meta.db appears only by rename of the written, synced and closed .tmp file, followed by a directory fsync) is proved sound for ALL traces against a durable-disk semantics (C07_discipline_sound: at every ACK every write to a live segment file is in synced content of an existing file with a durable directory entry, deletions are durable, the meta db is complete/synced/durably named; C07_meta_appears_complete), and the fs-layer model (Create/OpenWriter/File.Sync with first-Sync directory fsync/Delete/safeInitBoltDB/CommitState) is proved to generate only disciplined traces for callers that sync before acknowledging (C07_model_traces_ok). Tie: the extracted, proved checker is evaluated on the syscall traces of the PRODUCTION fs.FS + metadb.BoltMetaDB observed under strace for WAL workloads (fst lines), and the fs-layer model's predicted event sequence is compared with the observed one for direct fs-layer call sequences (fso lines). Independent Go-side oracles: a re-implementation of the discipline (witness signatures missing-dir-fsync, missing-file-fsync, delete-without-dir-fsync, non-exclusive-create, bad-fallocate, meta-tmp-not-synced, meta-not-renamed, ...), read-back of new segment files (requested size, zero-filled), exclusive-create probe, log read-back after reopen.",
        "note": "PARTIAL by nature: the theorems are about syscall patterns. That the kernel/file system makes fsynced data and fsynced directory entries durable, that fallocate zero-fills and O_EXCL excludes are ASSUMPTIONS (they are the disk semantics of Fs/DisciplineFacts.v and the README's assumptions), as is the completeness and ordering of the strace log. bbolt's page writes are checked only as 'every page write to wal-meta.db is followed by fdatasync before the ACK of every call except StoreLogs' (the background rotation's metadata commit legitimately overlaps the return of the StoreLogs that sealed the segment; the next mutating call awaits it). Workloads are sequential (one API call at a time; the background rotation runs concurrently and is covered).",
        "technique": "Rocq proof (trace induction, simulation between checker state and disk semantics) + syscall-trace correspondence under strace",
        "ref": "DESIGN.md 5 C07",
    },
    "C09": {
        "text": "Kernel-checked theorems: for every history of successful appends / force-seal the concatenated writes of the writer model equal, byte for byte, the layout of an independent README-only encoder (32-byte header, 8-aligned zero-padded frames, one commit frame per batch whose CRC-32C covers exactly the bytes since the previous commit, index frame at IndexStart holding exactly the entry-frame offsets); the README-only decoder reads all of it back; constants are checked against the source by reflexivity. The model is tied to segment/*.go by byte-for-byte differential execution, and committed golden directories are opened by the current code and decoded by the README parser on every run.",
        "note": "Guard: file < 2^32 bytes. Trusted: transcription of the README into coq/Fmt/ReadmeSpec.v, Coq kernel, extraction, harness. README 'just after the file header' wording for the first CRC range recorded as documentation discrepancy.",
        "technique": "Rocq proof (refinement of an independent layout spec, decoder round trip) + model/implementation correspondence + golden fixtures",
        "ref": "DESIGN.md 5 C09, 10 seg",
    },
    "C15": {
        "text": "Kernel-checked theorems (segment level): every entry of every acknowledged batch is returned by the tail reader and, after sealing, by the sealed reader, for every payload length up to MaxEntrySize, every batch position and every size limit (read_frame's 64 KiB first read and exact second read are modelled); a batch with an entry above MaxEntrySize is refused without side effect; no size up to MaxEntrySize is refused. Tied to the code by the `sizes` stream over all boundary neighbourhoods; 64 MiB +- 1 run on the implementation in the thorough tier.",
        "note": "L1 form (one segment file); guard file < 2^32 bytes.",
        "technique": "Rocq proof (reader/writer round trip over all sizes) + model/implementation correspondence",
        "ref": "DESIGN.md 5 C15, 10 seg",
    },
}

CHECKS["C20"] = {
    "text": "Static half: kernel-evaluated theorem over the tables regenerated from /repo's source on every run (go/ast scan of every IncrementCounter/SetGauge call site + compiled MetricDefinitions): every emitted name is a literal declared with the right kind, no duplicates. Dynamic half: the counters of the L2 model are compared with the implementation's after every step of generated operation sequences and with independently computed true totals (theorem C20_counters_true over all sequences: see Props/C20.v for its status).",
    "note": "Trusted: the go/ast translator, Coq kernel (vm_compute on a finite table), harness. segment_rotations has no spec-level total.",
    "technique": "Rocq proof over a model regenerated from source (translator) + model/implementation correspondence",
    "ref": "DESIGN.md 5 C20",
}


_L2NOTE = 'Trusted: Coq kernel; extraction; harness (crashfs = in-memory VFS/MetaStore with durable/pending bookkeeping); bbolt as an atomic durable cell; torn-write granularity of 8 bytes. The L2 model works on abstract segment files; the byte-level recovery law is the L1 theorem (Seg/RecoverFacts.v).'
_INTERIM = " PROVED in full (Wal/Crash*.v, Wal/Seq*.v; every crash point of every call and of recovery is covered by proof); the statement is additionally evaluated on random histories of the model every run and the model is tied to the implementation by the streams."
for _p, _t in {
  "C01": "Master statement crash_refinement_stmt (Wal/Hist.v): for all histories of calls, power losses at any I/O boundary with any adversary choice over non-durable files and pending batches, nested crashes inside recovery and reopen cycles, Open succeeds and the recovered log equals the acknowledged state or the state of the interrupted call. Model tied to the code by the crash stream (crash images built from the implementation's own I/O trace, recovered by the real Open) with an acknowledged-entries oracle.",
  "C02": "Same master statement: the recovered state is EXACTLY the acknowledged or the in-flight state (nothing fabricated, batch whole or absent), over chains of crashes; byte-level law seg_recover_committed (L1) for torn writes and stale bytes.",
  "C03": "Same master statement: every Open after a crash succeeds and every later call behaves like the specification (append at LastIndex+1, truncations, stable writes, reopen). Usability probe on every crash image of the stream.",
  "C04": "Same master statement: an interrupted DeleteRange leaves the old or the new state, an acknowledged one stays applied; re-appended entries are never displaced (segment ids distinguish generations).",
  "C13": "Same master statement (dir_exact after every Open; no creation ever hits an existing file) plus directory listing and segment-identity reuse oracles on every crash image.",
}.items():
    CHECKS[_p] = {"text": _t + _INTERIM, "note": _L2NOTE, "technique": "Rocq proof (crash invariant / refinement over histories) + model/implementation correspondence on crash images", "ref": "DESIGN.md 5 " + _p}
CHECKS["C05"] = {"text": "Statement seq_refinement_stmt (Wal/Hist.v): for every sequence of StoreLogs/DeleteRange/GetLog/FirstIndex/LastIndex/stable ops/Close+Open, every result class and the abstract state equal the contiguous-log specification's. Model tied to the code by the seqapi stream (results, every entry, metrics, metadata, directory, I/O trace; crashfs and real fs+BoltDB) and an independent reference-log oracle." + _INTERIM,
                 "note": _L2NOTE, "technique": "Rocq proof (refinement to an abstract contiguous log) + model/implementation correspondence", "ref": "DESIGN.md 5 C05"}
CHECKS["C08"] = {"text": "Stable store: Get returns the latest successful Set across interleavings with log operations and reopens (seq_refinement_stmt, dk_stable = spec map) and across crashes (crash_refinement_stmt); isolation lemmas; uint64 round trip. Tied by seqapi (incl. real BoltDB) and crash streams." + _INTERIM,
                 "note": _L2NOTE + " bbolt's transaction atomicity/durability is trusted (partial).", "technique": "Rocq proof (refinement incl. key/value map) + model/implementation correspondence", "ref": "DESIGN.md 5 C08"}
CHECKS["C10"] = {"text": "Statement fault_safety_stmt (Wal/FaultHist.v): for every history with an I/O error injected at any action of any call, readers of the running process see exactly the acknowledged state and a reopen presents a state in which each failed call is applied in full or not at all. Proved so far: rollback of failed appends/force-seals, failed commits publish nothing, writes refused after a failed post-commit creation. Model tied to the code by the faults stream; acknowledged-entries oracle. NOTE: the full statement is NOT proved yet (only the *_partial lemmas are); it is evaluated on random histories of the model every run (a test).",
                 "note": _L2NOTE + " Faults are single transient failures without partial effect; deletions exempt.", "technique": "Rocq proof (partial: local rollback lemmas; full statement tested) + model/implementation correspondence under fault injection", "ref": "DESIGN.md 5 C10"}

CHECKS["C11"] = {
    "text": "Kernel-checked theorems on the byte-level models: scanning terminates with fuel to spare on every byte string; the only data-dependent allocations (CRC batch buffer, second frame read, dump buffer) are bounded by the file length resp. MaxEntrySize; a sealed file shorter than its header / with damaged magic or version / with another segment's header is refused; every strict prefix of a valid entry encoding and every valid encoding followed by extra bytes decodes to an error; at the WAL level a listed sealed segment that is missing or header-less makes Open fail. The models are tied to the code by the corrupt stream (damaged files: outcome kind and recovered entries equal the model's), the malformed half of the codec stream, and an implementation-only stream (openfail) that damages real directories, requires Open to fail, and requires a second Open in the same process to return and - damage undone - to present the original log.",
    "note": "PARTIAL for the runtime clauses: 'never panics / hangs' and 'allocates within a bound' of the Go code, and 'a failed Open leaves nothing locked or open' (BoltDB flock, OS handles) are observed under a watchdog, not proved. bbolt trusted.",
    "technique": "Rocq proof (termination/fuel, allocation bounds, decoder rejection lemmas) + model/implementation correspondence on damaged inputs + implementation-side watchdog oracles",
    "ref": "DESIGN.md 5 C11, 10 seg",
}

CHECKS['C14'] = {'note': 'Proved for all reachable states of a single-writer system (see coq/Props/C14.v header; caveat: ErrSealed). Found and drove the repair of 4 defects (74e5b3c, b259a49, 52ced73, d688ba5).',
 'ref': 'DESIGN.md 5 C14, 10 conc',
 'technique': 'Rocq proof (schedule-quantified inductive invariant) + forced-schedule model/implementation correspondence + oracles',
 'text': "Kernel-checked for all schedules of the executable L3 model (Close, any number of API callers, rotation goroutine; atomic steps = the code's atomic "
         'actions and hook points): calls started after the closed flag is set return ErrClosed and a second Close is a no-op (C14_after_close), writeMu '
         'mutual exclusion. For every reachable state of a system with a single writer thread the invariant Safe /\\ Inv1 /\\ Inv2 (protocol stages of Close, '
         'channels, rotation goroutine; reference counts incl. successor references, retired bit, finalizers, ownership of every open handle, protection of '
         'validated holders) is inductive, hence: no call panics (C14_no_panic), some thread is enabled while a caller is unfinished (C14_no_deadlock), the '
         'system cannot rest with the rotation goroutine alive after Close (C14_rotator_exits), every recorded outcome is a result or ErrClosed -- never '
         'Panic, an I/O error through a closed file or a metaDB error (C14_racing_calls, C14_racing_calls_clean), and after Close and all calls returned '
         'every file handle and the metaDB were closed exactly once (C14_handles_released). Not excluded by the proof: ErrSealed from StoreLogs. The model is '
         'tied to wal.go/state.go by forcing the same schedules on the real WAL through the verif hook points (every method x window x Close stage, pending '
         'rotation, random) and comparing outcomes; model-independent oracles: recover(), deadlock watchdog, ErrClosed after Close, rotation goroutine exit, '
         'handle accounting, acknowledged entries after two reopen cycles.'}

CHECKS['C06'] = {'note': 'Proved for all schedules of a single-writer system (see coq/Props/C06.v header); base-index resets are implementation-only cases.',
 'ref': 'DESIGN.md 5 C06, 10 conc',
 'technique': 'Rocq proof (schedule-quantified invariants, per-read linearization) + forced-schedule correspondence + history checker + race detector',
 'text': 'Kernel-checked for all schedules of the same L3 model (writer: append with offsets publish / write / fsync / commitIdx store, rotation, head and '
         'tail truncation with re-append; any number of readers, Close callers): every completed FirstIndex/LastIndex/GetLog returns what the abstract log '
         '(the current version) gives in some state between its invocation and its return, or ErrClosed once a concurrent Close has set the closed flag '
         '(C06_reads_linearizable); no read ever goes through a closed or deleted file (C06_stable_entry_intact); an entry becomes visible only after its '
         'batch is synced and readers read below the synced prefix (C06_visible_only_durable); model-level absence of read/write conflicts on file contents '
         '(C06_no_conflict_partial, partial by nature: no Go memory model in Rocq). Proof: structural invariant of the version sequence, view stability '
         '(the view through a held version changes only at the commitIdx store of a tail shared with the current version and then equals the current '
         'view), append-only file contents, justification carried by every in-flight read. The model is tied to the code by forced schedules around the '
         'protocol windows (including entries larger than 64 KiB and batches larger than 1 MiB observed mid-write) compared with the extracted model; every '
         "read of every forced and free-running (8 readers, 1 writer) history of the implementation is checked read-by-read against the writer's version "
         'log; the stress also runs under the race detector in the thorough tier.'}

_pending = "check not built yet in this round (machinery under construction; see DESIGN.md section 10)"
NOT_APPLICABLE = {("C%02d" % i): _pending for i in range(1, 21) if ("C%02d" % i) not in CHECKS}
