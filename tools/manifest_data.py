HOOK_COMMITS = ["3e8fe93"]

CHECKS = {
    "C12": {
        "text": "Kernel-checked theorem: for every raft.Log representable in Go, decode_log (encode_log l) = Some l (incl. binary.Uvarint and time.MarshalBinary models); the model is tied to codec.go by differential execution on thousands of generated and malformed inputs per run, with an independent round-trip/aliasing oracle on the implementation.",
        "note": "Trusted: Coq kernel, extraction (ExtrOcamlBasic), harness. time.Time projected to (sec,nsec,zone).",
        "technique": "Rocq proof (round-trip theorem) + model/implementation correspondence",
        "ref": "DESIGN.md 5 C12",
    },
    "C19": {
        "text": "Kernel-checked theorems over an executable model of migrate.CopyLogs/CopyStable (abstract contiguous-log stores, cancellation as the k-th ctx.Err() check, injected GetLog/StoreLogs failures, a source whose FirstIndex/LastIndex fails (e.g. an already closed WAL), deferred close as an explicit flag): for every well-formed source (any length incl. 0, any first index), every batchBytes : Z and an empty destination the copy returns Ok with dst = src (First, Last, every GetLog), using non-empty consecutive batches that start at last+1; under every cancellation point/fault the destination holds a prefix and Canceled is returned exactly when the cancellation precedes the last loop check; progress is closed on every return path; CopyStable transfers all standard and extra keys when the source does not fail on missing keys. The model is tied to /repo/migrate by differential execution of the real functions on all 9 pairings of raft.InmemStore, the real WAL and raft-boltdb/v2 (result kind, channel closed, number of GetLog calls, batch sizes, destination contents), with model-independent oracles (dst == src, prefix on cancel, channel closed, context's own error).",
        "note": "Trusted: Coq kernel, extraction, harness. Stores are abstracted to the contiguous-log spec; guards: source indexes >= 1, last index < MaxUint64, disjoint byte/uint64 stable key spaces. The theorem for CopyStable assumes the source does not fail on never-set keys; raft-boltdb and InmemStore do fail there and CopyStable then stops with an error (modelled and exercised; reported as a suspected defect in DESIGN.md 10 mig/fs, not counted as a violation because the property speaks about keys with values).",
        "technique": "Rocq proof (induction over the source log / key lists) + model/implementation correspondence",
        "ref": "DESIGN.md 5 C19",
    },
    "C07": {
        "text": "Kernel-checked theorems about syscall traces: an executable checker `discipline` (every pwrite to a segment file is fsynced before the next ACK; a written file whose directory entry was not yet followed by a directory fsync gets one before the ACK; unlink is followed by a directory fsync before the ACK; segment files are created O_CREAT|O_EXCL and fallocated (mode 0, offset 0) to the requested size before any write; wal-meta.db appears only by rename of the written, synced and closed .tmp file, followed by a directory fsync) is proved sound for ALL traces against a durable-disk semantics (C07_discipline_sound: at every ACK every write to a live segment file is in synced content of an existing file with a durable directory entry, deletions are durable, the meta db is complete/synced/durably named; C07_meta_appears_complete), and the fs-layer model (Create/OpenWriter/File.Sync with first-Sync directory fsync/Delete/safeInitBoltDB/CommitState) is proved to generate only disciplined traces for callers that sync before acknowledging (C07_model_traces_ok). Tie: the extracted, proved checker is evaluated on the syscall traces of the PRODUCTION fs.FS + metadb.BoltMetaDB observed under strace for WAL workloads (fst lines), and the fs-layer model's predicted event sequence is compared with the observed one for direct fs-layer call sequences (fso lines). Independent Go-side oracles: a re-implementation of the discipline (witness signatures missing-dir-fsync, missing-file-fsync, delete-without-dir-fsync, non-exclusive-create, bad-fallocate, meta-tmp-not-synced, meta-not-renamed, ...), read-back of new segment files (requested size, zero-filled), exclusive-create probe, log read-back after reopen.",
        "note": "PARTIAL by nature: the theorems are about syscall patterns. That the kernel/file system makes fsynced data and fsynced directory entries durable, that fallocate zero-fills and O_EXCL excludes are ASSUMPTIONS (they are the disk semantics of Fs/DisciplineFacts.v and the README's assumptions), as is the completeness and ordering of the strace log. bbolt's page writes are checked only as 'every page write to wal-meta.db is followed by fdatasync before the ACK of every call except StoreLogs' (the background rotation's metadata commit legitimately overlaps the return of the StoreLogs that sealed the segment; the next mutating call awaits it). Workloads are sequential (one API call at a time; the background rotation runs concurrently and is covered).",
        "technique": "Rocq proof (trace induction, simulation between checker state and disk semantics) + syscall-trace correspondence under strace",
        "ref": "DESIGN.md 5 C07",
    },
}

CHECKS["C20"] = {
    "text": "Static half: kernel-evaluated theorem over the tables regenerated from /repo's source on every run (go/ast scan of every IncrementCounter/SetGauge call site + compiled MetricDefinitions): every emitted name is a literal declared with the right kind, no duplicates. Dynamic half: the counters of the L2 model are compared with the implementation's after every step of generated operation sequences and with independently computed true totals (theorem C20_counters_true over all sequences: see Props/C20.v for its status).",
    "note": "Trusted: the go/ast translator, Coq kernel (vm_compute on a finite table), harness. segment_rotations has no spec-level total.",
    "technique": "Rocq proof over a model regenerated from source (translator) + model/implementation correspondence",
    "ref": "DESIGN.md 5 C20",
}

_pending = "check not built yet in this round (machinery under construction; see DESIGN.md section 10)"
NOT_APPLICABLE = {("C%02d" % i): _pending for i in range(1, 21) if ("C%02d" % i) not in CHECKS}
