HOOK_COMMITS = ["3e8fe93"]

CHECKS = {
    "C12": {
        "text": "Kernel-checked theorem: for every raft.Log representable in Go, decode_log (encode_log l) = Some l (incl. binary.Uvarint and time.MarshalBinary models); the model is tied to codec.go by differential execution on thousands of generated and malformed inputs per run, with an independent round-trip/aliasing oracle on the implementation.",
        "note": "Trusted: Coq kernel, extraction (ExtrOcamlBasic), harness. time.Time projected to (sec,nsec,zone).",
        "technique": "Rocq proof (round-trip theorem) + model/implementation correspondence",
        "ref": "DESIGN.md 5 C12",
    },
    "C09": {
        "text": "Kernel-checked theorems: for every history of successful appends / force-seal the concatenated writes of the writer model equal, byte for byte, the layout of an independent README-only encoder (32-byte header, 8-aligned zero-padded frames, one commit frame per batch whose CRC-32C covers exactly the bytes since the previous commit, index frame at IndexStart holding exactly the entry-frame offsets); the README-only decoder reads all of it back; constants are checked against the source by reflexivity. The model is tied to segment/*.go by byte-for-byte differential execution, and committed golden directories are opened by the current code and decoded by the README parser on every run.",
        "note": "Guard: file < 2^32 bytes. Trusted: transcription of the README into coq/Fmt/ReadmeSpec.v, Coq kernel, extraction, harness. README 'just after the file header' wording for the first CRC range recorded as documentation discrepancy.",
        "technique": "Rocq proof (refinement of an independent layout spec, decoder round trip) + model/implementation correspondence + golden fixtures",
        "ref": "DESIGN.md 5 C09, 10 seg",
    },
    "C15": {
        "text": "Kernel-checked theorems (segment level): every entry of every acknowledged batch is returned by the tail reader and, after sealing, by the sealed reader, for every payload length up to MaxEntrySize, every batch position and every size limit (read_frame's 64 KiB first read and exact second read are modelled); a batch with an entry above MaxEntrySize is refused without side effect; no size up to MaxEntrySize is refused. Tied to the code by the `sizes` stream over all boundary neighbourhoods; 64 MiB +- 1 run on the implementation in the thorough tier.",
        "note": "L1 form (one segment file); guard file < 2^32 bytes.",
        "technique": "Rocq proof (reader/writer round trip over all sizes) + model/implementation correspondence",
        "ref": "DESIGN.md 5 C15, 10 seg",
    },
}

_pending = "check not built yet in this round (machinery under construction; see DESIGN.md section 10)"
NOT_APPLICABLE = {("C%02d" % i): _pending for i in range(1, 21) if ("C%02d" % i) not in CHECKS}
