HOOK_COMMITS = ["3e8fe93"]

CHECKS = {
    "C12": {
        "text": "Kernel-checked theorem: for every raft.Log representable in Go, decode_log (encode_log l) = Some l (incl. binary.Uvarint and time.MarshalBinary models); the model is tied to codec.go by differential execution on thousands of generated and malformed inputs per run, with an independent round-trip/aliasing oracle on the implementation.",
        "note": "Trusted: Coq kernel, extraction (ExtrOcamlBasic), harness. time.Time projected to (sec,nsec,zone).",
        "technique": "Rocq proof (round-trip theorem) + model/implementation correspondence",
        "ref": "DESIGN.md 5 C12",
    },
    "C14": {
        "text": "Kernel-checked for all schedules of the executable L3 model (Close, any number of API callers, rotation goroutine; atomic steps = the code's atomic actions and hook points): calls started after the closed flag is set return ErrClosed and a second Close is a no-op (C14_after_close), writeMu mutual exclusion. For states satisfying the protocol invariant Inv1 (executable, tested, holds initially; inductiveness proved only for pc consistency/roles/mutex): no step panics (C14_racing_calls_partial), some thread is enabled while a caller is unfinished (C14_no_deadlock_partial), the system cannot rest with the rotation goroutine alive after Close (C14_rotator_exits_partial). The model is tied to wal.go/state.go by forcing the same schedules on the real WAL through the verif hook points (every method x window x Close stage, pending rotation, random) and comparing outcomes; model-independent oracles: recover(), deadlock watchdog, ErrClosed after Close, rotation goroutine exit, handle accounting, reopen. Deadlock freedom and rotator exit for all reachable states, handle release and 'only result or ErrClosed' are NOT proved (partial): they are decided by those oracles.",
        "note": "Partial proof: see coq/Props/C14.v header. Found and drove the repair of 4 defects (74e5b3c, b259a49, 52ced73, d688ba5).",
        "technique": "Rocq proof (schedule-quantified invariants) + forced-schedule model/implementation correspondence + oracles",
        "ref": "DESIGN.md 5 C14, 10 conc",
    },
    "C06": {
        "text": "Kernel-checked for all schedules of the same L3 model (writer: append with offsets publish / write / fsync / commitIdx store, rotation, head and tail truncation with re-append; any number of readers): an entry becomes visible only after its batch is synced and readers read below the synced prefix (C06_visible_only_durable); model-level absence of read/write conflicts on file contents (C06_no_conflict_partial, partial by nature). Linearizability and use-after-close freedom are NOT proved: forced schedules around the protocol windows are compared with the extracted model, and every read of every forced and free-running (8 readers, 1 writer) history is checked read-by-read against the writer's version log; the stress also runs under the race detector in the thorough tier.",
        "note": "Partial proof: see coq/Props/C06.v header.",
        "technique": "Rocq proof (schedule-quantified invariants) + forced-schedule correspondence + history checker + race detector",
        "ref": "DESIGN.md 5 C06, 10 conc",
    },
}

_pending = "check not built yet in this round (machinery under construction; see DESIGN.md section 10)"
NOT_APPLICABLE = {("C%02d" % i): _pending for i in range(1, 21) if ("C%02d" % i) not in CHECKS}
