HOOK_COMMITS = ["3e8fe93"]

CHECKS = {
    "C12": {
        "text": "Kernel-checked theorem: for every raft.Log representable in Go, decode_log (encode_log l) = Some l (incl. binary.Uvarint and time.MarshalBinary models); the model is tied to codec.go by differential execution on thousands of generated and malformed inputs per run, with an independent round-trip/aliasing oracle on the implementation.",
        "note": "Trusted: Coq kernel, extraction (ExtrOcamlBasic), harness. time.Time projected to (sec,nsec,zone).",
        "technique": "Rocq proof (round-trip theorem) + model/implementation correspondence",
        "ref": "DESIGN.md 5 C12",
    },
    "C16": {
        "text": "Kernel-checked theorems over ALL multi-node histories (induction over event lists: StoreLogs of arbitrary batches on any node, DeleteRange, middleware restarts, at-rest tampering, verifier steps): the middleware's running sum is always the FNV chain over exactly the entries written since sumStartIdx and still held (C16_written_sum); hence a range stored as the leader checksummed it and read back unchanged yields a report without any error (C16_no_false_alarm), and a node whose log starts after Range.Start reports ErrRangeMismatch (C16_range_mismatch). The executable model is tied to verifier/store.go + verifier.go by differential execution of the same histories on the real verifier.LogStore (over InmemStore and over the real WAL), with a ground-truth oracle that is independent of the model.",
        "note": "Trusted: Coq kernel, extraction (ExtrOcamlBasic), harness incl. its contract guard under the middleware. Verification reads are atomic w.r.t. writers (the store at that moment is a free parameter of the theorems). StoreLogs/DeleteRange atomic w.r.t. each other.",
        "technique": "Rocq proof (history invariant + refinement of the contiguous-log spec) + model/implementation correspondence + ground-truth oracle",
        "ref": "DESIGN.md 5 C16, 10 vfy",
    },
    "C17": {
        "text": "Kernel-checked: the chained checksum is FNV-1a from state 0 over an explicit byte stream (C17_chain_is_fnv_of_stream); each FNV step is a bijection of uint64 (C17_fnv_step_bijective) so a divergence is never masked by later bytes and equal-length streams differing in one byte never collide (no caveat); detection theorem with the stream collision as explicit disjunct (C17_detect), every mutation leaving Data or Extensions alone changes the stream, in-flight blame is sound over all histories (C17_blame_inflight_sound). The clause 'any entry differs in Data or Extensions' is REFUTED on the faithful model: bytes moved across the Data/Extensions boundary hash identically (C17_stream_not_injective_refuted) -- open known finding data-ext-boundary-shift, reproduced on the implementation every run; any other undetected mutation is a VIOLATION.",
        "note": "Partial by refutation: injectivity of the hashed stream fails across the Data/Extensions boundary (wire-compatibility, not fixed). Multi-entry re-framings of the stream are outside the property's single-field quantifier and are covered only by the collision disjunct.",
        "technique": "Rocq proof (algebra of FNV-1a mod 2^64, stream characterisation) + refutation witness + model/implementation correspondence + mutation sweep with ground-truth oracle",
        "ref": "DESIGN.md 5 C17, 10 vfy",
    },
    "C18": {
        "text": "Kernel-checked: StoreLogs/DeleteRange through the middleware equal the same calls on the underlying store with a leader checkpoint gaining exactly the 24-byte metadata, errors leave store and verifier state untouched, foreign Extensions on a checkpoint are refused (C18_passthrough*, for every node state hence every sequence); small-step model of the 1-buffered verifyCh over ALL schedules of {StoreLogs caller, verifier goroutine, ReportFn return}: the caller's sends always complete even with no ReportFn return at all (C18_store_never_blocks), delivered+dropped+in_channel+in_progress+unsent = checkpoints at every point (C18_accounting), every processed report names exactly the range tiled by the checkpoints dropped before it (C18_skipped_range). Tied to the code by differential execution incl. deliberately blocked ReportFn, with twin-store, time-limit and accounting oracles on the implementation.",
        "note": "Schedules are interleavings of atomic channel operations (Go memory model trusted). SkippedRange is per LogStore lifetime: the first report after a middleware restart names none.",
        "technique": "Rocq proof (schedule-universal invariants of a small-step channel model; pass-through refinement) + model/implementation correspondence + twin-store / blocking / accounting oracles",
        "ref": "DESIGN.md 5 C18, 10 vfy",
    },
}

_pending = "check not built yet in this round (machinery under construction; see DESIGN.md section 10)"
NOT_APPLICABLE = {("C%02d" % i): _pending for i in range(1, 21) if ("C%02d" % i) not in CHECKS}
