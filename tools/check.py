#!/usr/bin/env python3
"""check.py -- decide one property:  tools/check.py C12 [--tier quick|thorough]

Per run (see DESIGN.md section 2.1):
  (P) rebuild the Rocq development (full .vo build) and re-check Props/<id>.v;
      audit `Print Assumptions` and grep for forbidden declarations;
  (T) rebuild the Go harness against /repo's current working tree (tag verif),
      regenerate coq/Gen/*.v from the source, run the correspondence streams on
      the implementation and on the extracted model, diff, and cross-check a
      sample of the same cases inside the kernel with vm_compute;
  (S) collect property witnesses found by the oracles on the implementation.
Exit 0 / exit 1 + "VIOLATION property=<id> replay=<path>".
"""
import argparse, fcntl, hashlib, json, os, re, resource, shutil, subprocess, sys, time

ROOT = os.path.dirname(os.path.dirname(os.path.abspath(__file__)))
COQ = os.path.join(ROOT, "coq")
sys.path.insert(0, os.path.join(ROOT, "tools"))
from props import PROPS  # noqa: E402

# The registered commands always check /repo.  VERIF_REPO=<dir> points the harness at a
# scratch copy instead (used only to try seeded changes without touching /repo).
REPO = os.environ.get("VERIF_REPO", "/repo")
GOENV = dict(os.environ, GOFLAGS="-mod=mod", GOPROXY="off", GOSUMDB="off",
             GOTOOLCHAIN="local", TZ="UTC", CGO_ENABLED="0", WH_REPO=REPO)

FORBIDDEN = re.compile(
    r"\b(Admitted|admit|Axiom|Axioms|Parameter|Parameters|Conjecture|Conjectures|"
    r"Admit Obligations|bypass_check|Unset Guard Checking|Unset Positivity Checking|"
    r"Unset Universe Checking|native_compute)\b|type-in-type|impredicative-set")
# axioms of the standard library that may appear (named in DESIGN.md section 7)
AXIOM_WHITELIST = set()


def sh(cmd, cwd=None, env=None, timeout=None, inp=None):
    t0 = time.time()
    p = subprocess.run(cmd, cwd=cwd, env=env, timeout=timeout, input=inp,
                       stdout=subprocess.PIPE, stderr=subprocess.STDOUT, text=True)
    return p.returncode, p.stdout, time.time() - t0


class Lock:
    def __init__(self, name):
        os.makedirs(os.path.join(ROOT, ".work"), exist_ok=True)
        self.path = os.path.join(ROOT, ".work", name + ".lock")

    def __enter__(self):
        self.f = open(self.path, "w")
        fcntl.flock(self.f, fcntl.LOCK_EX)

    def __exit__(self, *a):
        fcntl.flock(self.f, fcntl.LOCK_UN)
        self.f.close()


def write_if_changed(path, content):
    old = None
    if os.path.exists(path):
        old = open(path).read()
    if old != content:
        with open(path, "w") as f:
            f.write(content)
        return True
    return False


# ----------------------------------------------------------------------------
# build steps
# ----------------------------------------------------------------------------
def build_harness(log, race=False):
    h = os.path.join(ROOT, "harness")
    shutil.copyfile(os.path.join(REPO, "go.sum"), os.path.join(h, "go.sum"))
    cmd = ["go", "build", "-tags", "verif", "-o", "bin/wh", "./cmd/wh"]
    if REPO != "/repo":
        mod = open(os.path.join(h, "go.mod")).read().replace("=> /repo", "=> " + REPO)
        open(os.path.join(h, "go.alt.mod"), "w").write(mod)
        shutil.copyfile(os.path.join(REPO, "go.sum"), os.path.join(h, "go.alt.sum"))
        cmd = ["go", "build", "-modfile=go.alt.mod", "-tags", "verif", "-o", "bin/wh", "./cmd/wh"]
    rc, out, dt = sh(cmd, cwd=h, env=GOENV, timeout=600)
    log["harness_build_s"] = round(dt, 1)
    if rc != 0:
        return False, out
    if race:
        # the same harness built with the Go race detector (stream race06 runs its cases in it)
        rcmd = [c if c != "bin/wh" else "bin/wh-race" for c in cmd]
        rcmd.insert(2, "-race")
        rc, out, dt = sh(rcmd, cwd=h, env=dict(GOENV, CGO_ENABLED="1"), timeout=900)
        log["harness_race_build_s"] = round(dt, 1)
        if rc != 0:
            return False, out
    return True, ""


def regen(log):
    """translators: regenerate coq/Gen/*.v from /repo's current source"""
    wh = os.path.join(ROOT, "harness", "bin", "wh")
    rc, out, dt = sh([wh, "translate", "all", "-out", "-"], env=GOENV, timeout=120)
    if rc != 0:
        return False, out
    # output: sections "=== <file>" followed by content
    files, cur = {}, None
    for line in out.splitlines(True):
        if line.startswith("=== "):
            cur = line[4:].strip()
            files[cur] = ""
        elif cur:
            files[cur] += line
    os.makedirs(os.path.join(COQ, "Gen"), exist_ok=True)
    changed = []
    for name, content in files.items():
        if write_if_changed(os.path.join(COQ, "Gen", name), content):
            changed.append(name)
    log["gen_changed"] = changed
    return True, ""


def build_coq(log):
    rc, out, dt = sh(["./build.sh", "-k"], cwd=COQ, timeout=3000)
    log["coq_build_s"] = round(dt, 1)
    failed = re.findall(r"\[Makefile\.coq:\d+: ([^\]]+\.vo)\] Error", out)
    errs = {}
    for m in re.finditer(r'File "\./([^"]+)", line (\d+), characters[^\n]*\n((?:(?!File ").*\n){0,12})', out):
        errs.setdefault(m.group(1), "line %s: %s" % (m.group(2), m.group(3).strip()[:600]))
    return rc == 0, failed, errs


def build_ocaml(log):
    o = os.path.join(ROOT, "ocaml")
    src = os.path.join(COQ, "model.ml")
    if not os.path.exists(src):
        return False, "coq/model.ml missing (extraction did not run)"
    h = hashlib.sha256(open(src, "rb").read() + open(os.path.join(o, "driver.ml"), "rb").read()).hexdigest()
    stamp = os.path.join(o, "_build", "stamp")
    if os.path.exists(stamp) and open(stamp).read() == h and os.path.exists(os.path.join(o, "_build", "driver")):
        return True, ""
    rc, out, dt = sh(["./build.sh"], cwd=o, timeout=600)
    log["ocaml_build_s"] = round(dt, 1)
    if rc != 0:
        return False, out
    open(stamp, "w").write(h)
    return True, ""


def audit_sources():
    """grep the development for forbidden declarations"""
    bad = []
    for dp, dn, fn in os.walk(COQ):
        for f in fn:
            if not f.endswith(".v") or f.startswith("_dbg_"):
                continue
            p = os.path.join(dp, f)
            txt = open(p).read()
            txt = re.sub(r"\(\*.*?\*\)", "", txt, flags=re.S)
            for i, line in enumerate(txt.splitlines(), 1):
                if FORBIDDEN.search(line):
                    bad.append("%s:%d: %s" % (os.path.relpath(p, ROOT), i, line.strip()[:120]))
                # Variable/Hypothesis outside a section
            depth = 0
            for i, line in enumerate(txt.splitlines(), 1):
                if re.match(r"\s*Section\b", line):
                    depth += 1
                elif re.match(r"\s*End\b", line) and depth > 0:
                    depth -= 1
                elif depth == 0 and re.match(r"\s*(Variable|Variables|Hypothesis|Hypotheses|Context)\b", line):
                    bad.append("%s:%d: %s outside a section" % (os.path.relpath(p, ROOT), i, line.strip()[:80]))
    return bad


def check_props_file(pid, log):
    """re-check Props/<pid>.v on its own and audit Print Assumptions"""
    f = "Props/%s.v" % pid
    rc, out, dt = sh(["coqc", "-Q", ".", "RW", "-w", "-notation-overridden", f], cwd=COQ, timeout=1200)
    log["props_coqc_s"] = round(dt, 1)
    src = open(os.path.join(COQ, f)).read()
    src_nc = re.sub(r"\(\*.*?\*\)", "", src, flags=re.S)
    theorems = re.findall(r"^\s*(?:Theorem|Corollary)\s+(\w+)", src_nc, flags=re.M)
    examples = re.findall(r"^\s*(?:Example)\s+(\w+)", src_nc, flags=re.M)
    n_print = len(re.findall(r"Print Assumptions", src_nc))
    closed = len(re.findall(r"Closed under the global context", out))
    axioms = []
    for m in re.finditer(r"Axioms:\n((?:.+\n?)+?)(?=\n\S|\Z)", out):
        for line in m.group(1).splitlines():
            mm = re.match(r"^(\S+)\s*:", line)
            if mm:
                axioms.append(mm.group(1))
    axioms = sorted(set(axioms))
    ok = rc == 0 and n_print >= len(theorems) and closed + (1 if axioms else 0) >= 1
    not_white = [a for a in axioms if a not in AXIOM_WHITELIST]
    if not_white:
        ok = False
    if rc == 0 and closed < n_print and not axioms:
        ok = False
    return {"ok": ok, "rc": rc, "theorems": theorems, "examples": examples, "prints": n_print,
            "closed": closed, "axioms": axioms, "out": out[-3000:] if rc != 0 else ""}


# ----------------------------------------------------------------------------
# streams
# ----------------------------------------------------------------------------
def parse_cases(path):
    cases, witnesses, stats = {}, [], {}
    order = []
    with open(path) as f:
        for line in f:
            line = line.rstrip("\n")
            if not line:
                continue
            p = line.split("\t")
            if p[0] == "!W":
                witnesses.append({"property": p[1], "signature": p[2], "what": p[3], "replay": p[4] if len(p) > 4 else ""})
            elif p[0] == "!S":
                stats[p[1]] = stats.get(p[1], 0) + int(p[2])
            elif len(p) == 3:
                cases[p[0]] = (p[1], p[2])
                order.append(p[0])
    return cases, order, witnesses, stats


def run_model(cases, order, work):
    inp = os.path.join(work, "model_in.txt")
    with open(inp, "w") as f:
        for i in order:
            if cases[i][0].startswith("#"):
                continue  # implementation-only case (no model line)
            f.write("%s\t%s\n" % (i, cases[i][0]))
    drv = os.path.join(ROOT, "ocaml", "_build", "driver")
    with open(inp) as fi:
        # extracted list functions are not tail recursive: lines of > 100 kB need a deep stack
        p = subprocess.run([drv], stdin=fi, stdout=subprocess.PIPE, stderr=subprocess.PIPE, text=True, timeout=3000,
                           preexec_fn=big_stack)
    res = {}
    for line in p.stdout.splitlines():
        if "\t" in line:
            i, o = line.split("\t", 1)
            res[i] = o
    return res, p.returncode, p.stderr[-2000:]


def big_stack():
    try:
        hard = resource.getrlimit(resource.RLIMIT_STACK)[1]
        resource.setrlimit(resource.RLIMIT_STACK, (hard, hard))
    except (ValueError, OSError):
        pass


def coq_str(s):
    return "[" + ";".join(str(b) for b in s.encode()) + "]"


def vm_crosscheck(pid, sample, work):
    """evaluate the same cases inside the kernel: run_line under vm_compute"""
    if not sample:
        return True, 0, ""
    name = "cases_%s_%d" % (pid, os.getpid())
    path = os.path.join(COQ, name + ".v")
    body = ["From RW Require Import Base.Bytes Run.Wire Run.Main.", "Open Scope N_scope.",
            "Definition cases : list (str * str) := ["]
    body.append(";\n".join("(%s, %s)" % (coq_str(a), coq_str(b)) for a, b in sample))
    body.append("].")
    body.append("Definition M := Eval vm_compute in (length (mismatches run_line cases)).")
    body.append("Print M.")
    open(path, "w").write("\n".join(body) + "\n")
    try:
        rc, out, dt = sh(["coqc", "-Q", ".", "RW", "-w", "-notation-overridden", name + ".v"], cwd=COQ, timeout=1800)
    finally:
        for ext in (".v", ".vo", ".vok", ".vos", ".glob"):
            try:
                os.remove(os.path.join(COQ, name + ext))
            except OSError:
                pass
        try:
            os.remove(os.path.join(COQ, "." + name + ".aux"))
        except OSError:
            pass
    ok = rc == 0 and re.search(r"M\s*=\s*0%nat|M = 0\s*:\s*nat|M = 0$", out, flags=re.M) is not None
    return ok, dt, out[-1500:]


def run_stream(pid, st, tier, seed, work, log):
    """st: dict(name, n_quick, n_thorough, extra). returns dict with results"""
    wh = os.path.join(ROOT, "harness", "bin", "wh")
    n = st["n"][0 if tier == "quick" else 1]
    out = os.path.join(work, st["name"] + ".cases")
    res = {"name": st["name"], "n": n}
    allcases, allorder, witnesses, stats = {}, [], [], {}
    # corpus first
    corpus = os.path.join(ROOT, "corpus", st["name"] + ".txt")
    runs = []
    if os.path.exists(corpus) and os.path.getsize(corpus) > 0:
        runs.append(("corpus", [wh, "exec", st["name"], "-in", corpus, "-out", out + ".corpus", "-work", work, "-tier", tier], out + ".corpus"))
    runs.append(("gen", [wh, "run", st["name"], "-n", str(n), "-seed", str(seed), "-out", out, "-work", work, "-tier", tier] + st.get("args", []), out))
    t0 = time.time()
    for tag, cmd, path in runs:
        rc, o, dt = sh(cmd, env=GOENV, timeout=st.get("timeout", 3000))
        if rc != 0:
            res["error"] = "harness %s failed rc=%d: %s" % (tag, rc, o[-1500:])
            return res
        c, order, w, s = parse_cases(path)
        for i in order:
            allcases[tag + ":" + i] = c[i]
            allorder.append(tag + ":" + i)
        witnesses += w
        for k, v in s.items():
            stats[k] = stats.get(k, 0) + v
    res["impl_s"] = round(time.time() - t0, 1)
    t0 = time.time()
    model, rc, err = run_model(allcases, allorder, work)
    res["model_s"] = round(time.time() - t0, 1)
    mism = []
    compared = 0
    for i in allorder:
        inp, obs = allcases[i]
        if inp.startswith("#"):
            continue
        compared += 1
        m = model.get(i)
        if m != obs:
            mism.append({"id": i, "stream": st["name"], "input": inp, "impl": obs, "model": m})
    res.update(cases=len(allorder), compared=compared, mismatches=mism, witnesses=witnesses, stats=stats,
               distinct=len(set(v[0] for v in allcases.values())),
               sample=[{"input": allcases[i][0][:400], "obs": allcases[i][1][:400]} for i in allorder[:3]])
    # vm_compute cross-check on a sample of (short) cases
    k = st.get("vm", (40, 400))[0 if tier == "quick" else 1]
    short = [i for i in allorder if not allcases[i][0].startswith("#") and len(allcases[i][0]) + len(allcases[i][1]) < st.get("vm_maxlen", 3000)]
    step = max(1, len(short) // max(1, k))
    sample = [allcases[i] for i in short[::step][:k]]
    ok, dt, o = vm_crosscheck(pid, sample, work)
    res["vm_cases"] = len(sample)
    res["vm_ok"] = ok
    res["vm_s"] = round(dt, 1)
    if not ok:
        res["vm_out"] = o
    return res


def run_selftests(P, tier, seed, work):
    """statements that are executable predicates over histories (hs_ok / fs_ok) are
    evaluated on random histories of the MODEL: a test that supports the theorem (and
    finds a failing input when it is false); it never replaces the proof"""
    out = []
    drv = os.path.join(ROOT, "ocaml", "_build", "driver")
    for st in P.get("selftests", []):
        n = st["n"][0 if tier == "quick" else 1]
        args = [sys.executable, os.path.join(ROOT, "tools", "histgen.py")] + st["args"] + [str(n), str(seed * 100003)]
        g = subprocess.run(args, stdout=subprocess.PIPE, text=True, timeout=600)
        # deep stack as for the streams (extracted list functions are not tail recursive)
        p = subprocess.run([drv], input=g.stdout, stdout=subprocess.PIPE, text=True, timeout=3000, preexec_fn=big_stack)
        lines = {l.split("\t")[0]: l.rstrip("\n").split("\t")[1] for l in g.stdout.splitlines() if "\t" in l}
        bad, steps, seen = [], 0, set()
        for l in p.stdout.splitlines():
            i, o = l.split("\t", 1)
            steps += len(o)
            seen.add(i)
            if not o or set(o) - {"1"}:
                bad.append({"id": i, "input": lines.get(i, ""), "model": o})
        # a history the driver did not answer (it died) counts as failing
        for i in lines:
            if i not in seen:
                bad.append({"id": i, "input": lines[i], "model": "(no answer: the model driver exited with %s)" % p.returncode})
                break
        out.append({"name": st["name"], "histories": len(lines), "steps": steps, "failing": bad[:3], "n_failing": len(bad)})
    return out


# ----------------------------------------------------------------------------
def load_known():
    p = os.path.join(ROOT, "known_findings.json")
    if not os.path.exists(p):
        return {"open": [], "fixed": []}
    return json.load(open(p))


def write_replay(pid, obj):
    d = os.path.join(ROOT, "replays") if REPO == "/repo" else os.path.join(ROOT, ".work", "replays-scratch")
    os.makedirs(d, exist_ok=True)
    p = os.path.join(d, "%s-%d.json" % (pid, int(time.time())))
    json.dump(obj, open(p, "w"), indent=1)
    return p


def replay(pid, path):
    obj = json.load(open(path))
    print(json.dumps(obj, indent=1)[:4000])
    if obj.get("stream") and obj.get("input"):
        log = {}
        ok, out = build_harness(log)
        if not ok:
            print(out)
            return 2
        wh = os.path.join(ROOT, "harness", "bin", "wh")
        work = os.path.join(ROOT, ".work", "replay-%d" % os.getpid())
        os.makedirs(work, exist_ok=True)
        try:
            p = subprocess.run([wh, "exec", obj["stream"], "-work", work], input=obj["input"] + "\n", env=GOENV,
                               stdout=subprocess.PIPE, stderr=subprocess.STDOUT, text=True)
            print("implementation now:\n" + p.stdout[-3000:])
            impl_obs, wits = None, []
            for l in p.stdout.splitlines():
                f = l.split("\t")
                if len(f) == 3 and f[0] == "x0":
                    impl_obs = f[2]
                if len(f) == 5 and f[0] == "!W":
                    wits.append((f[1], f[2], f[3]))
            reproduced = None
            known = {(k["property"], k["signature"]) for k in load_known().get("open", [])}
            fresh = [w for w in wits if (w[0], w[1]) not in known]
            if fresh:
                reproduced = "oracle witness %s/%s: %s" % fresh[0]
            drv = os.path.join(ROOT, "ocaml", "_build", "driver")
            if os.path.exists(drv) and not obj["input"].startswith("#"):
                p = subprocess.run([drv], input="r\t" + obj["input"] + "\n", stdout=subprocess.PIPE, text=True)
                print("model:\n" + p.stdout[-3000:])
                mf = p.stdout.rstrip("\n").split("\t")
                if len(mf) == 2 and impl_obs is not None and mf[1] != impl_obs and not reproduced:
                    reproduced = "model and implementation still disagree on this input"
            if reproduced:
                print("VIOLATION property=%s replay=%s  (reproduced on the current tree: %s)" % (pid, path, reproduced))
                return 1
            print("not reproduced on the current tree")
        finally:
            shutil.rmtree(work, ignore_errors=True)
    return 0


def main():
    ap = argparse.ArgumentParser()
    ap.add_argument("pid")
    ap.add_argument("--tier", default=os.environ.get("VERIF_TIER", "quick"))
    ap.add_argument("--replay")
    a = ap.parse_args()
    pid = a.pid
    if a.replay:
        sys.exit(replay(pid, a.replay))
    tier = a.tier if a.tier in ("quick", "thorough") else "quick"
    seed = int(os.environ.get("VERIF_SEED", "1") or 1)
    P = PROPS[pid]
    t_start = time.time()
    log = {}
    work = os.path.join(ROOT, ".work", "%s-%d" % (pid, os.getpid()))
    os.makedirs(work, exist_ok=True)
    problems = []      # proof / tie problems (no concrete failing input)
    stream_res = []
    selftests = []
    proof = {"ok": False, "theorems": [], "examples": [], "axioms": [], "closed": 0, "prints": 0}
    try:
        with Lock("build"):
            ok, out = build_harness(log, race=P.get("race", False))
            if not ok:
                problems.append({"kind": "tie", "what": "harness does not build against /repo", "detail": out[-2000:]})
            else:
                ok, out = regen(log)
                if not ok:
                    problems.append({"kind": "tie", "what": "translator failed", "detail": out[-2000:]})
            okc, failed, errs = build_coq(log)
            extra_props = P.get("extra_props", [])
            needed = ["Props/%s.vo" % pid, "Extract/Extract.vo"] + ["Props/%s.vo" % x for x in extra_props]
            for nf in needed:
                if not os.path.exists(os.path.join(COQ, nf)) or any(nf == f for f in failed):
                    problems.append({"kind": "proof", "what": "%s does not compile" % nf, "detail": json.dumps(errs)[:3000]})
            if not okc and not any(p["kind"] == "proof" for p in problems):
                # something this property depends on may have failed: check dependency closure
                deps = deps_of(pid)
                for x in extra_props:
                    deps |= deps_of(x)
                dep_failed = [f for f in failed if f[:-3] + ".v" in deps]
                if dep_failed:
                    problems.append({"kind": "proof", "what": "dependencies fail: %s" % dep_failed, "detail": json.dumps(errs)[:3000]})
            bad = audit_sources()
            if bad:
                problems.append({"kind": "proof", "what": "forbidden declarations in the development", "detail": "\n".join(bad[:20])})
            if not any(p["kind"] == "proof" for p in problems):
                ok, out = build_ocaml(log)
                if not ok:
                    problems.append({"kind": "tie", "what": "extracted model does not build", "detail": out[-2000:]})
        if not any(p["kind"] == "proof" for p in problems):
            proof = check_props_file(pid, log)
            if not proof["ok"]:
                problems.append({"kind": "proof", "what": "Props/%s.v: rc=%d closed=%d/%d axioms=%s" % (
                    pid, proof["rc"], proof["closed"], proof["prints"], proof["axioms"]), "detail": proof["out"]})
            # supporting theorem files this property's argument rests on (e.g. Props/Link.v)
            for x in P.get("extra_props", []):
                px = check_props_file(x, log)
                if not px["ok"]:
                    problems.append({"kind": "proof", "what": "Props/%s.v: rc=%d closed=%d/%d axioms=%s" % (
                        x, px["rc"], px["closed"], px["prints"], px["axioms"]), "detail": px["out"]})
                    proof["ok"] = False
                proof["theorems"] += ["%s.%s" % (x, t) for t in px["theorems"]]
                proof["examples"] += ["%s.%s" % (x, t) for t in px["examples"]]
                proof["prints"] += px["prints"]
                proof["closed"] += px["closed"]
                proof["axioms"] = sorted(set(proof["axioms"]) | set(px["axioms"]))
            if proof["ok"] and tier == "thorough":
                # independent re-check of the compiled theorems and everything they depend on
                rc, out, dt = sh(["coqchk", "-silent", "-o", "-Q", ".", "RW", "RW.Props.%s" % pid] + ["RW.Props.%s" % x for x in P.get("extra_props", [])], cwd=COQ, timeout=3000)
                log["coqchk_s"] = round(dt, 1)
                m = re.search(r"\* Axioms:\s*(.*?)\n\s*\n", out, flags=re.S)
                log["coqchk_axioms"] = (m.group(1).strip() if m else "?")
                if rc != 0 or log["coqchk_axioms"] != "<none>":
                    problems.append({"kind": "proof", "what": "coqchk RW.Props.%s: rc=%d axioms=%s" % (pid, rc, log["coqchk_axioms"]), "detail": out[-2000:]})
        if os.path.exists(os.path.join(ROOT, "harness", "bin", "wh")) and os.path.exists(os.path.join(ROOT, "ocaml", "_build", "driver")):
            for st in P["streams"]:
                r = run_stream(pid, st, tier, seed, work, log)
                stream_res.append(r)
                if "error" in r:
                    problems.append({"kind": "tie", "what": "stream %s: %s" % (st["name"], r["error"][:300]), "detail": r["error"]})
                    continue
                if r["mismatches"]:
                    m = r["mismatches"][0]
                    problems.append({"kind": "tie", "what": "correspondence stream %s: model and implementation disagree on %d case(s)" % (st["name"], len(r["mismatches"])),
                                     "detail": json.dumps(m)[:3000], "case": m})
                if not r["vm_ok"]:
                    problems.append({"kind": "tie", "what": "vm_compute cross-check of stream %s failed" % st["name"], "detail": r.get("vm_out", "")})
            selftests = run_selftests(P, tier, seed, work)
            for t in selftests:
                if t["n_failing"]:
                    b = t["failing"][0]
                    problems.append({"kind": "proof", "what": "statement %s is FALSE on the model for a generated history" % t["name"],
                                     "detail": json.dumps(b)[:3000],
                                     "case": {"stream": "model-selftest", "input": b["input"], "impl": "(model only)", "model": b["model"]}})
    finally:
        shutil.rmtree(work, ignore_errors=True)

    # ---- verdict -------------------------------------------------------------
    known = load_known()
    # a panic or hang of the implementation while running this property's streams is a
    # failing input for this property too, whatever property the oracle filed it under
    def relevant(w):
        # (likewise a process death, a data race report, or a clean reopen that fails)
        return (w["property"] == pid or w["signature"].endswith("panic") or w["signature"].endswith("hang")
                or w["signature"] in ("process-dies", "data-race", "same-codec-refused"))
    witnesses = [w for r in stream_res for w in r.get("witnesses", []) if relevant(w)]
    open_sigs = {(k["property"], k["signature"]) for k in known.get("open", [])}
    foreign = [w for r in stream_res for w in r.get("witnesses", [])
               if not relevant(w) and (w["property"], w["signature"]) not in open_sigs]
    new, seen_known = [], {}
    for w in witnesses:
        if (pid, w["signature"]) in open_sigs:
            seen_known.setdefault(w["signature"], w)
        else:
            new.append(w)
    for sig, w in seen_known.items():
        print("KNOWN-FINDING: property=%s %s (%s)" % (pid, w["what"], sig))
    violations = 0
    replay_path = None
    if new:
        violations = len(new)
        w = new[0]
        stream = next((r["name"] for r in stream_res if w in r.get("witnesses", [])), None)
        replay_path = write_replay(pid, {"property": pid, "kind": "witness", "stream": stream, "seed": seed,
                                         "signature": w["signature"], "what": w["what"], "input": w["replay"]})
        print("VIOLATION property=%s replay=%s" % (pid, replay_path))
    elif problems and foreign:
        # the proof or the tie broke, and an oracle filed under ANOTHER property saw the
        # implementation misbehave on a concrete input of this run: that input is the replay
        violations = 1
        w = foreign[0]
        stream = next((r["name"] for r in stream_res if w in r.get("witnesses", [])), None)
        replay_path = write_replay(pid, {"property": pid, "kind": "witness", "stream": stream, "seed": seed,
                                         "signature": w["signature"], "what": w["what"], "input": w["replay"],
                                         "oracle_filed_under": w["property"],
                                         "all_problems": [p["what"] for p in problems]})
        print("VIOLATION property=%s replay=%s" % (pid, replay_path))
    elif problems:
        violations = 1
        p0 = problems[0]
        obj = {"property": pid, "kind": p0["kind"], "what": p0["what"], "detail": p0.get("detail", ""), "seed": seed,
               "all_problems": [p["what"] for p in problems]}
        if "case" in p0:
            obj.update(stream=p0["case"]["stream"], input=p0["case"]["input"], impl=p0["case"]["impl"], model=p0["case"]["model"])
        replay_path = write_replay(pid, obj)
        print("VIOLATION property=%s replay=%s no-failing-input-found" % (pid, replay_path))

    # ---- evidence ------------------------------------------------------------
    n_obl = len(proof["theorems"])
    evaluations = sum(r.get("cases", 0) for r in stream_res)
    distinct = sum(r.get("distinct", 0) for r in stream_res)
    stats = {}
    for r in stream_res:
        for k, v in r.get("stats", {}).items():
            stats[r["name"] + "." + k] = v
    ev = {
        "property_id": pid, "tier": tier, "seed": seed, "level": "proof",
        "coverage": {
            "obligations": max(n_obl, 1), "discharged": n_obl if proof["ok"] else 0,
            "checker_cmd": "coqc -Q coq RW coq/Props/%s.v (after full .vo build via coq/build.sh)" % pid,
            "trusted_base": P.get("trusted", []) + [
                "Coq 8.16.1 kernel + vm_compute (no native_compute)",
                "axioms reported by Print Assumptions: %s" % (proof["axioms"] or "none (Closed under the global context)"),
                "extraction: ExtrOcamlBasic only; OCaml 4.13.1; cross-checked in-kernel on a sample each run",
                "Go harness (generators, canonicalisation) and tools/check.py"],
            "theorems": proof["theorems"], "non_vacuity_examples": proof["examples"],
            "partial_or_refuted": [t for t in proof["theorems"] if t.endswith("_partial") or t.endswith("_refuted")],
            "evaluations": evaluations, "distinct_nontrivial": distinct,
            "rule": P.get("rule", "cases generated by the seeded harness; distinct = distinct input lines"),
            "traces_validated_against_impl": sum(r.get("compared", 0) for r in stream_res),
            "disagreements_checked": sum(len(r.get("mismatches", [])) for r in stream_res),
            "vm_compute_crosschecked_cases": sum(r.get("vm_cases", 0) for r in stream_res),
            "samples": [s for r in stream_res for s in r.get("sample", [])][:6] or ["(no stream ran)"],
            "input_distribution": stats,
            "streams": [{k: r.get(k) for k in ("name", "n", "cases", "compared", "impl_s", "model_s", "vm_cases", "vm_s")} for r in stream_res],
            "statement_selftests_on_model": [{k: t[k] for k in ("name", "histories", "steps", "n_failing")} for t in selftests],
            "known_findings_seen": sorted(seen_known),
            "problems": [p["what"] for p in problems],
            "timings": log,
        },
        "assumptions": P.get("assumptions", []),
        "wall_s": round(time.time() - t_start, 1),
        "violations": violations,
    }
    # evidence of runs against a scratch copy (VERIF_REPO) must not replace the real one
    evdir = os.path.join(ROOT, "evidence") if REPO == "/repo" else os.path.join(ROOT, ".work", "evidence-scratch")
    os.makedirs(evdir, exist_ok=True)
    json.dump(ev, open(os.path.join(evdir, pid + ".json"), "w"), indent=1)
    print("%s %s: theorems=%d/%d cases=%d mismatches=%d witnesses=%d(new %d) wall=%.0fs" % (
        pid, "FAIL" if violations else "ok", ev["coverage"]["discharged"], n_obl, evaluations,
        ev["coverage"]["disagreements_checked"], len(witnesses), len(new), ev["wall_s"]))
    sys.exit(1 if violations else 0)


def deps_of(pid):
    """transitive .v dependencies of Props/<pid>.v according to coqdep"""
    try:
        d = open(os.path.join(COQ, ".Makefile.coq.d")).read()
    except OSError:
        return set()
    dep = {}
    for m in re.finditer(r"^(\S+)\.vo[^:]*:(.*)$", d, flags=re.M):
        dep[m.group(1) + ".v"] = [x[:-3] + ".v" for x in m.group(2).split() if x.endswith(".vo")]
    seen, todo = set(), ["Props/%s.v" % pid]
    while todo:
        x = todo.pop()
        if x in seen:
            continue
        seen.add(x)
        todo += dep.get(x, [])
    return seen


if __name__ == "__main__":
    main()
