#!/usr/bin/env python3
# developer helper: run a stream on the implementation and the extracted model, show first diffs
import sys,subprocess,os
ROOT=os.path.dirname(os.path.dirname(os.path.abspath(__file__)))
stream=sys.argv[1]; n=sys.argv[2]; seed=sys.argv[3] if len(sys.argv)>3 else '1'; tier=sys.argv[4] if len(sys.argv)>4 else 'quick'
subprocess.run([''+ROOT+'/harness/bin/wh','run',stream,'-n',n,'-seed',seed,'-out','/tmp/c.txt','-work','/tmp/whwork','-tier',tier],check=True,env=dict(os.environ,TZ='UTC'))
imp={};order=[]
for l in open('/tmp/c.txt'):
    if l.startswith('!'):
        if l.startswith('!W'): print(l[:200].rstrip())
        continue
    i,inp,obs=l.rstrip('\n').split('\t'); imp[i]=(inp,obs); order.append(i)
open('/tmp/in.txt','w').write(''.join('%s\t%s\n'%(i,imp[i][0]) for i in order if not imp[i][0].startswith('#')))
out=subprocess.run('ulimit -s unlimited 2>/dev/null; exec '+ROOT+'/ocaml/_build/driver',shell=True,stdin=open('/tmp/in.txt'),stdout=subprocess.PIPE,text=True).stdout
bad=0
for l in out.splitlines():
    i,obs=l.split('\t',1)
    if imp[i][1]!=obs:
        bad+=1
        if bad<=3:
            a=imp[i][1].split(' '); b=obs.split(' ')
            k=next((j for j in range(min(len(a),len(b))) if a[j]!=b[j]),min(len(a),len(b)))
            print(i,imp[i][0][:400]); print('  first diff at obs token',k,'of',len(a),len(b),'impl:',[x[:80] for x in a[k:k+2]],'model:',[x[:80] for x in b[k:k+2]])
print('cases',len(order),'model lines',len(out.splitlines()),'mismatch',bad)
