#!/usr/bin/env python3
# developer helper: run a stream on the implementation and the extracted model, show first diffs
import sys,subprocess,os
stream=sys.argv[1]; n=sys.argv[2]; seed=sys.argv[3] if len(sys.argv)>3 else '1'
subprocess.run(['/verif/harness/bin/wh','run',stream,'-n',n,'-seed',seed,'-out','/tmp/c.txt','-work','/tmp/whwork'],check=True,env=dict(os.environ,TZ='UTC'))
imp={};order=[]
for l in open('/tmp/c.txt'):
    if l.startswith('!'):
        if l.startswith('!W'): print(l[:200].rstrip())
        continue
    i,inp,obs=l.rstrip('\n').split('\t'); imp[i]=(inp,obs); order.append(i)
open('/tmp/in.txt','w').write(''.join('%s\t%s\n'%(i,imp[i][0]) for i in order if not imp[i][0].startswith('#')))
out=subprocess.run(['/verif/ocaml/_build/driver'],stdin=open('/tmp/in.txt'),stdout=subprocess.PIPE,text=True).stdout
bad=0
for l in out.splitlines():
    i,obs=l.split('\t',1)
    if imp[i][1]!=obs:
        bad+=1
        if bad<=3:
            a=imp[i][1].split(' '); b=obs.split(' ')
            k=next((j for j in range(min(len(a),len(b))) if a[j]!=b[j]),min(len(a),len(b)))
            print(i,imp[i][0][:400]); x=a[k] if k<len(a) else ''; y=b[k] if k<len(b) else ''
            xs=x.split(','); ys=y.split(',')
            m=next((j for j in range(min(len(xs),len(ys))) if xs[j]!=ys[j]),min(len(xs),len(ys)))
            print('  first diff at obs token',k,'of',len(a),len(b),'sub',m,'impl:',xs[max(0,m-2):m+3],'model:',ys[max(0,m-2):m+3])
print('cases',len(order),'mismatch',bad)
