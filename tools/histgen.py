#!/usr/bin/env python3
"""random crash histories for the `hist` runner (tests the master statement of
coq/Wal/Hist.v on the executable model; a test, not a proof)"""
import random, sys
def log(idx, r):
    sz = r.choice([0,1,5,8,13,16,30,60,100,200])
    data = ''.join('%02x'%r.randrange(256) for _ in range(sz)) or '-'
    ext = '-' if r.random()<0.8 else ''.join('%02x'%r.randrange(256) for _ in range(r.randrange(1,6)))
    return "%x %x %x %s %s edce5e8a2 0 utc"%(idx, r.randrange(1,6), r.randrange(4), data, ext)
def gen(seed):
    r = random.Random(seed)
    seg = r.choice([0x60,0x80,0xc8,0x100,0x200,0x400,0x1000])
    toks = ["hist %x 1"%seg, "p"]
    first=last=0
    n = r.randrange(3,25)
    def sop():
        nonlocal first,last
        x = r.random()
        if x<0.5:
            k = r.randrange(1,4)
            start = last+1 if last else r.choice([1,1,2,5,100])
            if r.random()<0.1: start += r.randrange(1,3)
            s = "S %x %s"%(k,' '.join(log(start+i,r) for i in range(k)))
            return s, ('store',start,k)
        if x<0.75:
            if last==0: return "D %x %x"%(r.randrange(3),r.randrange(8)), None
            f,l=first,last
            c=r.randrange(6)
            if c==0: mn,mx=0,r.randrange(f,l+1)
            elif c==1: mn,mx=r.randrange(f,l+1),l+r.randrange(3)
            elif c==2: mn,mx=f,l
            elif c==3: mn,mx=l,l
            elif c==4: mn,mx=f,f
            else: mn,mx=r.randrange(f,l+1),r.randrange(f,l+2)
            return "D %x %x"%(mn,mx), ('del',mn,mx)
        if x<0.85: return "G %x"%r.randrange(max(first,1)-1 if first else 0,last+3), None
        if x<0.9: return "K 6b %02x"%r.randrange(256), None
        if x<0.93: return "k 6b", None
        if x<0.96: return "F", None
        return "R", None
    def apply(eff):
        nonlocal first,last
        if not eff: return
        if eff[0]=='store':
            _,start,k=eff
            if last==0: first=start; last=start+k-1
            elif start==last+1: last=start+k-1
        else:
            _,mn,mx=eff
            if mn>mx or last==0 or mx<first or mn>last: return
            if mn<=first:
                if mx>=last: first=last=0
                else: first=mx+1
            elif mx>=last: last=mn-1
    for _ in range(n):
        s,eff = sop()
        if r.random()<0.25:
            j=r.randrange(0,8); mf=r.getrandbits(8); mb=r.getrandbits(8)
            toks.append("c %x %x %x %s"%(j,mf,mb,s))
            # unknown whether applied: resync from scratch is impossible here; restart nominal tracking
            # conservatively: assume not applied unless j large
            if j>=6: apply(eff)
            while r.random()<0.3:
                toks.append("q %x %x %x"%(r.randrange(0,5),r.getrandbits(8),r.getrandbits(8)))
            toks.append("p")
        else:
            toks.append("o "+s); apply(eff)
    return ' '.join(toks)
def genf(seed):
    r = random.Random(seed)
    seg = r.choice([0x60,0x80,0xc8,0x100,0x200,0x400,0x1000])
    toks = ["fhist %x 1"%seg]
    first=last=0
    delmode=0            # remaining calls during which every deletion fails
    def pre(f, isopen=False):
        # step prefix: plain counted fault, or (40% of the faulty steps) the fault modes of
        # coq/Wal/FaultHist.v: 1 deletions fail, 2 listing fails (Open only), 4 create leaves the file,
        # 8 a commit / stable write fails and lands
        nonlocal delmode
        if delmode>0:
            delmode-=1
            fl = 1 | (2 if isopen and r.random()<0.3 else 0)
            cnt = "c8" if (f=="-" or r.random()<0.7) else f
            if cnt!="c8" and r.random()<0.5: fl |= 4
            return "g %s %x"%(cnt,fl)
        if f!="-" and r.random()<0.5:
            # 8: a metadata commit / stable write hit by the counted fault fails and lands
            fl = r.choice([4,4,8,8,8,12,1,5,9])
            return "g %s %x"%(f,fl)
        if isopen and r.random()<0.25: return "g c8 2"
        return "f %s"%f
    for _ in range(r.randrange(3,30)):
        x=r.random()
        if x<0.08: toks.append("z"); continue
        if delmode==0 and r.random()<0.06: delmode=r.randrange(1,5)
        f = "%x"%r.randrange(0,5) if r.random()<0.35 else "-"
        y=r.random()
        if y<0.5:
            k=r.randrange(1,4); start=last+1 if last else r.choice([1,1,2,5,100])
            if r.random()<0.1: start+=r.randrange(1,3)
            toks.append("%s S %x %s"%(pre(f),k,' '.join(log(start+i,r) for i in range(k))))
            if f=="-" :
                if last==0: first=start; last=start+k-1
                elif start==last+1: last=start+k-1
            else:
                # unknown outcome: guess applied half the time to keep the generator's picture moving
                if r.random()<0.5 and (last==0 or start==last+1):
                    if last==0: first=start
                    last=start+k-1
        elif y<0.72:
            if last==0: toks.append("%s D %x %x"%(pre(f),r.randrange(3),r.randrange(8))); continue
            fi,l=first,last; c=r.randrange(6)
            if c==0: mn,mx=0,r.randrange(fi,l+1)
            elif c==1: mn,mx=r.randrange(fi,l+1),l+r.randrange(3)
            elif c==2: mn,mx=fi,l
            elif c==3: mn,mx=l,l
            elif c==4: mn,mx=fi,fi
            else: mn,mx=r.randrange(fi,l+1),r.randrange(fi,l+2)
            toks.append("%s D %x %x"%(pre(f),mn,mx))
            if not(mn>mx or mx<first or mn>last):
                if mn<=first:
                    if mx>=last: first=last=0
                    else: first=mx+1
                elif mx>=last: last=mn-1
        elif y<0.82: toks.append("f - G %x"%r.randrange(max(first,1)-1 if first else 0,last+3))
        elif y<0.88: toks.append("%s K 6b %02x"%(pre(f),r.randrange(256)))
        elif y<0.92: toks.append("f - k 6b")
        elif y<0.95: toks.append("f - L")
        else: toks.append("%s R"%pre(f,True))
    return ' '.join(toks)
if __name__=="__main__":
    if sys.argv[1]=="f":
        n=int(sys.argv[2]); s0=int(sys.argv[3]) if len(sys.argv)>3 else 0
        for i in range(n): print("f%d\t%s"%(i,genf(s0+i)))
        sys.exit(0)
    if sys.argv[1]=="d":
        # the same histories for the `hdir` runner (directory exact in every Up state)
        n=int(sys.argv[2]); s0=int(sys.argv[3]) if len(sys.argv)>3 else 0
        for i in range(n): print("d%d\thdir%s"%(i,gen(s0+i)[4:]))
        sys.exit(0)
    n=int(sys.argv[1]); s0=int(sys.argv[2]) if len(sys.argv)>2 else 0
    for i in range(n): print("h%d\t%s"%(i,gen(s0+i)))
