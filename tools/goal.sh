#!/bin/sh
# usage: goal.sh <file.v relative to coq/> <line>  -- show goals just before <line>
cd "$(dirname "$0")/../coq"
f=$1; n=$2
tmp=$(dirname $f)/_dbg_$(basename $f)
head -n $((n-1)) $f > $tmp
echo "Show. " >> $tmp
coqc -Q . RW -w -notation-overridden $tmp 2>&1 | tail -${3:-40}
rm -f $tmp $(dirname $f)/_dbg_*.vo* $(dirname $f)/_dbg_*.glob $(dirname $f)/._dbg_*.aux
