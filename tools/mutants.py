#!/usr/bin/env python3
"""mutants.py -- handling of seeded changes (developer tool, not part of the registered checks)

  mutants.py confirm <candidate_dir> <id>   re-verify a candidate produced by a sub-agent in a scratch
                                            worktree of /repo (outside /repo and /verif), and if all four
                                            facts hold copy it to /verif/seeded/<id>/
  mutants.py detect <id> [tier]             apply seeded/<id>/patch.diff in a scratch worktree and run the
                                            check of its property against that copy (VERIF_REPO); record the
                                            outcome in seeded/<id>/meta.json
"""
import json, os, re, shutil, subprocess, sys, time

ROOT = os.path.dirname(os.path.dirname(os.path.abspath(__file__)))
ENV = dict(os.environ, GOFLAGS="-mod=mod", GOPROXY="off", GOSUMDB="off", GOTOOLCHAIN="local")


def sh(cmd, cwd=None, timeout=1800, env=None):
    p = subprocess.run(cmd, cwd=cwd, shell=isinstance(cmd, str), env=env or ENV, timeout=timeout,
                       stdout=subprocess.PIPE, stderr=subprocess.STDOUT, text=True)
    return p.returncode, p.stdout


def scratch(name):
    d = "/tmp/" + name
    sh(["git", "-C", "/repo", "worktree", "remove", "--force", d])
    shutil.rmtree(d, ignore_errors=True)
    rc, out = sh(["git", "-C", "/repo", "worktree", "add", "--detach", d, "HEAD"])
    if rc != 0:
        raise SystemExit("worktree: " + out)
    return d


def drop(d):
    sh(["git", "-C", "/repo", "worktree", "remove", "--force", d])
    shutil.rmtree(d, ignore_errors=True)


PKG_DIR = {"wal_test": ".", "wal": ".", "integration": "integration", "integration_test": "integration",
           "migrate_test": "migrate", "migrate": "migrate", "verifier_test": "verifier", "verifier": "verifier",
           "segment": "segment", "segment_test": "segment", "metadb": "metadb", "metadb_test": "metadb",
           "fs": "fs", "fs_test": "fs", "metrics": "metrics", "metrics_test": "metrics"}


def parse_demo(path):
    """placement and run command derived from the package clause and the Test function names"""
    txt = open(path).read()
    m = re.search(r"^package (\w+)", txt, flags=re.M)
    tests = re.findall(r"^func (Test\w+)\(", txt, flags=re.M)
    if not m or not tests:
        return None, None
    pkg = m.group(1)
    d = PKG_DIR.get(pkg)
    if d is None:
        d = "zzdemo_" + pkg  # a package of its own
    place = os.path.normpath(os.path.join(d, "zz_demo_test.go"))
    tags = "-tags verif " if "go:build verif" in txt else ""
    run = "go test %s-vet=off -count=1 -timeout 4m -run '^(%s)$' ./%s" % (tags, "|".join(tests), d if d != "." else "")
    return place, run


def suite(d):
    for attempt in range(3):
        rc, out = sh("go build ./... && go test -vet=off -count=1 -timeout 10m ./...", cwd=d, timeout=1500)
        if rc == 0:
            return True, ""
        fails = re.findall(r"^--- FAIL: (\S+)", out, flags=re.M)
        if set(fails) - {"TestFrameCodecFuzz", "TestConcurrentReadersAndWriter"}:  # the second: a 30 s wall-clock test, fails on a loaded machine
            return False, out[-2000:]
    return False, out[-2000:]


def confirm(cand, mid, place=None, run=None):
    demo = next((f for f in os.listdir(cand) if f.startswith("demo")), None)
    if not place or not run:
        place, run = parse_demo(os.path.join(cand, demo))
    if not place or not run:
        raise SystemExit("cannot parse placement/run line of " + demo)
    d = scratch("mutcheck-" + mid)
    res = {}
    try:
        rc, out = sh(["git", "apply", os.path.join(cand, "patch.diff")], cwd=d)
        res["applies"] = rc == 0
        ok, out = suite(d)
        res["builds_and_suite_passes_with_patch"] = ok
        os.makedirs(os.path.dirname(os.path.join(d, place)), exist_ok=True)
        shutil.copyfile(os.path.join(cand, demo), os.path.join(d, place))
        rc, out = sh("timeout 600 " + run, cwd=d)
        res["demo_fails_with_patch"] = rc != 0
        res["demo_output_with_patch"] = out[-600:]
        os.remove(os.path.join(d, place))
        sh(["git", "checkout", "--", "."], cwd=d)
        shutil.copyfile(os.path.join(cand, demo), os.path.join(d, place))
        rc, out = sh("timeout 600 " + run, cwd=d)
        res["demo_passes_without_patch"] = rc == 0
    finally:
        drop(d)
    good = all(res.get(k) for k in ("applies", "builds_and_suite_passes_with_patch", "demo_fails_with_patch", "demo_passes_without_patch"))
    print(mid, json.dumps({k: v for k, v in res.items() if k != "demo_output_with_patch"}))
    if good:
        dst = os.path.join(ROOT, "seeded", mid)
        os.makedirs(dst, exist_ok=True)
        shutil.copyfile(os.path.join(cand, "patch.diff"), os.path.join(dst, "patch.diff"))
        shutil.copyfile(os.path.join(cand, demo), os.path.join(dst, demo + ".txt" if demo.endswith("_test.go") else demo))
        meta = json.load(open(os.path.join(cand, "meta.json")))
        meta["id"] = mid
        meta["demo_placement"] = place
        meta["demo_run"] = run
        meta["confirmed_by_main_session"] = dict(res, at=time.strftime("%Y-%m-%dT%H:%M:%SZ", time.gmtime()))
        json.dump(meta, open(os.path.join(dst, "meta.json"), "w"), indent=1)
    return good


def detect(mid, tier="quick", prop=None):
    dst = os.path.join(ROOT, "seeded", mid)
    meta = json.load(open(os.path.join(dst, "meta.json")))
    prop = prop or meta["property"]
    d = scratch("mutrun-" + mid)
    try:
        rc, out = sh(["git", "apply", os.path.join(dst, "patch.diff")], cwd=d)
        if rc != 0:
            raise SystemExit("patch does not apply: " + out)
        t0 = time.time()
        rc, out = sh([sys.executable, os.path.join(ROOT, "tools", "check.py"), prop, "--tier", tier],
                     cwd=ROOT, env=dict(os.environ, VERIF_REPO=d), timeout=7200)
        lines = [l for l in out.splitlines() if l.startswith("VIOLATION") or l.startswith(prop + " ") or l.startswith("KNOWN")]
        rep = None
        m = re.search(r"replay=(\S+)", out)
        if m and os.path.exists(m.group(1)):
            rj = json.load(open(m.group(1)))
            rep = {k: (v[:300] if isinstance(v, str) else v) for k, v in rj.items() if k in ("kind", "signature", "what", "stream")}
        r = {"check": prop, "tier": tier, "exit": rc, "caught": rc != 0, "lines": lines, "replay": rep, "wall_s": round(time.time() - t0, 1)}
    finally:
        drop(d)
    meta.setdefault("detection", []).append(r)
    json.dump(meta, open(os.path.join(dst, "meta.json"), "w"), indent=1)
    print(mid, prop, tier, "CAUGHT" if r["caught"] else "missed", "|".join(lines)[:300])
    return r["caught"]


if __name__ == "__main__":
    if sys.argv[1] == "confirm":
        sys.exit(0 if confirm(*sys.argv[2:6]) else 1)
    if sys.argv[1] == "detect":
        sys.exit(0 if detect(sys.argv[2], *(sys.argv[3:5])) else 1)
