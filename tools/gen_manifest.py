#!/usr/bin/env python3
"""regenerates MANIFEST.json from tools/manifest_data.py"""
import json, os, sys
root = os.path.dirname(os.path.dirname(os.path.abspath(__file__)))
sys.path.insert(0, os.path.join(root, "tools"))
from manifest_data import CHECKS, NOT_APPLICABLE, HOOK_COMMITS
checks = []
for pid, d in sorted(CHECKS.items()):
    checks.append({
        "property_id": pid,
        "quick_cmd": "python3 tools/check.py %s --tier quick" % pid,
        "thorough_cmd": "python3 tools/check.py %s --tier thorough" % pid,
        "evidence_file": "/verif/evidence/%s.json" % pid,
        "replay_cmd_template": "python3 tools/check.py %s --replay {path}" % pid,
        "engine": "rocq-model+correspondence",
        "level_claimed": {"category": "proof", "text": d["text"], "design_ref": d.get("ref", "DESIGN.md section 5")},
        "level_note": d["note"],
        "technique": d["technique"],
    })
m = {
    "version": 1,
    "setup_cmd": "sh tools/setup.sh",
    "hooks": {
        "guard": "verif",
        "enable": "go build -tags verif (the harness module replaces github.com/hashicorp/raft-wal => /repo)",
        "baseline_off_cmd": "cd /repo && GOFLAGS=-mod=mod GOPROXY=off GOSUMDB=off GOTOOLCHAIN=local go test -json -vet=off -count=1 -timeout 25m ./...",
        "source_commits": HOOK_COMMITS,
        "add_only": True,
    },
    "engines": [{
        "name": "rocq-model+correspondence", "path": "tools/check.py",
        "serves_properties": sorted(CHECKS),
        "kind_free_text": "Rocq (Coq 8.16.1) model RW.* with kernel-checked theorems per property (coq/Props/Cxx.v); model regenerated in part from source (coq/Gen/*.v) and tied to /repo by differential execution of the extracted model (ocaml/driver) and the implementation (harness/cmd/wh) on the same generated inputs; property oracles search the implementation for witnesses",
    }],
    "checks": checks,
    "not_applicable": [{"property_id": k, "reason": v} for k, v in sorted(NOT_APPLICABLE.items())],
    "notes": "See DESIGN.md. known_findings.json lists open findings (suppressed by signature) and fixed defects (never suppressed).",
}
json.dump(m, open(os.path.join(root, "MANIFEST.json"), "w"), indent=1)
print("MANIFEST.json: %d checks, %d not_applicable" % (len(checks), len(NOT_APPLICABLE)))
