module verifharness

go 1.23.0

toolchain go1.23.5

require (
	github.com/hashicorp/go-hclog v1.6.3
	github.com/hashicorp/go-metrics v0.5.4
	github.com/hashicorp/raft v1.7.3
	github.com/hashicorp/raft-boltdb/v2 v2.3.1
	github.com/hashicorp/raft-wal v0.0.0
	go.etcd.io/bbolt v1.4.3
)

require (
	github.com/armon/go-metrics v0.4.1 // indirect
	github.com/benbjohnson/immutable v0.4.3 // indirect
	github.com/boltdb/bolt v1.3.1 // indirect
	github.com/fatih/color v1.13.0 // indirect
	github.com/hashicorp/go-immutable-radix v1.3.0 // indirect
	github.com/hashicorp/go-msgpack/v2 v2.1.2 // indirect
	github.com/hashicorp/golang-lru v0.5.4 // indirect
	github.com/mattn/go-colorable v0.1.12 // indirect
	github.com/mattn/go-isatty v0.0.14 // indirect
	github.com/segmentio/fasthash v1.0.3 // indirect
	go.etcd.io/etcd/client/pkg/v3 v3.6.4 // indirect
	go.uber.org/multierr v1.11.0 // indirect
	go.uber.org/zap v1.27.0 // indirect
	golang.org/x/exp v0.0.0-20220827204233-334a2380cb91 // indirect
	golang.org/x/sys v0.31.0 // indirect
)

replace github.com/hashicorp/raft-wal => /repo
