// wh -- correspondence/search harness for the raft-wal verification.
// Each sub-command runs one stream against the implementation in /repo and
// writes "<id>\t<model input line>\t<implementation observation>" lines, plus
// oracle verdicts ("!W\t<id>\t<signature>\t<description>") for property
// violations found directly on the implementation.
package main

import (
	"bufio"
	"flag"
	"fmt"
	"os"
)

type ctx struct {
	out   *bufio.Writer
	seed  int64
	n     int
	tier  string
	nCase int
	stats map[string]int
	work  string
	curID string
	stream string // name of the stream being run
	// measure: account allocations of the segment calls of this line (C11)
	measure bool
}

func (c *ctx) emit(id, input, obs string) {
	fmt.Fprintf(c.out, "%s\t%s\t%s\n", id, input, obs)
	c.nCase++
}

// witness reports a property violation observed on the implementation.
func (c *ctx) witness(prop, sig, desc, replay string) {
	fmt.Fprintf(c.out, "!W\t%s\t%s\t%s\t%s\n", prop, sig, desc, replay)
	c.stats["witness_"+prop+"_"+sig]++
}

func (c *ctx) stat(k string) { c.stats[k]++ }

// A stream is a generator of self-contained input lines plus an executor that
// runs one line against the implementation and returns the canonical
// observation (oracles report witnesses through ctx while executing).
type stream struct {
	gen  func(c *ctx, emit func(line string))
	exec func(c *ctx, line string) string
}

var streams = map[string]*stream{}

func main() {
	if len(os.Args) < 3 {
		fmt.Fprintln(os.Stderr, "usage: wh run|exec <stream> [flags]")
		os.Exit(2)
	}
	mode, name := os.Args[1], os.Args[2]
	if mode == "fschild" { // traced child of the fstrace stream (C07)
		os.Exit(fsChildMain(os.Args[2:]))
	}
	if mode == "translate" {
		fmt.Print(runTranslate(name))
		return
	}
	if mode == "mkgolden" {
		// wh mkgolden <dir>: (re)write the golden fixtures with the code in /repo
		if err := mkGolden(name); err != nil {
			fmt.Fprintln(os.Stderr, "mkgolden:", err)
			os.Exit(1)
		}
		return
	}
	fs := flag.NewFlagSet(name, flag.ExitOnError)
	seed := fs.Int64("seed", 1, "PRNG seed")
	n := fs.Int("n", 100, "number of cases")
	tier := fs.String("tier", "quick", "tier")
	outp := fs.String("out", "-", "output file")
	inp := fs.String("in", "", "exec mode: file with input lines (default stdin)")
	work := fs.String("work", "", "scratch directory for real-file workloads")
	fs.Parse(os.Args[3:])
	st, ok := streams[name]
	if !ok {
		fmt.Fprintln(os.Stderr, "unknown stream", name)
		os.Exit(2)
	}
	var w *os.File = os.Stdout
	if *outp != "-" {
		var err error
		w, err = os.Create(*outp)
		if err != nil {
			panic(err)
		}
		defer w.Close()
	}
	c := &ctx{out: bufio.NewWriterSize(w, 1<<20), seed: *seed, n: *n, tier: *tier, stats: map[string]int{}, work: *work, stream: name}
	switch mode {
	case "run":
		i := 0
		st.gen(c, func(line string) {
			c.curID = fmt.Sprintf("%s%d", name[:1], i)
			i++
			c.emit(c.curID, line, st.exec(c, line))
		})
	case "exec":
		var rd *os.File = os.Stdin
		if *inp != "" {
			var err error
			rd, err = os.Open(*inp)
			if err != nil {
				panic(err)
			}
		}
		sc := bufio.NewScanner(rd)
		sc.Buffer(make([]byte, 1<<20), 1<<30)
		i := 0
		for sc.Scan() {
			line := sc.Text()
			if line == "" {
				continue
			}
			c.curID = fmt.Sprintf("x%d", i)
			i++
			c.emit(c.curID, line, st.exec(c, line))
		}
	default:
		fmt.Fprintln(os.Stderr, "unknown mode", mode)
		os.Exit(2)
	}
	for k, v := range c.stats {
		fmt.Fprintf(c.out, "!S\t%s\t%d\n", k, v)
	}
	c.out.Flush()
}
