package main

// `sched c14 <setup> <threads> <schedule>`: Close racing with every API method.
//   setup    ops run sequentially before the scheduled phase ("-" = none)
//   threads  ","-separated programs, each a "."-separated list of ops
//              F L G<idx> S0 S1 D<n> K k X     (hex arguments)
//            the rotation goroutine is the implicit last thread
//   schedule hex digits = thread ids; each element releases that thread from the
//            hook point it is parked at until it parks again / blocks / returns
// Observation: per thread the outcomes of its calls, then final flags.

import (
	"errors"
	"fmt"
	"math"
	"math/rand"
	"os"
	"runtime"
	"strings"
	"time"

	"github.com/hashicorp/go-hclog"
	"github.com/hashicorp/raft"
	wal "github.com/hashicorp/raft-wal"
	"github.com/hashicorp/raft-wal/segment"
)

var c14Points = []string{"FirstIndex.checked", "LastIndex.checked", "GetLog.checked", "StoreLogs.checked",
	"StoreLogs.locked", "DeleteRange.checked", "DeleteRange.locked", "Set.checked", "Get.checked",
	"acquireState.loaded", "awaitRotation.waiting", "runRotate.received", "runRotate.locked",
	"mutateState.committed", "mutateState.published", "Close.flagSet", "Close.locked", "Close.stateSwapped",
	"release.lastRef"}

const schedSegSize = 4096

func payload(idx uint64, tag uint64, big bool) []byte {
	n := 16
	if big {
		n = 4200
	}
	b := make([]byte, n)
	for i := range b {
		b[i] = byte(idx*31 + tag*7 + uint64(i))
	}
	copy(b, fmt.Sprintf("%04x:%04x;", idx, tag))
	return b
}

type walEnv struct {
	vfs  *memVFS
	meta *memMeta
	w    *wal.WAL
}

func openEnv(vfs *memVFS, meta *memMeta) (*walEnv, error) {
	lg := hclog.New(&hclog.LoggerOptions{Output: nopWriter{}, Level: hclog.Off})
	if d := os.Getenv("WH_REALFS"); d != "" {
		// manual experiment: real files and BoltMetaDB in directory d
		w, err := wal.Open(d, wal.WithSegmentSize(schedSegSize), wal.WithLogger(lg))
		if err != nil {
			return nil, err
		}
		return &walEnv{vfs: vfs, meta: meta, w: w}, nil
	}
	w, err := wal.Open("mem", wal.WithSegmentFiler(segment.NewFiler("mem", vfs)), wal.WithMetaStore(meta),
		wal.WithSegmentSize(schedSegSize), wal.WithLogger(lg))
	if err != nil {
		return nil, err
	}
	return &walEnv{vfs: vfs, meta: meta, w: w}, nil
}

type nopWriter struct{}

func (nopWriter) Write(p []byte) (int, error) { return len(p), nil }

// waitRotation returns once a pending background rotation has completed.
func (e *walEnv) waitRotation() { e.w.DeleteRange(math.MaxUint64, math.MaxUint64) }

func classify(err error) string {
	switch {
	case err == nil:
		return "ok"
	case errors.Is(err, wal.ErrClosed):
		return "closed"
	case errors.Is(err, wal.ErrNotFound):
		return "nf"
	case errors.Is(err, wal.ErrSealed):
		return "sealed"
	case errors.Is(err, os.ErrClosed):
		return "ioerr"
	case errors.Is(err, errMetaClosed):
		return "metaerr"
	default:
		if os.Getenv("WH_REALFS") != "" {
			return "err(" + err.Error() + ")"
		}
		return "err"
	}
}

// tagOf remembers which content tag each index currently holds (C06 re-appends)
type opCtx struct {
	env     *walEnv
	next    *uint64           // next index the (single) writer stores
	tags    map[uint64]uint64 // index -> tag of last successful store
	acked   map[uint64]uint64 // index -> tag acknowledged (for the reopen oracle)
	c       *ctx
	line    string
	prop    string
	badData *int32
}

// runOp executes one API call and returns its canonical outcome.
func runOp(o *opCtx, r *role, op string) (out string) {
	defer func() {
		if e := recover(); e != nil {
			out = "panic"
		}
	}()
	w := o.env.w
	arg := uint64(0)
	if len(op) > 1 {
		arg = parseU(op[1:])
	}
	if r != nil {
		r.locking = op[0] == 'S' || op[0] == 'D' || op[0] == 'T'
	}
	switch op[0] {
	case 'F':
		v, err := w.FirstIndex()
		if err != nil {
			return classify(err)
		}
		return fmt.Sprintf("ok:%x", v)
	case 'L':
		v, err := w.LastIndex()
		if err != nil {
			return classify(err)
		}
		return fmt.Sprintf("ok:%x", v)
	case 'G':
		var l raft.Log
		err := w.GetLog(arg, &l)
		if err != nil {
			return classify(err)
		}
		if l.Index != arg || len(l.Data) < 10 || string(l.Data[:5]) != fmt.Sprintf("%04x:", arg) {
			return "wrongdata"
		}
		tag := parseU(string(l.Data[5:9]))
		return fmt.Sprintf("ok:%x", tag)
	case 'S': // S<seal>[_<tag>[_<idx>]]
		f := strings.Split(op[1:], "_")
		big := f[0] == "1"
		tag, idx := uint64(0), *o.next
		if len(f) > 1 {
			tag = parseU(f[1])
		}
		if len(f) > 2 && f[2] != "0" {
			idx = parseU(f[2])
		}
		err := w.StoreLogs([]*raft.Log{{Index: idx, Term: 1, Type: raft.LogCommand, Data: payload(idx, tag, big)}})
		if err == nil {
			*o.next = idx + 1
			o.tags[idx] = tag
			o.acked[idx] = tag
		}
		return classify(err)
	case 'D': // head truncation: delete [1, n]
		err := w.DeleteRange(1, arg)
		if err == nil {
			for i := range o.acked {
				if i <= arg {
					delete(o.acked, i)
				}
			}
		}
		return classify(err)
	case 'T': // tail truncation: keep indexes <= n
		err := w.DeleteRange(arg+1, math.MaxUint64-1)
		if err == nil {
			for i := range o.acked {
				if i > arg {
					delete(o.acked, i)
				}
			}
			if *o.next > arg+1 {
				*o.next = arg + 1
			}
		}
		return classify(err)
	case 'K':
		return classify(w.Set([]byte("k"), []byte("v")))
	case 'k':
		v, err := w.Get([]byte("k"))
		if err != nil {
			return classify(err)
		}
		return fmt.Sprintf("ok:%x", len(v))
	case 'X':
		return classify(w.Close())
	}
	return "badop"
}

func splitProg(s string) []string {
	if s == "-" || s == "" {
		return nil
	}
	return strings.Split(s, ".")
}

func execSchedC14(c *ctx, line string, f []string) string {
	if len(f) != 3 {
		return "badinput"
	}
	setup, progs, schedule := splitProg(f[0]), strings.Split(f[1], ","), f[2]
	baseG := runtime.NumGoroutine()
	vfs, meta := newMemVFS(), newMemMeta()
	env, err := openEnv(vfs, meta)
	if err != nil {
		return "openerr"
	}
	next := uint64(1)
	o := &opCtx{env: env, next: &next, tags: map[uint64]uint64{}, acked: map[uint64]uint64{}, c: c, line: line, prop: "C14"}
	for _, op := range setup {
		if out := runOp(o, nil, op); !strings.HasPrefix(out, "ok") {
			return "setuperr:" + out
		}
		env.waitRotation()
	}
	s := newScheduler(c14Points)
	outs := make([][]string, len(progs))
	closeReturned := make(chan struct{}, 8)
	for i, p := range progs {
		i, ops := i, splitProg(p)
		s.addRole(fmt.Sprintf("t%d", i), func(r *role) {
			for _, op := range ops {
				res := runOp(o, r, op)
				outs[i] = append(outs[i], res)
				if op == "X" {
					closeReturned <- struct{}{}
				}
			}
		})
	}
	rot := s.adoptRotator()
	s.install()
	defer s.uninstall()
	start := time.Now()
	limit := 20 * time.Second
	deadlock := false
	for _, ch := range schedule {
		id := int(parseU(string(ch)))
		s.stepRole(id)
		if s.stuck || time.Since(start) > limit {
			break
		}
	}
	// drain: round-robin until every caller returned
	for round := 0; !s.stuck && !s.allDone(); round++ {
		progress := false
		for id := range s.roles {
			before := len(s.trace)
			s.stepRole(id)
			t := s.trace[len(s.trace)-1]
			if len(s.trace) > before && !strings.HasSuffix(t, ":-") && !strings.HasSuffix(t, ":skip") {
				progress = true
			}
		}
		if !progress || round > 400 || time.Since(start) > limit {
			deadlock = !s.allDone()
			break
		}
	}
	// let the rotator finish whatever it is doing
	for k := 0; k < 40 && !s.stuck && rot.parkedAt() != ""; k++ {
		s.stepRole(rot.id)
	}
	if s.stuck {
		deadlock = true
	}
	if deadlock {
		c.witness("C14", "deadlock", "schedule leaves a call blocked forever: "+strings.Join(s.trace, " "), line)
		// unblock what can be unblocked so that the process can continue
		s.uninstall()
		for _, r := range s.roles {
			if r.parkedAt() != "" && !r.isDone() {
				r.parked.Store("")
				select {
				case r.release <- struct{}{}:
				case <-time.After(50 * time.Millisecond):
				}
			}
		}
	}
	s.uninstall()
	// ---- oracles that do not depend on the model ---------------------------------
	closed := false
	for i, p := range progs {
		for j, op := range splitProg(p) {
			if j < len(outs[i]) {
				if outs[i][j] == "panic" {
					c.witness("C14", "panic-"+op[:1], "call "+op+" racing with Close panicked", line)
				}
				if outs[i][j] == "wrongdata" {
					c.witness("C14", "wrongdata", "GetLog racing with Close returned wrong data", line)
				}
				if outs[i][j] == "ioerr" || outs[i][j] == "metaerr" {
					c.witness("C14", "racing-"+outs[i][j]+"-"+op[:1], "call "+op+" racing with Close returned "+outs[i][j]+" instead of a result or ErrClosed", line)
				}
				if op == "X" {
					closed = true
				}
			}
		}
	}
	rotExited := "x"
	_, openH, multiH := vfs.account()
	metaCloses := meta.closes
	if closed && !deadlock {
		rotExited = "1"
		// after Close returned: every method returns ErrClosed, second Close is a no-op
		for _, op := range []string{"F", "L", "G1", "S0", "D1", "K", "k"} {
			if out := runOp(o, nil, op); out != "closed" {
				c.witness("C14", "after-close-"+op[:1], "after Close returned "+op+" gives "+out, line)
			}
		}
		if out := runOp(o, nil, "X"); out != "ok" {
			c.witness("C14", "second-close", "second Close gives "+out, line)
		}
		// rotation goroutine must have exited
		ok := false
		for k := 0; k < 200; k++ {
			if countGoroutines("raft-wal.(*WAL).runRotate") == 0 {
				ok = true
				break
			}
			time.Sleep(100 * time.Microsecond)
		}
		if !ok {
			rotExited = "0"
			c.witness("C14", "rotator-alive", "rotation goroutine still running after Close returned", line)
		}
		for k := 0; k < 100 && runtime.NumGoroutine() > baseG; k++ {
			time.Sleep(100 * time.Microsecond)
		}
		if n := runtime.NumGoroutine(); n > baseG {
			c.witness("C14", "goroutine-leak", fmt.Sprintf("%d goroutines after Close, %d before Open", n, baseG), line)
		}
		opened, open, multi := vfs.account()
		if open != 0 || multi != 0 {
			c.witness("C14", "handles", fmt.Sprintf("after Close and all calls returned: %d handles opened, %d still open, %d closed more than once", opened, open, multi), line)
		}
		if meta.closes != 1 {
			c.witness("C14", "meta-close", fmt.Sprintf("metaDB closed %d times", meta.closes), line)
		}
		// acknowledged entries survive the next Open
		closesBefore := meta.closes
		env2, err := openEnv(vfs, meta)
		if err != nil {
			c.witness("C14", "reopen", "Open after Close fails: "+err.Error(), line)
		} else {
			o2 := &opCtx{env: env2, next: new(uint64), tags: map[uint64]uint64{}, acked: map[uint64]uint64{}}
			for idx, tag := range o.acked {
				want := fmt.Sprintf("ok:%x", tag)
				if out := runOp(o2, nil, fmt.Sprintf("G%x", idx)); out != want {
					c.witness("C14", "acked-lost", fmt.Sprintf("entry %d acknowledged before Close: after reopen GetLog gives %s", idx, out), line)
				}
			}
			env2.w.Close()
		}
		meta.closes = closesBefore
	} else {
		env.w.Close()
	}
	var sb strings.Builder
	for i := range progs {
		if i > 0 {
			sb.WriteByte('|')
		}
		sb.WriteString(strings.Join(outs[i], "."))
		if len(outs[i]) < len(splitProg(progs[i])) {
			sb.WriteString("*")
		}
	}
	dl := 0
	if deadlock {
		dl = 1
	}
	fmt.Fprintf(&sb, ";dl=%d rot=%s mc=%x open=%x multi=%x", dl, rotExited, metaCloses, openH, multiH)
	if os.Getenv("WH_TRACE") != "" {
		fmt.Fprintf(os.Stderr, "%s\n  %s\n", line, strings.Join(s.trace, " "))
	}
	return sb.String()
}

func init() {
	streams["sched"] = &stream{gen: genSched, exec: execSched}
}

func execSched(c *ctx, line string) string {
	f := strings.Split(line, " ")
	if len(f) < 2 || f[0] != "sched" {
		return "badinput"
	}
	switch f[1] {
	case "c14":
		return execSchedC14(c, line, f[2:])
	}
	return "badinput"
}

func genSched(c *ctx, emit func(string)) {
	genSchedC14(c, emit)
}

// genSchedC14: every API method x every window of the call x every stage of
// Close, on three initial logs, then random programs and schedules (pending
// rotation, truncation finalisers, second Close, several readers).
func genSchedC14(c *ctx, emit func(string)) {
	r := rand.New(rand.NewSource(c.seed))
	n := 0
	out := func(setup, threads, sch string) {
		emit("sched c14 " + setup + " " + threads + " " + sch)
		n++
	}
	ops := []string{"F", "L", "G1", "G2", "G9", "S0", "S1", "D1", "D2", "K", "k", "X"}
	setups := []string{"S0.S0", "S1.S0", "S1"}
	rep := func(ch string, k int) string { return strings.Repeat(ch, k) }
	// systematic part: A takes a steps, Close takes cl steps, A takes b more, Close finishes, A finishes
	for _, su := range setups {
		for _, op := range ops {
			for a := 0; a <= 6; a++ {
				for cl := 1; cl <= 5; cl++ {
					for _, b := range []int{0, 1, 2, 9} {
						if c.tier == "quick" && (a+cl+b+len(su)+len(op))%3 != int(c.seed%3) {
							continue
						}
						out(su, op+",X", rep("0", a)+rep("1", cl)+rep("0", b)+rep("1", 6))
					}
				}
			}
		}
	}
	// a writer waiting for a pending rotation while Close runs (every stage of the rotator and of Close)
	for _, w := range []string{"S1.S0", "S1.D1", "S1.S1.S0", "S0.S1.D1"} {
		for a := 5; a <= 9; a++ {
			for rt := 0; rt <= 5; rt++ {
				for cl := 1; cl <= 5; cl++ {
					if c.tier == "quick" && (a+rt+cl+len(w))%2 != int(c.seed%2) {
						continue
					}
					out("S0", w+",X", rep("0", a)+rep("2", rt)+rep("1", cl)+rep("2", 2)+rep("0", 3)+rep("1", 6))
				}
			}
		}
	}
	// random programs and schedules
	wops := []string{"S0", "S1", "D1", "D2", "D3"}
	rops := []string{"F", "L", "G1", "G2", "G3", "G5", "K", "k"}
	for n < c.n {
		var th []string
		var w []string
		for i := 1 + r.Intn(3); i > 0; i-- {
			w = append(w, wops[r.Intn(len(wops))])
		}
		th = append(th, strings.Join(w, "."))
		for i := r.Intn(3); i > 0; i-- {
			var p []string
			for j := 1 + r.Intn(2); j > 0; j-- {
				p = append(p, rops[r.Intn(len(rops))])
			}
			th = append(th, strings.Join(p, "."))
		}
		th = append(th, "X")
		if r.Intn(4) == 0 {
			th = append(th, "X")
		}
		if r.Intn(5) == 0 {
			th = append(th, "F.X.L")
		}
		nt := len(th) + 1
		var sb strings.Builder
		for i := 8 + r.Intn(40); i > 0; i-- {
			t := r.Intn(nt)
			// bias: runs of the same thread
			for k := 1 + r.Intn(3); k > 0; k-- {
				fmt.Fprintf(&sb, "%x", t)
			}
		}
		out(setups[r.Intn(len(setups))], strings.Join(th, ","), sb.String())
	}
}
