package main

// Deterministic schedule forcing on top of the verif hook points (build tag
// verif): every role (API-calling goroutine, the rotation goroutine) parks at
// the hook points; the scheduler releases one role at a time in the order given
// by the schedule and then waits until every role is parked again, finished, or
// blocked inside the implementation (mutex / channel), which it reads off the
// goroutine states reported by runtime.Stack.

import (
	"bytes"
	"fmt"
	"runtime"
	"strconv"
	"strings"
	"sync/atomic"
	"time"

	wal "github.com/hashicorp/raft-wal"
	"github.com/hashicorp/raft-wal/segment"
)

func curGID() uint64 {
	var buf [64]byte
	n := runtime.Stack(buf[:], false)
	// "goroutine 123 [running]:"
	f := bytes.Fields(buf[:n])
	id, _ := strconv.ParseUint(string(f[1]), 10, 64)
	return id
}

type role struct {
	id      int
	name    string
	gid     uint64
	parked  atomic.Value // string: point name, "" = not parked
	release chan struct{}
	done    int32
	rotator bool
	inCS    bool   // holds writeMu as far as the hook points tell (scheduler goroutine only)
	locking bool   // current op takes writeMu (set by the role before the call)
	storing bool   // current op is StoreLogs: the append-level points park only then
	last    string // last point it parked at
	ack     bool   // rotator: arrival at runRotate.received already consumed by a schedule element
}

func (r *role) parkedAt() string { s, _ := r.parked.Load().(string); return s }
func (r *role) isDone() bool     { return atomic.LoadInt32(&r.done) != 0 }

type scheduler struct {
	roles   []*role
	byGID   atomic.Value // map[uint64]*role
	points  map[string]bool
	free    int32 // 1 = hooks pass through (drain / setup)
	stray   int32 // 1 = an unregistered goroutine passed a rotation point
	stuck   bool
	trace   []string
	settleT time.Duration
}

var appendPoints = map[string]bool{"Append.buffered": true, "vfs.sync": true, "sync.durable": true}

var preLock = map[string]bool{"StoreLogs.checked": true, "DeleteRange.checked": true, "Close.flagSet": true,
	"runRotate.received": true, "awaitRotation.waiting": true}

func newScheduler(points []string) *scheduler {
	s := &scheduler{points: map[string]bool{}, settleT: 4 * time.Second}
	for _, p := range points {
		s.points[p] = true
	}
	s.byGID.Store(map[uint64]*role{})
	return s
}

func (s *scheduler) install() {
	wal.SetVerifHook(s.hook)
	segment.SetVerifHook(s.hook)
}

func (s *scheduler) uninstall() {
	atomic.StoreInt32(&s.free, 1)
	wal.SetVerifHook(nil)
	segment.SetVerifHook(nil)
}

func (s *scheduler) register(r *role) {
	old := s.byGID.Load().(map[uint64]*role)
	m := make(map[uint64]*role, len(old)+1)
	for k, v := range old {
		m[k] = v
	}
	m[r.gid] = r
	s.byGID.Store(m)
}

// hook runs on the goroutine that reached the schedule point.
func (s *scheduler) hook(point string) {
	if atomic.LoadInt32(&s.free) != 0 || !s.points[point] {
		return
	}
	r := s.byGID.Load().(map[uint64]*role)[curGID()]
	if r == nil {
		if strings.HasPrefix(point, "runRotate.") || strings.HasPrefix(point, "mutateState.") {
			// a goroutine the scheduler does not control is rotating: the case is void
			atomic.StoreInt32(&s.stray, 1)
		}
		return
	}
	if appendPoints[point] && !r.storing {
		return // ForceSeal / recovery also sync; only StoreLogs parks there
	}
	r.parked.Store(point)
	<-r.release
}

// addRole starts fn on a new goroutine registered as a role; the goroutine waits
// for its first release before doing anything (virtual point "start").
func (s *scheduler) addRole(name string, fn func(r *role)) *role {
	r := &role{id: len(s.roles), name: name, release: make(chan struct{})}
	r.parked.Store("")
	s.roles = append(s.roles, r)
	ready := make(chan struct{})
	go func() {
		r.gid = curGID()
		r.parked.Store("start")
		close(ready)
		<-r.release
		fn(r)
		atomic.StoreInt32(&r.done, 1)
	}()
	<-ready
	s.register(r)
	return r
}

// adoptRotator registers the already running rotation goroutine of a WAL.
func (s *scheduler) adoptRotator(before map[uint64]bool) *role {
	gid := findGoroutine("raft-wal.(*WAL).runRotate", before)
	r := &role{id: len(s.roles), name: "R", release: make(chan struct{}), rotator: true, gid: gid}
	r.parked.Store("")
	s.roles = append(s.roles, r)
	if gid != 0 {
		s.register(r)
	}
	return r
}

type gstate struct {
	state string // text between [ and ]
	fn    string // first frame that belongs to raft-wal or main
	text  string
}

func allGoroutines() map[uint64]gstate {
	buf := make([]byte, 1<<16)
	for {
		n := runtime.Stack(buf, true)
		if n < len(buf) {
			buf = buf[:n]
			break
		}
		buf = make([]byte, 2*len(buf))
	}
	res := map[uint64]gstate{}
	for _, blk := range strings.Split(string(buf), "\n\n") {
		if !strings.HasPrefix(blk, "goroutine ") {
			continue
		}
		nl := strings.IndexByte(blk, '\n')
		if nl < 0 {
			nl = len(blk)
		}
		hdr := blk[:nl]
		f := strings.Fields(hdr)
		id, _ := strconv.ParseUint(f[1], 10, 64)
		st := hdr[strings.IndexByte(hdr, '[')+1:]
		if i := strings.IndexAny(st, ",]"); i >= 0 {
			st = st[:i]
		}
		g := gstate{state: st, text: blk}
		for _, ln := range strings.Split(blk[nl:], "\n") {
			if strings.HasPrefix(ln, "\t") || ln == "" {
				continue
			}
			if strings.HasPrefix(ln, "github.com/hashicorp/raft-wal") || strings.HasPrefix(ln, "main.") {
				g.fn = ln
				break
			}
		}
		res[id] = g
	}
	return res
}

// gidsMatching: ids of the goroutines whose stack mentions sub
func gidsMatching(sub string) map[uint64]bool {
	m := map[uint64]bool{}
	for id, g := range allGoroutines() {
		if strings.Contains(g.text, sub) {
			m[id] = true
		}
	}
	return m
}

// findGoroutine: a goroutine whose stack mentions sub and that is not in `before`
// (rotation goroutines of earlier cases may still be on their way out)
func findGoroutine(sub string, before map[uint64]bool) uint64 {
	for i := 0; i < 200; i++ {
		for id, g := range allGoroutines() {
			if strings.Contains(g.text, sub) && !before[id] {
				return id
			}
		}
		time.Sleep(50 * time.Microsecond)
	}
	return 0
}

func countGoroutines(sub string) int {
	n := 0
	for _, g := range allGoroutines() {
		if strings.Contains(g.text, sub) {
			n++
		}
	}
	return n
}

var waitStates = map[string]bool{"chan receive": true, "chan send": true, "sync.Mutex.Lock": true,
	"semacquire": true, "select": true, "sync.RWMutex.Lock": true, "sync.RWMutex.RLock": true, "sync.Cond.Wait": true}

// blockedInImpl: the goroutine waits on a mutex or channel inside the WAL code
// (not inside the harness' own VFS/MetaStore, not in the scheduler's hook).
func blockedInImpl(g gstate) bool {
	if !waitStates[g.state] {
		return false
	}
	return strings.HasPrefix(g.fn, "github.com/hashicorp/raft-wal.(*WAL).")
}

// settle waits until every role is parked, finished or blocked inside the
// implementation.  Returns false when that does not happen in time.
func (s *scheduler) settle() bool {
	deadline := time.Now().Add(s.settleT)
	spins := 0
	for {
		pending := false
		for _, r := range s.roles {
			if !r.isDone() && r.parkedAt() == "" {
				pending = true
			}
		}
		if !pending {
			return true
		}
		spins++
		if spins < 300 {
			runtime.Gosched()
			continue
		}
		// look at the goroutine states; dump first, flags afterwards
		gs := allGoroutines()
		all := true
		for _, r := range s.roles {
			if r.isDone() || r.parkedAt() != "" {
				continue
			}
			g, ok := gs[r.gid]
			if !ok {
				// goroutine gone (rotator returned)
				if r.rotator {
					atomic.StoreInt32(&r.done, 1)
					continue
				}
				all = false
				continue
			}
			if !blockedInImpl(g) {
				all = false
			}
		}
		if all {
			// confirm with a second look that nothing moved
			for k := 0; k < 50; k++ {
				runtime.Gosched()
			}
			gs2 := allGoroutines()
			same := true
			for _, r := range s.roles {
				if r.isDone() {
					continue
				}
				if r.parkedAt() != "" {
					continue
				}
				g2, ok := gs2[r.gid]
				if !ok || !blockedInImpl(g2) {
					same = false
				}
			}
			if same {
				return true
			}
		}
		if time.Now().After(deadline) {
			s.stuck = true
			return false
		}
		if spins > 2000 {
			time.Sleep(50 * time.Microsecond)
		} else {
			for k := 0; k < 50; k++ {
				runtime.Gosched()
			}
		}
	}
}

// refresh the lock-ownership view from the points the roles are parked at
func (s *scheduler) refresh() {
	for _, r := range s.roles {
		p := r.parkedAt()
		switch {
		case r.isDone():
			r.inCS = false
		case p == "":
			// blocked in the implementation: waiting, not holding
			r.inCS = false
		case strings.HasSuffix(p, ".locked"):
			r.inCS = true
		case preLock[p] || strings.HasSuffix(p, ".checked") || p == "start":
			r.inCS = false
		case p == "acquireState.loaded" && r.locking:
			r.inCS = true
		}
	}
}

func (s *scheduler) idle(r *role) bool {
	// the rotator waiting for a trigger is idle, not blocked
	return r.rotator && r.parkedAt() == "" && !r.isDone() && r.last != "runRotate.received"
}

// stepRole performs one schedule element.
func (s *scheduler) stepRole(id int) {
	if id < 0 || id >= len(s.roles) {
		return
	}
	r := s.roles[id]
	s.refresh()
	p := r.parkedAt()
	if r.isDone() || p == "" {
		s.trace = append(s.trace, fmt.Sprintf("%d:-", id))
		return
	}
	if preLock[p] {
		held, blocked := false, false
		for _, o := range s.roles {
			if o == r {
				continue
			}
			if o.inCS {
				held = true
			}
			if !o.isDone() && o.parkedAt() == "" && !s.rotIdle(o) {
				blocked = true
			}
		}
		if held && blocked {
			s.trace = append(s.trace, fmt.Sprintf("%d:skip", id))
			return
		}
	}
	r.last = p
	r.parked.Store("")
	r.release <- struct{}{}
	s.settle()
	s.trace = append(s.trace, fmt.Sprintf("%d:%s>%s", id, p, r.parkedAt()))
}

// rotIdle: rotator blocked on the trigger channel (as opposed to the mutex)
func (s *scheduler) rotIdle(r *role) bool {
	if !r.rotator {
		return false
	}
	g, ok := allGoroutines()[r.gid]
	if !ok {
		return true
	}
	return g.state == "chan receive"
}

func (s *scheduler) allDone() bool {
	for _, r := range s.roles {
		if r.rotator {
			continue
		}
		if !r.isDone() {
			return false
		}
	}
	return true
}
