package main

import (
	"fmt"
	"strings"

	wal "github.com/hashicorp/raft-wal"
	"github.com/hashicorp/raft-wal/metadb"
	"github.com/hashicorp/raft-wal/segment"
	"github.com/hashicorp/raft-wal/types"
	"github.com/hashicorp/raft-wal/verifier"
)

// translate: regenerates coq/Gen/*.v from the source in /repo.  Constants are
// obtained by compiling this program against /repo (so they are what the
// compiler sees); source facts come from a go/ast scan (facts.go).

func coqStr(s string) string {
	var b []string
	for _, c := range []byte(s) {
		b = append(b, fmt.Sprint(c))
	}
	return "[" + strings.Join(b, "; ") + "]"
}

func translateConstants() string {
	var sb strings.Builder
	p := func(f string, a ...interface{}) { fmt.Fprintf(&sb, f+"\n", a...) }
	p("(* GENERATED from /repo by `wh translate` on every check run -- do not edit. *)")
	p("From Coq Require Import NArith List. Import ListNotations. Open Scope N_scope.")
	p("Definition MaxEntrySize : N := %d.", uint64(segment.MaxEntrySize))
	p("Definition FrameInvalid : N := %d.", segment.FrameInvalid)
	p("Definition FrameEntry : N := %d.", segment.FrameEntry)
	p("Definition FrameIndex : N := %d.", segment.FrameIndex)
	p("Definition FrameCommit : N := %d.", segment.FrameCommit)
	p("Definition FirstExternalCodecID : N := %d.", uint64(wal.FirstExternalCodecID))
	p("Definition CodecBinaryV1 : N := %d.", wal.CodecBinaryV1)
	p("Definition BinaryCodecID : N := %d.", (&wal.BinaryCodec{}).ID())
	p("Definition DefaultSegmentSize : N := %d.", uint64(wal.DefaultSegmentSize))
	p("Definition ExtensionMagicPrefix : N := %d.", verifier.ExtensionMagicPrefix)
	p("Definition MetaFileName : list N := %s. (* %q *)", coqStr(metadb.FileName), metadb.FileName)
	p("Definition MetaBucket : list N := %s. (* %q *)", coqStr(metadb.MetaBucket), metadb.MetaBucket)
	p("Definition StableBucket : list N := %s. (* %q *)", coqStr(metadb.StableBucket), metadb.StableBucket)
	p("Definition MetaKey : list N := %s. (* %q *)", coqStr(metadb.MetaKey), metadb.MetaKey)
	probe := segment.FileName(types.SegmentInfo{BaseIndex: 1234567, ID: 0xabcdef})
	p("Definition FileNameProbe : list N := %s. (* %q for BaseIndex=1234567 ID=0xabcdef *)", coqStr(probe), probe)
	return sb.String()
}

func runTranslate(which string) string {
	var sb strings.Builder
	sb.WriteString("=== Constants.v\n")
	sb.WriteString(translateConstants())
	for _, t := range extraTranslators {
		name, body := t()
		sb.WriteString("=== " + name + "\n")
		sb.WriteString(body)
	}
	return sb.String()
}

var extraTranslators []func() (string, string)
