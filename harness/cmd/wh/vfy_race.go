package main

// Implementation-only case of the vfy stream ("#race <ms>"): StoreLogs on one
// goroutine, head truncations (log compaction) on another, as hashicorp/raft
// does from its main and snapshot goroutines.  verifier.LogStore keeps
// (checksum, sumStartIdx) in two separate atomics that StoreLogs loads/stores
// and that DeleteRange resets, so the pair can be torn.  Every entry is intact
// and compaction only deletes below the end of the last DELIVERED report (every
// range verified later starts at or after it), so it never touches a range
// under verification and every ErrChecksumMismatch report is a false alarm.
//
// This was the defect of the unconditional reset (fixed by 8c5a9f9: only tail
// truncations reset, and raft issues those from the appending goroutine).  The
// model is sequential, so this case has no model line; it runs on every check
// (2 s quick, 10 s thorough, VFY_RACE_MS overrides), several independent
// stores in parallel.  Replay:  printf '#race 5000\n' | wh exec vfy

import (
	"errors"
	"fmt"
	"runtime"
	"sync"
	"sync/atomic"
	"time"

	"github.com/hashicorp/raft"
	"github.com/hashicorp/raft-wal/metrics"
	"github.com/hashicorp/raft-wal/verifier"
)

type raceResult struct {
	entries              uint64
	reports, rng, alarms int
	other                int
	first                string
}

func raceStress(d time.Duration, every uint64) raceResult {
	inm := raft.NewInmemStore()
	var mu sync.Mutex
	var res raceResult
	var safe atomic.Uint64 // compaction may delete below this index
	ls := verifier.NewLogStore(inm,
		func(l *raft.Log) (bool, error) { return len(l.Data) > 0 && l.Data[0] == 0xc0, nil },
		func(r verifier.VerificationReport) {
			mu.Lock()
			defer mu.Unlock()
			res.reports++
			if r.Range.End > safe.Load() {
				safe.Store(r.Range.End)
			}
			var cm verifier.ErrChecksumMismatch
			switch {
			case r.Err == nil:
			case errors.As(r.Err, &cm):
				res.alarms++
				if res.first == "" {
					res.first = r.Err.Error()
				}
			case errors.Is(r.Err, verifier.ErrRangeMismatch):
				res.rng++
			default:
				res.other++
			}
		}, &metrics.NoOpCollector{})
	var stop atomic.Bool
	var last atomic.Uint64
	var wg sync.WaitGroup
	wg.Add(2)
	go func() { // raft's main goroutine: appends
		defer wg.Done()
		for idx := uint64(1); !stop.Load(); idx++ {
			l := &raft.Log{Index: idx, Term: 1, Data: []byte{0x61, byte(idx)}}
			if idx%every == 0 {
				l.Data = []byte{0xc0}
			}
			if err := ls.StoreLogs([]*raft.Log{l}); err != nil {
				panic(err)
			}
			last.Store(idx)
		}
	}()
	go func() { // raft's snapshot goroutine: compaction, behind everything still to be verified
		defer wg.Done()
		for lo := uint64(1); !stop.Load(); {
			if lo < safe.Load() {
				if err := ls.DeleteRange(lo, lo); err != nil {
					panic(err)
				}
				lo++
			} else if lo > 1 {
				// nothing new to compact: repeat the last (now empty) head truncation, so
				// that DeleteRange keeps running against StoreLogs
				if err := ls.DeleteRange(lo-1, lo-1); err != nil {
					panic(err)
				}
			}
		}
	}()
	time.Sleep(d)
	stop.Store(true)
	wg.Wait()
	time.Sleep(50 * time.Millisecond)
	ls.Close()
	mu.Lock()
	defer mu.Unlock()
	res.entries = last.Load()
	return res
}

func execVfyRace(c *ctx, line string) string {
	var ms int
	if _, err := fmt.Sscanf(line, "#race %d", &ms); err != nil || ms <= 0 {
		return "badinput"
	}
	par := runtime.GOMAXPROCS(0) / 2
	if par < 1 {
		par = 1
	}
	if par > 4 {
		par = 4
	}
	results := make([]raceResult, par)
	var wg sync.WaitGroup
	for i := range results {
		wg.Add(1)
		go func(i int) {
			defer wg.Done()
			results[i] = raceStress(time.Duration(ms)*time.Millisecond, uint64(5+i))
		}(i)
	}
	wg.Wait()
	var t raceResult
	for _, r := range results {
		t.entries += r.entries
		t.reports += r.reports
		t.rng += r.rng
		t.alarms += r.alarms
		t.other += r.other
		if t.first == "" {
			t.first = r.first
		}
	}
	c.stat("race_runs")
	c.stats["race_entries"] += int(t.entries)
	c.stats["race_reports"] += t.reports
	if t.alarms > 0 {
		c.witness("C16", "storelogs-deleterange-race",
			fmt.Sprintf("StoreLogs concurrent with head truncation (compaction): %d false checksum alarms in %d reports over %d intact entries (first: %s)", t.alarms, t.reports, t.entries, t.first), line)
	}
	if t.rng+t.other > 0 {
		c.witness("C16", "race-case-unexpected-verdict",
			fmt.Sprintf("compaction stayed below every range still to be verified, yet %d range-mismatch and %d other verdicts", t.rng, t.other), line)
	}
	return fmt.Sprintf("stores=%d checksum_alarms=%d range_mismatch=%d other=%d", par, t.alarms, t.rng, t.other)
}
