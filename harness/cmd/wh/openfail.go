package main

import (
	"fmt"
	"math/rand"
	"os"
	"path/filepath"
	"sort"
	"strings"
	"time"

	"github.com/hashicorp/go-hclog"
	"github.com/hashicorp/raft"
	wal "github.com/hashicorp/raft-wal"
	"go.etcd.io/bbolt"
)

// openfail (C11, implementation only): directories on the real file system
// damaged so that Open must fail (sealed segment missing / shorter than its
// header / carrying another segment's header / garbage metadata record /
// foreign codec), then a second Open of the same directory in the same
// process, which must return (not block on a leaked BoltDB lock) and - once
// the damage is undone - succeed with the original contents.

func init() {
	streams["openfail"] = &stream{gen: genOpenFail, exec: inChild("openfail", "C11", execOpenFail)}
}

func genOpenFail(c *ctx, emit func(string)) {
	r := rand.New(rand.NewSource(c.seed))
	kinds := []string{"missing", "short", "swap", "metagarbage", "codec", "zerohdr", "badmagic"}
	for i := 0; i < c.n; i++ {
		emit(fmt.Sprintf("#of %s %d %d", kinds[i%len(kinds)], 7+r.Intn(6), r.Int63()))
	}
}

func openWithTimeout(dir string, d time.Duration, opts ...func(*wal.WAL)) (w *wal.WAL, err error, timedOut bool) {
	type res struct {
		w   *wal.WAL
		err error
	}
	ch := make(chan res, 1)
	go func() {
		w, err := wal.Open(dir, wal.WithSegmentSize(512), wal.WithLogger(hclog.NewNullLogger()))
		ch <- res{w, err}
	}()
	select {
	case r := <-ch:
		return r.w, r.err, false
	case <-time.After(d):
		return nil, nil, true
	}
}

func execOpenFail(c *ctx, line string) (obs string) {
	defer func() {
		if e := recover(); e != nil {
			c.witness("C11", "open-panic", fmt.Sprintf("panic: %v", e), line)
			obs = "panic"
		}
	}()
	var kind string
	var nb int
	var seed int64
	fmt.Sscanf(line, "#of %s %d %d", &kind, &nb, &seed)
	r := rand.New(rand.NewSource(seed))
	dir, err := os.MkdirTemp(c.work, "of")
	if err != nil {
		return "badinput"
	}
	defer os.RemoveAll(dir)
	w, err := wal.Open(dir, wal.WithSegmentSize(512), wal.WithLogger(hclog.NewNullLogger()))
	if err != nil {
		return "setup-failed"
	}
	idx := uint64(1)
	var want []string
	for b := 0; b < nb; b++ {
		var logs []*raft.Log
		for j := 0; j < 1+r.Intn(3); j++ {
			data := make([]byte, 40+r.Intn(200))
			r.Read(data)
			l := &raft.Log{Index: idx, Term: 1, Data: data}
			logs = append(logs, l)
			want = append(want, logFields(l, false))
			idx++
		}
		if err := w.StoreLogs(logs); err != nil {
			return "setup-failed"
		}
		w.DeleteRange(^uint64(0), ^uint64(0)) // wait for the rotation
	}
	w.Close()
	ents, _ := os.ReadDir(dir)
	var segs []string
	for _, e := range ents {
		if strings.HasSuffix(e.Name(), ".wal") {
			segs = append(segs, e.Name())
		}
	}
	sort.Strings(segs)
	if len(segs) < 3 {
		return "setup-too-small"
	}
	victim := filepath.Join(dir, segs[r.Intn(len(segs)-1)]) // a sealed segment (not the tail)
	saved, _ := os.ReadFile(victim)
	metaPath := filepath.Join(dir, "wal-meta.db")
	savedMeta, _ := os.ReadFile(metaPath)
	undo := func() { os.WriteFile(victim, saved, 0644); os.WriteFile(metaPath, savedMeta, 0644) }
	expectFail := true
	switch kind {
	case "missing":
		os.Remove(victim)
	case "short":
		os.Truncate(victim, int64(r.Intn(32)))
	case "zerohdr":
		b := append([]byte(nil), saved...)
		for i := 0; i < 32; i++ {
			b[i] = 0
		}
		os.WriteFile(victim, b, 0644)
	case "badmagic":
		b := append([]byte(nil), saved...)
		b[r.Intn(8)] ^= 1 << uint(r.Intn(8))
		os.WriteFile(victim, b, 0644)
	case "swap":
		other := filepath.Join(dir, segs[len(segs)-2])
		if other == victim {
			other = filepath.Join(dir, segs[0])
		}
		ob, _ := os.ReadFile(other)
		b := append(append([]byte(nil), ob[:32]...), saved[32:]...)
		os.WriteFile(victim, b, 0644)
		if string(ob[:32]) == string(saved[:32]) {
			expectFail = false
		}
	case "metagarbage":
		db, err := bbolt.Open(metaPath, 0644, nil)
		if err != nil {
			return "setup-failed"
		}
		db.Update(func(tx *bbolt.Tx) error {
			g := make([]byte, 5+r.Intn(60))
			r.Read(g)
			if r.Intn(2) == 0 {
				g = []byte(`{"NextSegmentID": "x", "Segments": [1,2`)
			}
			return tx.Bucket([]byte("wal-meta")).Put([]byte("m"), g)
		})
		db.Close()
	case "codec":
		// reopen with a custom codec id: every segment was written with the default codec
	}
	var w2 *wal.WAL
	var timedOut bool
	if kind == "codec" {
		ch := make(chan error, 1)
		go func() {
			ww, err := wal.Open(dir, wal.WithSegmentSize(512), wal.WithLogger(hclog.NewNullLogger()), wal.WithCodec(&idCodec{id: 1 << 20}))
			if err == nil {
				ww.Close()
			}
			ch <- err
		}()
		select {
		case err = <-ch:
		case <-time.After(10 * time.Second):
			timedOut = true
		}
	} else {
		w2, err, timedOut = openWithTimeout(dir, 10*time.Second)
	}
	if timedOut {
		c.witness("C11", "open-hangs", "Open of a damaged directory ("+kind+") did not return within 10s", line)
		return "hang"
	}
	c.stat("of_" + kind)
	if err == nil && expectFail {
		// Open succeeded although a sealed segment is damaged: contents must at least be intact
		if w2 != nil {
			w2.Close()
		}
		c.witness("C11", "open-accepts-damaged-"+kind, "Open succeeds on a directory whose sealed segment / metadata is damaged ("+kind+")", line)
		return "opened"
	}
	if err == nil && w2 != nil {
		w2.Close()
	}
	// second Open in the same process, damage undone: must not block and must present the original log
	undo()
	w3, err3, to3 := openWithTimeout(dir, 5*time.Second)
	if to3 {
		c.witness("C11", "open-blocks-after-failed-open", "a second Open in the same process blocks after a failed Open ("+kind+"): something is still locked", line)
		return "blocked"
	}
	if err3 != nil {
		c.witness("C11", "open-fails-after-undo", "Open still fails after the damage was undone: "+err3.Error(), line)
		return "err2"
	}
	defer w3.Close()
	f, _ := w3.FirstIndex()
	l, _ := w3.LastIndex()
	if f != 1 || l != idx-1 {
		c.witness("C11", "silent-shortening", fmt.Sprintf("after undo first/last = %d/%d, want 1/%d", f, l, idx-1), line)
		return "short"
	}
	for i := f; i <= l; i++ {
		var lg raft.Log
		if err := w3.GetLog(i, &lg); err != nil || logFields(&lg, false) != want[i-1] {
			c.witness("C11", "entry-damaged-after-undo", fmt.Sprintf("entry %d differs after undo", i), line)
			return "differs"
		}
	}
	return "ok"
}

// initcrash (C03, implementation only): the directory states a crash during the
// very first Open can leave behind on the real file system -- nothing, an empty /
// partial / complete wal-meta.db.tmp, the renamed wal-meta.db (with or without
// a left-over tmp), each optionally followed by further crashed first Opens --
// must all open, accept an append, and present it after a clean reopen.
func init() {
	streams["initcrash"] = &stream{gen: genInitCrash, exec: inChild("initcrash", "C03", execInitCrash)}
}

func genInitCrash(c *ctx, emit func(string)) {
	r := rand.New(rand.NewSource(c.seed))
	kinds := []string{"tmp-empty", "tmp-partial", "tmp-complete", "tmp-garbage", "final-and-tmp", "tmp-complete-twice"}
	for i := 0; i < c.n; i++ {
		emit(fmt.Sprintf("#ic %s %d", kinds[i%len(kinds)], r.Int63()))
	}
}

// a bolt file as metadb's init leaves it right before the rename
func completeTmp(path string) error {
	db, err := bbolt.Open(path, 0644, nil)
	if err != nil {
		return err
	}
	err = db.Update(func(tx *bbolt.Tx) error {
		if _, err := tx.CreateBucket([]byte("wal-meta")); err != nil {
			return err
		}
		_, err := tx.CreateBucket([]byte("stable"))
		return err
	})
	if cerr := db.Close(); err == nil {
		err = cerr
	}
	return err
}

func execInitCrash(c *ctx, line string) (obs string) {
	defer func() {
		if e := recover(); e != nil {
			c.witness("C03", "open-panic", fmt.Sprintf("panic: %v", e), line)
			obs = "panic"
		}
	}()
	var kind string
	var seed int64
	fmt.Sscanf(line, "#ic %s %d", &kind, &seed)
	r := rand.New(rand.NewSource(seed))
	dir, err := os.MkdirTemp(c.work, "ic")
	if err != nil {
		return "badinput"
	}
	defer os.RemoveAll(dir)
	tmp := filepath.Join(dir, "wal-meta.db.tmp")
	switch kind {
	case "tmp-empty":
		os.WriteFile(tmp, nil, 0644)
	case "tmp-partial", "tmp-garbage":
		if completeTmp(tmp) != nil {
			return "setup-failed"
		}
		b, _ := os.ReadFile(tmp)
		if kind == "tmp-partial" {
			os.WriteFile(tmp, b[:r.Intn(len(b))], 0644)
		} else {
			for k := 0; k < 1+r.Intn(64); k++ {
				b[r.Intn(len(b))] ^= byte(1 + r.Intn(255))
			}
			os.WriteFile(tmp, b, 0644)
		}
	case "tmp-complete", "tmp-complete-twice":
		if completeTmp(tmp) != nil {
			return "setup-failed"
		}
	case "final-and-tmp":
		// a first Open that completed, then a stray tmp file (cannot arise from the code's own
		// order, but is a state `Open` must tolerate: it only ever deletes the tmp name)
		w, err := wal.Open(dir, wal.WithSegmentSize(512), wal.WithLogger(hclog.NewNullLogger()))
		if err != nil {
			return "setup-failed"
		}
		w.Close()
		os.WriteFile(tmp, []byte("left over"), 0644)
	}
	c.stat("ic_" + kind)
	rounds := 1
	if kind == "tmp-complete-twice" {
		rounds = 2
	}
	for k := 0; k < rounds; k++ {
		w, err, to := openWithTimeout(dir, 10*time.Second)
		if to {
			c.witness("C03", "open-hangs-after-init-crash", "Open does not return on the directory a crashed first Open leaves ("+kind+")", line)
			return "hang"
		}
		if err != nil {
			c.witness("C03", "open-fails-after-init-crash", fmt.Sprintf("Open fails on the directory a crashed first Open leaves (%s): %v", kind, err), line)
			return "openerr"
		}
		idx := uint64(k + 1)
		if err := w.StoreLogs([]*raft.Log{{Index: idx, Term: 1, Data: []byte("after init crash")}}); err != nil {
			w.Close()
			c.witness("C03", "append-refused-after-recovery", fmt.Sprintf("StoreLogs refused after recovering from an init crash (%s): %v", kind, err), line)
			return "storeerr"
		}
		w.Close()
		if k+1 < rounds {
			// crash of another "first" Open: a complete tmp appears again next to the live DB
			if completeTmp(tmp) != nil {
				return "setup-failed"
			}
		}
	}
	w, err, to := openWithTimeout(dir, 10*time.Second)
	if to || err != nil {
		c.witness("C03", "open-fails-after-init-crash", fmt.Sprintf("clean reopen fails after an init crash (%s): %v", kind, err), line)
		return "reopenerr"
	}
	defer w.Close()
	var lg raft.Log
	for k := 1; k <= rounds; k++ {
		if err := w.GetLog(uint64(k), &lg); err != nil || string(lg.Data) != "after init crash" {
			c.witness("C01", "acked-entry-lost", fmt.Sprintf("entry %d acknowledged after an init crash (%s) is not returned after reopen: %v", k, kind, err), line)
			return "lost"
		}
	}
	return "ok"
}
