package main

import (
	"fmt"
	"math"
	"math/rand"
	"runtime"
	"strings"
	"time"

	"github.com/hashicorp/go-hclog"
	"github.com/hashicorp/raft"
	wal "github.com/hashicorp/raft-wal"
	"github.com/hashicorp/raft-wal/segment"
	"github.com/hashicorp/raft-wal/types"
)

// metafuzz (C11, implementation only): a directory written by the real WAL whose
// stored metadata record is then damaged while staying decodable -- a field of
// one SegmentInfo or of the record edited (BaseIndex/MinIndex/MaxIndex/ID/
// IndexStart/SizeLimit/Codec/SealTime/NextSegmentID; set to 0, off by one, huge,
// a neighbour's value), segments dropped, duplicated or swapped.  Open, then (if
// it succeeds) FirstIndex/LastIndex, GetLog around every index that ever
// existed, an append, a truncation and Close must return (value or error):
// no panic, no hang, no allocation beyond file sizes + MaxEntrySize.

func init() { streams["metafuzz"] = &stream{gen: genMetaFuzz, exec: execMetaFuzz} }

func genMetaFuzz(c *ctx, emit func(string)) {
	r := rand.New(rand.NewSource(c.seed))
	for i := 0; i < c.n; i++ {
		emit(fmt.Sprintf("#mf %d", r.Int63()))
	}
}

func execMetaFuzz(c *ctx, line string) string {
	type res struct{ obs string }
	ch := make(chan res, 1)
	go func() { ch <- res{execMetaFuzz1(c, line)} }()
	select {
	case r := <-ch:
		return r.obs
	case <-time.After(30 * time.Second):
		c.witness("C11", "meta-hang", "Open/GetLog/StoreLogs/DeleteRange/Close do not return within 30 s on a damaged metadata record", line)
		return "hang"
	}
}

func execMetaFuzz1(c *ctx, line string) (obs string) {
	stage := "setup"
	what := ""
	defer func() {
		if e := recover(); e != nil {
			obs = "panic"
			c.witness("C11", "meta-panic", fmt.Sprintf("panic in %s after %s: %v", stage, what, e), line)
		}
	}()
	var seed int64
	fmt.Sscanf(line, "#mf %d", &seed)
	r := rand.New(rand.NewSource(seed))
	cfs := newCrashFS()
	seg := []int{256, 512, 1024}[r.Intn(3)]
	open := func() (*wal.WAL, error) {
		return wal.Open("d", wal.WithSegmentFiler(segment.NewFiler("d", cfs)), wal.WithMetaStore(&cmeta{fs: cfs}),
			wal.WithSegmentSize(seg), wal.WithLogger(hclog.NewNullLogger()))
	}
	w, err := open()
	if err != nil {
		return "badinput"
	}
	next := uint64(1 + r.Intn(50))
	first := next
	hi := next
	for k, steps := 0, 3+r.Intn(10); k < steps; k++ {
		switch x := r.Intn(10); {
		case x < 7:
			var logs []*raft.Log
			for j, m := 0, 1+r.Intn(4); j < m; j++ {
				d := make([]byte, []int{0, 1, 8, 30, 90, 200}[r.Intn(6)])
				r.Read(d)
				logs = append(logs, &raft.Log{Index: next, Term: 1, Data: d})
				next++
			}
			w.StoreLogs(logs)
			w.DeleteRange(math.MaxUint64, math.MaxUint64) // waits for the background rotation
		case x < 8 && next > first+1:
			mx := first + uint64(r.Intn(int(next-first)))
			if w.DeleteRange(first, mx) == nil {
				first = mx + 1
			}
		case x < 9 && next > first+1:
			mn := first + 1 + uint64(r.Intn(int(next-first-1)))
			if w.DeleteRange(mn, next-1) == nil {
				next = mn
			}
		}
		if next > hi {
			hi = next
		}
	}
	w.Close()
	if cfs.meta == nil || len(cfs.meta.Segments) == 0 {
		return "empty"
	}
	// damage the record
	ps := clonePS(*cfs.meta)
	val := func(old uint64) uint64 {
		switch r.Intn(8) {
		case 0:
			return 0
		case 1:
			return old + 1
		case 2:
			return old - 1
		case 3:
			return old + uint64(1+r.Intn(40))
		case 4:
			return old - uint64(1+r.Intn(40))
		case 5:
			return math.MaxUint64 - uint64(r.Intn(3))
		case 6:
			return uint64(r.Intn(1 << 20))
		default:
			return r.Uint64()
		}
	}
	var did []string
	for k, m := 0, 1+r.Intn(2); k < m; k++ {
		i := r.Intn(len(ps.Segments))
		s := &ps.Segments[i]
		switch f := r.Intn(13); f {
		case 0:
			s.BaseIndex = val(s.BaseIndex)
			did = append(did, fmt.Sprintf("seg%d.BaseIndex=%d", i, s.BaseIndex))
		case 1:
			s.MinIndex = val(s.MinIndex)
			did = append(did, fmt.Sprintf("seg%d.MinIndex=%d", i, s.MinIndex))
		case 2:
			s.MaxIndex = val(s.MaxIndex)
			did = append(did, fmt.Sprintf("seg%d.MaxIndex=%d", i, s.MaxIndex))
		case 3:
			s.ID = val(s.ID)
			did = append(did, fmt.Sprintf("seg%d.ID=%d", i, s.ID))
		case 4:
			s.IndexStart = val(s.IndexStart)
			did = append(did, fmt.Sprintf("seg%d.IndexStart=%d", i, s.IndexStart))
		case 5:
			s.SizeLimit = uint32(val(uint64(s.SizeLimit)))
			did = append(did, fmt.Sprintf("seg%d.SizeLimit=%d", i, s.SizeLimit))
		case 6:
			s.Codec = val(s.Codec)
			did = append(did, fmt.Sprintf("seg%d.Codec=%d", i, s.Codec))
		case 7:
			if s.SealTime.IsZero() {
				s.SealTime = time.Unix(1700000000, 0)
				did = append(did, fmt.Sprintf("seg%d sealed", i))
			} else {
				s.SealTime = time.Time{}
				did = append(did, fmt.Sprintf("seg%d unsealed", i))
			}
		case 8:
			ps.NextSegmentID = val(ps.NextSegmentID)
			did = append(did, fmt.Sprintf("NextSegmentID=%d", ps.NextSegmentID))
		case 9:
			ps.Segments = append(ps.Segments[:i], ps.Segments[i+1:]...)
			did = append(did, fmt.Sprintf("seg%d dropped", i))
		case 10:
			ps.Segments = append(ps.Segments[:i+1], ps.Segments[i:]...)
			did = append(did, fmt.Sprintf("seg%d duplicated", i))
		case 11:
			j := r.Intn(len(ps.Segments))
			ps.Segments[i], ps.Segments[j] = ps.Segments[j], ps.Segments[i]
			did = append(did, fmt.Sprintf("seg%d<->seg%d", i, j))
		default:
			j := r.Intn(len(ps.Segments))
			s.MinIndex, s.MaxIndex = ps.Segments[j].MinIndex, ps.Segments[j].MaxIndex
			did = append(did, fmt.Sprintf("seg%d gets the range of seg%d", i, j))
		}
		if len(ps.Segments) == 0 {
			break
		}
	}
	what = strings.Join(did, ", ")
	cfs.meta = &ps
	cfs.maxCreate = 4 << 20
	total := 0
	for _, f := range cfs.files {
		total += len(f.data)
	}
	c.stat("metafuzz_cases")
	var m0, m1 runtime.MemStats
	runtime.ReadMemStats(&m0)
	stage = "Open"
	w2, err := open()
	if err != nil {
		c.stat("metafuzz_open_refused")
		// C11: a failed Open leaves nothing open
		return "openerr"
	}
	c.stat("metafuzz_open_ok")
	stage = "FirstIndex/LastIndex"
	fi, _ := w2.FirstIndex()
	la, _ := w2.LastIndex()
	stage = "GetLog"
	lo := uint64(1)
	top := hi + 3
	var lg raft.Log
	for idx := lo; idx <= top; idx++ {
		w2.GetLog(idx, &lg)
	}
	for _, idx := range []uint64{0, fi, la, la + 1, fi - 1, math.MaxUint64, math.MaxUint64 - 1} {
		w2.GetLog(idx, &lg)
	}
	for _, s := range ps.Segments {
		for _, idx := range []uint64{s.BaseIndex, s.BaseIndex - 1, s.MinIndex, s.MinIndex - 1, s.MaxIndex, s.MaxIndex + 1} {
			w2.GetLog(idx, &lg)
		}
	}
	stage = "StoreLogs"
	w2.StoreLogs([]*raft.Log{{Index: la + 1, Term: 2, Data: []byte("x")}})
	w2.DeleteRange(math.MaxUint64, math.MaxUint64)
	stage = "DeleteRange"
	if la > fi {
		w2.DeleteRange(fi, fi+(la-fi)/2)
		w2.DeleteRange(la, la+1)
	}
	stage = "Close"
	w2.Close()
	runtime.ReadMemStats(&m1)
	if d := m1.TotalAlloc - m0.TotalAlloc; d > uint64(8*total)+uint64(segMaxEntry)+2*(4<<20)+allocSlack {
		c.witness("C11", "meta-alloc", fmt.Sprintf("%d bytes allocated on a directory of %d bytes after %s", d, total, what), line)
	}
	_ = types.ErrCorrupt
	return "ok"
}
