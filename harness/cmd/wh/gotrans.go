package main

import (
	"fmt"
	"go/ast"
	"go/constant"
	"go/parser"
	"go/token"
	"go/types"
	"os"
	"path/filepath"
	"sort"
	"strings"
)

// Gen/Source.v: every package-level integer/string constant (exported or not)
// of the non-test source of the listed packages, as the Go type checker
// evaluates it, and every top-level function whose parameters and results are
// integers and whose body is straight-line integer arithmetic (return / if),
// translated expression by expression into Gallina over Z.
//
// Go semantics kept by the translation: `/` is Z.quot and `%` is Z.rem
// (truncation towards zero), `&`, `|`, `^`, `<<`, `>>` are the Z bit
// operations; not kept: wrap-around at 64 bits (the tie theorems in
// Fmt/SourceTie.v are stated for 0 <= n < 2^62, where none occurs).

func init() { extraTranslators = append(extraTranslators, translateSource) }

type stubImporter struct{}

func (stubImporter) Import(path string) (*types.Package, error) {
	name := path
	if i := strings.LastIndex(path, "/"); i >= 0 {
		name = path[i+1:]
	}
	name = strings.TrimPrefix(name, "go-")
	p := types.NewPackage(path, name)
	p.MarkComplete()
	return p, nil
}

var srcPackages = []struct{ dir, prefix string }{
	{"segment", "segment"}, {".", "wal"}, {"verifier", "verifier"}, {"metadb", "metadb"},
	{"migrate", "migrate"}, {"types", "types"}, {"fs", "fs"},
}

func isIntType(t types.Type) bool {
	b, ok := t.Underlying().(*types.Basic)
	return ok && b.Info()&types.IsInteger != 0
}

type fnTrans struct {
	prefix string
	info   *types.Info
	pkg    *types.Package
	done   map[string]bool // translated function names
	params map[string]bool
}

var binOps = map[token.Token]string{
	token.ADD: "Z.add", token.SUB: "Z.sub", token.MUL: "Z.mul", token.QUO: "Z.quot", token.REM: "Z.rem",
	token.AND: "Z.land", token.OR: "Z.lor", token.XOR: "Z.lxor", token.SHL: "Z.shiftl", token.SHR: "Z.shiftr",
	token.EQL: "Z.eqb", token.LSS: "Z.ltb", token.LEQ: "Z.leb", token.GTR: "Z.gtb", token.GEQ: "Z.geb",
}

func (t *fnTrans) expr(e ast.Expr) (string, bool) {
	// anything the type checker folded to an integer constant
	if tv, ok := t.info.Types[e]; ok && tv.Value != nil && tv.Value.Kind() == constant.Int {
		if id, ok := e.(*ast.Ident); ok {
			if _, isConst := t.info.Uses[id].(*types.Const); isConst && t.info.Uses[id].Parent() == t.pkg.Scope() {
				return t.prefix + "_" + id.Name, true
			}
		}
		return "(" + tv.Value.ExactString() + ")", true
	}
	switch x := e.(type) {
	case *ast.ParenExpr:
		return t.expr(x.X)
	case *ast.Ident:
		if t.params[x.Name] {
			return x.Name + "_", true
		}
	case *ast.BinaryExpr:
		a, ok1 := t.expr(x.X)
		b, ok2 := t.expr(x.Y)
		if !ok1 || !ok2 {
			return "", false
		}
		switch x.Op {
		case token.NEQ:
			return fmt.Sprintf("(negb (Z.eqb %s %s))", a, b), true
		case token.LAND:
			return fmt.Sprintf("(andb %s %s)", a, b), true
		case token.LOR:
			return fmt.Sprintf("(orb %s %s)", a, b), true
		}
		if op, ok := binOps[x.Op]; ok {
			return fmt.Sprintf("(%s %s %s)", op, a, b), true
		}
	case *ast.CallExpr:
		if id, ok := x.Fun.(*ast.Ident); ok {
			if t.done[id.Name] {
				s := "(" + t.prefix + "_fn_" + id.Name
				for _, a := range x.Args {
					as, ok := t.expr(a)
					if !ok {
						return "", false
					}
					s += " " + as
				}
				return s + ")", true
			}
			// integer conversion int(x), uint64(x): identity (no wrap modelled)
			if tv, ok := t.info.Types[x.Fun]; ok && tv.IsType() && isIntType(tv.Type) && len(x.Args) == 1 {
				return t.expr(x.Args[0])
			}
		}
	}
	return "", false
}

// stmts: `if c { return a }` ... `return b`
func (t *fnTrans) stmts(ss []ast.Stmt) (string, bool) {
	if len(ss) == 0 {
		return "", false
	}
	switch s := ss[0].(type) {
	case *ast.ReturnStmt:
		if len(s.Results) != 1 {
			return "", false
		}
		return t.expr(s.Results[0])
	case *ast.IfStmt:
		if s.Init != nil {
			return "", false
		}
		c, ok := t.expr(s.Cond)
		if !ok {
			return "", false
		}
		th, ok := t.stmts(s.Body.List)
		if !ok {
			return "", false
		}
		var el string
		if s.Else != nil {
			blk, isBlk := s.Else.(*ast.BlockStmt)
			if !isBlk {
				return "", false
			}
			el, ok = t.stmts(blk.List)
		} else {
			el, ok = t.stmts(ss[1:])
		}
		if !ok {
			return "", false
		}
		return fmt.Sprintf("(if %s then %s else %s)", c, th, el), true
	}
	return "", false
}

func translateSource() (string, string) {
	repo := os.Getenv("WH_REPO")
	if repo == "" {
		repo = "/repo"
	}
	var sb strings.Builder
	p := func(f string, a ...interface{}) { fmt.Fprintf(&sb, f+"\n", a...) }
	p("(* GENERATED from /repo's source by `wh translate` (go/parser + go/types) on every check run -- do not edit. *)")
	p("From Coq Require Import ZArith NArith List Bool. Import ListNotations. Open Scope Z_scope.")
	var skipped []string
	for _, sp := range srcPackages {
		fset := token.NewFileSet()
		pkgs, err := parser.ParseDir(fset, filepath.Join(repo, sp.dir), func(fi os.FileInfo) bool {
			return !strings.HasSuffix(fi.Name(), "_test.go")
		}, parser.ParseComments)
		if err != nil {
			p("(* %s: parse error %v *)", sp.dir, err)
			continue
		}
		for _, ap := range pkgs {
			if strings.HasSuffix(ap.Name, "_test") || ap.Name == "main" {
				continue
			}
			var names []string
			for fn := range ap.Files {
				names = append(names, fn)
			}
			sort.Strings(names)
			var files []*ast.File
			for _, fn := range names {
				f := ap.Files[fn]
				tagged := false
				for _, cg := range f.Comments {
					for _, c := range cg.List {
						if strings.HasPrefix(c.Text, "//go:build") && strings.Contains(c.Text, "verif") && !strings.Contains(c.Text, "!verif") {
							tagged = true
						}
					}
				}
				if !tagged {
					files = append(files, f)
				}
			}
			info := &types.Info{Types: map[ast.Expr]types.TypeAndValue{}, Defs: map[*ast.Ident]types.Object{}, Uses: map[*ast.Ident]types.Object{}}
			conf := types.Config{Importer: stubImporter{}, Error: func(error) {}}
			pkg, _ := conf.Check(sp.prefix, fset, files, info)
			if pkg == nil {
				p("(* %s: type check produced no package *)", sp.dir)
				continue
			}
			p("")
			p("(* ---- package %s (%s) ---- *)", ap.Name, sp.dir)
			// constants in source order
			type cdef struct {
				pos  token.Pos
				name string
				c    *types.Const
			}
			var cs []cdef
			for _, n := range pkg.Scope().Names() {
				if c, ok := pkg.Scope().Lookup(n).(*types.Const); ok {
					cs = append(cs, cdef{c.Pos(), n, c})
				}
			}
			sort.Slice(cs, func(i, j int) bool { return cs[i].pos < cs[j].pos })
			for _, c := range cs {
				v := c.c.Val()
				switch v.Kind() {
				case constant.Int:
					p("Definition %s_%s : Z := %s.", sp.prefix, c.name, v.ExactString())
				case constant.String:
					p("Definition %s_%s : list N := %s%%N. (* %s *)", sp.prefix, c.name, coqStr(constant.StringVal(v)), strings.ReplaceAll(v.ExactString(), "*)", "* )"))
				}
			}
			// package-level variables initialised by a constant integer expression
			for _, f := range files {
				for _, d := range f.Decls {
					gd, ok := d.(*ast.GenDecl)
					if !ok || gd.Tok != token.VAR {
						continue
					}
					for _, sp2 := range gd.Specs {
						vs := sp2.(*ast.ValueSpec)
						for i, n := range vs.Names {
							if n.Name == "_" || i >= len(vs.Values) {
								continue
							}
							if tv, ok := info.Types[vs.Values[i]]; ok && tv.Value != nil && tv.Value.Kind() == constant.Int {
								p("Definition %s_var_%s : Z := %s. (* initial value of a package variable *)", sp.prefix, n.Name, tv.Value.ExactString())
							}
						}
					}
				}
			}
			// functions: fixed point over "callable" set
			t := &fnTrans{prefix: sp.prefix, info: info, pkg: pkg, done: map[string]bool{}}
			type fdef struct {
				name string
				decl *ast.FuncDecl
			}
			var cands []fdef
			for _, f := range files {
				for _, d := range f.Decls {
					fd, ok := d.(*ast.FuncDecl)
					if !ok || fd.Recv != nil || fd.Body == nil || fd.Type.Results == nil || len(fd.Type.Results.List) != 1 {
						continue
					}
					obj, ok := info.Defs[fd.Name].(*types.Func)
					if !ok {
						continue
					}
					sig := obj.Type().(*types.Signature)
					good := sig.Results().Len() == 1 && isIntType(sig.Results().At(0).Type()) && sig.Params().Len() > 0
					for i := 0; good && i < sig.Params().Len(); i++ {
						good = isIntType(sig.Params().At(i).Type()) && sig.Params().At(i).Name() != "" && sig.Params().At(i).Name() != "_"
					}
					if good {
						cands = append(cands, fdef{fd.Name.Name, fd})
					}
				}
			}
			for progress := true; progress; {
				progress = false
				for _, c := range cands {
					if t.done[c.name] {
						continue
					}
					t.params = map[string]bool{}
					var ps []string
					for _, fl := range c.decl.Type.Params.List {
						for _, n := range fl.Names {
							t.params[n.Name] = true
							ps = append(ps, "("+n.Name+"_ : Z)")
						}
					}
					body, ok := t.stmts(c.decl.Body.List)
					if !ok {
						continue
					}
					pos := fset.Position(c.decl.Pos())
					p("(* %s:%d func %s *)", filepath.Base(pos.Filename), pos.Line, c.name)
					p("Definition %s_fn_%s %s : Z := %s.", sp.prefix, c.name, strings.Join(ps, " "), body)
					t.done[c.name] = true
					progress = true
				}
			}
			for _, c := range cands {
				if !t.done[c.name] {
					skipped = append(skipped, sp.prefix+"."+c.name)
				}
			}
		}
	}
	// schedule points: every verifPoint("<name>") call in the non-test, non-hook source,
	// with the enclosing function (the L3 models' atomic steps are cut at these points)
	type hp struct{ name, fn string }
	var hps []hp
	for _, dir := range []string{".", "segment"} {
		fset := token.NewFileSet()
		pkgs, err := parser.ParseDir(fset, filepath.Join(repo, dir), func(fi os.FileInfo) bool {
			return !strings.HasSuffix(fi.Name(), "_test.go") && !strings.HasPrefix(fi.Name(), "verifhook")
		}, 0)
		if err != nil {
			continue
		}
		for _, ap := range pkgs {
			for _, f := range ap.Files {
				for _, d := range f.Decls {
					fd, ok := d.(*ast.FuncDecl)
					if !ok || fd.Body == nil {
						continue
					}
					ast.Inspect(fd.Body, func(n ast.Node) bool {
						call, ok := n.(*ast.CallExpr)
						if !ok || len(call.Args) != 1 {
							return true
						}
						id, ok := call.Fun.(*ast.Ident)
						if !ok || id.Name != "verifPoint" {
							return true
						}
						if lit, ok := call.Args[0].(*ast.BasicLit); ok && lit.Kind == token.STRING {
							hps = append(hps, hp{strings.Trim(lit.Value, "\""), fd.Name.Name})
						} else {
							hps = append(hps, hp{"<non-literal>", fd.Name.Name})
						}
						return true
					})
				}
			}
		}
	}
	sort.Slice(hps, func(i, j int) bool { return hps[i].name < hps[j].name })
	p("")
	p("(* ---- schedule points (verifPoint call sites; name, enclosing function) ---- *)")
	p("Definition hook_points : list (list N * list N) :=")
	for i, h := range hps {
		sep := ";"
		if i == len(hps)-1 {
			sep = ""
		}
		p("  %s(%s%%N, %s%%N)%s (* %s in %s *)", map[bool]string{true: "[ ", false: "  "}[i == 0], coqStr(h.name), coqStr(h.fn), sep, h.name, h.fn)
	}
	if len(hps) == 0 {
		p("  [")
	}
	p("  ].")
	p("")
	p("(* integer functions not translated (body outside the straight-line fragment): %s *)", strings.Join(skipped, ", "))
	return "Source.v", sb.String()
}
