package main

// `fsf` lines of the fstrace stream (C07): fs-layer call sequences -- including
// invalid calls (Create of an existing name, OpenWriter / Delete of a missing
// name) -- executed by the child `wh fschild fsf ...` against the PRODUCTION
// fs.FS + metadb.BoltMetaDB under
//
//	strace -e inject=<syscall>:error=<ERRNO>:when=<N>
//
// with ONE injected syscall failure.
//
//	fsf <segsize> <fault> <fsop>...    fault: - | <syscall>:<errno>:<k>
//
// <k> (hex, 1-based) counts the *injectable* calls of <syscall> the fs layer
// makes (the calls the model of coq/Fs/Discipline.v draws from its fault
// counter: see fsfClass).  strace's when=N counts every invocation of the
// syscall in the thread, whatever the path, so N is calibrated: the same ops
// run once without injection, the k-th injectable call is located in that
// log and its per-thread ordinal is N.  fs-layer sequences are deterministic
// (the child pins itself to the main thread), and the injected run is
// validated: exactly one call carries strace's "(INJECTED)" note and it is
// the call that was aimed at.
//
// Observation: per call its projected syscalls -- failed ones prefixed by '!',
// the directory open of syncDir as oD -- followed by the call's result =ok |
// =err (reported by the child through marker syscalls).  Independent of the
// model, fsfOracle checks the C07 clauses on what was observed.

import (
	"bufio"
	"fmt"
	"math/rand"
	"os"
	"os/exec"
	"path/filepath"
	"strconv"
	"strings"
)

// Stream `fsfault`: fsf lines only (same executor as fstrace, which also accepts
// them), so that their number is set independently in tools/props.py.
func init() {
	streams["fsfault"] = &stream{
		gen:  func(c *ctx, emit func(string)) { genFsf(c, rand.New(rand.NewSource(c.seed)), emit, c.n) },
		exec: execFstrace,
	}
}

// one completed syscall of the strace log
type scall struct {
	pid      string
	name     string
	args     string
	ret      string
	failed   bool
	injected bool
	ord      int // 1-based ordinal of this syscall name within its thread, counted at entry
	ackEntry bool
}

// parseStrace joins `<unfinished ...>` / `resumed` pairs (position = the line
// on which the call completes) and numbers the calls per thread and syscall
// name in the order of their ENTRY (what strace's when=N counts).
func parseStrace(f *os.File) (calls []scall, raw int) {
	type pend struct {
		head string
		ord  int
	}
	pending := map[string]pend{}
	count := map[string]int{} // pid + " " + name
	sc := bufio.NewScanner(f)
	sc.Buffer(make([]byte, 1<<20), 1<<26)
	entryName := func(s string) string {
		if i := strings.Index(s, "("); i > 0 {
			return s[:i]
		}
		return ""
	}
	for sc.Scan() {
		raw++
		m := reLine.FindStringSubmatch(sc.Text())
		if m == nil {
			continue
		}
		pid, rest := m[1], m[2]
		ord := 0
		if strings.HasSuffix(rest, "<unfinished ...>") {
			head := strings.TrimSuffix(rest, " <unfinished ...>")
			n := entryName(head)
			count[pid+" "+n]++
			pending[pid] = pend{head, count[pid+" "+n]}
			continue
		} else if rm := reResumed.FindStringSubmatch(rest); rm != nil {
			p, ok := pending[pid]
			if !ok {
				continue
			}
			delete(pending, pid)
			rest = p.head + rm[2]
			ord = p.ord
		}
		cm := reCall.FindStringSubmatch(rest)
		if cm == nil {
			continue // signals, exit notes
		}
		if ord == 0 {
			count[pid+" "+cm[1]]++
			ord = count[pid+" "+cm[1]]
		}
		calls = append(calls, scall{pid: pid, name: cm[1], args: cm[2], ret: cm[3],
			failed:   cm[3] == "?" || strings.HasPrefix(cm[3], "-"),
			injected: strings.Contains(cm[4], "(INJECTED)"), ord: ord})
	}
	return calls, raw
}

// a projected event of an fsf run
type fsfEvent struct {
	tok   string // event token, '!' prefix if the syscall failed; "=ok" / "=err"
	class string // syscall name if the model treats this call as injectable, else ""
	call  *scall
}

// fsfClass: which projected events draw from the model's fault counter
// (Discipline.v: every use of `sys`).  fdatasync is decided by the caller (only
// the first one of a bbolt I/O run).
func fsfClass(tok string) string {
	t := strings.TrimPrefix(tok, "!")
	f := strings.Split(t, ":")
	seg := len(f) > 1 && strings.HasPrefix(f[1], "s")
	switch f[0] {
	case "x", "o":
		if seg {
			return "openat"
		}
	case "c":
		if f[1] == "t" || f[1] == "m" {
			return "openat"
		}
	case "oD":
		return "openat"
	case "fa":
		if seg {
			return "fallocate"
		}
	case "w":
		if seg {
			return "pwrite64"
		}
	case "fs":
		if seg {
			return "fsync"
		}
	case "fD":
		return "fsync"
	case "u":
		if seg {
			return "unlinkat"
		}
	case "r":
		if t == "r:t:m" {
			return "renameat"
		}
	}
	return ""
}

func isMetaIOTok(tok string) (file string, io bool) {
	f := strings.Split(strings.TrimPrefix(tok, "!"), ":")
	if len(f) < 2 || (f[1] != "m" && f[1] != "t") {
		return "", false
	}
	switch f[0] {
	case "w", "tr", "fa", "fs", "fd":
		return f[1], true
	}
	return "", false
}

// projectFsf: the calls between the start and end markers that concern the WAL
// directory, failed ones included.
func projectFsf(calls []scall, dir string) (evs []fsfEvent, problem string) {
	noth := 0
	others := map[string]string{}
	tok := func(path string) (string, bool) {
		path = strings.TrimSuffix(path, " (deleted)")
		if !strings.HasPrefix(path, dir+"/") {
			return "", false
		}
		b := path[len(dir)+1:]
		if strings.Contains(b, "/") {
			return "", false
		}
		switch {
		case b == "wal-meta.db":
			return "m", true
		case b == "wal-meta.db.tmp":
			return "t", true
		case strings.HasSuffix(b, ".wal") && len(b) > 20:
			// the child names segment <v> "%020d-%016x.wal": the token is the number
			// itself, so names that never come to exist have a token too
			if v, err := strconv.ParseUint(b[:20], 10, 64); err == nil {
				return fmt.Sprintf("s%x", v), true
			}
		}
		if t, ok := others[b]; ok {
			return t, true
		}
		t := fmt.Sprintf("o%x", noth)
		noth++
		others[b] = t
		return t, true
	}
	writable := map[string]bool{}
	started, ended := false, false
	for i := range calls {
		c := &calls[i]
		add := func(t string) {
			if c.failed {
				t = "!" + t
			}
			evs = append(evs, fsfEvent{tok: t, call: c})
		}
		if c.name == "faccessat" || c.name == "faccessat2" {
			sm := reStr.FindStringSubmatch(c.args)
			if sm == nil || !strings.HasPrefix(sm[1], "/verif-mark/") {
				continue
			}
			p := strings.Split(sm[1], "/")
			if len(p) != 5 {
				continue
			}
			switch {
			case p[2] == "start":
				started = true
				evs = evs[:0]
			case p[2] == "end":
				ended = true
			case started && !ended && p[4] == "ok":
				evs = append(evs, fsfEvent{tok: "=ok", call: c})
			case started && !ended && p[4] == "err":
				evs = append(evs, fsfEvent{tok: "=err", call: c})
			}
			continue
		}
		if !started || ended || c.ret == "?" {
			continue
		}
		switch c.name {
		case "openat":
			sm := reStr.FindStringSubmatch(c.args)
			if sm == nil {
				continue
			}
			after := c.args[strings.Index(c.args, sm[0])+len(sm[0]):]
			flags := strings.TrimPrefix(after, ", ")
			if j := strings.Index(flags, ","); j >= 0 {
				flags = flags[:j]
			}
			fl := map[string]bool{}
			for _, x := range strings.Split(flags, "|") {
				fl[strings.TrimSpace(x)] = true
			}
			if sm[1] == dir {
				add("oD")
				continue
			}
			t, ok := tok(sm[1])
			if !ok {
				continue
			}
			switch {
			case fl["O_CREAT"] && fl["O_EXCL"]:
				add("x:" + t)
			case fl["O_CREAT"]:
				add("c:" + t)
			case fl["O_RDWR"] || fl["O_WRONLY"]:
				add("o:" + t)
			}
			if !c.failed {
				writable[c.ret] = fl["O_CREAT"] || fl["O_RDWR"] || fl["O_WRONLY"]
			}
		case "fallocate", "pwrite64", "write", "fsync", "fdatasync", "close", "ftruncate":
			fm := reFdArg.FindStringSubmatch(c.args)
			if fm == nil {
				continue
			}
			path, tail := strings.TrimSuffix(fm[2], " (deleted)"), fm[3]
			if path == dir {
				if c.name == "fsync" || c.name == "fdatasync" {
					add("fD")
				}
				continue
			}
			t, ok := tok(path)
			if !ok {
				continue
			}
			var v []uint64 // numeric arguments after the fd
			for _, x := range strings.Split(tail, ", ") {
				x = strings.TrimSpace(x)
				if n, err := strconv.ParseUint(x, 0, 64); err == nil {
					v = append(v, n)
				} else if strings.Contains(x, "|") || strings.HasPrefix(x, "FALLOC_") {
					v = append(v, 1)
				}
			}
			switch c.name {
			case "fallocate":
				if len(v) != 3 {
					return nil, "unparsable fallocate: " + c.args
				}
				add(fmt.Sprintf("fa:%s:%x:%x:%x", t, v[0], v[1], v[2]))
			case "pwrite64":
				if len(v) < 2 {
					return nil, "unparsable pwrite64: " + c.args
				}
				n := v[len(v)-2] // requested count; a successful call reports what it wrote
				if !c.failed {
					n, _ = strconv.ParseUint(c.ret, 10, 64)
				}
				add(fmt.Sprintf("w:%s:%x:%x", t, v[len(v)-1], n))
			case "write":
				n, _ := strconv.ParseUint(c.ret, 10, 64)
				add(fmt.Sprintf("w:%s:0:%x", t, n))
			case "ftruncate":
				if len(v) == 1 {
					add(fmt.Sprintf("tr:%s:%x", t, v[0]))
				}
			case "fsync":
				add("fs:" + t)
			case "fdatasync":
				add("fd:" + t)
			case "close":
				if writable[fm[1]] {
					add("cl:" + t)
				}
				delete(writable, fm[1])
			}
		case "renameat", "renameat2", "rename":
			sm := reStr.FindAllStringSubmatch(c.args, -1)
			if len(sm) != 2 {
				continue
			}
			a, oka := tok(sm[0][1])
			b, okb := tok(sm[1][1])
			if !oka && !okb {
				continue
			}
			if !oka {
				a = "offff"
			}
			if !okb {
				b = "offff"
			}
			add("r:" + a + ":" + b)
		case "unlinkat", "unlink":
			if strings.Contains(c.args, "AT_REMOVEDIR") {
				continue // os.Remove's rmdir attempt: cannot remove a file
			}
			sm := reStr.FindStringSubmatch(c.args)
			if sm == nil {
				continue
			}
			t, ok := tok(sm[1])
			if !ok {
				continue
			}
			if c.failed && !strings.HasPrefix(t, "s") {
				continue // RemoveAll of a tmp db that is not there
			}
			add("u:" + t)
		}
	}
	if !started || !ended {
		return evs, "start/end marker missing in the strace log (child died or strace lost the process)"
	}
	// classes: every use of `sys` in the model; of bbolt's own I/O only the first
	// fdatasync of a run on one db file
	for i := range evs {
		evs[i].class = fsfClass(evs[i].tok)
	}
	for i := 0; i < len(evs); {
		file, io := isMetaIOTok(evs[i].tok)
		if !io {
			i++
			continue
		}
		j, seen := i, false
		for ; j < len(evs); j++ {
			f2, io2 := isMetaIOTok(evs[j].tok)
			if !io2 || f2 != file {
				break
			}
			if t := strings.TrimPrefix(evs[j].tok, "!"); strings.HasPrefix(t, "fd:") && !seen {
				evs[j].class = "fdatasync"
				seen = true
			}
		}
		i = j
	}
	return evs, ""
}

// collapseMetaF: collapseMeta for traces with failed syscalls.  A run of I/O on
// one db file becomes "w:<f>:0:0" (if something was written) and "fd:<f>" (if
// it ended with a successful sync); a failed sync / write ends a run as
// "!fd:<f>" / "!w:<f>:0:0".
func collapseMetaF(evs []string) []string {
	var out []string
	for i := 0; i < len(evs); {
		file, io := isMetaIOTok(evs[i])
		if !io {
			out = append(out, evs[i])
			i++
			continue
		}
		wrote, lastSync := false, false
		flush := func() {
			if wrote {
				out = append(out, "w:"+file+":0:0")
			}
			if lastSync {
				out = append(out, "fd:"+file)
			}
			wrote, lastSync = false, false
		}
		j := i
		for ; j < len(evs); j++ {
			f2, io2 := isMetaIOTok(evs[j])
			if !io2 || f2 != file {
				break
			}
			t := evs[j]
			kind := strings.SplitN(strings.TrimPrefix(t, "!"), ":", 2)[0]
			isSync := kind == "fs" || kind == "fd"
			if strings.HasPrefix(t, "!") {
				lastSync = false
				flush()
				if isSync {
					out = append(out, "!fd:"+file)
				} else {
					out = append(out, "!w:"+file+":0:0")
				}
				continue
			}
			if isSync {
				lastSync = true
			} else {
				wrote, lastSync = true, false
			}
		}
		flush()
		i = j
	}
	return out
}

type fsfRun struct {
	evs    []fsfEvent
	stdout string
	err    string
	raw    int
	kept   string
}

var fsfDryCache = map[string]*fsfRun{}

// runFsfOnce: one strace run of `wh fschild fsf <dir> <seg> <ops>`; inject is ""
// or the argument of -e inject=.
func runFsfOnce(c *ctx, seg int, ops []string, inject string) *fsfRun {
	fsSeq++
	work, err := filepath.Abs(c.work)
	if err != nil {
		return &fsfRun{err: err.Error()}
	}
	if rp, err := filepath.EvalSymlinks(work); err == nil {
		work = rp
	}
	base := filepath.Join(work, fmt.Sprintf("fsf-%d-%d", os.Getpid(), fsSeq))
	dir := filepath.Join(base, "wal")
	if err := os.MkdirAll(dir, 0o755); err != nil {
		return &fsfRun{err: err.Error()}
	}
	defer os.RemoveAll(base)
	logf := filepath.Join(base, "strace.log")
	self, err := os.Executable()
	if err != nil {
		return &fsfRun{err: err.Error()}
	}
	args := []string{"-f", "-y", "-s", "0", "-e", "trace=" + straceSyscalls}
	if inject != "" {
		args = append(args, "-e", "inject="+inject)
	}
	args = append(args, "-o", logf, self, "fschild", "fsf", dir, strconv.Itoa(seg))
	args = append(args, ops...)
	out, err := exec.Command("strace", args...).Output()
	r := &fsfRun{stdout: string(out)}
	if err != nil {
		if _, ok := err.(*exec.ExitError); !ok {
			r.err = "strace: " + err.Error()
			return r
		}
		r.err = "child failed: " + strings.TrimSpace(string(out))
	}
	f, err := os.Open(logf)
	if err != nil {
		r.err = err.Error()
		return r
	}
	defer f.Close()
	calls, raw := parseStrace(f)
	r.raw = raw
	var problem string
	r.evs, problem = projectFsf(calls, dir)
	if r.err == "" {
		r.err = problem
	}
	if r.err != "" { // keep the raw log of a run that cannot be used
		keep := os.Getenv("VERIF_FST_KEEP")
		if keep == "" {
			keep = filepath.Join(work, "artifacts")
		}
		if os.MkdirAll(keep, 0o755) == nil {
			dst := filepath.Join(keep, fmt.Sprintf("strace-fsf-%d-%d.log", os.Getpid(), fsSeq))
			if b, err := os.ReadFile(logf); err == nil {
				hdr := fmt.Sprintf("# fsf %d inject=%q %s\n# problem: %s\n", seg, inject, strings.Join(ops, " "), r.err)
				os.WriteFile(dst, append([]byte(hdr), b...), 0o644)
				r.kept = dst
			}
		}
	}
	return r
}

func fsfDry(c *ctx, seg int, ops []string) *fsfRun {
	key := fmt.Sprintf("%d %s", seg, strings.Join(ops, " "))
	if r := fsfDryCache[key]; r != nil {
		return r
	}
	r := runFsfOnce(c, seg, ops, "")
	fsfDryCache[key] = r
	return r
}

func fsfToks(evs []fsfEvent) []string {
	t := make([]string, len(evs))
	for i, e := range evs {
		t[i] = e.tok
	}
	return t
}

// runFsf: the observation of one fsf scenario.  class "" = no injection.
func runFsf(c *ctx, seg int, ops []string, class, errno string, k int) (toks []string, problem string) {
	dry := fsfDry(c, seg, ops)
	if dry.err != "" {
		return nil, "dry run: " + dry.err
	}
	if class == "" {
		return fsfToks(dry.evs), ""
	}
	// the k-th injectable call of the class in the fault-free run
	target, seen := -1, 0
	for i, e := range dry.evs {
		if e.class == class {
			seen++
			if seen == k {
				target = i
				break
			}
		}
	}
	if target < 0 {
		c.stat("fsf_fault_beyond_run")
		return fsfToks(dry.evs), "" // the run makes fewer such calls: nothing is injected
	}
	tc := dry.evs[target].call
	if tc.name != class {
		return nil, fmt.Sprintf("calibration: event %s is a %s call, not %s", dry.evs[target].tok, tc.name, class)
	}
	var last string
	for attempt := 0; attempt < 2; attempt++ {
		r := runFsfOnce(c, seg, ops, fmt.Sprintf("%s:error=%s:when=%d", class, errno, tc.ord))
		if r.err != "" {
			last = "injected run: " + r.err
			continue
		}
		// validation: same prefix as the dry run, the target call (and only it) injected
		inj := -1
		n := 0
		for i, e := range r.evs {
			if e.call.injected {
				inj = i
				n++
			}
		}
		okPrefix := len(r.evs) > target
		for i := 0; okPrefix && i < target; i++ {
			okPrefix = r.evs[i].tok == dry.evs[i].tok
		}
		if n != 1 || inj != target || !okPrefix || strings.TrimPrefix(r.evs[target].tok, "!") != strings.TrimPrefix(dry.evs[target].tok, "!") {
			last = fmt.Sprintf("injection when=%d of %s did not hit the call it was aimed at (event %d %s; injected events %d, at %d)",
				tc.ord, class, target, dry.evs[target].tok, n, inj)
			c.stat("fsf_injection_retry")
			continue
		}
		c.stat("fsf_injected_" + class)
		return fsfToks(r.evs), ""
	}
	return nil, last
}

// ---- implementation-side oracle (independent of the model) -----------------------
// ops are the line's fsop tokens (hex); toks the observed tokens before the
// bbolt collapse.  A call that reported success must satisfy the C07 clauses on
// the syscalls that were observed to succeed.
func fsfOracle(c *ctx, seg uint64, ops []string, toks []string, line string) {
	gone := map[string]bool{} // successfully unlinked, not created again
	unl := map[string]bool{}  // ... and no successful directory fsync since
	pend := map[string]bool{} // created, no successful directory fsync since
	metaExists, renPending, tmpSynced, tmpOpen, tmpWritten := false, false, false, false, false
	var call []string // successful syscalls of the current call
	has := func(t string) bool {
		for _, x := range call {
			if x == t {
				return true
			}
		}
		return false
	}
	opi := 0
	for _, t := range toks {
		if t == "=ok" || t == "=err" {
			if opi >= len(ops) {
				c.witness("C07", "harness-trace-problem", "more results than calls", line)
				return
			}
			op := strings.Split(ops[opi], ":")
			opi++
			name := ""
			if len(op) > 1 {
				name = "s" + op[1]
			}
			if t == "=ok" {
				where := fmt.Sprintf("call %d (%s) reported success", opi-1, ops[opi-1])
				switch op[0] {
				case "cr":
					if !has("x:"+name) || !has(fmt.Sprintf("fa:%s:0:0:%x", name, seg)) {
						c.witness("C07", "fault-create-ok-incomplete", where+" without a successful exclusive create and a successful fallocate(0, 0, "+strconv.FormatUint(seg, 10)+") of that file: "+strings.Join(call, " "), line)
					}
				case "de":
					if !gone[name] {
						c.witness("C07", "fault-delete-ok-without-unlink", where+" although no unlink of that file has succeeded", line)
					} else if unl[name] {
						c.witness("C07", "fault-delete-ok-without-dir-fsync", where+" although no directory fsync has succeeded since the file was unlinked (an earlier Delete unlinked it and failed in syncDir)", line)
					}
				case "sy":
					if !has("fs:" + name) {
						c.witness("C07", "fault-sync-ok-without-file-fsync", where+" without a successful fsync of the file", line)
					} else if pend[name] {
						c.witness("C07", "fault-sync-ok-entry-not-synced", where+" although no directory fsync has succeeded since the file was created (the handle skipped the directory fsync, e.g. on the retry after a Sync that failed in syncDir: the defect repaired by b0161d2)", line)
					}
				case "mi":
					if !metaExists {
						c.witness("C07", "fault-meta-ok-incomplete", where+" but wal-meta.db was never renamed into place", line)
					} else if renPending {
						c.witness("C07", "fault-meta-ok-dir-not-synced", where+" although no directory fsync has succeeded since wal-meta.db was renamed into place (e.g. an earlier Load failed after the rename and the retry only opened the file: the defect repaired by 862e6cb)", line)
					}
				}
			}
			call = call[:0]
			continue
		}
		if strings.HasPrefix(t, "!") {
			continue
		}
		call = append(call, t)
		f := strings.Split(t, ":")
		switch f[0] {
		case "x":
			if strings.HasPrefix(f[1], "s") {
				delete(gone, f[1])
				delete(unl, f[1])
				pend[f[1]] = true
			}
		case "c":
			if strings.HasPrefix(f[1], "s") {
				c.witness("C07", "non-exclusive-create", "segment file created without O_EXCL: "+t, line)
			}
			if f[1] == "t" {
				tmpOpen = true
			}
			if f[1] == "m" && !metaExists {
				c.witness("C07", "meta-not-renamed", "wal-meta.db created in place", line)
			}
		case "u":
			if strings.HasPrefix(f[1], "s") {
				gone[f[1]], unl[f[1]] = true, true
				delete(pend, f[1])
			}
			if f[1] == "t" {
				tmpSynced, tmpOpen, tmpWritten = false, false, false
			}
		case "w", "tr", "fa":
			if f[1] == "t" {
				tmpWritten, tmpSynced = true, false
			}
		case "fs", "fd":
			if f[1] == "t" {
				tmpSynced = true
			}
		case "cl":
			if f[1] == "t" {
				tmpOpen = false
			}
		case "fD":
			unl = map[string]bool{}
			pend = map[string]bool{}
			renPending = false
		case "r":
			if t == "r:t:m" {
				if !tmpWritten || !tmpSynced || tmpOpen {
					c.witness("C07", "meta-tmp-not-synced", "rename of a tmp db that is unwritten, unsynced or still open", line)
				}
				metaExists, renPending = true, true
				tmpSynced, tmpOpen, tmpWritten = false, false, false
			} else if f[2] == "m" || strings.HasPrefix(f[1], "s") || strings.HasPrefix(f[2], "s") {
				c.witness("C07", "meta-not-renamed", "unexpected rename "+t, line)
			}
		}
	}
}

var fsfClasses = []string{"openat", "fallocate", "pwrite64", "fsync", "fdatasync", "unlinkat", "renameat"}

func execFsf(c *ctx, line string) string {
	f := strings.Split(line, " ")
	if len(f) < 3 {
		return "badinput"
	}
	seg, err := strconv.ParseUint(f[1], 16, 64)
	if err != nil || seg == 0 || seg > 1<<31-1 {
		return "badinput"
	}
	class, errno, k := "", "", 0
	if f[2] != "-" {
		p := strings.Split(f[2], ":")
		if len(p) != 3 {
			return "badinput"
		}
		kk, err := strconv.ParseUint(p[2], 16, 32)
		okc := false
		for _, x := range fsfClasses {
			okc = okc || x == p[0]
		}
		if err != nil || kk < 1 || kk > 4096 || !okc || (p[1] != "EIO" && p[1] != "ENOSPC" && p[1] != "EMFILE") {
			return "badinput"
		}
		class, errno, k = p[0], p[1], int(kk)
	}
	// model tokens use hex, the child decimal
	var ops []string
	for _, o := range f[3:] {
		p := strings.Split(o, ":")
		for i := 1; i < len(p); i++ {
			v, err := strconv.ParseUint(p[i], 16, 64)
			if err != nil {
				return "badinput"
			}
			p[i] = strconv.FormatUint(v, 10)
		}
		ops = append(ops, strings.Join(p, ":"))
	}
	toks, problem := runFsf(c, int(seg), ops, class, errno, k)
	if problem != "" {
		c.witness("C07", "harness-trace-problem", problem, line)
		return "trace-error"
	}
	c.stat("fsf_runs")
	for _, t := range toks {
		if strings.HasPrefix(t, "!") {
			c.stat("fsf_failed_" + strings.SplitN(t[1:], ":", 2)[0])
		}
		if t == "=err" {
			c.stat("fsf_call_err")
		}
		if t == "=ok" {
			c.stat("fsf_call_ok")
		}
	}
	fsfOracle(c, seg, f[3:], toks, line)
	obs := collapseMetaF(toks)
	if len(obs) == 0 {
		return "-"
	}
	return strings.Join(obs, " ")
}

// genFsf emits n fault scenarios: the ones the property names first, then
// seeded random sequences in which calls are often retried after a failure.
func genFsf(c *ctx, r *rand.Rand, emit func(string), n int) {
	fixed := []string{
		// Delete unlinks, then fails in syncDir (open / fsync of the directory); the caller retries
		"400 openat:EMFILE:2 cr:0 cl:0 de:0 de:0",
		"400 fsync:EIO:1 cr:0 cl:0 de:0 de:0 de:0",
		"400 unlinkat:EIO:1 cr:0 cl:0 de:0 de:0",
		// Delete / OpenWriter of a missing name, Create of an existing one
		"400 - de:3 ow:3 cr:0 cr:0 cl:0 de:0 de:0 cr:0",
		// Create failing in the preallocation leaves the file behind
		"1000 fallocate:ENOSPC:1 cr:0 cr:0 ow:0 wr:0:0:10 sy:0 cl:0 de:0",
		"400 openat:EMFILE:1 cr:0 cr:0 wr:0:0:8 sy:0",
		// Sync failing on the file fsync / opening the directory / the directory fsync, then retried
		"400 fsync:EIO:1 cr:0 wr:0:0:20 sy:0 sy:0 sy:0",
		"400 fsync:EIO:2 cr:0 wr:0:0:20 sy:0 sy:0 wr:0:20:20 sy:0",
		"400 openat:EMFILE:2 cr:0 wr:0:0:20 sy:0 sy:0 cl:0 ow:0 sy:0",
		"400 pwrite64:ENOSPC:2 cr:0 wr:0:0:20 wr:0:20:20 wr:0:20:20 sy:0",
		// metadata db initialisation: every step failing once, then retried
		"400 openat:EMFILE:1 mi mi mc",
		"400 fdatasync:EIO:1 mi mi mc",
		"400 renameat:EIO:1 mi mi mc",
		"400 openat:EMFILE:2 mi mi mc",
		"400 fsync:EIO:1 mi mi mc",
		"400 openat:EMFILE:3 mi mc mi mc",
		"400 fdatasync:EIO:2 mi mc mc mi",
		"400 - mc mi mi mc cr:0 wr:0:0:10 sy:0",
		// Load of an existing db (862e6cb): its directory fsync / directory open / db open failing
		"400 fsync:EIO:2 mi mi mi mc",
		"400 openat:EMFILE:4 mi mi mi mc",
		"400 openat:EMFILE:5 mi mi mi mc",
	}
	for i := 0; i < n; i++ {
		if i < len(fixed) {
			emit("fsf " + fixed[i])
			continue
		}
		seg := []int{256, 1024, 4096}[r.Intn(3)]
		var ops []string
		// optimistic bookkeeping (as if every call succeeded): most calls are
		// valid, about one in six is not (missing / existing name, no handle)
		next := 0
		exists := map[int]bool{}
		open := map[int]bool{}
		meta := false
		last := ""
		some := func(m map[int]bool, want bool) (int, bool) {
			var cand []int
			for s := 0; s < next; s++ {
				if m[s] == want {
					cand = append(cand, s)
				}
			}
			if len(cand) == 0 {
				return 0, false
			}
			return cand[r.Intn(len(cand))], true
		}
		for j, m := 0, 3+r.Intn(11); j < m; j++ {
			if last != "" && r.Intn(3) == 0 {
				ops = append(ops, last) // the caller retries
				continue
			}
			var o string
			if r.Intn(6) == 0 || next == 0 && r.Intn(3) == 0 {
				// a call that is invalid if everything before it succeeded
				s, ok := some(exists, r.Intn(2) == 0)
				if !ok {
					s = next
				}
				switch r.Intn(6) {
				case 0:
					if e, ok := some(exists, true); ok {
						s = e
					}
					o = fmt.Sprintf("cr:%x", s)
				case 1:
					o = fmt.Sprintf("ow:%x", next+r.Intn(2))
				case 2:
					o = fmt.Sprintf("de:%x", next+r.Intn(2))
				case 3:
					if e, ok := some(open, false); ok {
						s = e
					}
					o = fmt.Sprintf("sy:%x", s)
				case 4:
					o = fmt.Sprintf("wr:%x:0:8", s)
				default:
					o = "mc"
				}
			} else {
				switch k := r.Intn(20); {
				case k < 4 || next == 0:
					o = fmt.Sprintf("cr:%x", next)
					exists[next], open[next] = true, true
					next++
				case k < 6:
					if s, ok := some(exists, true); ok {
						o = fmt.Sprintf("ow:%x", s)
						open[s] = true
					}
				case k < 9:
					if s, ok := some(open, true); ok {
						o = fmt.Sprintf("wr:%x:%x:%x", s, r.Intn(seg/2), 1+r.Intn(seg/2))
					}
				case k < 13:
					if s, ok := some(open, true); ok {
						o = fmt.Sprintf("sy:%x", s)
					}
				case k < 14:
					if s, ok := some(open, true); ok {
						o = fmt.Sprintf("cl:%x", s)
						open[s] = false
					}
				case k < 17:
					if s, ok := some(exists, true); ok {
						o = fmt.Sprintf("de:%x", s)
						exists[s], open[s] = false, false
					}
				case k < 19:
					o = "mi"
					meta = true
				default:
					if meta {
						o = "mc"
					}
				}
			}
			if o == "" {
				continue
			}
			ops = append(ops, o)
			last = o
		}
		// choose the fault from the calls the fault-free run makes
		var dops []string
		for _, o := range ops {
			p := strings.Split(o, ":")
			for i := 1; i < len(p); i++ {
				v, _ := strconv.ParseUint(p[i], 16, 64)
				p[i] = strconv.FormatUint(v, 10)
			}
			dops = append(dops, strings.Join(p, ":"))
		}
		fault := "-"
		if dry := fsfDry(c, seg, dops); dry.err == "" && r.Intn(12) != 0 {
			cnt := map[string]int{}
			for _, e := range dry.evs {
				if e.class != "" {
					cnt[e.class]++
				}
			}
			var avail []string
			for _, cl := range fsfClasses {
				if cnt[cl] > 0 {
					avail = append(avail, cl)
				}
			}
			if len(avail) > 0 {
				cl := avail[r.Intn(len(avail))]
				k := 1 + r.Intn(cnt[cl])
				if r.Intn(15) == 0 {
					k = cnt[cl] + 1 // beyond the run: nothing fails
				}
				errno := []string{"EIO", "ENOSPC"}[r.Intn(2)]
				if cl == "openat" && r.Intn(2) == 0 {
					errno = "EMFILE"
				}
				fault = fmt.Sprintf("%s:%s:%x", cl, errno, k)
			}
		}
		emit(fmt.Sprintf("fsf %x %s %s", seg, fault, strings.Join(ops, " ")))
	}
}
