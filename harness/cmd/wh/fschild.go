package main

// `wh fschild <mode> <dir> <segsize> <op>...` -- the traced child of the
// `fstrace` stream (C07).  It runs a workload against the PRODUCTION fs.FS and
// metadb.BoltMetaDB (mode "wal": through wal.Open; mode "fs": the fs-layer
// functions directly) and brackets every API call with marker syscalls
//   faccessat(AT_FDCWD, "/verif-mark/<op>/<n>/call|ack", F_OK)
// which fail with ENOENT but are logged by strace in program order.

import (
	"errors"
	"fmt"
	"math"
	"os"
	"path/filepath"
	"runtime"
	"sort"
	"strconv"
	"strings"
	"syscall"

	"github.com/hashicorp/raft"
	wal "github.com/hashicorp/raft-wal"
	walfs "github.com/hashicorp/raft-wal/fs"
	"github.com/hashicorp/raft-wal/metadb"
	"github.com/hashicorp/raft-wal/types"
)

const atFDCWD = -100

func fsMark(op string, n int, what string) {
	p := fmt.Sprintf("/verif-mark/%s/%d/%s", op, n, what)
	syscall.Faccessat(atFDCWD, p, 0, 0)
}

var fsEnded bool

func fsEnd() {
	if !fsEnded {
		fsEnded = true
		fsMark("end", 0, "ack")
	}
}

// operation kinds (also the numeric codes of the Mark events)
var fsOpCode = map[string]int{"store": 1, "delete": 2, "open": 3, "close": 4, "wait": 5, "fs": 6}

func fsChildMain(args []string) int {
	if len(args) < 3 {
		fmt.Fprintln(os.Stderr, "usage: wh fschild wal|fs|fsf <dir> <segsize> <op>...")
		return 2
	}
	mode, dir := args[0], args[1]
	seg, err := strconv.Atoi(args[2])
	if err != nil {
		return 2
	}
	ops := args[3:]
	if mode == "walfv" { // clean reopen of the walfault stream (C10): not traced
		return walfVerifyMain(dir)
	}
	if mode == "walf" {
		walfBurnCalls(filepath.Dir(dir))
	}
	// the first marker lets the parent discard everything strace logged while
	// it was attaching / the runtime was starting
	fsMark("start", 0, "call")
	defer fsEnd() // error paths return before the workload's own end marker
	if mode == "wal" {
		return fsChildWAL(dir, seg, ops)
	}
	if mode == "fsf" {
		return fsChildFault(dir, seg, ops)
	}
	if mode == "walf" {
		return walfChildMain(dir, seg, ops)
	}
	return fsChildFS(dir, seg, ops)
}

func segFiles(dir string) []string {
	es, err := os.ReadDir(dir)
	if err != nil {
		return nil
	}
	var r []string
	for _, e := range es {
		if strings.HasSuffix(e.Name(), ".wal") {
			r = append(r, e.Name())
		}
	}
	sort.Strings(r)
	return r
}

func allZero(path string) (int64, bool) {
	b, err := os.ReadFile(path)
	if err != nil {
		return -1, false
	}
	for _, x := range b {
		if x != 0 {
			return int64(len(b)), false
		}
	}
	return int64(len(b)), true
}

func fsChildWAL(dir string, seg int, ops []string) int {
	var w *wal.WAL
	next := uint64(1)  // next index to append
	first := uint64(0) // first index of the log (0 = empty)
	seen := map[string]bool{}
	// scan reports segment files that appeared since the last scan; at a safe
	// point (no rotation in flight, nothing written to a new file yet) it also
	// reads them back: size must be the requested size, content all zero
	scan := func(safe bool) {
		for _, n := range segFiles(dir) {
			if seen[n] {
				continue
			}
			seen[n] = true
			if safe {
				sz, z := allZero(filepath.Join(dir, n))
				fmt.Printf("NEWFILE %s %d %v\n", n, sz, z)
			}
		}
	}
	for i, op := range ops {
		f := strings.Split(op, ":")
		switch f[0] {
		case "o":
			fsMark("open", i, "call")
			var err error
			w, err = wal.Open(dir, wal.WithSegmentSize(seg))
			if err != nil {
				fmt.Printf("ERR %d open %v\n", i, err)
				return 1
			}
			fsMark("open", i, "ack")
			scan(true)
			fi, _ := w.FirstIndex()
			la, _ := w.LastIndex()
			first = fi
			if la > 0 {
				next = la + 1
			}
		case "c":
			fsMark("close", i, "call")
			err := w.Close()
			if err != nil {
				fmt.Printf("ERR %d close %v\n", i, err)
				return 1
			}
			fsMark("close", i, "ack")
			w = nil
		case "a": // a:<n>:<size>
			n, _ := strconv.Atoi(f[1])
			size, _ := strconv.Atoi(f[2])
			logs := make([]*raft.Log, n)
			for j := range logs {
				d := make([]byte, size)
				for k := range d {
					d[k] = byte(1 + (int(next)+j+k)%250)
				}
				logs[j] = &raft.Log{Index: next + uint64(j), Term: 1, Data: d}
			}
			fsMark("store", i, "call")
			err := w.StoreLogs(logs)
			if err != nil {
				fmt.Printf("ERR %d store %v\n", i, err)
				return 1
			}
			fsMark("store", i, "ack")
			scan(false)
			if first == 0 {
				first = next
			}
			next += uint64(n)
		case "j": // j:<idx>  the next append starts at idx (only when the log is empty)
			if first != 0 {
				fmt.Printf("ERR %d jump on non-empty log\n", i)
				return 1
			}
			v, _ := strconv.ParseUint(f[1], 10, 64)
			next = v
		case "h", "t": // h:<k> delete the k first / t:<k> the k last entries
			k, _ := strconv.Atoi(f[1])
			if first == 0 || k <= 0 {
				continue
			}
			last := next - 1
			if uint64(k) > last-first+1 {
				k = int(last - first + 1)
			}
			var lo, hi uint64
			if f[0] == "h" {
				lo, hi = first, first+uint64(k)-1
			} else {
				lo, hi = last-uint64(k)+1, last
			}
			fsMark("delete", i, "call")
			err := w.DeleteRange(lo, hi)
			if err != nil {
				fmt.Printf("ERR %d delete %v\n", i, err)
				return 1
			}
			fsMark("delete", i, "ack")
			scan(true)
			if f[0] == "h" {
				first = hi + 1
				if first > last {
					first = 0
				}
			} else {
				next = lo
				if lo == first {
					first = 0
				}
			}
		case "w": // wait for a background rotation to finish (no-op range)
			fsMark("wait", i, "call")
			w.DeleteRange(math.MaxUint64, math.MaxUint64)
			fsMark("wait", i, "ack")
			scan(true)
		default:
			fmt.Printf("ERR %d unknown op %q\n", i, op)
			return 2
		}
	}
	if w != nil {
		fsMark("close", len(ops), "call")
		w.Close()
		fsMark("close", len(ops), "ack")
	}
	fsEnd()
	// read the whole log back after a reopen (content survives, sizes sane)
	w2, err := wal.Open(dir, wal.WithSegmentSize(seg))
	if err != nil {
		fmt.Printf("ERR reopen %v\n", err)
		return 1
	}
	fi, _ := w2.FirstIndex()
	la, _ := w2.LastIndex()
	wantLast := next - 1
	if first == 0 {
		wantLast = 0
	}
	fmt.Printf("FINAL %d %d %d %d\n", fi, la, first, wantLast)
	w2.Close()
	return 0
}

// fsChildFS drives the fs layer directly: one writable handle per segment name.
//
//	cr:<s> Create   ow:<s> OpenWriter (fresh handle)   wr:<s>:<off>:<len> WriteAt
//	sy:<s> Sync     cl:<s> Close   de:<s> Delete   mi Load (meta init)   mc CommitState   mx close meta
func fsChildFS(dir string, seg int, ops []string) int {
	vfs := walfs.New()
	h := map[string]types.WritableFile{}
	var mdb *metadb.BoltMetaDB
	name := func(s string) string {
		v, _ := strconv.Atoi(s)
		return fmt.Sprintf("%020d-%016x.wal", v, v)
	}
	for i, op := range ops {
		f := strings.Split(op, ":")
		var err error
		fsMark("fs", i, "call")
		switch f[0] {
		case "cr":
			var wf types.WritableFile
			wf, err = vfs.Create(dir, name(f[1]), uint64(seg))
			if err == nil {
				h[f[1]] = wf
			}
		case "ow":
			var wf types.WritableFile
			wf, err = vfs.OpenWriter(dir, name(f[1]))
			if err == nil {
				h[f[1]] = wf
			}
		case "wr":
			off, _ := strconv.Atoi(f[2])
			n, _ := strconv.Atoi(f[3])
			b := make([]byte, n)
			for k := range b {
				b[k] = 0xab
			}
			_, err = h[f[1]].WriteAt(b, int64(off))
		case "sy":
			err = h[f[1]].Sync()
		case "cl":
			err = h[f[1]].Close()
			delete(h, f[1])
		case "de":
			err = vfs.Delete(dir, name(f[1]))
		case "mi":
			mdb = &metadb.BoltMetaDB{}
			_, err = mdb.Load(dir)
		case "mc":
			err = mdb.CommitState(types.PersistentState{NextSegmentID: uint64(i)})
		case "mx":
			err = mdb.Close()
			mdb = nil
		default:
			fmt.Printf("ERR %d unknown op %q\n", i, op)
			return 2
		}
		fsMark("fs", i, "ack")
		if err != nil {
			fmt.Printf("ERR %d %s %v\n", i, op, err)
			return 1
		}
	}
	fsEnd()
	for _, wf := range h {
		wf.Close()
	}
	if mdb != nil {
		mdb.Close()
	}
	return 0
}

// The fault scenarios (`fsf` lines) run with the main goroutine pinned to the
// main thread: strace counts the invocations of an injected syscall per
// thread, so every fs-layer call must be issued by the thread that also made
// the start-up calls (LockOSThread in an init function keeps main on it).
func init() {
	if len(os.Args) > 2 && os.Args[1] == "fschild" && os.Args[2] == "fsf" {
		runtime.LockOSThread()
	}
}

var errNoHandle = errors.New("harness: no open handle / db for this call")

// fsChildFault drives the fs layer like fsChildFS but keeps going after an
// error (one syscall failure is injected by strace) and reports the result of
// every call through a marker: /verif-mark/fs/<i>/ok | err.  Conventions (part
// of the model, Discipline.v fs_step_f): Write / Sync / Close without a handle
// and CommitState without an open db issue no syscall and report an error;
// Delete first closes the handle of that name; Load first closes a db left
// open by an earlier Load (bbolt's flock would block the new one forever).
func fsChildFault(dir string, seg int, ops []string) int {
	vfs := walfs.New()
	h := map[string]types.WritableFile{}
	var mdb *metadb.BoltMetaDB
	mopen := false
	name := func(s string) string {
		v, _ := strconv.Atoi(s)
		return fmt.Sprintf("%020d-%016x.wal", v, v)
	}
	for i, op := range ops {
		f := strings.Split(op, ":")
		var err error
		fsMark("fs", i, "call")
		switch f[0] {
		case "cr":
			var wf types.WritableFile
			wf, err = vfs.Create(dir, name(f[1]), uint64(seg))
			if err == nil {
				h[f[1]] = wf
			}
		case "ow":
			var wf types.WritableFile
			wf, err = vfs.OpenWriter(dir, name(f[1]))
			if err == nil {
				h[f[1]] = wf
			}
		case "wr":
			if h[f[1]] == nil {
				err = errNoHandle
				break
			}
			off, _ := strconv.Atoi(f[2])
			n, _ := strconv.Atoi(f[3])
			b := make([]byte, n)
			for k := range b {
				b[k] = 0xab
			}
			_, err = h[f[1]].WriteAt(b, int64(off))
		case "sy":
			if h[f[1]] == nil {
				err = errNoHandle
				break
			}
			err = h[f[1]].Sync()
		case "cl":
			if h[f[1]] == nil {
				err = errNoHandle
				break
			}
			err = h[f[1]].Close()
			delete(h, f[1])
		case "de":
			if h[f[1]] != nil {
				h[f[1]].Close()
				delete(h, f[1])
			}
			err = vfs.Delete(dir, name(f[1]))
		case "mi":
			if mdb != nil && mopen {
				mdb.Close()
			}
			mopen = false
			mdb = &metadb.BoltMetaDB{}
			_, err = mdb.Load(dir)
			mopen = err == nil
		case "mc":
			if mdb == nil || !mopen {
				err = errNoHandle
				break
			}
			err = mdb.CommitState(types.PersistentState{NextSegmentID: uint64(i)})
		default:
			fmt.Printf("ERR %d unknown op %q\n", i, op)
			return 2
		}
		if err != nil {
			fsMark("fs", i, "err")
			fmt.Printf("E %d %s %v\n", i, op, err)
		} else {
			fsMark("fs", i, "ok")
		}
	}
	fsEnd()
	for _, wf := range h {
		wf.Close()
	}
	if mdb != nil && mopen {
		mdb.Close()
	}
	return 0
}
