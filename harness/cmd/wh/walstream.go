package main

import (
	"bytes"
	"errors"
	"fmt"
	"math"
	"math/big"
	"os"
	"path/filepath"
	"runtime/debug"
	"sort"
	"strings"
	"sync"
	"sync/atomic"
	"time"

	"github.com/hashicorp/go-hclog"
	gometrics "github.com/hashicorp/go-metrics/compat"
	"github.com/hashicorp/raft"
	wal "github.com/hashicorp/raft-wal"
	"github.com/hashicorp/raft-wal/metadb"
	"github.com/hashicorp/raft-wal/metrics"
	"github.com/hashicorp/raft-wal/segment"
	"github.com/hashicorp/raft-wal/types"
	"github.com/hashicorp/raft-wal/verifier"
	"go.etcd.io/bbolt"
)

// WAL-level streams share the `wal <segsize> <codec> <mode> ops...` grammar of
// coq/Run/RunWal.v and this executor; generators are in walgen.go.

// ---- metrics tally ---------------------------------------------------------

// tally forwards to the bundled AtomicCollector (which panics on undeclared
// names) and keeps its own pausable counts.
type tally struct {
	ac     *metrics.AtomicCollector
	paused int32
	c      map[string]*uint64
	// shadow of everything sent to the bundled collector (pauses included), to
	// judge AtomicCollector.Summary itself
	mu  sync.Mutex
	all map[string]uint64
	g   map[string]uint64
	// the other bundled collector, metrics.GoMetricsCollector (prefix + label), writing to an
	// in-memory go-metrics sink; allf/gf shadow what it must hold (go-metrics takes float32)
	gc   *metrics.GoMetricsCollector
	sink *nestSink
	allf map[string]float64
	gf   map[string]float32
	gerr string
}

var goMetricsPrefix = []string{"vf", "wal"}
var goMetricsLabels = []gometrics.Label{{Name: "node", Value: "n1"}}

// nestSink: while one observation is inside the sink a second one is made through the same
// collector (what an overlapping API call of another goroutine does); the key the first one
// handed over must not change under it.  No service name is configured, so go-metrics passes
// the collector's key slice through to the sink as it is.
type nestSink struct {
	*gometrics.InmemSink
	gc     *metrics.GoMetricsCollector
	inNest int32
	nests  int64
}

func (n *nestSink) nest() {
	if n.gc == nil || !atomic.CompareAndSwapInt32(&n.inNest, 0, 1) {
		return
	}
	defer atomic.StoreInt32(&n.inNest, 0)
	done := make(chan struct{})
	go func() {
		defer close(done)
		defer func() { recover() }()
		n.gc.IncrementCounter("nest_probe", 1)
	}()
	select {
	case <-done:
		atomic.AddInt64(&n.nests, 1)
	case <-time.After(300 * time.Millisecond): // a collector that serialises its calls: the probe lands later
		<-done
		atomic.AddInt64(&n.nests, 1)
	}
}
func (n *nestSink) IncrCounterWithLabels(key []string, val float32, labels []gometrics.Label) {
	if atomic.LoadInt32(&n.inNest) == 0 {
		n.nest()
	}
	n.InmemSink.IncrCounterWithLabels(key, val, labels)
}
func (n *nestSink) SetGaugeWithLabels(key []string, val float32, labels []gometrics.Label) {
	if atomic.LoadInt32(&n.inNest) == 0 {
		n.nest()
	}
	n.InmemSink.SetGaugeWithLabels(key, val, labels)
}

func newGoMetrics() (*metrics.GoMetricsCollector, *nestSink) {
	sink := &nestSink{InmemSink: gometrics.NewInmemSink(1000*time.Hour, 2000*time.Hour)}
	cfg := gometrics.DefaultConfig("")
	cfg.ServiceName = ""
	cfg.EnableHostname = false
	cfg.EnableHostnameLabel = false
	cfg.EnableServiceLabel = false
	cfg.EnableRuntimeMetrics = false
	gm, err := gometrics.New(cfg, sink)
	if err != nil {
		panic(err)
	}
	gc := metrics.NewGoMetricsCollector(goMetricsPrefix, goMetricsLabels, gm)
	sink.gc = gc
	return gc, sink
}

// forward one observation to the GoMetricsCollector; a panic there is remembered (the
// bundled collectors must never panic)
func (t *tally) goMetrics(f func()) {
	defer func() {
		if e := recover(); e != nil && t.gerr == "" {
			t.gerr = fmt.Sprintf("panic: %v", e)
		}
	}()
	f()
}

// goMetricsDiff compares the go-metrics sink with what was sent to the GoMetricsCollector
func (t *tally) goMetricsDiff() string {
	t.mu.Lock()
	defer t.mu.Unlock()
	if t.gerr != "" {
		return t.gerr
	}
	if len(goMetricsPrefix) != 2 || goMetricsPrefix[0] != "vf" || goMetricsPrefix[1] != "wal" {
		return fmt.Sprintf("the collector modified the caller's prefix slice: %v", goMetricsPrefix)
	}
	key := func(n string) string { return "vf.wal." + n + ";node=n1" }
	want := map[string]float64{}
	for n, v := range t.allf {
		want[n] = v
	}
	if k := atomic.LoadInt64(&t.sink.nests); k > 0 {
		want["nest_probe"] = float64(k)
	}
	cs, gs := map[string]float64{}, map[string]float32{}
	for _, iv := range t.sink.Data() {
		iv.RLock()
		for k, v := range iv.Counters {
			cs[k] += v.Sum
		}
		for k, v := range iv.Gauges {
			gs[k] = v.Value
		}
		iv.RUnlock()
	}
	for n, v := range want {
		if got, ok := cs[key(n)]; !ok || got != v {
			return fmt.Sprintf("counter %s: sink holds %v under %q, %v was added", n, cs[key(n)], key(n), v)
		}
	}
	if len(cs) != len(want) {
		return fmt.Sprintf("sink holds %d counters, %d were used", len(cs), len(want))
	}
	for n, v := range t.gf {
		if got, ok := gs[key(n)]; !ok || got != v {
			return fmt.Sprintf("gauge %s: sink holds %v under %q, last set to %v", n, gs[key(n)], key(n), v)
		}
	}
	if len(gs) != len(t.gf) {
		return fmt.Sprintf("sink holds %d gauges, %d were used", len(gs), len(t.gf))
	}
	return ""
}

var counterNames = []string{"log_entry_bytes_written", "log_entries_written", "log_appends", "log_entry_bytes_read",
	"log_entries_read", "segment_rotations", "head_truncations", "tail_truncations", "stable_gets", "stable_sets"}

func newTally() *tally {
	defs := wal.MetricDefinitions
	defs.Counters = append(append([]metrics.Descriptor(nil), defs.Counters...), verifier.MetricDefinitions.Counters...)
	t := &tally{ac: metrics.NewAtomicCollector(defs), c: map[string]*uint64{}, all: map[string]uint64{}, g: map[string]uint64{},
		allf: map[string]float64{}, gf: map[string]float32{}}
	t.gc, t.sink = newGoMetrics()
	for _, n := range counterNames {
		t.c[n] = new(uint64)
	}
	return t
}

func (t *tally) IncrementCounter(name string, delta uint64) {
	t.mu.Lock() // one critical section: collectorDiff must never see one without the other
	t.ac.IncrementCounter(name, delta)
	t.all[name] += delta
	t.goMetrics(func() { t.gc.IncrementCounter(name, delta) })
	t.allf[name] += float64(float32(delta))
	t.mu.Unlock()
	if atomic.LoadInt32(&t.paused) == 0 {
		if p, ok := t.c[name]; ok {
			atomic.AddUint64(p, delta)
		}
	}
}
func (t *tally) SetGauge(name string, val uint64) {
	t.mu.Lock()
	t.ac.SetGauge(name, val)
	t.g[name] = val
	t.goMetrics(func() { t.gc.SetGauge(name, val) })
	t.gf[name] = float32(val)
	t.mu.Unlock()
}

// collectorDiff compares AtomicCollector.Summary with what was sent to it; call
// only while no WAL call is in flight.
func (t *tally) collectorDiff() string {
	t.mu.Lock()
	defer t.mu.Unlock()
	sum := t.ac.Summary()
	for n, v := range t.all {
		if sum.Counters[n] != v {
			return fmt.Sprintf("counter %s: Summary says %d, %d was added", n, sum.Counters[n], v)
		}
	}
	for n, v := range sum.Counters {
		if t.all[n] != v {
			return fmt.Sprintf("counter %s: Summary says %d, %d was added", n, v, t.all[n])
		}
	}
	for n, v := range t.g {
		if sum.Gauges[n] != v {
			return fmt.Sprintf("gauge %s: Summary says %d, last set to %d", n, sum.Gauges[n], v)
		}
	}
	return ""
}
func (t *tally) get(name string) uint64 { return atomic.LoadUint64(t.c[name]) }
func (t *tally) summary() string {
	var s []string
	for _, n := range counterNames {
		s = append(s, fmt.Sprintf("%x", t.get(n)))
	}
	return strings.Join(s, ",")
}

// probeClosed (C14): after Close returns, EVERY LogStore and StableStore method returns
// ErrClosed -- also the degenerate calls (empty batch, empty range) -- and a second Close
// is a no-op.  Implementation only; the metrics tally is paused so that nothing is counted.
func (r *walRun) probeClosed() {
	w := r.w
	atomic.StoreInt32(&r.t.paused, 1)
	defer atomic.StoreInt32(&r.t.paused, 0)
	var lg raft.Log
	calls := []struct {
		name string
		err  error
	}{
		{"StoreLogs(nil)", w.StoreLogs(nil)},
		{"StoreLogs(one entry)", w.StoreLogs([]*raft.Log{{Index: 1, Term: 1}})},
		{"StoreLog", w.StoreLog(&raft.Log{Index: 1, Term: 1})},
		{"DeleteRange(5,4)", w.DeleteRange(5, 4)},
		{"DeleteRange(1,1)", w.DeleteRange(1, 1)},
		{"GetLog(1)", w.GetLog(1, &lg)},
		{"Set", w.Set([]byte("k"), []byte("v"))},
		{"SetUint64", w.SetUint64([]byte("k"), 1)},
	}
	_, e1 := w.FirstIndex()
	_, e2 := w.LastIndex()
	_, e3 := w.Get([]byte("k"))
	_, e4 := w.GetUint64([]byte("k"))
	for i, e := range []error{e1, e2, e3, e4} {
		calls = append(calls, struct {
			name string
			err  error
		}{[]string{"FirstIndex", "LastIndex", "Get", "GetUint64"}[i], e})
	}
	for _, c := range calls {
		if !errors.Is(c.err, wal.ErrClosed) {
			r.c.witness("C14", "method-after-close-not-errclosed", fmt.Sprintf("%s after Close returns %v, not ErrClosed", c.name, c.err), r.line)
			break
		}
	}
	if err := w.Close(); err != nil {
		r.c.witness("C14", "second-close-not-noop", fmt.Sprintf("a second Close returns %v", err), r.line)
	}
	r.c.stat("closed_probes")
}

// ---- custom codec (any external ID) ---------------------------------------

type idCodec struct {
	wal.BinaryCodec
	id uint64
}

func (c *idCodec) ID() uint64 { return c.id }

// ---- reference log (the spec the properties talk about) -------------------

type refLog struct {
	first, last uint64
	ents        map[uint64]string
}

func newRef() *refLog { return &refLog{ents: map[uint64]string{}} }
func (r *refLog) clone() *refLog {
	n := &refLog{first: r.first, last: r.last, ents: make(map[uint64]string, len(r.ents))}
	for k, v := range r.ents {
		n.ents[k] = v
	}
	return n
}
func (r *refLog) empty() bool { return len(r.ents) == 0 }
func (r *refLog) key() string {
	var sb strings.Builder
	fmt.Fprintf(&sb, "%x.%x", r.first, r.last)
	for i := r.first; !r.empty() && i <= r.last; i++ {
		sb.WriteString("," + r.ents[i])
	}
	return sb.String()
}

// store returns false when the spec refuses the batch
func (r *refLog) store(logs []*raft.Log) bool {
	if len(logs) == 0 {
		return true
	}
	exp := logs[0].Index
	if !r.empty() && exp != r.last+1 {
		return false
	}
	for i, l := range logs {
		if l.Index != exp+uint64(i) {
			return false
		}
	}
	if r.empty() {
		r.first = exp
	}
	for _, l := range logs {
		r.ents[l.Index] = oracleFields(l)
		r.last = l.Index
	}
	return true
}

// del returns false for a strict middle range
func (r *refLog) del(mn, mx uint64) bool {
	if mn > mx || r.empty() || mx < r.first || mn > r.last {
		return true
	}
	switch {
	case mn <= r.first:
		for i := r.first; i <= mx && i <= r.last; i++ {
			delete(r.ents, i)
		}
		if mx >= r.last {
			r.first, r.last = 0, 0
		} else {
			r.first = mx + 1
		}
	case mx >= r.last:
		for i := mn; i <= r.last; i++ {
			delete(r.ents, i)
		}
		r.last = mn - 1
	default:
		return false
	}
	return true
}

type heldVal struct {
	v    []byte
	want string
	key  string
}

// ---- executor ---------------------------------------------------------------

type histEntry struct {
	actsBefore, actsAfter   int
	before, after           []*refLog // alternatives before / after the op
	stableBefore            map[string]string
	stableAfter             map[string]string
	ackedBefore, ackedAfter map[uint64]string
}

type walRun struct {
	c           *ctx
	line        string
	segSize     int
	codecID     uint64
	mode        string
	cfs         *crashFS
	dir         string
	realMeta    *metadb.BoltMetaDB // mode r: reused across Close/Open on every other line
	w           *wal.WAL
	t           *tally
	mark        int
	lastCrashK  int
	alts        []*refLog // alts[0] = nominal in-process state
	stable      map[string]string
	hist        []histEntry
	afterCrash  bool
	faulted     bool // a fault was injected since the last Open
	everFaulted bool
	dirCodec    uint64 // codec id the directory was created with (0 = not yet)
	heldVals    []heldVal
	acked       map[uint64]string // entries acknowledged and not covered by a later DeleteRange call
	// per-open true totals for C20
	tot map[string]uint64
	// index into cfs.acts of the first action after the last Open returned: the
	// rotations of the current lifetime are the rotation commits from there on
	openMark int
	encLen   map[uint64]int // index -> length of the encoding an acknowledged StoreLogs wrote
	out      []string
}

func walErrKind(err error) string {
	switch {
	case err == nil:
		return "ok"
	case errors.Is(err, wal.ErrClosed):
		return "closed"
	case errors.Is(err, wal.ErrNotFound):
		return "nf"
	case errors.Is(err, types.ErrSealed):
		return "sealed"
	case errors.Is(err, segment.ErrTooBig):
		return "toobig"
	case strings.Contains(err.Error(), "non-monotonic"):
		return "nonmono"
	case strings.Contains(err.Error(), "only suffix or prefix"):
		return "middle"
	case strings.Contains(err.Error(), "must be re-opened"):
		return "failed"
	}
	return "err"
}

func (r *walRun) nActs() int {
	if r.cfs == nil {
		return 0
	}
	return r.cfs.nCounted()
}

func nameTok(name string) string {
	var b, id uint64
	fmt.Sscanf(name, "%020d-%016x.wal", &b, &id)
	return fmt.Sprintf("%x.%x", b, id)
}

func showAct(a *action) string {
	var s string
	switch a.kind {
	case actCreate:
		s = fmt.Sprintf("C%s.%x", nameTok(a.name), a.size)
	case actWrite:
		s = fmt.Sprintf("W%s.%x.%x", nameTok(a.name), a.off, len(a.data))
	case actSync:
		s = "S" + nameTok(a.name)
	case actDelete:
		s = "D" + nameTok(a.name)
	case actCommit:
		s = "M"
	case actStable:
		s = "K"
	case actInit:
		s = "I"
	case actList:
		s = "L"
	}
	if a.failed {
		s = "!" + s
	}
	return s
}

func canonTrace(acts []*action) string {
	if len(acts) == 0 {
		return "-"
	}
	var out, run []string
	flush := func() {
		sort.Strings(run)
		out = append(out, run...)
		run = nil
	}
	for _, a := range acts {
		s := showAct(a)
		if strings.HasPrefix(s, "D") || strings.HasPrefix(s, "!D") {
			run = append(run, s)
		} else {
			flush()
			out = append(out, s)
		}
	}
	flush()
	return strings.Join(out, ",")
}

func (r *walRun) open() string {
	r.t = newTally()
	r.tot = map[string]uint64{}
	var err error
	var w *wal.WAL
	if r.mode == "r" {
		// (walOpt is unexported: optional options are passed as harmless repeats of the size option)
		metaOpt, codecOpt := wal.WithSegmentSize(r.segSize), wal.WithSegmentSize(r.segSize)
		if len(r.line)%2 == 0 {
			// every other line reuses ONE BoltMetaDB value across Close/Open, as an
			// application holding its MetaStore in a field does
			if r.realMeta == nil {
				r.realMeta = &metadb.BoltMetaDB{}
			}
			metaOpt = wal.WithMetaStore(r.realMeta)
		}
		if r.codecID != 1 {
			codecOpt = wal.WithCodec(&idCodec{id: r.codecID})
		}
		w, err = wal.Open(r.dir, wal.WithSegmentSize(r.segSize), wal.WithMetricsCollector(r.t), wal.WithLogger(hclog.NewNullLogger()), metaOpt, codecOpt)
	} else {
		if n := r.cfs.adoptPending(); n > 0 {
			r.c.stats["open_adopts_unsynced_batch"] += n
		}
		sf := segment.NewFiler("d", r.cfs)
		ms := &cmeta{fs: r.cfs}
		if r.codecID != 1 {
			w, err = wal.Open("d", wal.WithSegmentFiler(sf), wal.WithMetaStore(ms), wal.WithSegmentSize(r.segSize), wal.WithMetricsCollector(r.t), wal.WithLogger(hclog.NewNullLogger()), wal.WithCodec(&idCodec{id: r.codecID}))
		} else {
			w, err = wal.Open("d", wal.WithSegmentFiler(sf), wal.WithMetaStore(ms), wal.WithSegmentSize(r.segSize), wal.WithMetricsCollector(r.t), wal.WithLogger(hclog.NewNullLogger()))
		}
	}
	if r.cfs != nil {
		r.openMark = r.cfs.nActions()
	}
	if err != nil {
		r.w = nil
		return "err"
	}
	r.w = w
	return "ok"
}

// audit reads first, last and every entry with metrics paused
func (r *walRun) audit() (string, *refLog) {
	atomic.StoreInt32(&r.t.paused, 1)
	defer atomic.StoreInt32(&r.t.paused, 0)
	f, err1 := r.w.FirstIndex()
	l, err2 := r.w.LastIndex()
	if err1 != nil || err2 != nil {
		return walErrKind(err1), nil
	}
	got := newRef()
	got.first, got.last = f, l
	parts := []string{fmt.Sprintf("%x.%x", f, l)}
	if f != 0 {
		for i := f; i <= l; i++ {
			var lg raft.Log
			err := r.w.GetLog(i, &lg)
			if err != nil {
				parts = append(parts, walErrKind(err))
				got.ents[i] = "!" + walErrKind(err)
			} else {
				s := logFields(&lg, true)
				parts = append(parts, "ok:"+strings.ReplaceAll(s, " ", ","))
				got.ents[i] = oracleFields(&lg)
			}
		}
	}
	return strings.Join(parts, ","), got
}

func cloneAcked(m map[uint64]string) map[uint64]string {
	n := make(map[uint64]string, len(m))
	for k, v := range m {
		n[k] = v
	}
	return n
}

// checkAcked: every acknowledged entry not covered by a later DeleteRange call must
// be readable and unchanged (C01 after a crash, C10 after I/O errors, C05 otherwise)
func (r *walRun) checkAcked(got *refLog, when string) {
	for idx, want := range r.acked {
		if got.ents[idx] != want {
			prop, sig := "C05", "acked-entry-missing"
			if r.everFaulted {
				prop, sig = "C10", "acked-entry-lost-after-io-error"
			} else if strings.Contains(when, "crash") {
				prop, sig = "C01", "acked-entry-lost"
			}
			r.c.witness(prop, sig, fmt.Sprintf("%s: entry %d acknowledged as %s, now %q", when, idx, trunc(want, 60), trunc(got.ents[idx], 60)), r.line)
			return
		}
	}
}

func stableClone(m map[string]string) map[string]string {
	n := make(map[string]string, len(m))
	for k, v := range m {
		n[k] = v
	}
	return n
}

func cloneAlts(a []*refLog) []*refLog {
	var r []*refLog
	for _, x := range a {
		r = append(r, x.clone())
	}
	return r
}

func dedupAlts(a []*refLog) []*refLog {
	seen := map[string]bool{}
	var r []*refLog
	for _, x := range a {
		k := x.key()
		if !seen[k] {
			seen[k] = true
			r = append(r, x)
		}
	}
	if len(r) > 8 {
		r = r[:8]
	}
	return r
}

// checkRecovered: after an Open that follows a crash or restart, the recovered
// log must be exactly one of the allowed states.
func (r *walRun) checkRecovered(what string) {
	_, got := r.audit()
	if got == nil {
		return
	}
	r.checkAcked(got, what)
	if r.everFaulted {
		// with I/O errors in the history the exact set of allowed states is decided by
		// the model comparison; the oracle keeps to the acknowledged entries
		r.alts = []*refLog{got}
		return
	}
	for i, a := range r.alts {
		if a.key() == got.key() {
			if len(r.alts) > 1 {
				if i == 0 {
					r.c.stat("recovered_acked_state")
				} else {
					r.c.stat("recovered_inflight_state")
				}
			} else {
				r.c.stat("recovered_only_allowed_state")
			}
			r.alts = []*refLog{a}
			return
		}
	}
	// classify the failure for the property it breaks
	nominal := r.alts[0]
	lost := false
	for i := nominal.first; !nominal.empty() && i <= nominal.last; i++ {
		inAll := true
		for _, a := range r.alts {
			if a.ents[i] != nominal.ents[i] {
				inAll = false
			}
		}
		if inAll && got.ents[i] != nominal.ents[i] {
			lost = true
		}
	}
	prop, sig := "C02", "recovered-state-not-allowed"
	if lost {
		prop, sig = "C01", "acked-entry-lost"
		if r.faulted {
			prop, sig = "C10", "acked-entry-lost-after-io-error"
		}
	}
	r.c.witness(prop, sig, fmt.Sprintf("after %s the log is %s but only %d state(s) are allowed, e.g. %s", what, trunc(got.key(), 200), len(r.alts), trunc(nominal.key(), 200)), r.line)
	if prop != "C04" && got.first != 0 {
		// also a C04 symptom when first/last are neither old nor new
		okFL := false
		for _, a := range r.alts {
			if a.first == got.first && a.last == got.last {
				okFL = true
			}
		}
		if !okFL {
			r.c.witness("C04", "truncation-not-atomic", fmt.Sprintf("after %s first/last = %d/%d match no allowed state", what, got.first, got.last), r.line)
		}
	}
	r.alts = []*refLog{got}
}

func trunc(s string, n int) string {
	if len(s) > n {
		return s[:n] + "..."
	}
	return s
}

// checkHeld: values returned by Get earlier must still be what they were (they must
// not alias memory the store reuses); checked while the store is still open
func (r *walRun) checkHeld() {
	for _, h := range r.heldVals {
		if string(h.v) != h.want {
			r.c.witness("C08", "stable-value-aliased", fmt.Sprintf("a value returned by Get(%x) changed after later operations (it aliases the store's memory)", h.key), r.line)
			break
		}
	}
	r.heldVals = nil
}

func (r *walRun) checkDir() {
	if r.cfs == nil || r.cfs.meta == nil {
		return
	}
	want := map[string]bool{}
	for _, si := range r.cfs.meta.Segments {
		want[segment.FileName(si)] = true
	}
	names := r.cfs.listNames()
	for _, n := range names {
		if !want[n] {
			r.c.witness("C13", "unlisted-file-after-open", "file "+n+" is not listed in the metadata but remains after Open", r.line)
		}
		delete(want, n)
	}
	for n := range want {
		r.c.witness("C13", "listed-file-missing-after-open", "segment "+n+" is listed but has no file after Open", r.line)
	}
}

// checkDirLive: the same comparison on a RUNNING WAL (C13, first clause).  Only called at
// points where no background rotation can be in flight (DeleteRange of a non-empty range
// and the W barrier both await it under the write lock), no reader holds an older state
// (the workload is sequential) and no I/O fault was ever injected (a failed Delete is
// only logged by the WAL).
func (r *walRun) checkDirLive(what string) {
	if r.cfs == nil || r.cfs.meta == nil || r.w == nil || r.everFaulted || r.cfs.faultIn >= 0 {
		return
	}
	r.c.stat("live_dir_checks")
	want := map[string]bool{}
	for _, si := range r.cfs.meta.Segments {
		want[segment.FileName(si)] = true
	}
	names, _ := r.cfs.ListDir("d")
	for _, n := range names {
		if !want[n] {
			r.c.witness("C13", "unlisted-file-in-running-wal", "after "+what+" file "+n+" is not listed in the metadata but is still in the directory", r.line)
		}
		delete(want, n)
	}
	for n := range want {
		r.c.witness("C13", "listed-file-missing-in-running-wal", "after "+what+" segment "+n+" is listed but has no file", r.line)
	}
}

func execWal(c *ctx, line string) (obs string) {
	done := make(chan string, 1)
	go func() {
		r := &walRun{c: c, line: line}
		defer func() {
			if e := recover(); e != nil {
				r.out = append(r.out, "panic")
				prop := "C11"
				if strings.Contains(fmt.Sprint(e), "invalid metric name") {
					prop = "C20"
				}
				st := strings.ReplaceAll(string(debug.Stack()), "\n", " | ")
				st = strings.ReplaceAll(st, "\t", " ")
				if i := strings.Index(st, "panic("); i >= 0 {
					st = st[i:]
				}
				c.witness(prop, "wal-panic", fmt.Sprintf("panic: %v @ %s", e, trunc(st, 900)), line)
				done <- strings.Join(r.out, " ")
			}
		}()
		done <- r.run()
	}()
	select {
	case s := <-done:
		return s
	case <-time.After(60 * time.Second):
		c.witness("C11", "wal-hang", "workload did not finish within 60s", line)
		return "hang"
	}
}

func (r *walRun) run() string {
	f := strings.Split(r.line, " ")
	if f[0] != "wal" || len(f) < 4 {
		return "badinput"
	}
	r.segSize = int(parseU(f[1]))
	r.codecID = parseU(f[2])
	r.mode = f[3]
	r.alts = []*refLog{newRef()}
	r.stable = map[string]string{}
	r.acked = map[uint64]string{}
	if r.mode == "r" {
		d, err := os.MkdirTemp(r.c.work, "wal")
		if err != nil {
			return "badinput"
		}
		r.dir = d
		defer func() {
			if r.w != nil {
				r.w.Close()
			}
			os.RemoveAll(d)
		}()
	} else {
		r.cfs = newCrashFS()
	}
	ops := f[4:]
	emit := func(s string) { r.out = append(r.out, s) }
	for i := 0; i < len(ops); i++ {
		op := ops[i]
		r.c.stat("op_" + op)
		actsBefore := r.nActs()
		altsBefore := cloneAlts(r.alts)
		ackedBefore := cloneAcked(r.acked)
		stableBefore := stableClone(r.stable)
		record := true
		switch op {
		case "O":
			armed := r.cfs != nil && r.cfs.faultIn >= 0
			res := r.open()
			emit(res)
			// codec identifiers (C12)
			reserved := r.codecID != 1 && r.codecID < 65536
			if res == "ok" {
				if reserved {
					r.c.witness("C12", "reserved-codec-id-accepted", fmt.Sprintf("Open accepts the reserved codec id %d", r.codecID), r.line)
				} else if r.dirCodec == 0 {
					r.dirCodec = r.codecID
				} else if r.dirCodec != r.codecID {
					r.c.witness("C12", "foreign-codec-id-accepted", fmt.Sprintf("directory written with codec id %d opens with codec id %d", r.dirCodec, r.codecID), r.line)
				}
			} else if !reserved && !armed && !r.everFaulted && (r.dirCodec == 0 || r.dirCodec == r.codecID) && !r.afterCrash {
				r.c.witness("C12", "same-codec-refused", fmt.Sprintf("Open fails although the directory was written with the same codec id %d", r.codecID), r.line)
			}
			if res == "ok" {
				if r.afterCrash {
					r.checkRecovered("crash/restart + Open")
					r.afterCrash = false
				}
				if !armed {
					r.checkDir()
				}
				r.faulted = r.cfs != nil && r.cfs.faultIn >= 0
			} else if r.afterCrash && !armed {
				r.c.witness("C03", "open-fails-after-crash", "Open returns an error on a directory state left by a crash", r.line)
			}
			if res != "ok" && !armed && r.everFaulted && !reserved && (r.dirCodec == 0 || r.dirCodec == r.codecID) {
				// C10: after I/O errors an Open into which no fault is injected succeeds
				r.c.witness("C10", "open-fails-after-io-error", "Open, with no fault injected into it, returns an error on the directory earlier I/O errors left", r.line)
			}
		case "S":
			k := int(parseU(ops[i+1]))
			logs := make([]*raft.Log, k)
			for j := 0; j < k; j++ {
				logs[j] = parseLogFields(ops[i+2+8*j : i+10+8*j])
			}
			i += 1 + 8*k
			if r.w == nil {
				emit("nowal")
				continue
			}
			faultArmed := r.cfs != nil && r.cfs.faultIn >= 0
			err := r.w.StoreLogs(logs)
			kind := walErrKind(err)
			emit(kind)
			valid := r.alts[0].clone().store(logs)
			if err == nil {
				var keep []*refLog
				for _, a := range r.alts {
					if a.store(logs) {
						keep = append(keep, a)
					}
				}
				if !valid && k > 0 && !r.everFaulted {
					r.c.witness("C05", "invalid-append-accepted", "StoreLogs accepted a batch the contiguous-log model refuses", r.line)
				}
				if len(keep) == 0 {
					keep = []*refLog{r.alts[0]}
				}
				r.alts = keep
				for _, l := range logs {
					r.acked[l.Index] = oracleFields(l)
				}
				r.tot["log_appends"]++
				r.tot["log_entries_written"] += uint64(k)
				for _, l := range logs {
					var buf bytes.Buffer
					(&wal.BinaryCodec{}).Encode(l, &buf)
					r.tot["log_entry_bytes_written"] += uint64(buf.Len())
					if r.encLen == nil {
						r.encLen = map[uint64]int{}
					}
					r.encLen[l.Index] = buf.Len()
				}
			} else {
				if valid && k > 0 && !faultArmed && !r.everFaulted && kind != "closed" && kind != "toobig" && encodable(logs) {
					prop, sig := "C05", "valid-append-refused"
					if kind == "sealed" || kind == "failed" {
						prop, sig = "C03", "append-refused-"+kind
					}
					r.c.witness(prop, sig, "StoreLogs at LastIndex+1 returned "+kind, r.line)
				}
				// an errored call may still be applied in full after a reopen
				var more []*refLog
				for _, a := range r.alts {
					b := a.clone()
					if b.store(logs) {
						more = append(more, b)
					}
				}
				r.alts = dedupAlts(append(r.alts, more...))
			}
		case "W":
			if r.w != nil {
				if r.w.DeleteRange(math.MaxUint64, math.MaxUint64) == nil {
					r.checkDirLive("the rotation barrier")
				}
			}
		case "D":
			mn, mx := parseU(ops[i+1]), parseU(ops[i+2])
			i += 2
			if r.w == nil {
				emit("nowal")
				continue
			}
			faultArmed := r.cfs != nil && r.cfs.faultIn >= 0
			before := r.alts[0].clone()
			err := r.w.DeleteRange(mn, mx)
			kind := walErrKind(err)
			emit(kind)
			for idx := range r.acked {
				if idx >= mn && idx <= mx {
					delete(r.acked, idx)
				}
			}
			valid := r.alts[0].clone().del(mn, mx)
			if err == nil {
				if !valid && !r.everFaulted {
					r.c.witness("C05", "middle-delete-accepted", "DeleteRange of a strict middle range returned nil", r.line)
				}
				for _, a := range r.alts {
					a.del(mn, mx)
				}
				r.alts = dedupAlts(r.alts)
				if mn <= mx {
					r.checkDirLive("DeleteRange")
				}
				removed := uint64(len(before.ents) - len(r.alts[0].ents))
				if removed > 0 {
					if mn <= before.first {
						r.tot["head_truncations"] += removed
					} else {
						r.tot["tail_truncations"] += removed
					}
				}
			} else {
				if valid && !faultArmed && !r.everFaulted && kind != "closed" {
					r.c.witness("C03", "delete-refused-"+kind, "valid DeleteRange returned "+kind, r.line)
				}
				var more []*refLog
				for _, a := range r.alts {
					b := a.clone()
					if b.del(mn, mx) {
						more = append(more, b)
					}
				}
				r.alts = dedupAlts(append(r.alts, more...))
			}
		case "G":
			idx := parseU(ops[i+1])
			i++
			if r.w == nil {
				emit("nowal")
				continue
			}
			lg, held := dirtyHeld() // GetLog into a reused struct: every field must be overwritten
			err := r.w.GetLog(idx, &lg)
			if msg := held(); msg != "" {
				r.c.witness("C12", "read-overwrites-held-entry", "GetLog: "+msg, r.line)
			}
			r.tot["log_entries_read"]++
			nom := r.alts[0]
			if err != nil {
				emit(walErrKind(err))
				if want, ok := nom.ents[idx]; ok && walErrKind(err) != "closed" && !r.everFaulted {
					prop, sig := "C05", "entry-in-range-unreadable"
					if r.faulted {
						prop, sig = "C10", "acked-entry-unreadable-after-io-error"
					}
					r.c.witness(prop, sig, fmt.Sprintf("GetLog(%d) = %v but the log holds %s", idx, err, trunc(want, 80)), r.line)
				}
			} else {
				s := logFields(&lg, true)
				emit("ok:" + strings.ReplaceAll(s, " ", ","))
				// bytes read = length of the stored encoding (re-encoding the decoded entry can be
				// shorter: time.Time's binary form loses a negative sub-minute zone offset)
				if n, ok := r.encLen[idx]; ok {
					r.tot["log_entry_bytes_read"] += uint64(n)
				} else {
					var buf bytes.Buffer
					(&wal.BinaryCodec{}).Encode(&lg, &buf)
					r.tot["log_entry_bytes_read"] += uint64(buf.Len())
				}
				s = oracleFields(&lg)
				if want, ok := nom.ents[idx]; r.everFaulted {
				} else if !ok {
					r.c.witness("C05", "entry-outside-range-readable", fmt.Sprintf("GetLog(%d) succeeds but FirstIndex..LastIndex is %d..%d", idx, nom.first, nom.last), r.line)
				} else if want != s {
					r.c.witness("C05", "wrong-entry", fmt.Sprintf("GetLog(%d) returns %s, stored %s", idx, trunc(s, 80), trunc(want, 80)), r.line)
				}
			}
		case "F", "L":
			if r.w == nil {
				emit("nowal")
				continue
			}
			var v uint64
			var err error
			if op == "F" {
				v, err = r.w.FirstIndex()
			} else {
				v, err = r.w.LastIndex()
			}
			if err != nil {
				emit(walErrKind(err))
			} else {
				emit(fmt.Sprintf("%x", v))
				want := r.alts[0].first
				if op == "L" {
					want = r.alts[0].last
				}
				if v != want && !r.everFaulted {
					r.c.witness("C05", "first-last-wrong", fmt.Sprintf("%s = %d, model %d", op, v, want), r.line)
				}
			}
		case "A":
			if r.w == nil {
				emit("nowal")
				continue
			}
			s, got := r.audit()
			emit(s)
			if got != nil {
				r.checkAcked(got, "in-process audit")
				if !r.everFaulted && got.key() != r.alts[0].key() {
					r.c.witness("C05", "audit-differs-from-model", "log is "+trunc(got.key(), 160)+" model "+trunc(r.alts[0].key(), 160), r.line)
				}
			}
		case "K":
			key, val := parseHex(ops[i+1]), ops[i+2]
			i += 2
			if r.w == nil {
				emit("nowal")
				continue
			}
			var v []byte
			if val != "nil" {
				v = parseHex(val)
				if v == nil {
					v = []byte{}
				}
			}
			err := r.w.Set(key, v)
			emit(walErrKind(err))
			r.tot["stable_sets"]++
			if err == nil && len(key) > 0 && len(key) <= 32768 {
				if len(v) == 0 {
					delete(r.stable, string(key))
				} else {
					r.stable[string(key)] = string(v)
				}
			}
		case "k":
			key := parseHex(ops[i+1])
			i++
			if r.w == nil {
				emit("nowal")
				continue
			}
			v, err := r.w.Get(key)
			r.tot["stable_gets"]++
			if err != nil {
				emit(walErrKind(err))
			} else {
				emit(hx(v))
				// keep the returned slice: it must stay what it was when Get returned
				r.heldVals = append(r.heldVals, heldVal{v: v, want: string(v), key: string(key)})
				if string(v) != r.stable[string(key)] && !r.everFaulted {
					r.c.witness("C08", "stable-get-wrong", fmt.Sprintf("Get(%x) = %x, last successful Set wrote %x", key, v, r.stable[string(key)]), r.line)
				}
			}
		case "U":
			key, val := parseHex(ops[i+1]), parseU(ops[i+2])
			i += 2
			if r.w == nil {
				emit("nowal")
				continue
			}
			err := r.w.SetUint64(key, val)
			emit(walErrKind(err))
			r.tot["stable_sets"]++
			if err == nil && len(key) > 0 {
				var b [8]byte
				for j := 0; j < 8; j++ {
					b[j] = byte(val >> (8 * uint(j)))
				}
				r.stable[string(key)] = string(b[:])
			}
		case "u":
			key := parseHex(ops[i+1])
			i++
			if r.w == nil {
				emit("nowal")
				continue
			}
			v, err := r.w.GetUint64(key)
			r.tot["stable_gets"]++
			if err != nil {
				emit(walErrKind(err))
			} else {
				emit(fmt.Sprintf("%x", v))
			}
		case "X":
			if r.w == nil {
				emit("nowal")
				continue
			}
			r.checkHeld() // before the store's memory goes away
			r.w.Close()
			emit("ok")
			r.probeClosed()
		case "M":
			emit(r.t.summary())
			if d := r.t.collectorDiff(); d != "" {
				r.c.witness("C20", "atomic-collector-summary", "metrics.AtomicCollector: "+d, r.line)
			}
			if d := r.t.goMetricsDiff(); d != "" {
				r.c.witness("C20", "gometrics-collector", "metrics.GoMetricsCollector: "+d, r.line)
			}
			for _, n := range counterNames {
				if n == "segment_rotations" {
					// the truth comes from the persisted-metadata history: the commits crashfs
					// recorded since the last Open that have the shape of a rotation (crashFS.isRotation,
					// coq/Wal/MetricsSpec.v is_rotation; Props/C20.v C20_rotations_true)
					if r.cfs == nil || r.everFaulted {
						continue
					}
					r.tot[n] = r.cfs.rotationsSince(r.openMark)
					r.c.stat("rotation_oracle_checks")
					if r.tot[n] > 0 {
						r.c.stat("rotation_oracle_checks_nonzero")
					}
				}
				if r.t.get(n) != r.tot[n] && !r.everFaulted {
					r.c.witness("C20", "counter-"+n, fmt.Sprintf("%s = %d, true total %d", n, r.t.get(n), r.tot[n]), r.line)
				}
			}
		case "P":
			if r.cfs == nil {
				emit(realMeta(r.dir))
			} else if r.cfs.meta == nil {
				emit("-")
			} else {
				emit(showPS(r.cfs.meta))
			}
		case "Y":
			var names []string
			if r.cfs != nil {
				names = r.cfs.listNames()
			} else {
				ents, _ := os.ReadDir(r.dir)
				for _, e := range ents {
					if strings.HasSuffix(e.Name(), ".wal") {
						names = append(names, e.Name())
					}
				}
			}
			if len(names) == 0 {
				emit("-")
			} else {
				var ts []string
				for _, n := range names {
					ts = append(ts, nameTok(n))
				}
				emit(strings.Join(ts, ","))
			}
		case "T":
			if r.cfs == nil {
				emit("-")
			} else {
				all := r.cfs.counted()
				emit(canonTrace(all[r.mark-r.cfs.baseCount:]))
				r.mark = r.cfs.nCounted()
			}
		case "N":
			emit(fmt.Sprintf("%x", r.nActs()))
		case "!":
			k := int(parseU(ops[i+1]))
			i++
			if r.cfs != nil {
				r.cfs.faultIn = k
				r.faulted = true
				r.everFaulted = true
			}
			record = false
		case "?":
			// fault modes, in force while a counted fault is armed: 1 every deletion
			// fails, 2 the next directory listing fails, 4 a creation hit by the counted
			// fault leaves the empty file behind, 8 a CommitState / SetStable hit by the
			// counted fault takes effect and returns the error
			fl := parseU(ops[i+1])
			i++
			if r.cfs != nil {
				r.cfs.failDeletes = fl&1 != 0
				r.cfs.failList = fl&2 != 0
				r.cfs.createLeaves = fl&4 != 0
				r.cfs.commitLands = fl&8 != 0
				if fl != 0 {
					r.faulted = true
					r.everFaulted = true
				}
			}
			record = false
		case "~":
			if r.cfs != nil {
				r.cfs.faultIn = -1
				r.cfs.failDeletes, r.cfs.failList, r.cfs.createLeaves, r.cfs.commitLands = false, false, false, false
			}
			record = false
		case "Q":
			r.codecID = parseU(ops[i+1])
			i++
			record = false
		case "Z":
			// process restart without power loss: abandon the WAL object
			r.w = nil
			r.afterCrash = true
			r.mark = r.nActs()
			record = false
		case "C":
			k := int(parseU(ops[i+1]))
			nf := int(parseU(ops[i+2]))
			keepFile, keepBatch := map[string]bool{}, map[string]bool{}
			p := i + 3
			for j := 0; j < nf; j++ {
				keepFile[fmt.Sprintf("%020d-%016x.wal", parseU(ops[p]), parseU(ops[p+1]))] = true
				p += 2
			}
			nb := int(parseU(ops[p]))
			p++
			for j := 0; j < nb; j++ {
				keepBatch[fmt.Sprintf("%020d-%016x.wal", parseU(ops[p]), parseU(ops[p+1]))] = true
				p += 2
			}
			nt := int(parseU(ops[p]))
			p++
			torn := map[string]*big.Int{}
			for j := 0; j < nt; j++ {
				m, _ := new(big.Int).SetString(ops[p+2], 16)
				torn[fmt.Sprintf("%020d-%016x.wal", parseU(ops[p]), parseU(ops[p+1]))] = m
				p += 3
			}
			i = p - 1
			if r.cfs == nil {
				return "badinput"
			}
			r.c.stat("crashes")
			if cnt := r.cfs.counted(); k-r.cfs.baseCount >= 1 && k-r.cfs.baseCount <= len(cnt) {
				r.c.stat("crash_after_" + string(cnt[k-r.cfs.baseCount-1].kind))
			} else {
				r.c.stat("crash_after_none")
			}
			r.c.stats["crash_kept_nondurable_files"] += len(keepFile)
			r.c.stats["crash_kept_batches"] += len(keepBatch)
			r.c.stats["crash_torn_batches"] += len(torn)
			if len(r.hist) == 1 && r.hist[0].actsBefore == r.hist[0].actsAfter && r.lastCrashK > 0 {
				r.c.stat("crash_nested")
			}
			// allowed states: what was acknowledged when action k completed, or the op in flight applied
			var alts []*refLog
			var st map[string]string
			var ak map[uint64]string
			found := false
			for _, h := range r.hist {
				if h.actsBefore < k && k < h.actsAfter {
					alts = append(cloneAlts(h.before), cloneAlts(h.after)...)
					st = h.stableBefore
					// acknowledged AND not covered by a DeleteRange that was already issued
					ak = map[uint64]string{}
					for idx, v := range h.ackedBefore {
						if h.ackedAfter[idx] == v {
							ak[idx] = v
						}
					}
					found = true
					break
				}
				if h.actsAfter <= k {
					alts = cloneAlts(h.after)
					st = h.stableAfter
					ak = h.ackedAfter
					found = true
				}
			}
			if !found {
				alts = []*refLog{newRef()}
				st = map[string]string{}
			}
			r.acked = cloneAcked(ak)
			r.alts = dedupAlts(alts)
			r.stable = stableClone(st)
			// torn batches: only the header chunk of the pending write persists (deterministic)
			r.cfs = r.cfs.imageAt(k, keepFile, keepBatch, func(name string, nch int) []bool {
				m := torn[name]
				if m == nil {
					return nil
				}
				b := make([]bool, nch)
				for ch := 0; ch < nch; ch++ {
					b[ch] = m.Bit(ch) == 1
				}
				return b
			})
			r.w = nil
			r.afterCrash = true
			r.faulted = false
			r.mark = k
			r.lastCrashK = k
			// baseline for a later crash: what this crash leaves as allowed states
			r.hist = []histEntry{{actsBefore: k, actsAfter: k, before: cloneAlts(r.alts), after: cloneAlts(r.alts),
				stableBefore: stableClone(r.stable), stableAfter: stableClone(r.stable),
				ackedBefore: cloneAcked(r.acked), ackedAfter: cloneAcked(r.acked)}}
			record = false
		default:
			return strings.Join(append(r.out, "badinput"), " ")
		}
		if record {
			r.hist = append(r.hist, histEntry{actsBefore: actsBefore, actsAfter: r.nActs(), before: altsBefore,
				after: cloneAlts(r.alts), stableBefore: stableBefore, stableAfter: stableClone(r.stable),
				ackedBefore: ackedBefore, ackedAfter: cloneAcked(r.acked)})
		}
	}
	if r.w != nil {
		r.checkHeld()
	}
	if r.cfs != nil {
		for k, v := range r.cfs.faultsFired {
			r.c.stats["fault_fired_on_"+k] += v
		}
	}
	if r.cfs != nil {
		for k, v := range r.cfs.events {
			r.c.stats[k] += v
		}
	}
	if r.cfs != nil && r.cfs.dupID != "" {
		r.c.witness("C13", "segment-identity-reused", r.cfs.dupID, r.line)
	}
	return strings.Join(r.out, " ")
}

// oracleFields: the fields the properties compare (AppendedAt as an instant; the
// zone offset is not part of equality: time.Time's binary form does not round
// trip negative sub-minute offsets)
func oracleFields(l *raft.Log) string {
	return fmt.Sprintf("%s|%d.%d", logFields(l, false), l.AppendedAt.Unix(), l.AppendedAt.Nanosecond())
}

func encodable(logs []*raft.Log) bool {
	for _, l := range logs {
		var buf bytes.Buffer
		if (&wal.BinaryCodec{}).Encode(l, &buf) != nil {
			return false
		}
	}
	return true
}

func showPS(ps *types.PersistentState) string {
	parts := []string{fmt.Sprintf("%x", ps.NextSegmentID)}
	for _, s := range ps.Segments {
		sealed := 0
		if !s.SealTime.IsZero() {
			sealed = 1
		}
		parts = append(parts, fmt.Sprintf("%x.%x.%x.%x.%x.%d.%x", s.ID, s.BaseIndex, s.MinIndex, s.MaxIndex, s.IndexStart, sealed, s.Codec))
	}
	return strings.Join(parts, ",")
}

// realMeta reads the persisted state straight from the BoltDB file (read-only
// second handle is not possible while the WAL holds the lock, so this is only
// used after Close).
func realMeta(dir string) string {
	db, err := bbolt.Open(filepath.Join(dir, "wal-meta.db"), 0600, &bbolt.Options{ReadOnly: true, Timeout: time.Second})
	if err != nil {
		return "locked"
	}
	defer db.Close()
	var out string
	db.View(func(tx *bbolt.Tx) error {
		b := tx.Bucket([]byte("wal-meta"))
		if b == nil {
			out = "nobucket"
			return nil
		}
		raw := b.Get([]byte("m"))
		if raw == nil {
			out = "-"
			return nil
		}
		var ps types.PersistentState
		if err := jsonUnmarshal(raw, &ps); err != nil {
			out = "badjson"
			return nil
		}
		out = showPS(&ps)
		return nil
	})
	return out
}
