package main

import (
	"bytes"
	"fmt"
	"math"
	"os"
	"runtime"
	"strings"
	"sync"
	"time"

	"github.com/hashicorp/go-hclog"
	"github.com/hashicorp/raft"
	wal "github.com/hashicorp/raft-wal"
	"github.com/hashicorp/raft-wal/segment"
)

// twowriters (C14, implementation only): TWO mutating goroutines, as hashicorp/raft has them
// (main loop: StoreLogs and suffix DeleteRange; snapshot goroutine: prefix DeleteRange), with a
// rotation pending -- "in-flight StoreLogs, DeleteRange, pending rotation" of the property's
// quantifier.  The L3 model and its theorems have ONE mutating thread; this stream is the
// implementation-side probe of what lies beyond them.
//
// Forced scenario (schedule points of the verif build, one channel per parked goroutine):
//   W1 StoreLogs(1) fills the tail: rotation 1 queued, rotation goroutine held before its Lock;
//   W2 <DeleteRange variant> and W1 StoreLogs(2) both find awaitRotate set and wait (parked at
//   awaitRotation.waiting); rotation 1 runs; then, in the order given by the line, the two
//   waiters go on.  When W1 goes first its append fills the NEW tail and queues rotation 2
//   (rotation goroutine held again) before W2 re-takes the lock: W2 must wait again.
// Oracle: the log afterwards equals the two calls applied one after the other in the order
// in which they took the lock; a further append at LastIndex+1 is accepted; after Close the
// next Open succeeds and shows the same log (twice).
// History: before the repair `fae88cb` W2 went on with rotation 2 queued: the rotation then
// sealed the brand-new tail with the old index offset and created a segment with a colliding
// base index -- entries outside the deleted range unreadable, Open failing for good.

func init() { streams["twowriters"] = &stream{gen: genTwoWriters, exec: execTwoWriters} }

func genTwoWriters(c *ctx, emit func(string)) {
	n := 0
	for n < c.n {
		for _, op := range []string{"da", "t", "d1", "dbig", "tmid"} {
			for _, first := range []string{"w1", "w2"} {
				for _, seg := range []int{512, 1024} {
					if n < c.n {
						emit(fmt.Sprintf("#tw %s %s %d", op, first, seg))
						n++
					}
				}
			}
		}
	}
}

func goid() string {
	b := make([]byte, 64)
	b = b[:runtime.Stack(b, false)]
	return string(bytes.Fields(b)[1])
}

var twMu sync.Mutex // one scenario at a time: the hook is global

func execTwoWriters(c *ctx, line string) string {
	twMu.Lock()
	defer twMu.Unlock()
	ch := make(chan string, 1)
	go func() { ch <- execTwoWriters1(c, line) }()
	select {
	case o := <-ch:
		return o
	case <-time.After(60 * time.Second):
		wal.SetVerifHook(nil)
		c.witness("C14", "two-writers-deadlock", "StoreLogs / DeleteRange of two goroutines with a pending rotation do not return", line)
		return "hang"
	}
}

func execTwoWriters1(c *ctx, line string) (obs string) {
	defer func() {
		if e := recover(); e != nil {
			obs = "panic"
			c.witness("C14", "two-writers-panic", fmt.Sprintf("panic: %v", e), line)
		}
	}()
	f := strings.Fields(line)
	if len(f) != 4 {
		return "badinput"
	}
	w2op, first := f[1], f[2]
	seg := int(parseU10(f[3]))
	// rotation goroutines of WALs closed by earlier cases pass runRotate.received on their way
	// out: let them go before the hook of this case is installed
	for k := 0; k < 4000 && countGoroutines("raft-wal.(*WAL).runRotate") > 0; k++ {
		time.Sleep(500 * time.Microsecond)
	}
	var mu sync.Mutex
	parked := map[string]chan struct{}{}
	role := map[string]string{}
	hold := map[string]bool{}
	arrived := make(chan string, 32)
	wal.SetVerifHook(func(point string) {
		if point != "runRotate.received" && point != "awaitRotation.waiting" {
			return
		}
		mu.Lock()
		r := role[goid()]
		if point == "runRotate.received" {
			if r != "R" { // the rotation goroutine of another (closed, re-opened) WAL
				mu.Unlock()
				return
			}
		}
		key := point + "@" + r
		if !hold[key] {
			mu.Unlock()
			return
		}
		ch := make(chan struct{})
		parked[key] = ch
		mu.Unlock()
		arrived <- key
		select {
		case <-ch:
		case <-time.After(30 * time.Second):
		}
	})
	defer wal.SetVerifHook(nil)
	setHold := func(k string, v bool) { mu.Lock(); hold[k] = v; mu.Unlock() }
	release := func(k string) bool {
		mu.Lock()
		ch := parked[k]
		delete(parked, k)
		mu.Unlock()
		if ch != nil {
			close(ch)
		}
		return ch != nil
	}
	waitFor := func(k string, d time.Duration) bool {
		select {
		case got := <-arrived:
			if got != k {
				fmt.Fprintf(os.Stderr, "twowriters: expected %s, arrived %s (%s)\n", k, got, line)
			}
			return got == k
		case <-time.After(d):
			fmt.Fprintf(os.Stderr, "twowriters: expected %s, timeout (%s)\n", k, line)
			return false
		}
	}
	spawn := func(name string, fn func()) chan struct{} {
		done := make(chan struct{})
		go func() {
			mu.Lock()
			role[goid()] = name
			mu.Unlock()
			defer close(done)
			defer func() {
				if e := recover(); e != nil {
					c.witness("C14", "two-writers-panic", fmt.Sprintf("panic in %s: %v", name, e), line)
				}
			}()
			fn()
		}()
		return done
	}
	const R, W1w, W2w = "runRotate.received@R", "awaitRotation.waiting@W1", "awaitRotation.waiting@W2"

	cfs := newCrashFS()
	open := func() (*wal.WAL, error) {
		return wal.Open("d", wal.WithSegmentFiler(segment.NewFiler("d", cfs)), wal.WithMetaStore(&cmeta{fs: cfs}),
			wal.WithSegmentSize(seg), wal.WithLogger(hclog.NewNullLogger()))
	}
	stale := map[uint64]bool{}
	for id, g := range allGoroutines() {
		if strings.Contains(g.text, "raft-wal.(*WAL).runRotate") {
			stale[id] = true
		}
	}
	w, err := open()
	if err != nil {
		return "badinput"
	}
	nrot := 0
	for k := 0; k < 400 && nrot != 1; k++ {
		nrot = 0
		for id, g := range allGoroutines() {
			if strings.Contains(g.text, "raft-wal.(*WAL).runRotate") && !stale[id] {
				mu.Lock()
				role[fmt.Sprint(id)] = "R"
				mu.Unlock()
				nrot++
			}
		}
		if nrot != 1 {
			time.Sleep(500 * time.Microsecond)
		}
	}
	if nrot != 1 {
		w.Close()
		return fmt.Sprintf("badinput-rotator-%d", nrot)
	}
	closed := false
	defer func() {
		setHold(R, false)
		setHold(W1w, false)
		setHold(W2w, false)
		release(R)
		release(W1w)
		release(W2w)
		if !closed {
			w.Close()
		}
	}()
	payload := func(i uint64) []byte { return bytes.Repeat([]byte{byte('a' + i)}, seg+100) } // one entry fills a segment
	ref := map[uint64][]byte{}
	rfirst, rlast := uint64(0), uint64(0)
	// the contiguous-log reference: an append must continue the log (any index on an empty log), a
	// deletion must be a prefix or a suffix; both return false (= the call must fail) otherwise
	refStore := func(i uint64, d []byte) bool {
		if len(ref) > 0 && i != rlast+1 {
			return false
		}
		if len(ref) == 0 {
			rfirst = i
		}
		ref[i] = d
		rlast = i
		return true
	}
	refDelete := func(mn, mx uint64) bool {
		if len(ref) == 0 || mx < rfirst || mn > rlast {
			return true
		}
		if mn > rfirst && mx < rlast {
			return false // strict middle
		}
		for i := mn; i <= mx && i <= rlast; i++ {
			delete(ref, i)
		}
		if mn <= rfirst {
			rfirst = mx + 1
		} else {
			rlast = mn - 1
		}
		if len(ref) == 0 {
			rfirst, rlast = 0, 0
		}
		return true
	}
	setHold(R, true)
	w1idx := uint64(2) // the index of W1's concurrent append
	if w2op == "tmid" {
		// two entries in the batch that fills the tail: DeleteRange(2,2) is a suffix of [1,2] and a
		// strict middle of [1,2,3]
		half := func(i uint64) []byte { return bytes.Repeat([]byte{byte('a' + i)}, seg/2+60) }
		if err := w.StoreLogs([]*raft.Log{{Index: 1, Term: 1, Data: half(1)}, {Index: 2, Term: 1, Data: half(2)}}); err != nil {
			return "badinput"
		}
		refStore(1, half(1))
		refStore(2, half(2))
		w1idx = 3
	} else {
		if err := w.StoreLogs([]*raft.Log{{Index: 1, Term: 1, Data: payload(1)}}); err != nil {
			return "badinput"
		}
		refStore(1, payload(1))
	}
	if !waitFor(R, 3*time.Second) {
		return "badinput-no-rotation"
	}
	var mn, mx uint64
	switch w2op {
	case "da":
		mn, mx = 1, 2
	case "t", "tmid":
		mn, mx = 2, 2
	case "d1":
		mn, mx = 1, 1
	default: // dbig
		mn, mx = 0, 1000
	}
	setHold(W1w, true)
	setHold(W2w, true)
	var e1, e2 error
	ok1, ok2 := true, true
	d2 := spawn("W2", func() { e2 = w.DeleteRange(mn, mx) })
	w2early := false
	select {
	case got := <-arrived:
		if got != W2w {
			return "badinput-w2"
		}
	case <-d2:
		// DeleteRange returned without waiting for the queued rotation: it took effect before W1's append
		w2early = true
	case <-time.After(10 * time.Second):
		return "badinput-w2"
	}
	if w2early {
		first = "w2"
	}
	d1 := spawn("W1", func() { e1 = w.StoreLogs([]*raft.Log{{Index: w1idx, Term: 1, Data: payload(w1idx)}}) })
	if !waitFor(W1w, 10*time.Second) {
		return "badinput-w1"
	}
	// rotation 1 runs to completion (both waiters stay parked in front of their channel receive)
	release(R)
	for k := 0; k < 2000; k++ {
		cfs.mu.Lock()
		n := 0
		if cfs.meta != nil {
			n = len(cfs.meta.Segments)
		}
		cfs.mu.Unlock()
		if n >= 2 {
			break
		}
		time.Sleep(time.Millisecond)
	}
	time.Sleep(30 * time.Millisecond)
	waitDone := func(d chan struct{}, what string) bool {
		select {
		case <-d:
			return true
		case <-time.After(20 * time.Second):
			if os.Getenv("WH_TRACE") != "" {
				buf := make([]byte, 1<<20)
				fmt.Fprintf(os.Stderr, "%s\n", buf[:runtime.Stack(buf, true)])
			}
			c.witness("C14", "two-writers-deadlock", what+" does not return", line)
			return false
		}
	}
	if first == "w1" {
		setHold(W1w, false)
		release(W1w)
		if !waitDone(d1, "StoreLogs(2)") {
			return "hang"
		}
		ok1 = refStore(w1idx, payload(w1idx))
		// rotation 2 is queued (the append filled the new tail): the rotation goroutine is held again
		waitFor(R, 5*time.Second)
		release(W2w)
		// W2 either returns (it went on although a rotation is queued) or waits again
		select {
		case <-d2:
		case <-arrived:
		case <-time.After(10 * time.Second):
		}
		setHold(R, false)
		setHold(W2w, false)
		release(R)
		release(W2w)
		if !waitDone(d2, "DeleteRange") {
			return "hang"
		}
		ok2 = refDelete(mn, mx)
	} else {
		setHold(W2w, false)
		if !w2early {
			release(W2w)
		}
		if !waitDone(d2, "DeleteRange") {
			return "hang"
		}
		ok2 = refDelete(mn, mx)
		setHold(R, false)
		setHold(W1w, false)
		release(W1w)
		if !waitDone(d1, "StoreLogs(2)") {
			return "hang"
		}
		ok1 = refStore(w1idx, payload(w1idx))
		release(R)
	}
	if (e1 == nil) != ok1 || (e2 == nil) != ok2 {
		c.witness("C14", "two-writers-wrong-result", fmt.Sprintf("applied in lock order (%s first) StoreLogs(%d) must %s and DeleteRange(%d,%d) must %s; got %v and %v", first, w1idx, okWord(ok1), mn, mx, okWord(ok2), e1, e2), line)
		return "fail"
	}
	w.DeleteRange(math.MaxUint64, math.MaxUint64) // rotation barrier
	audit := func(w *wal.WAL, when string) bool {
		fi, ea := w.FirstIndex()
		la, eb := w.LastIndex()
		if ea != nil || eb != nil || fi != rfirst || la != rlast {
			c.witness("C14", "two-writers-wrong-log", fmt.Sprintf("%s: FirstIndex/LastIndex = %d/%d (%v, %v); the two calls applied in lock order give %d/%d", when, fi, la, ea, eb, rfirst, rlast), line)
			return false
		}
		for i := uint64(1); i <= 6; i++ {
			var lg raft.Log
			err := w.GetLog(i, &lg)
			want, ok := ref[i]
			if ok && (err != nil || !bytes.Equal(lg.Data, want)) {
				c.witness("C14", "two-writers-wrong-log", fmt.Sprintf("%s: GetLog(%d): %v; the entry was acknowledged and lies outside every deleted range", when, i, err), line)
				return false
			}
			if !ok && err == nil {
				c.witness("C14", "two-writers-wrong-log", fmt.Sprintf("%s: GetLog(%d) succeeds, the index is not in the log", when, i), line)
				return false
			}
		}
		return true
	}
	if !audit(w, "after both calls returned nil") {
		return "fail"
	}
	next := rlast + 1
	if len(ref) == 0 {
		next = 5
	}
	if err := w.StoreLogs([]*raft.Log{{Index: next, Term: 1, Data: []byte("after")}}); err != nil {
		c.witness("C14", "two-writers-append-refused", fmt.Sprintf("StoreLogs(%d) at LastIndex+1 after both calls returned nil: %v", next, err), line)
		return "fail"
	}
	refStore(next, []byte("after"))
	for cycle := 1; cycle <= 2; cycle++ {
		w.Close()
		closed = true
		w, err = open()
		if err != nil {
			c.witness("C14", "two-writers-reopen-fails", fmt.Sprintf("Open #%d after Close fails: %v", cycle, err), line)
			return "fail"
		}
		closed = false
		if !audit(w, fmt.Sprintf("after reopen #%d", cycle)) {
			return "fail"
		}
	}
	c.stat("tw_" + w2op + "_" + first)
	return "ok"
}

func parseU10(s string) uint64 {
	var v uint64
	fmt.Sscanf(s, "%d", &v)
	return v
}

func okWord(ok bool) string {
	if ok {
		return "succeed"
	}
	return "fail"
}
