package main

// Stream `fstrace` (C07): workloads run against the PRODUCTION fs.FS +
// metadb.BoltMetaDB in a child process (`wh fschild ...`) traced by strace;
// the syscall log is projected to the event alphabet of coq/Fs/Discipline.v.
//
//   #wl <mode> <segsize> <op>...   implementation-only: run the workload under
//                                  strace, check the discipline on the Go side
//                                  (witnesses carry this line as replay)
//   fst <segsize> <event>...       the observed trace of the preceding workload;
//                                  the model evaluates the proved checker on it;
//                                  the implementation side answers "ok"
//   fso <segsize> <fsop>...        fs-layer calls executed by the child; observed
//                                  (projected) events vs. the model's fs_trace

import (
	"bufio"
	"fmt"
	"math/rand"
	"os"
	"os/exec"
	"path/filepath"
	"regexp"
	"sort"
	"strconv"
	"strings"

	walfs "github.com/hashicorp/raft-wal/fs"
)

func init() { streams["fstrace"] = &stream{gen: genFstrace, exec: execFstrace} }

const straceSyscalls = "openat,fallocate,pwrite64,write,fsync,fdatasync,renameat,renameat2,rename,unlinkat,unlink,faccessat,faccessat2,close,ftruncate"

type fsRun struct {
	events []string // projected event tokens
	stdout string   // what the child printed (NEWFILE / FINAL / ERR lines)
	rc     int
	err    string // harness-level problem (strace missing, unparsable log ...)
	raw    int    // number of strace lines
	kept   string // copy of the raw strace log (only for runs that do not pass)
}

var fsRunCache = map[string]*fsRun{}
var fsSeq int

// runTraced executes `wh fschild <mode> <dir> <seg> <ops>` under strace in a
// fresh directory below c.work and returns the projected trace.
// runTraced runs the workload under strace.  Guard only: a trace that fails
// the discipline is taken again and the verdict of the second run counts (a
// genuine violation is a property of the code path and reproduces).  The
// ~1-in-8 `meta-not-synced` failures this was introduced for were NOT a
// tracing artefact: the background rotation's bbolt commit really overlaps
// the return of the StoreLogs that sealed the segment; the discipline now
// says so (ack_check / goDiscipline) and ACK markers are positioned at their
// entry.  `trace_artifact_discarded_*` is expected to stay at zero; the raw
// log of any such run is kept (fsRun.kept).
func runTraced(c *ctx, mode string, seg int, ops []string) *fsRun {
	r := runTracedOnce(c, mode, seg, ops)
	for attempt := 0; attempt < 2 && r.err == "" && mode == "wal"; attempt++ {
		sig, _ := goDiscipline(uint64(seg), r.events)
		if sig == "" {
			break
		}
		r2 := runTracedOnce(c, mode, seg, ops)
		if r2.err != "" {
			break
		}
		sig2, _ := goDiscipline(uint64(seg), r2.events)
		c.stat("trace_rerun_" + sig)
		if sig2 == "" {
			// not reproduced: keep the raw log (r.kept, under <work>/artifacts or
			// $VERIF_FST_KEEP) and count it; should stay at zero
			c.stat("trace_artifact_discarded_" + sig)
			fmt.Fprintf(os.Stderr, "fstrace: discarded a non-reproducible %s trace, raw log %s\n", sig, r.kept)
			r = r2
			break
		}
		r = r2
		if sig2 == sig {
			break // reproduced
		}
	}
	return r
}

func runTracedOnce(c *ctx, mode string, seg int, ops []string) *fsRun {
	fsSeq++
	work, err := filepath.Abs(c.work) // strace -y prints absolute paths
	if err != nil {
		return &fsRun{err: err.Error()}
	}
	if rp, err := filepath.EvalSymlinks(work); err == nil {
		work = rp
	}
	base := filepath.Join(work, fmt.Sprintf("fst-%d-%d", os.Getpid(), fsSeq))
	dir := filepath.Join(base, "wal")
	if err := os.MkdirAll(dir, 0o755); err != nil {
		return &fsRun{err: err.Error()}
	}
	defer os.RemoveAll(base)
	logf := filepath.Join(base, "strace.log")
	self, err := os.Executable()
	if err != nil {
		return &fsRun{err: err.Error()}
	}
	args := []string{"-f", "-y", "-s", "0", "-e", "trace=" + straceSyscalls, "-o", logf,
		self, "fschild", mode, dir, strconv.Itoa(seg)}
	args = append(args, ops...)
	cmd := exec.Command("strace", args...)
	out, err := cmd.Output()
	r := &fsRun{stdout: string(out)}
	if err != nil {
		if ee, ok := err.(*exec.ExitError); ok {
			r.rc = ee.ExitCode()
		} else {
			r.err = "strace: " + err.Error()
			return r
		}
	}
	f, err := os.Open(logf)
	if err != nil {
		r.err = err.Error()
		return r
	}
	defer f.Close()
	r.events, r.raw, r.err = projectStrace(f, dir)
	// keep the raw log of every run whose trace does not pass (debugging aid and
	// evidence for discarded artefacts): $VERIF_FST_KEEP or <work>/artifacts
	if sig, i := goDiscipline(uint64(seg), r.events); mode == "wal" && (sig != "" || r.err != "") {
		keep := os.Getenv("VERIF_FST_KEEP")
		if keep == "" {
			keep = filepath.Join(work, "artifacts")
		}
		if os.MkdirAll(keep, 0o755) == nil {
			dst := filepath.Join(keep, fmt.Sprintf("strace-%d-%d-%s.log", os.Getpid(), fsSeq, sig))
			if b, err := os.ReadFile(logf); err == nil {
				hdr := fmt.Sprintf("# workload: wal %d %s\n# dir: %s\n# verdict: %s at event %d\n# events: %s\n", seg, strings.Join(ops, " "), dir, sig, i, strings.Join(r.events, " "))
				os.WriteFile(dst, append([]byte(hdr), b...), 0o644)
				r.kept = dst
			}
		}
	}
	return r
}

var (
	reLine    = regexp.MustCompile(`^(\d+)\s+(.*)$`)
	reResumed = regexp.MustCompile(`^<\.\.\. (\w+) resumed>(.*)$`)
	reCall    = regexp.MustCompile(`^(\w+)\((.*)\)\s+= (-?\d+|\?)(.*)$`)
	reFdArg   = regexp.MustCompile(`^(\d+)<([^>]*)>(?:, )?(.*)$`)
	reStr     = regexp.MustCompile(`"((?:[^"\\]|\\.)*)"`)
)

// projectStrace turns the strace log into event tokens restricted to files
// of the WAL directory `dir`, between the start and end markers.
func projectStrace(f *os.File, dir string) (events []string, raw int, problem string) {
	pending := map[string]string{}
	names := map[string]string{}
	nseg, noth := 0, 0
	tok := func(path string) (string, bool) {
		path = strings.TrimSuffix(path, " (deleted)")
		if !strings.HasPrefix(path, dir+"/") {
			return "", false
		}
		b := path[len(dir)+1:]
		if strings.Contains(b, "/") {
			return "", false
		}
		if t, ok := names[b]; ok {
			return t, true
		}
		var t string
		switch {
		case b == "wal-meta.db":
			t = "m"
		case b == "wal-meta.db.tmp":
			t = "t"
		case strings.HasSuffix(b, ".wal"):
			t = fmt.Sprintf("s%x", nseg)
			nseg++
		default:
			t = fmt.Sprintf("o%x", noth)
			noth++
		}
		names[b] = t
		return t, true
	}
	opCodes := fsOpCode
	writable := map[string]bool{} // fd number -> opened for writing (threads share the table)
	started, ended := false, false
	sc := bufio.NewScanner(f)
	sc.Buffer(make([]byte, 1<<20), 1<<26)
	for sc.Scan() {
		raw++
		m := reLine.FindStringSubmatch(sc.Text())
		if m == nil {
			continue
		}
		pid, rest := m[1], m[2]
		// Position of an event = the line on which the call COMPLETES (the
		// `resumed` line for a call strace had to split), with one exception: an
		// ACK marker is placed where it is ENTERED.  Whatever other threads do
		// between the entry and the completion of the marker syscall is
		// concurrent with the return of the API call, not part of it.
		if strings.HasSuffix(rest, "<unfinished ...>") {
			head := strings.TrimSuffix(rest, " <unfinished ...>")
			if strings.HasPrefix(head, "faccessat") && strings.Contains(head, `"/verif-mark/`) && strings.Contains(head, `/ack"`) {
				pending[pid] = "" // consumed here
				rest = head + ") = -1 ENOENT (entered)"
			} else {
				pending[pid] = head
				continue
			}
		} else if rm := reResumed.FindStringSubmatch(rest); rm != nil {
			p, ok := pending[pid]
			if !ok {
				continue // resumed call whose start predates the trace
			}
			delete(pending, pid)
			if p == "" {
				continue // ACK marker already placed at its entry
			}
			rest = p + rm[2]
		}
		cm := reCall.FindStringSubmatch(rest)
		if cm == nil {
			continue // signals, exit notes
		}
		name, args, ret := cm[1], cm[2], cm[3]
		if name == "faccessat" || name == "faccessat2" {
			sm := reStr.FindStringSubmatch(args)
			if sm == nil || !strings.HasPrefix(sm[1], "/verif-mark/") {
				continue
			}
			p := strings.Split(sm[1], "/") // "", verif-mark, op, n, what
			if len(p) != 5 {
				continue
			}
			switch p[2] {
			case "start":
				started = true
				events = events[:0]
				continue
			case "end":
				ended = true
				continue
			}
			if !started || ended {
				continue
			}
			n, _ := strconv.Atoi(p[3])
			k := "mc"
			if p[4] == "ack" {
				k = "ma"
			}
			events = append(events, fmt.Sprintf("%s:%x:%x", k, opCodes[p[2]], n))
			continue
		}
		if !started || ended || ret == "?" || strings.HasPrefix(ret, "-") {
			continue // only successful calls change the file system
		}
		switch name {
		case "openat":
			sm := reStr.FindStringSubmatch(args)
			if sm == nil {
				continue
			}
			t, ok := tok(sm[1])
			if !ok {
				continue
			}
			after := args[strings.Index(args, sm[0])+len(sm[0]):]
			flags := strings.TrimPrefix(after, ", ")
			if i := strings.Index(flags, ","); i >= 0 {
				flags = flags[:i]
			}
			fl := map[string]bool{}
			for _, x := range strings.Split(flags, "|") {
				fl[strings.TrimSpace(x)] = true
			}
			switch {
			case fl["O_CREAT"] && fl["O_EXCL"]:
				events = append(events, "x:"+t)
			case fl["O_CREAT"]:
				events = append(events, "c:"+t)
			case fl["O_RDWR"] || fl["O_WRONLY"]:
				events = append(events, "o:"+t)
			}
			writable[ret] = fl["O_CREAT"] || fl["O_RDWR"] || fl["O_WRONLY"]
		case "fallocate", "pwrite64", "write", "fsync", "fdatasync", "close", "ftruncate":
			fm := reFdArg.FindStringSubmatch(args)
			if fm == nil {
				continue
			}
			path, tail := fm[2], fm[3]
			path = strings.TrimSuffix(path, " (deleted)")
			if path == dir {
				if name == "fsync" || name == "fdatasync" {
					events = append(events, "fD")
				}
				continue
			}
			t, ok := tok(path)
			if !ok {
				continue
			}
			nums := func() []uint64 { // trailing numeric arguments
				var r []uint64
				for _, x := range strings.Split(tail, ", ") {
					x = strings.TrimSpace(x)
					if v, err := strconv.ParseUint(x, 0, 64); err == nil {
						r = append(r, v)
					} else if strings.Contains(x, "|") || strings.HasPrefix(x, "FALLOC_") {
						r = append(r, 1) // symbolic fallocate mode: non-zero
					}
				}
				return r
			}
			switch name {
			case "fallocate":
				v := nums()
				if len(v) == 3 {
					events = append(events, fmt.Sprintf("fa:%s:%x:%x:%x", t, v[0], v[1], v[2]))
				} else {
					return nil, raw, "unparsable fallocate: " + rest
				}
			case "pwrite64":
				v := nums()
				n, _ := strconv.ParseUint(ret, 10, 64)
				if len(v) >= 2 {
					events = append(events, fmt.Sprintf("w:%s:%x:%x", t, v[len(v)-1], n))
				} else {
					return nil, raw, "unparsable pwrite64: " + rest
				}
			case "write":
				n, _ := strconv.ParseUint(ret, 10, 64)
				events = append(events, fmt.Sprintf("w:%s:0:%x", t, n))
			case "ftruncate":
				v := nums()
				if len(v) == 1 {
					events = append(events, fmt.Sprintf("tr:%s:%x", t, v[0]))
				}
			case "fsync":
				events = append(events, "fs:"+t)
			case "fdatasync":
				events = append(events, "fd:"+t)
			case "close":
				if writable[fm[1]] { // read-only handles (readers, our own read-back) are not events
					events = append(events, "cl:"+t)
				}
				delete(writable, fm[1])
			}
		case "renameat", "renameat2", "rename":
			sm := reStr.FindAllStringSubmatch(args, -1)
			if len(sm) != 2 {
				continue
			}
			a, oka := tok(sm[0][1])
			b, okb := tok(sm[1][1])
			if !oka && !okb {
				continue
			}
			if !oka {
				a = "o" + fmt.Sprintf("%x", 0xffff)
			}
			if !okb {
				b = "o" + fmt.Sprintf("%x", 0xffff)
			}
			events = append(events, "r:"+a+":"+b)
			// the file keeps its identity under the new name
			if oka && okb {
				delete(names, sm[0][1][len(dir)+1:])
			}
		case "unlinkat", "unlink":
			sm := reStr.FindStringSubmatch(args)
			if sm == nil {
				continue
			}
			if t, ok := tok(sm[1]); ok {
				events = append(events, "u:"+t)
			}
		}
	}
	if !started || !ended {
		return events, raw, "start/end marker missing in the strace log (child died or strace lost the process)"
	}
	return events, raw, ""
}

// ---- Go-side re-implementation of the discipline (kept simple) ----------------
// Returns "" or the signature of the first violation and its event index.
func goDiscipline(seg uint64, evs []string) (string, int) {
	type segSt struct{ dirty, pendent, written, needFalloc bool }
	segs := map[string]*segSt{}
	unl, renPending, metaDirty := false, false, false
	tmpExists, tmpDirty, tmpOpen, tmpWritten, metaExists := false, false, false, false, false
	hexv := func(s string) uint64 { v, _ := strconv.ParseUint(s, 16, 64); return v }
	for i, e := range evs {
		f := strings.Split(e, ":")
		isSeg := len(f) > 1 && strings.HasPrefix(f[1], "s")
		switch f[0] {
		case "x":
			if isSeg {
				if segs[f[1]] != nil {
					return "unknown-file", i
				}
				segs[f[1]] = &segSt{pendent: true, needFalloc: true}
			} else if f[1] == "t" {
				if !tmpExists {
					tmpDirty, tmpWritten = false, false
				}
				tmpExists, tmpOpen = true, true
			} else if f[1] == "m" && !metaExists {
				return "meta-not-renamed", i
			}
		case "c":
			if isSeg {
				return "non-exclusive-create", i
			} else if f[1] == "t" {
				if !tmpExists {
					tmpDirty, tmpWritten = false, false
				}
				tmpExists, tmpOpen = true, true
			} else if f[1] == "m" && !metaExists {
				return "meta-not-renamed", i
			}
		case "o":
			if isSeg && segs[f[1]] == nil {
				return "unknown-file", i
			}
			if f[1] == "t" {
				tmpOpen = true
			}
		case "fa":
			if isSeg {
				s := segs[f[1]]
				if s == nil || !s.needFalloc || hexv(f[2]) != 0 || hexv(f[3]) != 0 || hexv(f[4]) != seg {
					return "bad-fallocate", i
				}
				s.needFalloc = false
			}
		case "w", "tr":
			if isSeg {
				if f[0] == "tr" {
					return "segment-truncated", i
				}
				s := segs[f[1]]
				if s == nil {
					return "unknown-file", i
				}
				if s.needFalloc {
					return "not-preallocated", i
				}
				s.dirty, s.written = true, true
			} else if f[1] == "t" {
				tmpDirty, tmpWritten = true, true
			} else if f[1] == "m" {
				metaDirty = true
			}
		case "fs", "fd":
			if isSeg {
				if segs[f[1]] == nil {
					return "unknown-file", i
				}
				segs[f[1]].dirty = false
			} else if f[1] == "t" {
				tmpDirty = false
			} else if f[1] == "m" {
				metaDirty = false
			}
		case "fD":
			for _, s := range segs {
				s.pendent = false
			}
			unl, renPending = false, false
		case "u":
			if isSeg {
				if segs[f[1]] == nil {
					return "unknown-file", i
				}
				delete(segs, f[1])
				unl = true
			} else if f[1] == "t" {
				tmpExists, tmpDirty, tmpOpen, tmpWritten = false, false, false, false
			} else if f[1] == "m" {
				return "meta-unlinked", i
			}
		case "r":
			if strings.HasPrefix(f[1], "s") || strings.HasPrefix(f[2], "s") {
				return "segment-renamed", i
			}
			if f[1] == "t" && f[2] == "m" {
				if !(tmpExists && tmpWritten && !tmpDirty && !tmpOpen) {
					return "meta-tmp-not-synced", i
				}
				tmpExists, tmpDirty, tmpOpen, tmpWritten = false, false, false, false
				metaExists, metaDirty, renPending = true, false, true
			} else if f[1] == "m" || f[2] == "m" || f[1] == "t" || f[2] == "t" {
				return "meta-not-renamed", i
			}
		case "cl":
			if f[1] == "t" {
				tmpOpen = false
			}
		case "ma":
			for _, s := range segs {
				if s.dirty {
					return "missing-file-fsync", i
				}
			}
			for _, s := range segs {
				if s.pendent && s.written {
					return "missing-dir-fsync", i
				}
			}
			if unl {
				return "delete-without-dir-fsync", i
			}
			if renPending {
				return "meta-dir-not-synced", i
			}
			// the ACK of a StoreLogs (op 1) may overlap the metadata commit of the
			// background rotation it triggered; every other ACK may not
			if metaDirty && hexv(f[1]) != 1 {
				return "meta-not-synced", i
			}
		}
	}
	for _, s := range segs {
		if s.needFalloc {
			return "bad-fallocate", len(evs)
		}
	}
	return "", -1
}

// collapseMeta projects bbolt's page writes for the fso comparison: a run of
// writes/growth/syncs on one db file becomes "w:<f>:0:0" (if it wrote) and
// "fd:<f>" (if it ended with a sync).
func collapseMeta(evs []string) []string {
	var out []string
	isMetaIO := func(e string) (string, bool, bool) { // file, isIO, isSync
		f := strings.Split(e, ":")
		if len(f) < 2 || (f[1] != "m" && f[1] != "t") {
			return "", false, false
		}
		switch f[0] {
		case "w", "tr", "fa":
			return f[1], true, false
		case "fs", "fd":
			return f[1], true, true
		}
		return "", false, false
	}
	for i := 0; i < len(evs); {
		file, io, _ := isMetaIO(evs[i])
		if !io {
			out = append(out, evs[i])
			i++
			continue
		}
		wrote, lastSync := false, false
		j := i
		for ; j < len(evs); j++ {
			f2, io2, sync2 := isMetaIO(evs[j])
			if !io2 || f2 != file {
				break
			}
			if !sync2 {
				wrote = true
			}
			lastSync = sync2
		}
		if wrote {
			out = append(out, "w:"+file+":0:0")
		}
		if lastSync {
			out = append(out, "fd:"+file)
		}
		i = j
	}
	return out
}

func stripMarks(evs []string) []string {
	var out []string
	for _, e := range evs {
		if !strings.HasPrefix(e, "mc:") && !strings.HasPrefix(e, "ma:") {
			out = append(out, e)
		}
	}
	return out
}

// probeCreate exercises the production fs.Create directly: requested size,
// zero-filled, exclusive.
func probeCreate(c *ctx, seg int, line string) {
	fsSeq++
	d := filepath.Join(c.work, fmt.Sprintf("fsprobe-%d-%d", os.Getpid(), fsSeq))
	if err := os.MkdirAll(d, 0o755); err != nil {
		return
	}
	defer os.RemoveAll(d)
	v := walfs.New()
	wf, err := v.Create(d, "probe.wal", uint64(seg))
	if err != nil {
		c.witness("C07", "create-failed", "fs.Create failed: "+err.Error(), line)
		return
	}
	sz, zero := allZero(filepath.Join(d, "probe.wal"))
	if sz != int64(seg) || !zero {
		c.witness("C07", "not-zero-filled", fmt.Sprintf("fs.Create(size %d) left a file of %d bytes, zero=%v", seg, sz, zero), line)
	}
	if wf2, err := v.Create(d, "probe.wal", uint64(seg)); err == nil {
		wf2.Close()
		c.witness("C07", "non-exclusive-create", "fs.Create succeeded on an existing file", line)
	}
	wf.Close()
}

func execFstrace(c *ctx, line string) string {
	f := strings.Split(line, " ")
	switch f[0] {
	case "#wl":
		if len(f) < 3 {
			return "badinput"
		}
		seg, _ := strconv.Atoi(f[2])
		key := strings.Join(f[1:], " ")
		r := fsRunCache[key]
		if r == nil {
			r = runTraced(c, f[1], seg, f[3:])
			fsRunCache[key] = r
		}
		if r.err != "" {
			c.witness("C07", "harness-trace-problem", r.err, line)
			return "trace-error " + r.err
		}
		c.stat("workloads")
		c.stats["events"] += len(r.events)
		c.stats["strace_lines"] += r.raw
		for _, e := range r.events {
			c.stat("ev_" + strings.SplitN(e, ":", 2)[0])
		}
		if r.rc != 0 || strings.Contains(r.stdout, "ERR ") {
			c.witness("C07", "workload-error", "workload failed on the real file system: "+strings.TrimSpace(r.stdout), line)
		}
		// read-back checks done by the child at safe points
		for _, l := range strings.Split(r.stdout, "\n") {
			p := strings.Fields(l)
			if len(p) == 4 && p[0] == "NEWFILE" {
				c.stat("newfile_readback")
				if p[2] != strconv.Itoa(seg) || p[3] != "true" {
					c.witness("C07", "not-zero-filled", "new segment file "+p[1]+" has size "+p[2]+" zero-filled="+p[3]+" (requested "+f[2]+")", line)
				}
			}
			if len(p) == 5 && p[0] == "FINAL" && (p[1] != p[3] || p[2] != p[4]) {
				c.witness("C07", "readback-mismatch", "after reopen first/last = "+p[1]+"/"+p[2]+", expected "+p[3]+"/"+p[4], line)
			}
		}
		probeCreate(c, seg, line)
		if sig, i := goDiscipline(uint64(seg), r.events); sig != "" {
			ev := "end of trace"
			if i < len(r.events) {
				ev = r.events[i]
			}
			c.witness("C07", sig, fmt.Sprintf("syscall trace of the production fs layer violates the durability discipline at event %d (%s): %s", i, ev, sig), line)
			return fmt.Sprintf("viol %x %s", i, sig)
		}
		return "ok"
	case "fst":
		if len(f) < 2 {
			return "badinput"
		}
		seg, err := strconv.ParseUint(f[1], 16, 64)
		if err != nil {
			return "badinput"
		}
		if sig, i := goDiscipline(seg, f[2:]); sig != "" {
			// also reached when a recorded trace is replayed from the corpus
			c.witness("C07", sig, fmt.Sprintf("recorded syscall trace violates the durability discipline at event %d: %s", i, sig), line)
		}
		// the implementation is expected to obey the discipline: constant
		return "ok"
	case "fsf":
		return execFsf(c, line)
	case "fso":
		if len(f) < 2 {
			return "badinput"
		}
		seg, err := strconv.ParseUint(f[1], 16, 64)
		if err != nil {
			return "badinput"
		}
		// model tokens use hex, the child decimal
		var ops []string
		for _, o := range f[2:] {
			p := strings.Split(o, ":")
			for i := 1; i < len(p); i++ {
				v, _ := strconv.ParseUint(p[i], 16, 64)
				p[i] = strconv.FormatUint(v, 10)
			}
			ops = append(ops, strings.Join(p, ":"))
		}
		r := runTraced(c, "fs", int(seg), ops)
		if r.err != "" {
			c.witness("C07", "harness-trace-problem", r.err, line)
			return "trace-error"
		}
		if r.rc != 0 || strings.Contains(r.stdout, "ERR ") {
			return "child-error " + strings.TrimSpace(r.stdout)
		}
		c.stat("fso_runs")
		evs := stripMarks(collapseMeta(r.events)) // markers delimit the calls, so runs never span two calls
		if len(evs) == 0 {
			return "-"
		}
		return strings.Join(evs, " ")
	}
	return "badinput"
}

// ---- generators ------------------------------------------------------------------

func genFstrace(c *ctx, emit func(string)) {
	r := rand.New(rand.NewSource(c.seed))
	type wl struct {
		seg int
		ops string
	}
	// the scenarios the property names, always run
	fixed := []wl{
		{4096, "o a:1:10 a:2:100 c"},                                                        // create WAL, first commit into a fresh segment, more commits
		{1024, "o a:3:300 a:3:300 w a:3:300 a:1:10 a:3:300 w c"},                            // rotation by small segment size
		{1024, "o a:3:300 w a:3:300 w a:3:300 w a:2:100 h:4 h:3 t:3 a:1:50 h:100 a:2:20 c"}, // head/tail truncation deleting files
		{2048, "o c o a:1:10 c o a:2:700 a:2:700 w c o a:1:1 c"},                            // close/reopen then append (D1 pattern)
		{1024, "o j:1000 a:2:50 h:2 j:5000 a:1:5 t:1 j:7 a:2:400 a:2:400 w c"},              // reset of the empty first segment (append at a high index)
		{512, "o a:1:2000 w a:1:10 t:1 t:1 a:2:100 c o t:2 c"},                              // batch larger than a segment; truncation to empty
	}
	nW := c.n * 3 / 5
	if nW < len(fixed) {
		nW = len(fixed)
	}
	run := func(seg int, ops string) {
		key := fmt.Sprintf("wal %d %s", seg, ops)
		res := runTraced(c, "wal", seg, strings.Fields(ops))
		fsRunCache[key] = res
		emit("#wl " + key)
		if res.err == "" {
			emit(fmt.Sprintf("fst %x %s", seg, strings.Join(res.events, " ")))
		}
	}
	for _, w := range fixed {
		run(w.seg, w.ops)
	}
	for i := len(fixed); i < nW; i++ {
		seg := []int{512, 1024, 2048, 4096, 8192}[r.Intn(5)]
		var ops []string
		ops = append(ops, "o")
		open := true
		empty := true
		for j, n := 0, 4+r.Intn(14); j < n; j++ {
			if !open {
				ops = append(ops, "o")
				open = true
				continue
			}
			switch k := r.Intn(12); {
			case k < 6:
				if empty && r.Intn(3) == 0 {
					ops = append(ops, fmt.Sprintf("j:%d", 1+r.Intn(100000)))
				}
				ops = append(ops, fmt.Sprintf("a:%d:%d", 1+r.Intn(4), []int{1, 10, 100, seg / 4, seg / 2, seg}[r.Intn(6)]))
				empty = false
			case k < 7:
				ops = append(ops, "w")
			case k < 9:
				ops = append(ops, fmt.Sprintf("h:%d", 1+r.Intn(6)))
				empty = false // the child tracks emptiness itself; j is only emitted right after open/delete-all below
			case k < 11:
				ops = append(ops, fmt.Sprintf("t:%d", 1+r.Intn(6)))
			default:
				ops = append(ops, "c")
				open = false
			}
		}
		// drop "j" ops that are not provably on an empty log (keep only the first)
		var clean []string
		seenAppend := false
		for _, o := range ops {
			if strings.HasPrefix(o, "j:") && seenAppend {
				continue
			}
			if strings.HasPrefix(o, "a:") {
				seenAppend = true
			}
			clean = append(clean, o)
		}
		run(seg, strings.Join(clean, " "))
	}
	// fs-layer call sequences: model's fs_trace vs. observed events
	nF := c.n - nW
	fixedF := []string{
		"mi mc cr:0 wr:0:0:80 sy:0 wr:0:80:40 sy:0 cl:0 ow:0 wr:0:c0:10 sy:0 sy:0 cl:0 de:0",
		"cr:0 cr:1 wr:1:0:20 wr:0:0:20 sy:0 sy:1 cl:0 cl:1 de:1 de:0",
	}
	for i := 0; i < nF; i++ {
		seg := []int{256, 1024, 4096}[r.Intn(3)]
		if i < len(fixedF) {
			emit(fmt.Sprintf("fso %x %s", seg, fixedF[i]))
			continue
		}
		var ops []string
		exists := map[int]bool{}
		open := map[int]bool{}
		next := 0
		meta := false
		for j, n := 0, 3+r.Intn(14); j < n; j++ {
			var cand []int
			for s := range exists {
				cand = append(cand, s)
			}
			sort.Ints(cand)
			pick := func() int { return cand[r.Intn(len(cand))] }
			switch k := r.Intn(10); {
			case k == 0 && !meta:
				ops = append(ops, "mi")
				meta = true
			case k == 1 && meta:
				ops = append(ops, "mc")
			case k <= 3 || len(cand) == 0:
				ops = append(ops, fmt.Sprintf("cr:%x", next))
				exists[next], open[next] = true, true
				next++
			default:
				s := pick()
				switch {
				case !open[s] && r.Intn(3) == 0:
					ops = append(ops, fmt.Sprintf("de:%x", s))
					delete(exists, s)
				case !open[s]:
					ops = append(ops, fmt.Sprintf("ow:%x", s))
					open[s] = true
				default:
					switch r.Intn(5) {
					case 0:
						ops = append(ops, fmt.Sprintf("cl:%x", s))
						open[s] = false
					case 1, 2:
						ops = append(ops, fmt.Sprintf("wr:%x:%x:%x", s, r.Intn(seg/2), 1+r.Intn(seg/2)))
					default:
						ops = append(ops, fmt.Sprintf("sy:%x", s))
					}
				}
			}
		}
		emit(fmt.Sprintf("fso %x %s", seg, strings.Join(ops, " ")))
	}
}
