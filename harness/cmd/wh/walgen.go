package main

import (
	"bufio"
	"bytes"
	"encoding/json"
	"fmt"
	"io"
	"math/big"
	"math/rand"
	"sort"
	"strings"
	"time"

	"github.com/hashicorp/raft"
	wal "github.com/hashicorp/raft-wal"
)

func jsonUnmarshal(b []byte, v interface{}) error { return json.Unmarshal(b, v) }

func discardWriter() *bufio.Writer { return bufio.NewWriter(io.Discard) }

func init() {
	streams["seqapi"] = &stream{gen: genSeqAPI, exec: execWal}
	streams["crash"] = &stream{gen: genCrash, exec: execWal}
	streams["faults"] = &stream{gen: genFaults, exec: execWal}
}

// a small fixed epoch keeps lines short; a few entries carry richer times
var baseTime = time.Unix(1700000000, 0).UTC()

type wgen struct {
	r     *rand.Rand
	first uint64 // generator's own picture of the log (nominal, no faults)
	last  uint64
	ops   []string
	seg   int
	lastU string
}

func (g *wgen) empty() bool { return g.last == 0 }

func (g *wgen) log(idx uint64) string {
	r := g.r
	sz := []int{0, 1, 5, 8, 13, 16, 30, 60, 100, 200}[r.Intn(10)]
	if r.Intn(20) == 0 {
		sz = g.seg + r.Intn(64) // larger than a whole segment
	}
	data := make([]byte, sz)
	r.Read(data)
	var ext []byte
	if r.Intn(4) == 0 {
		ext = make([]byte, r.Intn(12))
		r.Read(ext)
	}
	t := baseTime.Add(time.Duration(r.Intn(1000)) * time.Second)
	if r.Intn(8) == 0 {
		t = genTime(r)
		if _, err := t.MarshalBinary(); err != nil {
			t = baseTime
		}
	}
	l := &raft.Log{Index: idx, Term: uint64(1 + r.Intn(5)), Type: raft.LogType(r.Intn(4)), Data: data, Extensions: ext, AppendedAt: t}
	return logFields(l, true)
}

// store: mostly valid next batch; sometimes invalid shapes
func (g *wgen) store() {
	r := g.r
	k := 1 + r.Intn(3)
	if r.Intn(6) == 0 {
		k = 1 + r.Intn(8)
	}
	start := g.last + 1
	if g.empty() {
		start = []uint64{1, 1, 1, 2, 5, 100, 1 << 33}[r.Intn(7)]
	}
	mode := r.Intn(14)
	switch mode {
	case 0: // gap after last
		start = g.last + 2 + uint64(r.Intn(3))
	case 1: // overlap
		if g.last > 1 {
			start = g.last - uint64(r.Intn(2))
		}
	}
	var sb strings.Builder
	fmt.Fprintf(&sb, "S %x", k)
	idx := start
	valid := g.empty() || start == g.last+1
	for j := 0; j < k; j++ {
		if mode == 2 && j == k-1 && k > 1 { // internal gap
			idx++
			valid = false
		}
		sb.WriteString(" " + g.log(idx))
		idx++
	}
	g.ops = append(g.ops, sb.String(), "W")
	if valid {
		if g.empty() {
			g.first = start
		}
		g.last = idx - 1
	}
}

func (g *wgen) del() {
	r := g.r
	var mn, mx uint64
	if g.empty() {
		mn, mx = uint64(r.Intn(3)), uint64(r.Intn(10))
	} else {
		f, l := g.first, g.last
		switch r.Intn(9) {
		case 0: // prefix
			mn, mx = 0, f+uint64(r.Intn(int(l-f)+1))
			if mn == 0 && r.Intn(2) == 0 {
				mn = f
			}
		case 1: // prefix starting below first
			mn, mx = f-min64(f, uint64(r.Intn(3))), f+uint64(r.Intn(int(l-f)+1))
		case 2: // suffix
			mn, mx = f+uint64(r.Intn(int(l-f)+1)), l+uint64(r.Intn(3))
		case 3: // suffix exactly
			mn, mx = l-uint64(r.Intn(int(l-f)+1)), l
		case 4: // everything
			mn, mx = f-min64(f, uint64(r.Intn(2))), l+uint64(r.Intn(2))
		case 5: // strict middle
			if l-f >= 2 {
				mn = f + 1 + uint64(r.Intn(int(l-f)-1))
				mx = mn + uint64(r.Intn(int(l-mn)))
			} else {
				mn, mx = f, l
			}
		case 6: // outside
			mn, mx = l+1+uint64(r.Intn(3)), l+5
		case 7: // empty range
			mn, mx = f+1, f
		default: // single element at an end
			if r.Intn(2) == 0 {
				mn, mx = f, f
			} else {
				mn, mx = l, l
			}
		}
	}
	g.ops = append(g.ops, fmt.Sprintf("D %x %x", mn, mx))
	// nominal effect
	if mn > mx || g.empty() || mx < g.first || mn > g.last {
		return
	}
	switch {
	case mn <= g.first:
		if mx >= g.last {
			g.first, g.last = 0, 0
		} else {
			g.first = mx + 1
		}
	case mx >= g.last:
		g.last = mn - 1
	}
}

func min64(a, b uint64) uint64 {
	if a < b {
		return a
	}
	return b
}

func (g *wgen) reads() {
	r := g.r
	for n := 1 + r.Intn(3); n > 0; n-- {
		var idx uint64
		if g.empty() {
			idx = uint64(r.Intn(5))
		} else {
			switch r.Intn(6) {
			case 0:
				idx = g.first - min64(g.first, 1)
			case 1:
				idx = g.first
			case 2:
				idx = g.last
			case 3:
				idx = g.last + 1
			default:
				idx = g.first + uint64(r.Intn(int(g.last-g.first)+1))
			}
		}
		g.ops = append(g.ops, fmt.Sprintf("G %x", idx))
	}
}

var stableKeys = []string{"43757272656e745465726d", "4c617374566f74655465726d", "4c617374566f746543616e64", "6b", "00", "ff00ff"}

func (g *wgen) stableOp() {
	r := g.r
	k := stableKeys[r.Intn(len(stableKeys))]
	if g.lastU != "" && r.Intn(4) == 0 {
		// repeat the previous SetUint64 verbatim (a retry), possibly after clearing the key
		if r.Intn(2) == 0 {
			g.ops = append(g.ops, "K "+strings.Fields(g.lastU)[1]+" nil")
		}
		g.ops = append(g.ops, g.lastU, "u "+strings.Fields(g.lastU)[1])
		return
	}
	switch r.Intn(6) {
	case 0:
		g.lastU = fmt.Sprintf("U %s %x", k, genU64(r))
		g.ops = append(g.ops, g.lastU)
	case 1:
		g.ops = append(g.ops, "u "+k)
	case 2:
		v := "nil"
		if r.Intn(3) > 0 {
			v = hx(genBytes(r, 20))
		}
		g.ops = append(g.ops, fmt.Sprintf("K %s %s", k, v))
	case 3:
		if r.Intn(6) == 0 {
			k = "-" // empty key
		}
		g.ops = append(g.ops, fmt.Sprintf("K %s %s", k, hx(genBytes(r, 8))))
	default:
		g.ops = append(g.ops, "k "+k)
	}
}

func (g *wgen) step() {
	switch x := g.r.Intn(20); {
	case x < 8:
		g.store()
	case x < 11:
		g.del()
	case x < 14:
		g.reads()
	case x < 16:
		g.stableOp()
	case x < 17:
		g.ops = append(g.ops, "F", "L")
	case x < 18:
		g.ops = append(g.ops, "A")
	case x < 19:
		g.ops = append(g.ops, "X", "O", "A")
	default:
		g.ops = append(g.ops, "M")
	}
}

func newWgen(r *rand.Rand, mode string) *wgen {
	seg := []int{96, 128, 200, 256, 512, 1024, 4096}[r.Intn(7)]
	g := &wgen{r: r, seg: seg}
	g.ops = []string{fmt.Sprintf("wal %x 1 %s", seg, mode), "O"}
	return g
}

// seqapi: sequential behaviour, metrics, metadata, directory listing, I/O trace
func genSeqAPI(c *ctx, emit func(string)) {
	r := rand.New(rand.NewSource(c.seed))
	for i := 0; i < c.n; i++ {
		mode := "m"
		if i%5 == 4 {
			mode = "r"
		}
		g := newWgen(r, mode)
		n := 4 + r.Intn(30)
		for j := 0; j < n; j++ {
			g.step()
			if mode == "m" && r.Intn(4) == 0 {
				g.ops = append(g.ops, "T")
			}
		}
		g.ops = append(g.ops, "A", "M")
		if mode == "m" {
			g.ops = append(g.ops, "T")
		}
		g.ops = append(g.ops, "Y", "X")
		if mode == "m" {
			g.ops = append(g.ops, "P")
		}
		g.ops = append(g.ops, "O", "A", "Y", "X")
		emit(strings.Join(g.ops, " "))
	}
}

// crash: a workload, a power loss after k actions with adversarial choices,
// recovery, audit, then a usability probe and a clean reopen; sometimes a
// second crash inside recovery or right after it.
func genCrash(c *ctx, emit func(string)) {
	r := rand.New(rand.NewSource(c.seed))
	for i := 0; i < c.n; i++ {
		g := newWgen(r, "m")
		n := 3 + r.Intn(14)
		for j := 0; j < n; j++ {
			switch x := r.Intn(10); {
			case x < 6:
				g.store()
			case x < 8:
				g.del()
			case x < 9:
				g.stableOp()
			default:
				g.ops = append(g.ops, "X", "O")
			}
		}
		line := strings.Join(g.ops, " ")
		// the harness needs the action count and pending files at the crash point: it
		// discovers them by a dry run of the prefix (see crashPlan)
		emit(crashPlan(c, r, line, 1+r.Intn(2)))
	}
}

// crashPlan dry-runs the prefix to learn how many actions it performs, picks a
// crash point and adversary choices, and appends the crash, recovery and probe.
func crashPlan(c *ctx, r *rand.Rand, prefix string, depth int) string {
	line := prefix
	for d := 0; d < depth; d++ {
		run := &walRun{line: line}
		run.c = &ctx{out: discardWriter(), stats: map[string]int{}}
		run.run()
		if run.cfs == nil {
			return line
		}
		total := run.cfs.nCounted()
		lo := run.lastCrashK // actions before the last crash are fixed
		if total <= lo {
			return line
		}
		k := lo + 1 + r.Intn(total-lo)
		if r.Intn(4) == 0 {
			k = total
		}
		// the order of consecutive deletions is not deterministic (Go map iteration):
		// do not cut inside a run of deletes
		cnt := run.cfs.counted()
		for k < total && k-run.cfs.baseCount >= 1 && cnt[k-run.cfs.baseCount-1].kind == actDelete && cnt[k-run.cfs.baseCount].kind == actDelete {
			k++
		}
		// state at k to see which files are pending
		pendingFiles, nondurable, scrubDurable := pendingAt(run.cfs, k)
		var kf, kb []string
		var torn []string
		for _, n := range nondurable {
			if r.Intn(2) == 0 {
				kf = append(kf, n)
			}
		}
		// durable only through the fsync of a recovery scrub: the model does not see that
		// fsync, so the survival of the file is stated explicitly
		kf = append(kf, scrubDurable...)
		for _, n := range pendingFiles {
			switch r.Intn(3) {
			case 0:
				kb = append(kb, n)
			case 1: // torn: a random strict subset of the 8-byte chunks of the file image
				nch := 2048
				m := new(big.Int)
				switch r.Intn(4) {
				case 0: // half of the chunks
					for ch := 0; ch < nch; ch++ {
						if r.Intn(2) == 0 {
							m.SetBit(m, ch, 1)
						}
					}
					m.SetBit(m, r.Intn(64), 0)
				case 1: // only the beginning reached the disk
					for ch := 0; ch < 1+r.Intn(12); ch++ {
						m.SetBit(m, ch, 1)
					}
				default: // everything (index and commit frames included) except one to three chunks
					for ch := 0; ch < nch; ch++ {
						m.SetBit(m, ch, 1)
					}
					for j := 0; j < 1+r.Intn(3); j++ {
						m.SetBit(m, r.Intn(24+r.Intn(60)), 0)
					}
				}
				// a mask that happens to keep every byte of the pending writes is not torn
				all := allNames(run.cfs)
				full := run.cfs.imageAt(k, all, map[string]bool{n: true}, nil)
				part := run.cfs.imageAt(k, all, nil, func(name string, nchunks int) []bool {
					if name != n {
						return nil
					}
					bs := make([]bool, nchunks)
					for ch := range bs {
						bs[ch] = m.Bit(ch) == 1
					}
					return bs
				})
				if full.files[n] != nil && part.files[n] != nil && bytes.Equal(full.files[n].data, part.files[n].data) {
					kb = append(kb, n)
					continue
				}
				var b, id uint64
				fmt.Sscanf(n, "%020d-%016x.wal", &b, &id)
				torn = append(torn, fmt.Sprintf("%x %x %s", b, id, m.Text(16)))
			}
		}
		tok := func(ns []string) string {
			s := fmt.Sprintf("%x", len(ns))
			for _, n := range ns {
				var b, id uint64
				fmt.Sscanf(n, "%020d-%016x.wal", &b, &id)
				s += fmt.Sprintf(" %x %x", b, id)
			}
			return s
		}
		tornTok := fmt.Sprintf("%x", len(torn))
		if len(torn) > 0 {
			tornTok += " " + strings.Join(torn, " ")
		}
		line += fmt.Sprintf(" C %x %s %s %s O A P Y T", k, tok(kf), tok(kb), tornTok)
		if d == depth-1 {
			// usability probe (C03): append at last+1, truncate, stable write, clean reopen
			line += " " + probeOps(c, r, line)
		} else {
			// nested: a little more work (possibly none: crash inside recovery itself)
			g := &wgen{r: r, seg: 256}
			g.first, g.last = recoveredRange(line)
			for j := r.Intn(3); j > 0; j-- {
				g.store()
			}
			if len(g.ops) > 0 {
				line += " " + strings.Join(g.ops, " ")
			}
		}
	}
	return line
}

// recoveredRange dry-runs a line and returns first/last of the live WAL
func recoveredRange(line string) (uint64, uint64) {
	run := &walRun{line: line}
	run.c = &ctx{out: discardWriter(), stats: map[string]int{}}
	run.run()
	if run.w == nil {
		return 0, 0
	}
	f, _ := run.w.FirstIndex()
	l, _ := run.w.LastIndex()
	return f, l
}

func probeOps(c *ctx, r *rand.Rand, line string) string {
	f, l := recoveredRange(line)
	g := &wgen{r: r, seg: 256}
	g.first, g.last = f, l
	next := l + 1
	if l == 0 {
		next = 1 + uint64(r.Intn(5))
	}
	ops := []string{fmt.Sprintf("S 1 %s", g.log(next)), "W", fmt.Sprintf("S 2 %s %s", g.log(next+1), g.log(next+2)), "W"}
	if f == 0 {
		f = next
	}
	switch r.Intn(3) {
	case 0:
		ops = append(ops, fmt.Sprintf("D %x %x", f, f))
	case 1:
		ops = append(ops, fmt.Sprintf("D %x %x", next+2, next+2), fmt.Sprintf("S 1 %s", g.log(next+2)), "W")
	}
	ops = append(ops, "U 6b 7", "A", "T", "X", "O", "A", "u 6b", "Y", "X")
	return strings.Join(ops, " ")
}

func allNames(c *crashFS) map[string]bool {
	m := map[string]bool{}
	for _, a := range c.acts {
		if a.kind == actCreate {
			m[a.name] = true
		}
	}
	return m
}

// pendingAt: files with un-synced writes and files whose directory entry is not
// durable after the first k counted actions
func pendingAt(c *crashFS, k int) (pending, nondurable, scrubDurable []string) {
	type st struct{ pend, dur, exists, scrubOnly bool }
	m := map[string]*st{}
	var order []string
	n := c.baseCount
	if c.base != nil {
		for name := range c.base.files {
			m[name] = &st{exists: true, dur: true}
			order = append(order, name)
		}
		sort.Strings(order)
	}
	for _, a := range c.acts {
		if !a.scrub {
			if n >= k {
				break
			}
			n++
		}
		if a.failed {
			continue
		}
		switch a.kind {
		case actCreate:
			m[a.name] = &st{exists: true}
			order = append(order, a.name)
		case actWrite:
			if s := m[a.name]; s != nil && !a.scrub {
				s.pend = true
			}
		case actSync:
			if s := m[a.name]; s != nil {
				s.pend = false
				if !s.dur {
					s.scrubOnly = a.scrub
				} else if !a.scrub {
					s.scrubOnly = false
				}
				s.dur = true
			}
		case actDelete:
			if s := m[a.name]; s != nil {
				s.exists = false
			}
		}
	}
	seen := map[string]bool{}
	for _, name := range order {
		s := m[name]
		if seen[name] || !s.exists {
			continue
		}
		seen[name] = true
		if s.pend {
			pending = append(pending, name)
		}
		if !s.dur {
			nondurable = append(nondurable, name)
		} else if s.scrubOnly {
			scrubDurable = append(scrubDurable, name)
		}
	}
	return
}

// faults: a workload with single I/O faults injected, further successful
// operations, then a clean reopen and an audit (C10)
func genFaults(c *ctx, emit func(string)) {
	r := rand.New(rand.NewSource(c.seed))
	// a counted fault no call reaches: the call sees only the fault modes
	const never = "! c8"
	bigLog := func(g *wgen) string {
		l := &raft.Log{Index: g.last + 1, Term: 1, Data: bytes.Repeat([]byte{7}, g.seg), AppendedAt: baseTime}
		return "S 1 " + logFields(l, true)
	}
	for i := 0; i < c.n; i++ {
		g := newWgen(r, "m")
		n := 3 + r.Intn(10)
		for j := 0; j < n; j++ {
			armed := false
			switch x := r.Intn(12); {
			case x < 3:
				g.ops = append(g.ops, fmt.Sprintf("! %x", r.Intn(5)))
			case x < 5: // a counted fault together with fault modes
				g.ops = append(g.ops, fmt.Sprintf("? %x", 1+r.Intn(15)), fmt.Sprintf("! %x", r.Intn(6)))
				armed = true
			case x < 6: // only the modes: every deletion of the call fails
				g.ops = append(g.ops, "? 1", never)
				armed = true
			}
			switch x := r.Intn(10); {
			case x < 6:
				g.store()
			case x < 8:
				g.del()
			case x < 9:
				g.stableOp()
			default:
				g.reads()
			}
			if armed && r.Intn(3) > 0 {
				g.ops = append(g.ops, "~")
			}
			if r.Intn(3) == 0 {
				g.ops = append(g.ops, "A")
			}
		}
		switch r.Intn(21) {
		case 0: // fault inside a suffix truncation, exactly one more batch, reopen
			if !g.empty() && g.last > g.first {
				g.ops = append(g.ops, fmt.Sprintf("! %x", r.Intn(2)), fmt.Sprintf("D %x %x", g.last, g.last+uint64(r.Intn(2))))
				g.store()
			}
		case 1: // failed stable write, then the same write again
			k := stableKeys[r.Intn(3)]
			v := genU64(r)
			g.ops = append(g.ops, fmt.Sprintf("U %s %x", k, v+1), "! 0", fmt.Sprintf("U %s %x", k, v), fmt.Sprintf("U %s %x", k, v), "u "+k)
		case 3: // fault in the append that would seal the tail, then a tail truncation without reopen
			if !g.empty() {
				g.ops = append(g.ops, fmt.Sprintf("! %x", r.Intn(2)))
				g.ops = append(g.ops, bigLog(g), "W", fmt.Sprintf("D %x %x", g.last, g.last))
				if g.last > g.first {
					g.last--
				} else {
					g.first, g.last = 0, 0
				}
			}
		case 4: // fault inside the force-seal of a tail truncation, then the same truncation again
			if !g.empty() && g.last > g.first {
				g.ops = append(g.ops, fmt.Sprintf("! %x", r.Intn(2)), fmt.Sprintf("D %x %x", g.last, g.last), fmt.Sprintf("D %x %x", g.last, g.last))
				g.last--
			}
		case 2: // fault in the base-index reset of an empty log, then an append at the old base
			g.ops = append(g.ops, fmt.Sprintf("D 0 %x", g.last+5), fmt.Sprintf("! %x", r.Intn(2)))
			g.first, g.last = 0, 0
			save := *g
			g.store()
			g.first, g.last = save.first, save.last
			g.store()
		case 5, 6: // a truncation whose deletions all fail; the files stay until an Open removes
			// them, and the clean-up of that Open may fail as well
			g.ops = append(g.ops, "~")
			for j := 0; j < 2+r.Intn(3); j++ {
				g.ops = append(g.ops, bigLog(g), "W")
				g.last++
				if g.first == 0 {
					g.first = g.last
				}
			}
			g.ops = append(g.ops, "Y", "? 1", never)
			if r.Intn(2) == 0 {
				mx := g.first + uint64(r.Intn(int(g.last-g.first)+1))
				g.ops = append(g.ops, fmt.Sprintf("D 0 %x", mx))
				if mx >= g.last {
					g.first, g.last = 0, 0
				} else {
					g.first = mx + 1
				}
			} else {
				mn := g.first + uint64(r.Intn(int(g.last-g.first)+1))
				g.ops = append(g.ops, fmt.Sprintf("D %x %x", mn, g.last+1))
				if mn <= g.first {
					g.first, g.last = 0, 0
				} else {
					g.last = mn - 1
				}
			}
			g.ops = append(g.ops, "~", "Y", "T")
			if r.Intn(2) == 0 {
				g.store()
			}
			if r.Intn(2) == 0 {
				g.ops = append(g.ops, "X", "Z", "? 1", never, "O", "~", "Y", "A")
			}
		case 7: // the directory listing of an Open fails; the next Open succeeds
			g.ops = append(g.ops, "~", "X", "Z", "? 2", never, "O", "~", "L", "T", "Y", "O", "A")
			g.store()
		case 8, 9: // the creation of the next segment file (rotation) fails and leaves the file
			g.ops = append(g.ops, "~", "W", "? 4", fmt.Sprintf("! %x", 2+r.Intn(2)), bigLog(g), "W", "~", "Y", "T")
			g.store()
		case 10: // the creation of the new tail of a tail truncation fails and leaves the file
			if !g.empty() {
				g.ops = append(g.ops, "~", "W", "? 4", fmt.Sprintf("! %x", []int{1, 3}[r.Intn(2)]), fmt.Sprintf("D %x %x", g.last, g.last), "~", "Y", "T")
				g.store()
			}
		case 11: // the empty first segment is replaced while deletions fail / the new file is left
			g.ops = append(g.ops, "~", fmt.Sprintf("D 0 %x", g.last+5))
			g.first, g.last = 0, 0
			if r.Intn(2) == 0 {
				g.ops = append(g.ops, "? 1", never)
			} else {
				g.ops = append(g.ops, "? 4", fmt.Sprintf("! %x", r.Intn(3)))
			}
			g.store()
			g.ops = append(g.ops, "~", "Y")
			g.store()
		case 12, 13: // stale bytes behind the valid chain: the fsync of a long batch fails, a
			// shorter batch is written over its start (and synced, or its fsync fails too:
			// then it is adopted by the next Open), restart, Open with an armed fault --
			// recovery zeroes the stale bytes and fsyncs
			sized := func(idx uint64, n int) string {
				// payload bytes that are no frame type: stale payload must not parse as frames
				// (DESIGN fault2, finding "unverified stale commit frame")
				l := &raft.Log{Index: idx, Term: uint64(1 + r.Intn(5)), Data: bytes.Repeat([]byte{byte(0x10 + r.Intn(200))}, n), AppendedAt: baseTime}
				return "S 1 " + logFields(l, true)
			}
			next := g.last + 1
			long := 40 + r.Intn(g.seg/2)
			g.ops = append(g.ops, "~", "W", "! 1", sized(next, long), "W")
			switch r.Intn(3) {
			case 0: // shorter batch, synced
				g.ops = append(g.ops, "~", sized(next, r.Intn(long/2)), "W")
				g.last = next
			case 1: // shorter batch whose fsync fails as well
				g.ops = append(g.ops, "~", "! 1", sized(next, r.Intn(long/2)), "W")
			default: // shorter batch synced, then a second short one whose fsync fails
				g.ops = append(g.ops, "~", sized(next, r.Intn(long/4)), "W", "! 1", sized(next+1, r.Intn(long/4)), "W")
				g.last = next
			}
			if g.first == 0 {
				g.first = g.last
			}
			g.ops = append(g.ops, "~", "T")
			if r.Intn(2) == 0 {
				g.ops = append(g.ops, "X")
			}
			g.ops = append(g.ops, "Z", fmt.Sprintf("! %x", r.Intn(3)), "O", "T", "A")
		case 14, 15: // finding F4: a tail truncation that drops the (empty) tail segment as a whole,
			// its metadata commit fails but reaches the disk; the appends that follow must be
			// refused (they would go to a segment the persisted state no longer lists)
			g.ops = append(g.ops, "~", "W")
			if g.empty() {
				g.ops = append(g.ops, bigLog(g), "W")
				g.last++
				g.first = g.last
			}
			g.ops = append(g.ops, bigLog(g), "W", "Y", "? 8", fmt.Sprintf("! %x", r.Intn(2)))
			g.last++
			k := uint64(1 + r.Intn(2))
			if k > g.last-g.first+1 {
				k = 1
			}
			g.ops = append(g.ops, fmt.Sprintf("D %x %x", g.last-k+1, g.last+uint64(r.Intn(2))), "~", "T", "A")
			save := *g
			g.store()
			g.store()
			g.first, g.last = save.first, save.last
			g.ops = append(g.ops, "A")
		case 16: // the commit of a rotation fails and lands
			g.ops = append(g.ops, "~", "W", "? 8", "! 2", bigLog(g), "W", "~", "T", "A")
			g.store()
		case 17: // the commit of a head truncation fails and lands
			g.ops = append(g.ops, "~")
			for j := 0; j < 2; j++ {
				g.ops = append(g.ops, bigLog(g), "W")
				g.last++
				if g.first == 0 {
					g.first = g.last
				}
			}
			g.ops = append(g.ops, "? 8", "! 0", fmt.Sprintf("D 0 %x", g.first+uint64(r.Intn(int(g.last-g.first)+1))), "~", "T", "A")
			g.store()
		case 18: // the commit of the reset of the empty first segment fails and lands
			g.ops = append(g.ops, "~", fmt.Sprintf("D 0 %x", g.last+5), "? 8", "! 0")
			g.first, g.last = 0, 0
			save := *g
			g.store()
			g.first, g.last = save.first, save.last
			g.ops = append(g.ops, "~", "A")
			g.store()
		case 19: // a stable write fails and lands: the new value is what readers see
			k := stableKeys[r.Intn(3)]
			v := genU64(r)
			g.ops = append(g.ops, "~", fmt.Sprintf("U %s %x", k, v+1), "? 8", "! 0", fmt.Sprintf("U %s %x", k, v), "~", "u "+k, fmt.Sprintf("U %s %x", k, v+2), "u "+k)
		}
		g.ops = append(g.ops, "A", "T", "X", "Z", "O", "A", "Y", "P")
		// after reopen the WAL must be usable again
		g.ops = append(g.ops, "~", "T", "X", "Z", "O")
		emit(strings.Join(g.ops, " ") + " " + probeOps(c, r, strings.Join(g.ops, " ")))
	}
}

// codecid: codec identifiers (C12): reserved ids are rejected by Open, a
// directory written with one id refuses another, and a WAL created with a
// custom codec reopens with that same codec.
func genCodecID(c *ctx, emit func(string)) {
	r := rand.New(rand.NewSource(c.seed))
	ids := []uint64{1, 0, 2, 65535, 65536, 65537, 1 << 32, 1<<64 - 1}
	for i := 0; i < c.n; i++ {
		id := ids[r.Intn(len(ids))]
		if r.Intn(3) == 0 {
			id = r.Uint64()
		}
		mode := "m"
		if i%4 == 3 {
			mode = "r"
		}
		g := newWgen(r, mode)
		g.ops = []string{fmt.Sprintf("wal %x %x %s", g.seg, id, mode), "O"}
		for j := 0; j < 2+r.Intn(5); j++ {
			g.store()
		}
		g.ops = append(g.ops, "A", "X", "O", "A") // same codec: must reopen with identical contents
		other := ids[r.Intn(len(ids))]
		g.ops = append(g.ops, "X", fmt.Sprintf("Q %x", other), "O", "A", "X", fmt.Sprintf("Q %x", id), "O", "A", "X")
		emit(strings.Join(g.ops, " "))
	}
}

func init() { streams["codecid"] = &stream{gen: genCodecID, exec: execWal} }

// stable: the StableStore as a durable map (C08): dense Set/Get/SetUint64/GetUint64
// traffic on a few keys (set, overwrite, clear with nil, set again, retry of the same
// value), interleaved with log operations, rotations, truncations and reopens; half of
// the cases run on the real BoltDB.
func genStable(c *ctx, emit func(string)) {
	r := rand.New(rand.NewSource(c.seed))
	for i := 0; i < c.n; i++ {
		mode := "m"
		if i%2 == 1 {
			mode = "r"
		}
		g := newWgen(r, mode)
		keys := stableKeys[:3+r.Intn(3)]
		big := hx(bytes.Repeat([]byte{0xab}, 1500)) // pushes the bolt bucket out of its inline form
		if r.Intn(3) == 0 {
			g.ops = append(g.ops, "K "+keys[0]+" "+big)
		}
		n := 10 + r.Intn(30)
		for j := 0; j < n; j++ {
			k := keys[r.Intn(len(keys))]
			switch x := r.Intn(16); {
			case x < 3:
				g.ops = append(g.ops, fmt.Sprintf("K %s %s", k, hx(genBytes(r, 24))), "k "+k)
			case x < 5:
				g.ops = append(g.ops, "K "+k+" nil", "k "+k, "u "+k)
			case x < 7:
				v := genU64(r)
				g.ops = append(g.ops, fmt.Sprintf("U %s %x", k, v), "u "+k)
				if r.Intn(2) == 0 { // clear, then the same value again
					g.ops = append(g.ops, "K "+k+" nil", fmt.Sprintf("U %s %x", k, v), "u "+k)
				}
			case x < 9:
				g.ops = append(g.ops, "k "+k, "u "+k)
			case x < 12:
				g.store()
			case x < 13:
				g.del()
			case x < 14:
				g.ops = append(g.ops, "X", "O")
			default:
				for _, kk := range keys {
					g.ops = append(g.ops, "k "+kk)
				}
			}
		}
		for _, kk := range keys {
			g.ops = append(g.ops, "k "+kk)
		}
		g.ops = append(g.ops, "A", "M", "X", "O", "A")
		for _, kk := range keys {
			g.ops = append(g.ops, "k "+kk)
		}
		g.ops = append(g.ops, "X")
		emit(strings.Join(g.ops, " "))
	}
}

func init() { streams["stable"] = &stream{gen: genStable, exec: execWal} }

// stalechain: the chain "torn batch -> recovery -> shorter batch at the same offset ->
// second power loss" in which the stale frames of the first torn batch would reappear
// behind the commit of the second one unless recovery durably zeroes them (C02).
func genStaleChain(c *ctx, emit func(string)) {
	r := rand.New(rand.NewSource(c.seed))
	encLen := func(l *raft.Log) int {
		var buf bytes.Buffer
		(&wal.BinaryCodec{}).Encode(l, &buf)
		return buf.Len()
	}
	frame := func(n int) int { return 8 + n + (8-n%8)%8 }
	mk := func(idx uint64, n int) *raft.Log {
		d := make([]byte, n)
		for i := range d {
			d[i] = byte(0x41 + r.Intn(3))
		}
		return &raft.Log{Index: idx, Term: 1, Data: d, AppendedAt: baseTime}
	}
	for i := 0; i < c.n; i++ {
		first := uint64(1 + r.Intn(50))
		a0 := mk(first, r.Intn(40))
		e1 := mk(first+1, 16+8*r.Intn(6))
		e2 := mk(first+2, 8*r.Intn(5))
		// f1's frame plus its commit frame must end exactly where e2's frame begins
		f1 := mk(first+1, 0)
		for n := 0; n < 200; n++ {
			f1 = mk(first+1, n)
			if frame(encLen(f1))+8 == frame(encLen(e1)) {
				break
			}
		}
		if frame(encLen(f1))+8 != frame(encLen(e1)) {
			continue
		}
		prefix := fmt.Sprintf("wal 1000 1 m O S 1 %s W", logFields(a0, true))
		dry := &walRun{line: prefix}
		dry.c = &ctx{out: discardWriter(), stats: map[string]int{}}
		dry.run()
		if dry.cfs == nil {
			continue
		}
		n0 := dry.cfs.nCounted()
		var name string
		for nm := range dry.cfs.files {
			name = nm
		}
		var b, id uint64
		fmt.Sscanf(name, "%020d-%016x.wal", &b, &id)
		offB := 32 + frame(encLen(a0)) + 8
		F1, F2 := frame(encLen(e1)), frame(encLen(e2))
		commitB := (offB + F1 + F2) / 8
		m1 := new(big.Int)
		for ch := 0; ch < commitB; ch++ {
			m1.SetBit(m1, ch, 1)
		}
		m2 := new(big.Int)
		for ch := 0; ch <= offB/8; ch++ {
			m2.SetBit(m2, ch, 1)
		}
		m2.SetBit(m2, (offB+F1-8)/8, 1) // the commit frame of the second batch
		line := prefix + fmt.Sprintf(" S 2 %s %s W C %x 0 0 1 %x %x %s O A", logFields(e1, true), logFields(e2, true), n0+1, b, id, m1.Text(16))
		dry2 := &walRun{line: line}
		dry2.c = &ctx{out: discardWriter(), stats: map[string]int{}}
		dry2.run()
		if dry2.cfs == nil {
			continue
		}
		n1 := dry2.cfs.nCounted()
		line += fmt.Sprintf(" S 1 %s W C %x 0 0 1 %x %x %s O A P Y", logFields(f1, true), n1+1, b, id, m2.Text(16))
		line += fmt.Sprintf(" S 1 %s W A X O A X", logFields(mk(first+1, 5), true))
		emit(line)
	}
}

func init() { streams["stalechain"] = &stream{gen: genStaleChain, exec: execWal} }
