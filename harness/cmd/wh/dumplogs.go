package main

import (
	"fmt"
	"math"
	"math/rand"
	"sort"
	"strings"
	"time"

	"github.com/hashicorp/go-hclog"
	"github.com/hashicorp/raft"
	wal "github.com/hashicorp/raft-wal"
	"github.com/hashicorp/raft-wal/segment"
	"github.com/hashicorp/raft-wal/types"
)

// dumplogs stream (C11): Filer.DumpLogs over whole directories.
//
//	dl <after> <before> <badname 0|1> (<id> <base> <hex content|->)*
//
// The generator builds the directories with the real WAL (small segments,
// appends, head/tail truncations -- several generations of files may remain
// only when damaged on purpose), then damages a third of them: flipped bytes,
// cut files, zeroed headers, garbage, duplicated generations.  Observation:
// "ok:" / "err:" followed by the entries handed to the callback.

func init() { streams["dumplogs"] = &stream{gen: genDumpLogs, exec: execDumpLogs} }

func execDumpLogs(c *ctx, line string) string {
	type res struct{ obs string }
	ch := make(chan res, 1)
	go func() { ch <- res{execDumpLogs1(c, line)} }()
	select {
	case r := <-ch:
		return r.obs
	case <-time.After(30 * time.Second):
		c.witness("C11", "segment-hang", "DumpLogs does not return within 30 s", line)
		return "hang"
	}
}

func execDumpLogs1(c *ctx, line string) (obs string) {
	defer func() {
		if e := recover(); e != nil {
			obs = "panic"
			c.witness("C11", "segment-panic", fmt.Sprintf("DumpLogs panics: %v", e), line)
		}
	}()
	f := strings.Split(line, " ")
	if f[0] != "dl" || len(f) < 4 || (len(f)-4)%3 != 0 {
		return "badinput"
	}
	after, before, bad := parseU(f[1]), parseU(f[2]), parseU(f[3])
	vfs := newMemFS()
	total := 0
	for i := 4; i < len(f); i += 3 {
		id, base := parseU(f[i]), parseU(f[i+1])
		var data []byte
		if f[i+2] != "-" {
			data = unhx(f[i+2])
		}
		total += len(data)
		vfs.files[segment.FileName(types.SegmentInfo{ID: id, BaseIndex: base})] = &memFile{data: data}
	}
	if bad != 0 {
		vfs.files["garbage.wal"] = &memFile{}
	}
	vfs.files["wal-meta.db"] = &memFile{data: []byte("not a segment")}
	filer := segment.NewFiler("d", vfs)
	var es []string
	var err error
	n := 0
	measured(c, "DumpLogs", total, line, func() {
		err = filer.DumpLogs(after, before, func(_ types.SegmentInfo, e types.LogEntry) (bool, error) {
			n++
			return true, nil
		})
	})
	err = filer.DumpLogs(after, before, func(_ types.SegmentInfo, e types.LogEntry) (bool, error) {
		es = append(es, fmt.Sprintf("%x:%s", e.Index, hx(e.Data)))
		return true, nil
	})
	c.stat(fmt.Sprintf("dumplogs_entries_%s", dlBucket(len(es))))
	k := "ok"
	if err != nil {
		k = "err"
		c.stat("dumplogs_err")
	}
	return k + ":" + strings.Join(es, " ")
}

func dlBucket(n int) string {
	switch {
	case n == 0:
		return "0"
	case n < 4:
		return "1-3"
	case n < 16:
		return "4-15"
	default:
		return "16+"
	}
}

func unhx(s string) []byte {
	b := make([]byte, len(s)/2)
	for i := range b {
		fmt.Sscanf(s[2*i:2*i+2], "%02x", &b[i])
	}
	return b
}

func genDumpLogs(c *ctx, emit func(string)) {
	r := rand.New(rand.NewSource(c.seed))
	for n := 0; n < c.n; n++ {
		cfs := newCrashFS()
		seg := []int{256, 384, 512, 1024}[r.Intn(4)]
		w, err := wal.Open("d", wal.WithSegmentFiler(segment.NewFiler("d", cfs)), wal.WithMetaStore(&cmeta{fs: cfs}),
			wal.WithSegmentSize(seg), wal.WithLogger(hclog.NewNullLogger()))
		if err != nil {
			continue
		}
		next := uint64(1 + r.Intn(40))
		first := next
		for k, steps := 0, 2+r.Intn(10); k < steps; k++ {
			switch x := r.Intn(10); {
			case x < 7:
				var logs []*raft.Log
				for j, m := 0, 1+r.Intn(4); j < m; j++ {
					d := make([]byte, []int{0, 1, 7, 8, 30, 90, 200}[r.Intn(7)])
					r.Read(d)
					logs = append(logs, &raft.Log{Index: next, Term: 1, Data: d})
					next++
				}
				w.StoreLogs(logs)
				w.DeleteRange(math.MaxUint64, math.MaxUint64) // no-op that waits for the background rotation
			case x < 8 && next > first+1:
				mx := first + uint64(r.Intn(int(next-first)))
				if w.DeleteRange(first, mx) == nil {
					first = mx + 1
					if first >= next {
						first = next
					}
				}
			case x < 9 && next > first+1:
				mn := first + 1 + uint64(r.Intn(int(next-first-1)))
				if w.DeleteRange(mn, next-1) == nil {
					next = mn
				}
			}
		}
		w.Close()
		type fl struct {
			id, base uint64
			data     []byte
		}
		var files []fl
		var names []string
		for name := range cfs.files {
			names = append(names, name)
		}
		sort.Strings(names)
		for _, name := range names {
			var b, id uint64
			if _, err := fmt.Sscanf(name, "%020d-%016x.wal", &b, &id); err != nil {
				continue
			}
			files = append(files, fl{id, b, append([]byte(nil), stripZeros(cfs.files[name].data)...)})
		}
		bad := 0
		if r.Intn(3) == 0 && len(files) > 0 {
			// damage
			for k, m := 0, 1+r.Intn(3); k < m; k++ {
				f := &files[r.Intn(len(files))]
				switch r.Intn(7) {
				case 0: // flip bytes
					for j := 0; j < 1+r.Intn(4) && len(f.data) > 0; j++ {
						f.data[r.Intn(len(f.data))] ^= byte(1 << uint(r.Intn(8)))
					}
				case 1: // cut
					if len(f.data) > 0 {
						f.data = f.data[:r.Intn(len(f.data))]
					}
				case 2: // zero the header
					for j := 0; j < 32 && j < len(f.data); j++ {
						f.data[j] = 0
					}
				case 3: // frame length field set to something huge
					if len(f.data) >= 40 {
						off := 32 + 8*r.Intn((len(f.data)-32)/8)
						f.data[off+4], f.data[off+5], f.data[off+6], f.data[off+7] = 0xff, 0xff, 0xff, byte(r.Intn(256))
					}
				case 4: // garbage tail
					g := make([]byte, 8*(1+r.Intn(8)))
					r.Read(g)
					f.data = append(f.data, g...)
				case 5: // an older generation left behind: same content under a fresh id and a shifted base
					files = append(files, fl{f.id + 100 + uint64(r.Intn(5)), f.base + uint64(r.Intn(3)), append([]byte(nil), f.data...)})
				default:
					bad = r.Intn(2)
				}
			}
		}
		lo, hi := first, next
		// after (exclusive lower bound) and before (exclusive upper bound): 0 = unbounded,
		// mostly a window that keeps something, sometimes a segment boundary, outside, inverted
		var after, before uint64
		span := int(hi-lo) + 1
		switch r.Intn(8) {
		case 0, 1:
		case 2:
			after = lo + uint64(r.Intn(span))
		case 3:
			before = lo + uint64(r.Intn(span+1))
		case 4, 5:
			after = lo + uint64(r.Intn(span))
			before = after + uint64(r.Intn(span+2))
		case 6:
			if len(files) > 0 {
				after = files[r.Intn(len(files))].base - uint64(r.Intn(2))
				before = files[r.Intn(len(files))].base + uint64(r.Intn(2))
			}
		default:
			after, before = hi+uint64(r.Intn(3)), lo
		}
		var sb strings.Builder
		fmt.Fprintf(&sb, "dl %x %x %x", after, before, bad)
		// file order in the line is irrelevant to both sides; shuffle it
		r.Shuffle(len(files), func(i, j int) { files[i], files[j] = files[j], files[i] })
		seen := map[uint64]bool{}
		for _, f := range files {
			if seen[f.id] {
				continue // one file per ID (listInternal keeps one base index per ID)
			}
			seen[f.id] = true
			h := "-"
			if len(f.data) > 0 {
				h = hx(f.data)
			}
			fmt.Fprintf(&sb, " %x %x %s", f.id, f.base, h)
		}
		c.stat(fmt.Sprintf("dumplogs_files_%s", dlBucket(len(files))))
		emit(sb.String())
	}
}
