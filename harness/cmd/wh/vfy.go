package main

// vfy stream: multi-node histories on the real verifier.LogStore (over
// raft.InmemStore or the real WAL), see coq/Run/RunVfy.v for the line format.
// Oracles here do not use the model: they compare against ground truth kept
// by the harness (what each node was handed and what the leader checksummed).

import (
	"bytes"
	"encoding/binary"
	"errors"
	"fmt"
	"os"
	"path/filepath"
	"strings"
	"sync"
	"sync/atomic"
	"time"

	"github.com/hashicorp/raft"
	wal "github.com/hashicorp/raft-wal"
	"github.com/hashicorp/raft-wal/verifier"
)

func init() { streams["vfy"] = &stream{gen: genVfy, exec: execVfy} }

// ---- metrics collector -------------------------------------------------------
type vCollector struct {
	mu sync.Mutex
	c  map[string]uint64
}

func (m *vCollector) IncrementCounter(name string, delta uint64) {
	m.mu.Lock()
	m.c[name] += delta
	m.mu.Unlock()
}
func (m *vCollector) SetGauge(name string, val uint64) {}
func (m *vCollector) get(name string) uint64 {
	m.mu.Lock()
	defer m.mu.Unlock()
	return m.c[name]
}

// ---- underlying store wrapper --------------------------------------------------
// guardStore sits UNDER the middleware.  It enforces the contiguous-log
// contract uniformly (InmemStore is a test double that accepts gaps and middle
// deletes), injects StoreLogs failures, and returns tampered entries (at-rest
// corruption).
var errVfyGuard = errors.New("guard: contract violation")
var errVfyInjected = errors.New("guard: injected failure")

type guardStore struct {
	inner     raft.LogStore
	isWAL     bool
	overrides map[uint64]*raft.Log
	failNext  bool
	failLast  bool // one-shot: the next LastIndex fails
	called    bool // last StoreLogs reached this store
}

func (g *guardStore) FirstIndex() (uint64, error) { return g.inner.FirstIndex() }
func (g *guardStore) LastIndex() (uint64, error) {
	if g.failLast {
		g.failLast = false
		return 0, errVfyInjected
	}
	return g.inner.LastIndex()
}
func (g *guardStore) GetLog(idx uint64, log *raft.Log) error {
	if o, ok := g.overrides[idx]; ok {
		*log = *o
		log.Data = append([]byte(nil), o.Data...)
		log.Extensions = append([]byte(nil), o.Extensions...)
		return nil
	}
	return g.inner.GetLog(idx, log)
}
func (g *guardStore) StoreLog(l *raft.Log) error { return g.StoreLogs([]*raft.Log{l}) }

// Close makes verifier.LogStore.Close close the WAL underneath
func (g *guardStore) Close() error {
	if c, ok := g.inner.(interface{ Close() error }); ok {
		return c.Close()
	}
	return nil
}
func (g *guardStore) StoreLogs(logs []*raft.Log) error {
	g.called = true
	if g.failNext {
		g.failNext = false
		return errVfyInjected
	}
	if len(logs) == 0 {
		return nil
	}
	last, _ := g.inner.LastIndex()
	first, _ := g.inner.FirstIndex()
	next := logs[0].Index
	if first != 0 || last != 0 {
		next = last + 1
	} else if next == 0 {
		return errVfyGuard
	}
	for i, l := range logs {
		if l.Index != next+uint64(i) {
			return errVfyGuard
		}
	}
	if err := g.inner.StoreLogs(logs); err != nil {
		return err
	}
	for _, l := range logs {
		delete(g.overrides, l.Index)
	}
	return nil
}
func (g *guardStore) DeleteRange(min, max uint64) error {
	if min > max {
		return nil
	}
	first, _ := g.inner.FirstIndex()
	last, _ := g.inner.LastIndex()
	if first == 0 && last == 0 {
		return nil
	}
	if max < first || min > last {
		return nil
	}
	if min > first && max < last {
		return errVfyGuard
	}
	var err error
	if g.isWAL {
		err = g.inner.DeleteRange(min, max)
	} else {
		// InmemStore loops over the range and mis-tracks disjoint parts: clamp
		lo, hi := min, max
		if lo < first {
			lo = first
		}
		if hi > last {
			hi = last
		}
		err = g.inner.DeleteRange(lo, hi)
	}
	if err != nil {
		return err
	}
	for k := range g.overrides {
		if k >= min && k <= max {
			delete(g.overrides, k)
		}
	}
	return nil
}

// ---- one node ------------------------------------------------------------------
type vReport struct {
	r       verifier.VerificationReport
	kind    string
	life    int         // LogStore lifetime (restart count) it was delivered in
	first   uint64      // FirstIndex at delivery
	last    uint64      // LastIndex at delivery
	readNow []*raft.Log // what the store returns for the range at delivery (nil entry = missing)
	cp      *cpInfo     // the stored checkpoint this report belongs to (matched in judge)
}

type cpInfo struct {
	start, end uint64
	wrote      []*raft.Log // what the node had written for [start,end) when the checkpoint was stored (nil = not held)
}

type vNode struct {
	id    int
	dir   string
	guard *guardStore
	twin  *guardStore // same operations applied directly (C18 pass-through)
	ls    *verifier.LogStore
	mc    *vCollector
	life  int

	mu        sync.Mutex
	blockArm  bool
	release   chan struct{}
	inCB      atomic.Bool // verifier goroutine is parked inside ReportFn
	entered   int
	reports   []*vReport
	lastWF    uint64
	lastRF    uint64
	wrote     map[uint64]*raft.Log // what this node was handed and still holds (never tampered)
	myCPs     uint64               // checkpoint entries stored successfully (harness count)
	triggered [][]cpInfo           // per lifetime: ranges of the checkpoints stored, in order
	dead      bool
}

func isCheckpoint(l *raft.Log) (bool, error) {
	if len(l.Data) > 0 {
		switch l.Data[0] {
		case 0xc0:
			return true, nil
		case 0xce:
			return false, errCpf
		}
	}
	return false, nil
}

var errCpf = errors.New("checkpoint fn failed")

func cloneLog(l *raft.Log) *raft.Log {
	if l == nil {
		return nil
	}
	return &raft.Log{Index: l.Index, Term: l.Term, Type: l.Type,
		Data: append([]byte(nil), l.Data...), Extensions: append([]byte(nil), l.Extensions...)}
}

func sameLog(a, b *raft.Log) bool {
	if a == nil || b == nil {
		return a == b
	}
	return a.Index == b.Index && a.Term == b.Term && a.Type == b.Type &&
		bytes.Equal(a.Data, b.Data) && bytes.Equal(a.Extensions, b.Extensions)
}

func (n *vNode) reportFn(r verifier.VerificationReport) {
	n.mu.Lock()
	kind := "none"
	wf, rf := n.mc.get("write_checksum_failures"), n.mc.get("read_checksum_failures")
	var cm verifier.ErrChecksumMismatch
	switch {
	case r.Err == nil:
	case errors.Is(r.Err, verifier.ErrRangeMismatch):
		kind = "rng"
	case errors.As(r.Err, &cm):
		if wf > n.lastWF {
			kind = "cki"
		} else if rf > n.lastRF {
			kind = "cks"
		} else {
			kind = "ck?"
		}
	default:
		kind = "oth"
	}
	n.lastWF, n.lastRF = wf, rf
	vr := &vReport{r: r, kind: kind, life: n.life}
	vr.first, _ = n.guard.FirstIndex()
	vr.last, _ = n.guard.LastIndex()
	if r.Range.End >= r.Range.Start && r.Range.End-r.Range.Start < 1<<16 {
		for i := r.Range.Start; i < r.Range.End; i++ {
			var l raft.Log
			if err := n.guard.GetLog(i, &l); err == nil {
				vr.readNow = append(vr.readNow, cloneLog(&l))
			} else {
				vr.readNow = append(vr.readNow, nil)
			}
		}
	}
	n.reports = append(n.reports, vr)
	n.entered++
	park := n.blockArm
	ch := n.release
	if park {
		n.inCB.Store(true)
	}
	n.mu.Unlock()
	if park {
		<-ch
		n.inCB.Store(false)
	}
}

func (n *vNode) openStore(c *ctx, kind string) error {
	if kind == "w" {
		w, err := wal.Open(n.dir, wal.WithSegmentSize(2048))
		if err != nil {
			return err
		}
		n.guard.inner = w
		n.guard.isWAL = true
	} else if n.guard.inner == nil {
		n.guard.inner = raft.NewInmemStore()
	}
	return nil
}

func (n *vNode) newLogStore() {
	n.ls = verifier.NewLogStore(n.guard, isCheckpoint, n.reportFn, n.mc)
	n.triggered = append(n.triggered, nil)
}

// quiesce waits until the verifier goroutine is parked in ReportFn or has
// delivered everything that was accepted into the channel.
// After a few timeouts the limits shrink so that a broken implementation
// (uncounted drops, blocking sends) is reported without the run taking hours.
var vfyTimeouts int

func vfyLimit(full time.Duration) time.Duration {
	if vfyTimeouts >= 3 {
		return full / 20
	}
	return full
}

func (n *vNode) quiesce() bool {
	deadline := time.Now().Add(vfyLimit(4 * time.Second))
	for i := 0; ; i++ {
		if n.inCB.Load() {
			return true
		}
		acc := n.mc.get("checkpoints_written") - n.mc.get("dropped_reports")
		if n.mc.get("ranges_verified") == acc {
			return true
		}
		if i > 200 {
			time.Sleep(20 * time.Microsecond)
		}
		if i&255 == 0 && time.Now().After(deadline) {
			vfyTimeouts++
			return false
		}
	}
}

func (n *vNode) parked() bool { return n.inCB.Load() }

// decodeMeta: the harness's own reading of the checkpoint metadata layout
func decodeMeta(b []byte) (start, sum uint64, ok bool) {
	if len(b) < 24 || binary.LittleEndian.Uint64(b[0:8]) != verifier.ExtensionMagicPrefix {
		return 0, 0, false
	}
	return binary.LittleEndian.Uint64(b[8:16]), binary.LittleEndian.Uint64(b[16:24]), true
}

type truthKey struct{ start, end, sum uint64 }

type vRun struct {
	c     *ctx
	line  string
	nodes []*vNode
	truth map[truthKey][]*raft.Log // what the leader had written for the range it checksummed
	ambig map[truthKey]bool
}

// storeLogs runs one StoreLogs through the middleware of node n, the same call
// on the twin, and all the bookkeeping of the oracles.
func (v *vRun) storeLogs(n *vNode, batch []*raft.Log) string {
	if n.dead {
		return "dead"
	}
	cps := 0
	refuse := false // the middleware must refuse: checkpoint fn error / foreign extensions on a checkpoint
	for _, l := range batch {
		is, err := isCheckpoint(l)
		if err != nil {
			refuse = true
		}
		if is {
			cps++
			if len(l.Extensions) > 0 {
				if _, _, ok := decodeMeta(l.Extensions); !ok {
					refuse = true
				}
			}
		}
	}
	if cps > 1 && !n.parked() {
		return "rc"
	}
	orig := make([]*raft.Log, len(batch))
	twinBatch := make([]*raft.Log, len(batch))
	for i, l := range batch {
		orig[i] = cloneLog(l)
		twinBatch[i] = cloneLog(l)
	}
	n.guard.called = false
	willFail := n.guard.failNext
	// ReportFn takes n.mu first thing: it cannot observe the harness's books
	// (n.wrote, truth) before they include this call.  StoreLogs itself never
	// waits for ReportFn -- if it did, the timeout below reports it.
	n.mu.Lock()
	res := v.storeLogsLocked(n, batch, orig, twinBatch, refuse, willFail)
	n.mu.Unlock()
	if strings.HasPrefix(res, "hang") {
		return res
	}
	if !n.quiesce() {
		return res + "!stuck"
	}
	return res
}

func (v *vRun) storeLogsLocked(n *vNode, batch, orig, twinBatch []*raft.Log, refuse, willFail bool) string {
	done := make(chan error, 1)
	t0 := time.Now()
	go func() { done <- n.ls.StoreLogs(batch) }()
	var err error
	select {
	case err = <-done:
	case <-time.After(vfyLimit(3 * time.Second)):
		vfyTimeouts++
		v.c.witness("C18", "storelogs-blocked", fmt.Sprintf("StoreLogs did not return within its time limit (ReportFn parked=%v)", n.parked()), v.line)
		n.dead = true
		return "hang"
	}
	if d := time.Since(t0); d > time.Second {
		v.c.witness("C18", "storelogs-slow", fmt.Sprintf("StoreLogs took %v (ReportFn parked=%v)", d, n.parked()), v.line)
	}
	if n.parked() {
		v.c.stat("store_while_reportfn_parked")
	}
	res := "ok"
	if err != nil {
		if n.guard.called {
			res = "es"
		} else {
			res = "ev"
		}
	}
	// ---- C18 pass-through: same call directly on the twin ----
	if len(batch) > 0 {
		var terr error
		if refuse {
			terr = errVfyGuard // expected refusal: the underlying store must stay untouched
			if err == nil || n.guard.called {
				v.c.witness("C18", "foreign-checkpoint-accepted", "StoreLogs with a failing checkpoint fn / foreign Extensions on a checkpoint reached the store", v.line)
			}
		} else {
			n.twin.failNext = willFail
			terr = n.twin.StoreLogs(twinBatch)
		}
		if (terr == nil) != (err == nil) {
			v.c.witness("C18", "passthrough-storelogs-result", fmt.Sprintf("StoreLogs through the middleware: %v, directly: %v", err, terr), v.line)
		}
	}
	if err != nil {
		// a failed StoreLogs: the caller keeps its entries and may pass the same objects again.
		// Nothing but the Extensions of a checkpoint that arrived WITHOUT metadata (a leader's
		// own checkpoint) may have been touched: in particular the (start, sum) a leader put
		// into a checkpoint must survive on a follower (a retry would otherwise take the
		// leader branch and verify the range against this node's own sum)
		for i, l := range batch {
			o := orig[i]
			if l.Index != o.Index || l.Term != o.Term || l.Type != o.Type || !bytes.Equal(l.Data, o.Data) ||
				(len(o.Extensions) > 0 && !bytes.Equal(l.Extensions, o.Extensions)) {
				what := fmt.Sprintf("a FAILED StoreLogs altered the caller's entry %d (Extensions %d -> %d bytes)", o.Index, len(o.Extensions), len(l.Extensions))
				v.c.witness("C18", "failed-store-modifies-entry", what, v.line)
				v.c.witness("C17", "failed-store-modifies-entry", what, v.line)
				break
			}
		}
	}
	if err == nil && len(batch) > 0 {
		for i, l := range batch {
			// what reached the store (l was possibly given metadata by the middleware)
			n.wrote[l.Index] = cloneLog(l)
			is, _ := isCheckpoint(orig[i])
			if !is {
				if !sameLog(l, orig[i]) {
					v.c.witness("C18", "entry-modified", "StoreLogs modified a non-checkpoint entry", v.line)
				}
				continue
			}
			n.myCPs++
			start, sum, ok := decodeMeta(l.Extensions)
			if len(orig[i].Extensions) == 0 {
				// leader checkpoint: gains exactly the 24 bytes of metadata
				if !ok || len(l.Extensions) != 24 || l.Index != orig[i].Index || l.Term != orig[i].Term ||
					l.Type != orig[i].Type || !bytes.Equal(l.Data, orig[i].Data) {
					v.c.witness("C18", "checkpoint-meta", "leader checkpoint did not gain exactly the verification metadata", v.line)
					continue
				}
				// ground truth: what this leader wrote for [start, end)
				var L []*raft.Log
				for j := start; j < l.Index && l.Index-start < 1<<16; j++ {
					L = append(L, cloneLog(n.wrote[j]))
				}
				k := truthKey{start, l.Index, sum}
				if old, dup := v.truth[k]; dup && !sameLogs(old, L) {
					v.ambig[k] = true
				}
				v.truth[k] = L
			} else if !sameLog(l, orig[i]) {
				v.c.witness("C18", "entry-modified", "StoreLogs modified a follower checkpoint entry", v.line)
			}
			if ok {
				cp := cpInfo{start: start, end: l.Index}
				for j := start; j < l.Index && l.Index-start < 1<<16; j++ {
					cp.wrote = append(cp.wrote, cloneLog(n.wrote[j]))
				}
				n.triggered[n.life] = append(n.triggered[n.life], cp)
			}
		}
	}
	return res
}

func sameLogs(a, b []*raft.Log) bool {
	if len(a) != len(b) {
		return false
	}
	for i := range a {
		if !sameLog(a[i], b[i]) {
			return false
		}
	}
	return true
}

func entryOf(f []string) *raft.Log {
	return &raft.Log{Index: parseU(f[0]), Term: parseU(f[1]), Type: raft.LogType(parseU(f[2])),
		Data: parseHex(f[3]), Extensions: parseHex(f[4])}
}

func showEntry(l *raft.Log) string {
	return fmt.Sprintf("%x %x %x %s %s", l.Index, l.Term, uint64(l.Type), hx(l.Data), hx(l.Extensions))
}

func applyMut(l *raft.Log, kind, a, b string) {
	xor := func(bs []byte, pos, mask uint64) []byte {
		if pos < uint64(len(bs)) {
			bs = append([]byte(nil), bs...)
			bs[pos] ^= byte(mask)
		}
		return bs
	}
	cut := func(bs []byte, n uint64) []byte {
		if n < uint64(len(bs)) {
			return append([]byte(nil), bs[:n]...)
		}
		return bs
	}
	switch kind {
	case "i":
		l.Index = parseU(a)
	case "t":
		l.Term = parseU(a)
	case "y":
		l.Type = raft.LogType(parseU(a))
	case "d":
		l.Data = parseHex(a)
	case "e":
		l.Extensions = parseHex(a)
	case "fd":
		l.Data = xor(l.Data, parseU(a), parseU(b))
	case "fe":
		l.Extensions = xor(l.Extensions, parseU(a), parseU(b))
	case "ad":
		l.Data = append(append([]byte(nil), l.Data...), parseHex(a)...)
	case "ae":
		l.Extensions = append(append([]byte(nil), l.Extensions...), parseHex(a)...)
	case "cd":
		l.Data = cut(l.Data, parseU(a))
	case "ce":
		l.Extensions = cut(l.Extensions, parseU(a))
	case "sh":
		k := parseU(a)
		keep := 0
		if uint64(len(l.Data)) > k {
			keep = len(l.Data) - int(k)
		}
		moved := append([]byte(nil), l.Data[keep:]...)
		l.Extensions = append(moved, l.Extensions...)
		l.Data = append([]byte(nil), l.Data[:keep]...)
	default:
		panic("bad mutation kind " + kind)
	}
}

func (v *vRun) op(f []string) string {
	n := v.nodes[parseU(f[1])]
	if n.dead && f[0] != "r" {
		return "dead" // a StoreLogs on this node never returned: leave it alone
	}
	switch f[0] {
	case "a":
		cnt := int(parseU(f[2]))
		var batch []*raft.Log
		for i := 0; i < cnt; i++ {
			batch = append(batch, entryOf(f[3+5*i:]))
		}
		return v.storeLogs(n, batch)
	case "r":
		dst := v.nodes[parseU(f[2])]
		lo, hi, nm := parseU(f[3]), parseU(f[4]), int(parseU(f[5]))
		muts := f[6 : 6+4*nm]
		var sizes []int
		for _, s := range f[6+4*nm+1:] {
			sizes = append(sizes, int(parseU(s)))
		}
		var es []*raft.Log
		for i := lo; i <= hi; i++ {
			var l raft.Log
			// raft reads what it replicates through the LogStore it was given
			if err := n.ls.GetLog(i, &l); err != nil {
				return "nf"
			}
			e := cloneLog(&l)
			for m := 0; m < nm; m++ {
				if parseU(muts[4*m]) == i {
					applyMut(e, muts[4*m+1], muts[4*m+2], muts[4*m+3])
					v.c.stat("mut_inflight_" + muts[4*m+1])
				}
			}
			es = append(es, e)
		}
		var out []string
		for len(es) > 0 {
			sz := len(es)
			if len(sizes) > 0 {
				sz, sizes = sizes[0], sizes[1:]
				if sz == 0 {
					sz = 1
				}
			}
			if sz > len(es) {
				sz = len(es)
			}
			o := v.storeLogs(dst, es[:sz])
			out = append(out, o)
			es = es[sz:]
			if o != "ok" {
				break
			}
		}
		if len(out) == 0 {
			return "ok"
		}
		return strings.Join(out, ",")
	case "d", "l":
		mn, mx := parseU(f[2]), parseU(f[3])
		firstBefore, _ := n.guard.FirstIndex()
		lastBefore, _ := n.guard.LastIndex()
		if f[0] == "l" {
			n.guard.failLast = true // the middleware's next LastIndex read of the store fails
			v.c.stat("delete_with_failing_lastindex")
		}
		err := n.ls.DeleteRange(mn, mx)
		n.guard.failLast = false
		terr := n.twin.DeleteRange(mn, mx)
		if (err == nil) != (terr == nil) {
			v.c.witness("C18", "passthrough-deleterange-result", fmt.Sprintf("DeleteRange through the middleware: %v, directly: %v", err, terr), v.line)
		}
		if err != nil {
			return "er"
		}
		// n.wrote is the log as WRITTEN: compaction (a head truncation that does not
		// reach the last index) does not erase what the node wrote, a tail
		// truncation does, emptying the log erases everything
		if mn <= mx && lastBefore != 0 && mx >= lastBefore && mn <= lastBefore {
			n.mu.Lock()
			for k := range n.wrote {
				if mn <= firstBefore || k >= mn {
					delete(n.wrote, k)
				}
			}
			n.mu.Unlock()
		}
		n.quiesce()
		return "ok"
	case "x":
		n.mu.Lock()
		armed := n.blockArm
		n.mu.Unlock()
		if armed {
			return "no"
		}
		n.quiesce()
		n.ls.Close() // closes the WAL underneath, if any
		if n.guard.isWAL {
			if err := n.openStore(v.c, "w"); err != nil {
				n.dead = true
				return "reopen-failed"
			}
		}
		n.life++
		n.newLogStore()
		return "ok"
	case "t":
		idx := parseU(f[2])
		var l raft.Log
		if err := n.guard.GetLog(idx, &l); err != nil {
			return "nf"
		}
		e := cloneLog(&l)
		applyMut(e, f[3], f[4], f[5])
		n.guard.overrides[idx] = e
		n.twin.overrides[idx] = cloneLog(e)
		v.c.stat("mut_atrest_" + f[3])
		return "ok"
	case "f":
		n.guard.failNext = true
		return "ok"
	case "b":
		n.mu.Lock()
		n.blockArm = true
		n.mu.Unlock()
		return "ok"
	case "u":
		n.unblock()
		n.quiesce()
		return "ok"
	case "g":
		idx := parseU(f[2])
		var l, t raft.Log
		err := n.ls.GetLog(idx, &l)
		terr := n.twin.GetLog(idx, &t)
		if (err == nil) != (terr == nil) || (err == nil && !v.passEqual(&l, &t)) {
			v.c.witness("C18", "passthrough-getlog", "GetLog through the middleware differs from the twin store", v.line)
		}
		if err != nil {
			if !errors.Is(err, raft.ErrLogNotFound) {
				return "er"
			}
			return "nf"
		}
		return showEntry(&l)
	case "i":
		first, e1 := n.ls.FirstIndex()
		last, e2 := n.ls.LastIndex()
		tf, _ := n.twin.FirstIndex()
		tl, _ := n.twin.LastIndex()
		if e1 != nil || e2 != nil || first != tf || last != tl {
			v.c.witness("C18", "passthrough-bounds", fmt.Sprintf("First/LastIndex %d/%d through the middleware, %d/%d directly", first, last, tf, tl), v.line)
		}
		return fmt.Sprintf("%x %x", first, last)
	}
	panic("bad op " + f[0])
}

// passEqual: entry a (through the middleware) equals b (twin) except that a
// leader checkpoint gained metadata in its empty Extensions
func (v *vRun) passEqual(a, b *raft.Log) bool {
	if sameLog(a, b) {
		return true
	}
	is, err := isCheckpoint(b)
	if err != nil || !is || len(b.Extensions) != 0 || len(a.Extensions) != 24 {
		return false
	}
	if _, _, ok := decodeMeta(a.Extensions); !ok {
		return false
	}
	return a.Index == b.Index && a.Term == b.Term && a.Type == b.Type && bytes.Equal(a.Data, b.Data)
}

func (n *vNode) unblock() {
	n.mu.Lock()
	n.blockArm = false
	close(n.release)
	n.release = make(chan struct{})
	n.mu.Unlock()
	// wait until a parked ReportFn has really left (it clears inCB itself)
	for i := 0; n.parked(); i++ {
		if i > 200 {
			time.Sleep(20 * time.Microsecond)
		}
	}
}

func isBootstrap(l *raft.Log) bool {
	return l != nil && l.Index == 1 && l.Type == raft.LogConfiguration
}

// diffClass names how R differs from L ("" = equal, "shift" = only Data/Extensions boundary moved)
func diffClass(L, R []*raft.Log) string {
	class := ""
	for i := range L {
		a, b := L[i], R[i]
		if sameLog(a, b) {
			continue
		}
		c := "multi"
		if a == nil || b == nil {
			c = "missing"
		} else {
			hd := a.Index == b.Index && a.Term == b.Term && a.Type == b.Type
			switch {
			case hd && bytes.Equal(append(append([]byte(nil), a.Data...), a.Extensions...), append(append([]byte(nil), b.Data...), b.Extensions...)):
				c = "shift"
			case hd && bytes.Equal(a.Extensions, b.Extensions):
				c = "data"
			case hd && bytes.Equal(a.Data, b.Data):
				c = "ext"
			case bytes.Equal(a.Data, b.Data) && bytes.Equal(a.Extensions, b.Extensions) && a.Term == b.Term && a.Type == b.Type:
				c = "index"
			case bytes.Equal(a.Data, b.Data) && bytes.Equal(a.Extensions, b.Extensions) && a.Index == b.Index && a.Type == b.Type:
				c = "term"
			case bytes.Equal(a.Data, b.Data) && bytes.Equal(a.Extensions, b.Extensions) && a.Index == b.Index && a.Term == b.Term:
				c = "type"
			}
		}
		if class == "" || class == c {
			class = c
		} else {
			class = "multi"
		}
	}
	return class
}

// oracles over everything that was delivered
func (v *vRun) judge() {
	c := v.c
	for _, n := range v.nodes {
		if n.dead {
			continue
		}
		// ---- C18 accounting ----
		written, dropped, verified := n.mc.get("checkpoints_written"), n.mc.get("dropped_reports"), n.mc.get("ranges_verified")
		if written != n.myCPs || uint64(len(n.reports))+dropped != written || verified != uint64(len(n.reports)) {
			c.witness("C18", "accounting", fmt.Sprintf("checkpoints stored=%d checkpoints_written=%d delivered=%d ranges_verified=%d dropped_reports=%d",
				n.myCPs, written, len(n.reports), verified, dropped), v.line)
		}
		if dropped > 0 {
			c.stat("lines_with_drops")
		}
		// ---- C18 skipped range: per lifetime, delivered reports vs checkpoints stored ----
		for life, trig := range n.triggered {
			pos := 0
			var prev *vReport
			for _, r := range n.reports {
				if r.life != life {
					continue
				}
				skippedSome := false
				found := false
				for pos < len(trig) {
					t := &trig[pos]
					pos++
					if t.end == r.r.Range.End && t.start == r.r.Range.Start {
						found = true
						r.cp = t
						break
					}
					skippedSome = true
				}
				if !found {
					c.witness("C18", "report-without-checkpoint", "a delivered report matches no stored checkpoint", v.line)
					break
				}
				if prev != nil {
					sk := r.r.SkippedRange
					if skippedSome {
						c.stat("report_after_drop")
						if prev.r.Range.End == r.r.Range.Start && sk == nil {
							// the dropped checkpoints covered indexes that a tail truncation removed
							// afterwards; the log was re-appended and this report starts exactly where
							// the last delivered one ended: the range to name is empty, nil names it
							c.stat("report_after_drop_empty_skip")
						} else if sk == nil || sk.Start != prev.r.Range.End || sk.End != r.r.Range.Start {
							c.witness("C18", "skipped-range", fmt.Sprintf("report %v after dropped checkpoints carries SkippedRange %v, want [%d,%d)",
								r.r.Range, sk, prev.r.Range.End, r.r.Range.Start), v.line)
						}
					} else if r.r.Range.Start == prev.r.Range.End && sk != nil {
						c.witness("C18", "skipped-range-spurious", "SkippedRange set although nothing was skipped", v.line)
					}
				}
				prev = r
			}
		}
		// ---- C16 / C17 against ground truth ----
		for _, r := range n.reports {
			c.stat("report_" + r.kind)
			k := truthKey{r.r.Range.Start, r.r.Range.End, r.r.ExpectedSum}
			L, ok := v.truth[k]
			if !ok || v.ambig[k] || r.cp == nil || len(r.cp.wrote) != len(L) || len(r.readNow) != len(L) {
				c.stat("report_no_truth")
				continue
			}
			if r.kind == "ck?" {
				c.witness("C17", "checksum-error-uncounted", "ErrChecksumMismatch without a failure counter", v.line)
			}
			boot := false
			for i := range L {
				if isBootstrap(L[i]) || isBootstrap(r.readNow[i]) || isBootstrap(r.cp.wrote[i]) {
					boot = true
				}
			}
			lacksHead := r.first > r.r.Range.Start
			holds := r.first != 0 && !lacksHead && (r.r.Range.End <= r.r.Range.Start || r.last >= r.r.Range.End-1)
			isCk := r.kind == "cki" || r.kind == "cks"
			wClass, rClass := diffClass(L, r.cp.wrote), diffClass(L, r.readNow)
			if lacksHead {
				c.stat("range_lacking_head")
				// in-flight blame is still right if the node had written the whole
				// range, differently, when the checkpoint was stored
				wroteOther := wClass != "" && wClass != "missing"
				if r.kind != "rng" && !(r.kind == "cki" && wroteOther) {
					sig := "lacking-range-not-range-mismatch"
					if isCk {
						sig = "lacking-range-reported-as-corruption"
					}
					c.witness("C16", sig, fmt.Sprintf("node holds [%d..] but range %v reported %s", r.first, r.r.Range, r.kind), v.line)
				}
				continue
			}
			if !holds {
				c.stat("range_lacking_other")
				if isCk && wClass == "" {
					c.witness("C16", "lacking-range-reported-as-corruption", fmt.Sprintf("node no longer holds range %v, reported %s", r.r.Range, r.kind), v.line)
				}
				continue
			}
			if boot {
				c.stat("range_with_bootstrap_entry")
				continue
			}
			switch {
			case wClass == "" && rClass == "":
				c.stat("truth_equal")
				if isCk {
					c.witness("C16", "false-alarm-"+r.kind, fmt.Sprintf("range %v stored and read back exactly as the leader wrote it, reported %s", r.r.Range, r.kind), v.line)
				} else if r.kind != "none" {
					c.witness("C16", "intact-range-"+r.kind, fmt.Sprintf("intact range %v reported %s", r.r.Range, r.kind), v.line)
				}
			case rClass != "":
				c.stat("truth_differs_" + rClass)
				if !isCk {
					if rClass == "shift" {
						c.witness("C17", "data-ext-boundary-shift", "bytes moved between the end of Data and the start of Extensions are not detected (same hashed stream)", v.line)
					} else {
						c.witness("C17", "undetected-"+rClass, fmt.Sprintf("range %v differs from what the leader checksummed (%s), reported %s", r.r.Range, rClass, r.kind), v.line)
					}
				}
			}
			if r.kind == "cki" && wClass == "" {
				c.witness("C17", "false-inflight-blame", fmt.Sprintf("range %v: in-flight corruption blamed but the node wrote exactly what the leader checksummed", r.r.Range), v.line)
			}
			if r.kind == "cki" {
				c.stat("blame_inflight_" + wClass)
			}
		}
	}
}

var vfySeq int

func execVfy(c *ctx, line string) string {
	if strings.HasPrefix(line, "#race") {
		return execVfyRace(c, line)
	}
	f := strings.Split(line, " ")
	if f[0] != "vfy" || len(f) < 2 {
		return "badinput"
	}
	var groups [][]string
	cur := []string{}
	for _, t := range f[1:] {
		if t == "|" {
			groups = append(groups, cur)
			cur = []string{}
		} else {
			cur = append(cur, t)
		}
	}
	groups = append(groups, cur)
	hd := groups[0]
	k := int(parseU(hd[0]))
	kind := "m"
	if len(hd) > 1 {
		kind = hd[1]
	}
	v := &vRun{c: c, line: line, truth: map[truthKey][]*raft.Log{}, ambig: map[truthKey]bool{}}
	vfySeq++
	base := filepath.Join(c.work, fmt.Sprintf("vfy-%d-%d", os.Getpid(), vfySeq))
	defer func() {
		for _, n := range v.nodes {
			n.unblock()
			if !n.dead {
				n.quiesce()
				n.ls.Close()
			}
		}
		if kind == "w" {
			os.RemoveAll(base)
		}
	}()
	for i := 0; i < k; i++ {
		n := &vNode{id: i, mc: &vCollector{c: map[string]uint64{}}, release: make(chan struct{}), wrote: map[uint64]*raft.Log{}}
		n.guard = &guardStore{overrides: map[uint64]*raft.Log{}}
		n.twin = &guardStore{inner: raft.NewInmemStore(), overrides: map[uint64]*raft.Log{}}
		if kind == "w" {
			n.dir = filepath.Join(base, fmt.Sprintf("n%d", i))
			if err := os.MkdirAll(n.dir, 0o755); err != nil {
				panic(err)
			}
		}
		if err := n.openStore(c, kind); err != nil {
			panic(err)
		}
		n.newLogStore()
		v.nodes = append(v.nodes, n)
	}
	c.stat("store_" + kind)
	var obs []string
	for _, g := range groups[1:] {
		if len(g) < 2 {
			return "badinput"
		}
		c.stat("op_" + g[0])
		obs = append(obs, v.op(g))
	}
	// release every ReportFn, let the verifiers finish, dump
	for _, n := range v.nodes {
		n.unblock()
		if !n.dead && !n.quiesce() {
			obs = append(obs, "stuck")
		}
	}
	for _, n := range v.nodes {
		first, _ := n.ls.FirstIndex()
		last, _ := n.ls.LastIndex()
		obs = append(obs, fmt.Sprintf("N %x %x %x %x %x", first, last, n.mc.get("checkpoints_written"), n.mc.get("dropped_reports"), len(n.reports)))
		for _, r := range n.reports {
			sk := "- -"
			if r.r.SkippedRange != nil {
				sk = fmt.Sprintf("%x %x", r.r.SkippedRange.Start, r.r.SkippedRange.End)
			}
			obs = append(obs, fmt.Sprintf("R %x %x %x %x %x %s %s", r.r.Range.Start, r.r.Range.End, r.r.ExpectedSum, r.r.WrittenSum, r.r.ReadSum, r.kind, sk))
		}
		tf, _ := n.twin.FirstIndex()
		tl, _ := n.twin.LastIndex()
		if tf != first || tl != last {
			c.witness("C18", "passthrough-bounds", fmt.Sprintf("final First/LastIndex %d/%d through the middleware, %d/%d on the twin", first, last, tf, tl), line)
		}
		for i := first; i <= last && first != 0; i++ {
			var l, t raft.Log
			if err := n.ls.GetLog(i, &l); err != nil {
				obs = append(obs, fmt.Sprintf("E %x missing", i))
				continue
			}
			obs = append(obs, "E "+showEntry(&l))
			if err := n.twin.GetLog(i, &t); err != nil || !v.passEqual(&l, &t) {
				c.witness("C18", "passthrough-contents", fmt.Sprintf("entry %d through the middleware differs from the twin store", i), line)
			}
		}
	}
	v.judge()
	return strings.Join(obs, " ")
}
