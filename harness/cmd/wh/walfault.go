package main

// Stream `walfault` (C10), implementation only: the REAL WAL -- production fs.FS +
// metadb.BoltMetaDB in a real directory, small segments so that rotations,
// truncations and Open's recovery all occur -- runs a generated workload in a
// child under
//
//	strace -f -e inject=<syscall>:error=<EIO|ENOSPC|EMFILE>:when=<N>
//
// with ONE injected failure at a random position among the syscalls the WAL
// directory sees (fsync, fdatasync = bbolt's commits, pwrite64, openat,
// fallocate, unlinkat, renameat, ftruncate), then a second child reopens the
// directory without any fault.  Lines:
//
//	#wf <segsize> <fault> <op>...     fault: - | <syscall>:<errno>:<k>
//
// <k> (decimal, 1-based) is the k-th call of <syscall> on the WAL directory or
// a file in it, in the log of a fault-free dry run of the same workload; its
// per-thread ordinal is strace's when=N (see walfBurn in walfchild.go for how
// one count addresses one thread).  The injected run is checked for strace's
// (INJECTED) notes; a run without any is taken again, then given up (counted).
// Oracles (walfchild.go): everything acknowledged is readable and unchanged in
// the running process after every call and after every Open; a failed
// StoreLogs is invisible in the running process and all-or-nothing after an
// Open; a failed DeleteRange / Set is applied in full or not at all; no panic,
// no hang; the clean reopen works, shows an allowed state and accepts appends.

import (
	"context"
	"fmt"
	"math/rand"
	"os"
	"os/exec"
	"path/filepath"
	"strconv"
	"strings"
	"time"
)

func init() { streams["walfault"] = &stream{gen: genWalfault, exec: execWalfault} }

var walfClasses = []string{"fsync", "fdatasync", "pwrite64", "openat", "fallocate", "unlinkat", "renameat", "ftruncate"}

type walfCall struct {
	class string
	ord   int  // per-thread ordinal (strace's when=)
	main  bool // issued by the main thread
	path  string
	op    int // index of the API call in flight on the main thread (-1 = none)
}

type walfRun struct {
	calls    []walfCall // calls on the WAL directory, between the start and end markers
	injected []string   // description of every call strace marked (INJECTED) after the start marker
	stdout   string
	err      string
	hang     bool
	kept     string
	base     string
}

// runWalfOnce: one traced run of the workload child.  The directory is kept
// (base) for the clean reopen; the caller removes it.
func runWalfOnce(c *ctx, seg int, ops []string, inject string) *walfRun {
	fsSeq++
	work, err := filepath.Abs(c.work)
	if err != nil {
		return &walfRun{err: err.Error()}
	}
	if rp, err := filepath.EvalSymlinks(work); err == nil {
		work = rp
	}
	base := filepath.Join(work, fmt.Sprintf("wf-%d-%d", os.Getpid(), fsSeq))
	dir := filepath.Join(base, "wal")
	if err := os.MkdirAll(dir, 0o755); err != nil {
		return &walfRun{err: err.Error()}
	}
	r := &walfRun{base: base}
	logf := filepath.Join(base, "strace.log")
	self, err := os.Executable()
	if err != nil {
		r.err = err.Error()
		return r
	}
	args := []string{"-f", "-y", "-s", "0", "-e", "trace=" + straceSyscalls}
	if inject != "" {
		args = append(args, "-e", "inject="+inject)
	}
	args = append(args, "-o", logf, self, "fschild", "walf", dir, strconv.Itoa(seg))
	args = append(args, ops...)
	cx, cancel := context.WithTimeout(context.Background(), 60*time.Second)
	defer cancel()
	cmd := exec.CommandContext(cx, "strace", args...)
	out, err := cmd.Output()
	r.stdout = string(out)
	if cx.Err() != nil {
		r.hang = true
		exec.Command("pkill", "-9", "-f", dir).Run() // the traced child may outlive strace
	} else if err != nil {
		if _, ok := err.(*exec.ExitError); !ok {
			r.err = "strace: " + err.Error()
			return r
		}
		r.err = "child failed: " + lastLines(string(out), 3)
	}
	f, err := os.Open(logf)
	if err != nil {
		if r.err == "" {
			r.err = err.Error()
		}
		return r
	}
	defer f.Close()
	calls, _ := parseStrace(f)
	mainPid := ""
	if len(calls) > 0 {
		mainPid = calls[0].pid
	}
	started, ended := false, false
	cur := -1
	for i := range calls {
		sc := &calls[i]
		if sc.name == "faccessat" || sc.name == "faccessat2" {
			sm := reStr.FindStringSubmatch(sc.args)
			if sm == nil || !strings.HasPrefix(sm[1], "/verif-mark/") {
				continue
			}
			p := strings.Split(sm[1], "/")
			if len(p) != 5 {
				continue
			}
			switch {
			case p[2] == "start":
				started = true
			case p[2] == "end":
				ended = true
			case p[2] == "wf" && p[4] == "call":
				cur, _ = strconv.Atoi(p[3])
			case p[2] == "wf" && p[4] == "ret":
				cur = -1
			}
			continue
		}
		if !started || ended {
			continue
		}
		class := sc.name
		switch class {
		case "unlink":
			class = "unlinkat"
		case "rename", "renameat2":
			class = "renameat"
		}
		known := false
		for _, k := range walfClasses {
			known = known || k == class
		}
		if !known {
			continue
		}
		// the path: first quoted string (openat, unlinkat, renameat) or the fd annotation
		path := ""
		if fm := reFdArg.FindStringSubmatch(sc.args); fm != nil && class != "openat" && class != "unlinkat" && class != "renameat" {
			path = strings.TrimSuffix(fm[2], " (deleted)")
		} else if sm := reStr.FindStringSubmatch(sc.args); sm != nil {
			path = sm[1]
		}
		inDir := path == dir || strings.HasPrefix(path, dir+"/")
		if sc.injected {
			where := "rotation / background thread"
			if sc.pid == mainPid {
				where = "no API call in flight"
				if cur >= 0 {
					where = fmt.Sprintf("during call %d", cur)
					if cur < len(ops) {
						where += " (" + ops[cur] + ")"
					}
				}
			}
			r.injected = append(r.injected, fmt.Sprintf("%s(%s) %s, %s", sc.name, strings.TrimPrefix(path, dir), strings.TrimSpace(strings.SplitN(sc.ret, " ", 2)[0]), where))
			if !inDir {
				r.injected[len(r.injected)-1] += " [outside the WAL directory]"
			}
		}
		if !inDir {
			continue
		}
		op := -1
		if sc.pid == mainPid {
			op = cur
		}
		r.calls = append(r.calls, walfCall{class: class, ord: sc.ord, main: sc.pid == mainPid, path: path, op: op})
	}
	if !started || (!ended && !r.hang && r.err == "") {
		r.err = "start/end marker missing in the strace log"
	}
	if r.err != "" || r.hang {
		keep := os.Getenv("VERIF_FST_KEEP")
		if keep == "" {
			keep = filepath.Join(work, "artifacts")
		}
		if os.MkdirAll(keep, 0o755) == nil {
			dst := filepath.Join(keep, fmt.Sprintf("strace-wf-%d-%d.log", os.Getpid(), fsSeq))
			if b, err := os.ReadFile(logf); err == nil {
				os.WriteFile(dst, b, 0o644)
				r.kept = dst
			}
		}
	}
	return r
}

func lastLines(s string, n int) string {
	l := strings.Split(strings.TrimSpace(s), "\n")
	if len(l) > n {
		l = l[len(l)-n:]
	}
	return strings.Join(l, " / ")
}

var walfDryCache = map[string]*walfRun{}

func walfDry(c *ctx, seg int, ops []string) *walfRun {
	key := fmt.Sprintf("%d %s", seg, strings.Join(ops, " "))
	if r := walfDryCache[key]; r != nil {
		return r
	}
	r := runWalfOnce(c, seg, ops, "")
	if r.base != "" {
		os.RemoveAll(r.base)
	}
	walfDryCache[key] = r
	return r
}

func walfViolations(out string) [][2]string {
	var v [][2]string
	for _, l := range strings.Split(out, "\n") {
		if strings.HasPrefix(l, "V ") {
			p := strings.SplitN(l, " ", 3)
			if len(p) == 3 {
				v = append(v, [2]string{p[1], p[2]})
			}
		}
	}
	return v
}

func execWalfault(c *ctx, line string) string {
	f := strings.Fields(line)
	if len(f) < 4 || f[0] != "#wf" {
		return "badinput"
	}
	seg, err := strconv.Atoi(f[1])
	if err != nil || seg < 64 {
		return "badinput"
	}
	ops := f[3:]
	class, errno, k := "", "", 0
	if f[2] != "-" {
		p := strings.Split(f[2], ":")
		if len(p) != 3 {
			return "badinput"
		}
		class, errno = p[0], p[1]
		k, err = strconv.Atoi(p[2])
		if err != nil || k < 1 {
			return "badinput"
		}
	}
	inject := ""
	aim := "no fault"
	if class != "" {
		dry := walfDry(c, seg, ops)
		if dry.err != "" || dry.hang {
			c.stat("wf_dry_run_problem")
			if dry.hang {
				c.witness("C10", "hang", "the workload does not finish within 60 s WITHOUT any injected fault", line)
			} else if v := walfViolations(dry.stdout); len(v) > 0 {
				c.witness("C10", "nofault-"+v[0][0], "without any fault: "+v[0][1], line)
			}
			return "dry-run-problem " + dry.err
		}
		if v := walfViolations(dry.stdout); len(v) > 0 {
			// an oracle that fires without a fault is a defect of the oracle or of the WAL: report, do not hide
			c.witness("C10", "nofault-"+v[0][0], "without any fault: "+v[0][1], line)
		}
		seen := 0
		var target *walfCall
		for i := range dry.calls {
			if dry.calls[i].class == class {
				seen++
				if seen == k {
					target = &dry.calls[i]
					break
				}
			}
		}
		if target == nil {
			c.stat("wf_fault_beyond_run")
			return "no-such-call"
		}
		inject = fmt.Sprintf("%s:error=%s:when=%d", class, errno, target.ord)
		aim = fmt.Sprintf("%s #%d of the dry run (%s, when=%d)", class, k, strings.TrimPrefix(target.path, filepath.Dir(target.path)), target.ord)
		if target.main {
			c.stat("wf_aim_main_thread")
		} else {
			c.stat("wf_aim_other_thread")
		}
	}
	var r *walfRun
	for attempt := 0; attempt < 3; attempt++ {
		if r != nil && r.base != "" {
			os.RemoveAll(r.base)
		}
		r = runWalfOnce(c, seg, ops, inject)
		if inject == "" || len(r.injected) > 0 || r.hang || r.err != "" {
			break
		}
		c.stat("wf_miscalibrated_rerun")
	}
	defer func() {
		if r.base != "" {
			os.RemoveAll(r.base)
		}
	}()
	if os.Getenv("WF_DEBUG") != "" { // replay aid: the child's per-call results
		fmt.Fprintf(os.Stderr, "%s\n%s", line, r.stdout)
	}
	fault := "fault: " + aim
	if len(r.injected) > 0 {
		fault = fmt.Sprintf("injected failure(s): %s", strings.Join(r.injected, "; "))
	}
	if r.hang {
		c.witness("C10", "hang", "the workload does not finish within 60 s; "+fault+"; last results: "+lastLines(r.stdout, 3)+"; raw log "+r.kept, line)
		return "hang"
	}
	if r.err != "" {
		c.stat("wf_run_problem")
		if strings.HasPrefix(r.err, "child failed") {
			c.witness("C10", "child-died", "the workload process died: "+r.err+"; "+fault, line)
		}
		return "run-problem"
	}
	if inject != "" && len(r.injected) == 0 {
		c.stat("wf_not_injected")
		return "not-injected"
	}
	c.stat("wf_runs")
	if inject != "" {
		c.stat("wf_injected_" + class)
		if len(r.injected) > 1 {
			c.stat("wf_multi_injection")
		}
		for _, in := range r.injected {
			switch {
			case strings.Contains(in, "background"):
				c.stat("wf_hit_background")
			case strings.Contains(in, "during call"):
				c.stat("wf_hit_api_call")
			}
			if strings.Contains(in, "wal-meta.db") {
				c.stat("wf_hit_metadb")
			}
		}
	}
	nerr := 0
	for _, l := range strings.Split(r.stdout, "\n") {
		p := strings.Fields(l)
		if len(p) >= 4 && p[0] == "R" {
			c.stat("wf_call_" + p[3])
			if p[3] == "err" {
				nerr++
			}
		}
	}
	if inject != "" && nerr == 0 {
		c.stat("wf_fault_absorbed") // no API call reported an error
	}
	seenSig := map[string]bool{}
	// what failed is part of the signature when it was a metadata commit of the real BoltDB
	suffix := ""
	for _, in := range r.injected {
		if strings.Contains(in, "wal-meta.db") && !strings.Contains(in, "wal-meta.db.tmp") {
			suffix = "@metadb-" + strings.SplitN(in, "(", 2)[0]
		}
	}
	report := func(sig, text string) {
		sig += suffix
		if seenSig[sig] {
			return
		}
		seenSig[sig] = true
		c.witness("C10", sig, text+"; "+fault, line)
	}
	for _, v := range walfViolations(r.stdout) {
		report(v[0], v[1])
	}
	// the clean reopen, in a fresh process, not traced
	self, _ := os.Executable()
	cx, cancel := context.WithTimeout(context.Background(), 60*time.Second)
	defer cancel()
	out, err := exec.CommandContext(cx, self, "fschild", "walfv", filepath.Join(r.base, "wal"), strconv.Itoa(seg)).CombinedOutput()
	switch {
	case cx.Err() != nil:
		report("hang", "the clean reopen after the faulty run does not finish within 60 s")
	case err != nil:
		report("reopen-died", "the clean reopen died: "+lastLines(string(out), 4))
	default:
		for _, v := range walfViolations(string(out)) {
			report(v[0], v[1])
		}
		if strings.Contains(string(out), "VERIFIED") {
			c.stat("wf_reopen_verified")
		}
	}
	if len(seenSig) > 0 {
		return "violation"
	}
	return "ok"
}

// genWalfault: seeded workloads; several fault positions per workload (one dry
// run serves them all).
func genWalfault(c *ctx, emit func(string)) {
	r := rand.New(rand.NewSource(c.seed))
	perWorkload := 4
	for n := 0; n < c.n; {
		seg := []int{512, 1024, 2048, 4096}[r.Intn(4)]
		var ops []string
		if r.Intn(3) == 0 {
			ops = append(ops, fmt.Sprintf("b:%d", 1+r.Intn(5000)))
		}
		ops = append(ops, "o")
		for j, m := 0, 6+r.Intn(14); j < m; j++ {
			switch k := r.Intn(20); {
			case k < 9:
				ops = append(ops, fmt.Sprintf("a:%d:%d", 1+r.Intn(4), []int{8, 60, seg / 8, seg / 4, seg / 2}[r.Intn(5)]))
			case k < 11:
				ops = append(ops, fmt.Sprintf("h:%d", 1+r.Intn(5)))
			case k < 14:
				ops = append(ops, fmt.Sprintf("t:%d", 1+r.Intn(4)))
			case k < 16:
				ops = append(ops, fmt.Sprintf("s:%d:%d", r.Intn(3), r.Intn(1000)))
			case k < 17:
				ops = append(ops, fmt.Sprintf("u:%d:%d", r.Intn(3), r.Intn(1000)))
			case k < 18:
				ops = append(ops, "w")
			default:
				ops = append(ops, "c", "o")
			}
			// a call is often retried once by its caller: appends and truncations are
			// relative to the current log, so repeating the token is the retry
			if r.Intn(5) == 0 {
				ops = append(ops, ops[len(ops)-1])
			}
		}
		dry := walfDry(c, seg, ops)
		cnt := map[string]int{}
		metaSync := []int{}
		for _, cl := range dry.calls {
			cnt[cl.class]++
			if cl.class == "fdatasync" {
				metaSync = append(metaSync, cnt[cl.class])
			}
		}
		for j := 0; j < perWorkload && n < c.n; j++ {
			fault := "-"
			if dry.err == "" && len(dry.calls) > 0 && !(j == 0 && r.Intn(10) == 0) {
				var avail []string
				for _, cl := range walfClasses {
					if cnt[cl] > 0 {
						avail = append(avail, cl)
					}
				}
				cl := avail[r.Intn(len(avail))]
				if cnt["fdatasync"] > 0 && r.Intn(3) == 0 {
					cl = "fdatasync" // the metadata commits of the real BoltDB
				}
				k := 1 + r.Intn(cnt[cl])
				errno := []string{"EIO", "ENOSPC"}[r.Intn(2)]
				if cl == "openat" && r.Intn(2) == 0 {
					errno = "EMFILE"
				}
				fault = fmt.Sprintf("%s:%s:%d", cl, errno, k)
			}
			emit(fmt.Sprintf("#wf %d %s %s", seg, fault, strings.Join(ops, " ")))
			n++
		}
	}
}
