package main

import (
	"bytes"
	"encoding/binary"
	"fmt"
	"math/rand"
	"os"
	"os/exec"
	"path/filepath"
	"strings"
	"sync"
	"sync/atomic"
	"time"

	"github.com/hashicorp/go-hclog"
	"github.com/hashicorp/raft"
	wal "github.com/hashicorp/raft-wal"
)

// race06 (C06, implementation only): one writer (appends with rotation, entries
// above the readers' 64 KiB buffer, head truncations, tail truncations followed
// by re-appends of different content) against several readers on the real file
// system, executed by a copy of this harness built with the Go race detector
// (bin/wh-race, built by tools/check.py).  Every entry carries its index and a
// generation in its payload, the rest is a function of both: a reader checks
// that what GetLog returns is the entry it asked for, intact.  Oracles: no data
// race report, no wrong/mixed entry, no error other than ErrNotFound for an
// index outside what a concurrent truncation removed.
//
// The schedule is the Go scheduler's: a seed replays the workload, not the
// interleaving.

func init() { streams["race06"] = &stream{gen: genRace06, exec: execRace06} }

func genRace06(c *ctx, emit func(string)) {
	r := rand.New(rand.NewSource(c.seed))
	for i := 0; i < c.n; i++ {
		emit(fmt.Sprintf("#race06 %d %d", r.Int63(), 80+r.Intn(80)))
	}
}

func raceBinary() string {
	self, err := os.Executable()
	if err != nil {
		return ""
	}
	p := filepath.Join(filepath.Dir(self), "wh-race")
	if _, err := os.Stat(p); err != nil {
		return ""
	}
	return p
}

func execRace06(c *ctx, line string) string {
	if os.Getenv("WH_CHILD") == "1" {
		return execRace06Child(c, line)
	}
	bin := raceBinary()
	if bin == "" {
		c.stat("race06_no_race_binary")
		return "norace"
	}
	cmd := exec.Command(bin, "exec", "race06", "-work", c.work, "-tier", c.tier)
	cmd.Env = append(os.Environ(), "WH_CHILD=1", "GORACE=halt_on_error=0 exitcode=66")
	cmd.Stdin = strings.NewReader(line + "\n")
	var out, errb bytes.Buffer
	cmd.Stdout, cmd.Stderr = &out, &errb
	if err := cmd.Start(); err != nil {
		return "norace"
	}
	done := make(chan error, 1)
	go func() { done <- cmd.Wait() }()
	select {
	case <-done:
	case <-time.After(180 * time.Second):
		cmd.Process.Kill()
		<-done
		c.witness("C06", "race-stress-hang", "the stress run does not finish within 180 s (child killed)", line)
		return "hang"
	}
	obs := ""
	for _, l := range strings.Split(out.String(), "\n") {
		f := strings.Split(l, "\t")
		switch {
		case len(f) == 5 && f[0] == "!W":
			c.witness(f[1], f[2], f[3], f[4])
		case len(f) == 3 && f[0] == "!S" && !strings.HasPrefix(f[1], "witness_"):
			var n int
			fmt.Sscanf(f[2], "%d", &n)
			c.stats[f[1]] += n
		case len(f) == 3 && f[0] == "x0":
			obs = f[2]
		}
	}
	if e := errb.String(); strings.Contains(e, "WARNING: DATA RACE") {
		// first report: the two access stacks, repo frames only
		rep := e[strings.Index(e, "WARNING: DATA RACE"):]
		if i := strings.Index(rep, "=================="); i > 0 {
			rep = rep[:i]
		}
		var frames []string
		for _, l := range strings.Split(rep, "\n") {
			l = strings.TrimSpace(l)
			if strings.HasPrefix(l, "Read at") || strings.HasPrefix(l, "Write at") || strings.HasPrefix(l, "Previous") ||
				(strings.Contains(l, ".go:") && !strings.Contains(l, "/usr/lib/go") && !strings.Contains(l, "/src/runtime/") && !strings.Contains(l, "racestress.go")) {
				frames = append(frames, l)
			}
		}
		if len(frames) > 10 {
			frames = frames[:10]
		}
		c.witness("C06", "data-race", "the race detector reports a data race: "+strings.Join(frames, " | "), line)
		return "race"
	}
	if obs == "" {
		first := errb.String()
		if len(first) > 500 {
			first = first[:500]
		}
		c.witness("C06", "process-dies", "the stress process dies: "+strings.ReplaceAll(strings.TrimSpace(first), "\n", " | "), line)
		return "died"
	}
	return obs
}

// payload of entry idx in generation gen: 16 bytes header + bytes derived from both
func racePayload(idx, gen uint64, n int) []byte {
	if n < 16 {
		n = 16
	}
	b := make([]byte, n)
	binary.LittleEndian.PutUint64(b[0:], idx)
	binary.LittleEndian.PutUint64(b[8:], gen)
	// a 251-byte block derived from (idx, gen), repeated (copy is not instrumented by the
	// race detector, a byte loop over 100 KiB would dominate the run)
	var blk [251]byte
	x := idx*0x9e3779b97f4a7c15 ^ gen*0xc2b2ae3d27d4eb4f
	for i := range blk {
		x ^= x << 13
		x ^= x >> 7
		x ^= x << 17
		blk[i] = byte(x)
	}
	for off := 16; off < n; off += len(blk) {
		copy(b[off:], blk[:])
	}
	return b
}

func raceCheck(idx uint64, lg *raft.Log) string {
	if lg.Index != idx {
		return fmt.Sprintf("GetLog(%d) returns the entry with Index %d", idx, lg.Index)
	}
	if len(lg.Data) < 16 {
		return fmt.Sprintf("GetLog(%d) returns %d bytes of Data", idx, len(lg.Data))
	}
	i, g := binary.LittleEndian.Uint64(lg.Data[0:]), binary.LittleEndian.Uint64(lg.Data[8:])
	if i != idx {
		return fmt.Sprintf("GetLog(%d) returns the Data of entry %d", idx, i)
	}
	if !bytes.Equal(lg.Data, racePayload(i, g, len(lg.Data))) {
		return fmt.Sprintf("GetLog(%d) returns damaged Data (generation %d, %d bytes)", idx, g, len(lg.Data))
	}
	return ""
}

func execRace06Child(c *ctx, line string) (obs string) {
	var seed int64
	var steps int
	fmt.Sscanf(line, "#race06 %d %d", &seed, &steps)
	r := rand.New(rand.NewSource(seed))
	// a memory-backed directory when there is one: the interleavings matter here, not fsync latency
	dir, err := os.MkdirTemp("/dev/shm", "whrace")
	if err != nil {
		dir, err = os.MkdirTemp(c.work, "race")
	}
	if err != nil {
		return "badinput"
	}
	defer os.RemoveAll(dir)
	w, err := wal.Open(dir, wal.WithSegmentSize(256<<10), wal.WithLogger(hclog.NewNullLogger()))
	if err != nil {
		return "badinput"
	}
	// phase 0: a few sealed segments written by an earlier process, so that the readers below
	// go through the sealed-segment reader (a segment sealed in this process is still served
	// by its writer)
	gen := uint64(1)
	next := uint64(1 + r.Intn(100))
	start := next
	for k := 0; k < 60; k++ {
		n := []int{200, 1000, 5000, 20000}[r.Intn(4)]
		if err := w.StoreLogs([]*raft.Log{{Index: next, Term: gen, Data: racePayload(next, gen, n)}}); err != nil {
			return "badinput"
		}
		next++
	}
	w.Close()
	w, err = wal.Open(dir, wal.WithSegmentSize(256<<10), wal.WithLogger(hclog.NewNullLogger()))
	if err != nil {
		return "badinput"
	}
	defer w.Close()
	var first, last uint64 // published bounds (atomics): entries in [first,last] are acknowledged and not being removed
	var epoch uint64       // odd while a DeleteRange is in progress; changes with every truncation
	var stop int32
	var wg sync.WaitGroup
	var once sync.Once
	bad := func(sig, msg string) {
		once.Do(func() { c.witness("C06", sig, msg, line) })
	}
	var reads uint64
	for k := 0; k < 3; k++ {
		wg.Add(1)
		rr := rand.New(rand.NewSource(seed + int64(k) + 1))
		go func() {
			defer wg.Done()
			defer func() {
				if e := recover(); e != nil {
					bad("reader-panic", fmt.Sprintf("GetLog panics: %v", e))
				}
			}()
			var held *raft.Log
			var heldIdx uint64
			for atomic.LoadInt32(&stop) == 0 {
				e0 := atomic.LoadUint64(&epoch)
				f, l := atomic.LoadUint64(&first), atomic.LoadUint64(&last)
				if l == 0 || f > l {
					time.Sleep(100 * time.Microsecond)
					continue
				}
				idx := f + uint64(rr.Intn(int(l-f+1)))
				lg := new(raft.Log)
				err := w.GetLog(idx, lg)
				atomic.AddUint64(&reads, 1)
				f2, l2 := atomic.LoadUint64(&first), atomic.LoadUint64(&last)
				// no truncation overlapped the read
				stable := e0%2 == 0 && atomic.LoadUint64(&epoch) == e0 && idx >= f && idx <= l && idx >= f2 && idx <= l2
				if err != nil {
					if stable {
						bad("stable-entry-unreadable", fmt.Sprintf("GetLog(%d) = %v while the entry stayed in the log (%d..%d)", idx, err, f2, l2))
					}
					continue
				}
				if msg := raceCheck(idx, lg); msg != "" {
					bad("wrong-entry", msg)
				}
				// an entry returned earlier must stay intact while later reads go on
				if held != nil {
					if msg := raceCheck(heldIdx, held); msg != "" {
						bad("returned-entry-overwritten", "an entry returned by an earlier GetLog changed under a later read: "+msg)
					}
				}
				held, heldIdx = lg, idx
			}
		}()
	}
	atomic.StoreUint64(&first, start)
	atomic.StoreUint64(&last, next-1)
	// mostly small entries; one in ten above the readers' 64 KiB buffer (large allocations are
	// what makes a race-detector run slow)
	small, large := []int{16, 40, 200, 1000, 5000}, []int{66000, 70000, 100000}
	size := func() int {
		if r.Intn(10) == 0 {
			return large[r.Intn(len(large))]
		}
		return small[r.Intn(len(small))]
	}
	for s := 0; s < steps; s++ {
		switch x := r.Intn(20); {
		case x < 15:
			var logs []*raft.Log
			for j, m := 0, 1+r.Intn(4); j < m; j++ {
				logs = append(logs, &raft.Log{Index: next, Term: gen, Data: racePayload(next, gen, size())})
				next++
			}
			if err := w.StoreLogs(logs); err != nil {
				bad("append-refused", fmt.Sprintf("StoreLogs refused: %v", err))
				next -= uint64(len(logs))
			} else {
				atomic.StoreUint64(&last, next-1)
			}
		case x < 17:
			f := atomic.LoadUint64(&first)
			if next-f > 4 {
				mx := f + uint64(r.Intn(int(next-f)/2))
				atomic.AddUint64(&epoch, 1)
				atomic.StoreUint64(&first, mx+1)
				if err := w.DeleteRange(f, mx); err != nil {
					bad("truncate-refused", fmt.Sprintf("DeleteRange(%d,%d): %v", f, mx, err))
				}
				atomic.AddUint64(&epoch, 1)
			}
		default:
			f := atomic.LoadUint64(&first)
			if next-f > 4 {
				mn := next - 1 - uint64(r.Intn(int(next-f)/2))
				atomic.AddUint64(&epoch, 1)
				atomic.StoreUint64(&last, mn-1)
				if err := w.DeleteRange(mn, next-1); err != nil {
					bad("truncate-refused", fmt.Sprintf("DeleteRange(%d,%d): %v", mn, next-1, err))
				}
				next = mn
				gen++
				atomic.AddUint64(&epoch, 1)
			}
		}
	}
	atomic.StoreInt32(&stop, 1)
	wg.Wait()
	c.stats["race06_reads"] += int(atomic.LoadUint64(&reads))
	c.stat("race06_runs")
	return "ok"
}
