package main

import (
	"bytes"
	"encoding/binary"
	"fmt"
	"math/rand"
	"os"
	"path/filepath"
	"sort"
	"strings"
	"sync"
	"sync/atomic"
	"time"

	"github.com/hashicorp/go-hclog"
	"github.com/hashicorp/raft"
	wal "github.com/hashicorp/raft-wal"
	"github.com/hashicorp/raft-wal/metadb"
	"github.com/hashicorp/raft-wal/types"
)

// stableconc (C08, implementation only): the StableStore under CONCURRENT use, on the real
// BoltMetaDB ("across any interleaving with log operations ... sequential and concurrent").
//
// The WAL gets a pass-through MetaStore around the production BoltMetaDB.  While a Get / Set of
// the main caller is inside the store -- the underlying call has taken effect, the wrapper has
// not yet returned to the WAL -- the wrapper lets other activity happen, which is exactly what
// a second goroutine could do in that window:
//   - commits of OTHER keys made directly on the BoltMetaDB (large values, so that bbolt frees
//     and reuses pages: a value that still aliases bbolt's memory changes under the caller);
//   - whole calls of a second API client (Set/Get/SetUint64/GetUint64 on the SAME keys,
//     StoreLogs, DeleteRange) run by a helper goroutine; the wrapper waits for the helper to
//     finish (bounded: an implementation is free to serialise stable calls, then the helper
//     finishes after the outer call).
// Every API call is recorded with its invocation and return instants (one logical clock).
// Oracle (independent of the model): per key the history of Set/Get (resp. SetUint64/GetUint64)
// must be LINEARIZABLE as a register whose initial value is empty (0) -- Wing & Gong search,
// histories are small.  So a Get returns the value of the latest Set that completed before it,
// or of a Set that overlaps it; bytes nobody ever Set are a witness, and so is an acknowledged
// Set that a later (non-overlapping) Get does not see.  Also after a clean reopen.  Log
// operations issued in between must leave the registers alone and vice versa (the log is
// compared with what was appended).

func init() { streams["stableconc"] = &stream{gen: genStableConc, exec: execStableConc} }

func genStableConc(c *ctx, emit func(string)) {
	r := rand.New(rand.NewSource(c.seed))
	for i := 0; i < c.n; i++ {
		emit(fmt.Sprintf("#sc %d", r.Int63()))
	}
}

type scEvent struct {
	key      string
	write    bool
	val      string // value written / value read (uint64 registers: 8 bytes LE, "" = 0)
	inv, ret int64
	who      string
}

type scMeta struct {
	inner types.MetaStore
	run   *scRun
}

type scRun struct {
	c       *ctx
	line    string
	clock   int64
	mu      sync.Mutex
	events  []scEvent
	w       *wal.WAL
	plan    func(kind string, key []byte) // armed for the next store call of the main caller
	planPre bool                          // the plan runs before the underlying SetStable takes effect
	inPlan  int32
	helpers sync.WaitGroup
	nextIdx uint64
	logs    map[uint64][]byte
	first   uint64
	logMu   sync.Mutex
	direct  int
}

func (m *scMeta) Load(dir string) (types.PersistentState, error) { return m.inner.Load(dir) }
func (m *scMeta) CommitState(ps types.PersistentState) error     { return m.inner.CommitState(ps) }
func (m *scMeta) Close() error                                   { return m.inner.Close() }
func (m *scMeta) GetStable(key []byte) ([]byte, error) {
	v, err := m.inner.GetStable(key)
	m.run.window("get", key)
	return v, err
}
func (m *scMeta) SetStable(key, value []byte) error {
	// half of the windows open BEFORE the underlying call: the WAL has prepared the call (encoded
	// the value) and a second client runs before it takes effect
	m.run.window("preset", key)
	err := m.inner.SetStable(key, value)
	m.run.window("set", key)
	return err
}

// window: the underlying call has returned, the WAL has not seen the result yet
func (r *scRun) window(kind string, key []byte) {
	r.mu.Lock()
	p := r.plan
	if p != nil && (kind == "preset") != r.planPre {
		r.mu.Unlock()
		return // not the window this plan is for
	}
	r.plan = nil
	r.mu.Unlock()
	if p == nil || !atomic.CompareAndSwapInt32(&r.inPlan, 0, 1) {
		return
	}
	defer atomic.StoreInt32(&r.inPlan, 0)
	p(kind, key)
}

func (r *scRun) tick() int64 { return atomic.AddInt64(&r.clock, 1) }

func (r *scRun) record(e scEvent) {
	r.mu.Lock()
	r.events = append(r.events, e)
	r.mu.Unlock()
}

func u64val(v uint64) string {
	if v == 0 {
		return ""
	}
	var b [8]byte
	binary.LittleEndian.PutUint64(b[:], v)
	return string(b[:])
}

// one API call of client `who`
func (r *scRun) call(who string, op string, key string, val []byte, n uint64) {
	w := r.w
	switch op {
	case "set":
		inv := r.tick()
		err := w.Set([]byte(key), val)
		ret := r.tick()
		if err != nil {
			r.c.witness("C08", "stable-op-error", fmt.Sprintf("Set(%q) by %s fails: %v", key, who, err), r.line)
			return
		}
		r.record(scEvent{key: key, write: true, val: string(val), inv: inv, ret: ret, who: who})
	case "get":
		inv := r.tick()
		v, err := w.Get([]byte(key))
		ret := r.tick()
		if err != nil {
			r.c.witness("C08", "stable-op-error", fmt.Sprintf("Get(%q) by %s fails: %v", key, who, err), r.line)
			return
		}
		r.record(scEvent{key: key, val: string(v), inv: inv, ret: ret, who: who})
	case "setu":
		inv := r.tick()
		err := w.SetUint64([]byte(key), n)
		ret := r.tick()
		if err != nil {
			r.c.witness("C08", "stable-op-error", fmt.Sprintf("SetUint64(%q) by %s fails: %v", key, who, err), r.line)
			return
		}
		r.record(scEvent{key: key, write: true, val: u64val(n), inv: inv, ret: ret, who: who})
	case "getu":
		inv := r.tick()
		v, err := w.GetUint64([]byte(key))
		ret := r.tick()
		if err != nil {
			r.c.witness("C08", "stable-op-error", fmt.Sprintf("GetUint64(%q) by %s fails: %v", key, who, err), r.line)
			return
		}
		r.record(scEvent{key: key, val: u64val(v), inv: inv, ret: ret, who: who})
	case "store":
		r.logMu.Lock()
		var logs []*raft.Log
		for j := uint64(0); j < n; j++ {
			d := append([]byte(fmt.Sprintf("e%d-", r.nextIdx)), val...)
			logs = append(logs, &raft.Log{Index: r.nextIdx, Term: 1, Data: d})
			r.logs[r.nextIdx] = d
			r.nextIdx++
		}
		err := w.StoreLogs(logs)
		r.logMu.Unlock()
		if err != nil {
			r.c.witness("C08", "log-op-error", fmt.Sprintf("StoreLogs by %s fails: %v", who, err), r.line)
		}
	case "delhead":
		r.logMu.Lock()
		if r.nextIdx > r.first+1 {
			mx := r.first + n%(r.nextIdx-r.first-1)
			if err := w.DeleteRange(r.first, mx); err != nil {
				r.c.witness("C08", "log-op-error", fmt.Sprintf("DeleteRange by %s fails: %v", who, err), r.line)
			} else {
				for i := r.first; i <= mx; i++ {
					delete(r.logs, i)
				}
				r.first = mx + 1
			}
		}
		r.logMu.Unlock()
	}
}

func execStableConc(c *ctx, line string) string {
	ch := make(chan string, 1)
	go func() { ch <- execStableConc1(c, line) }()
	select {
	case o := <-ch:
		return o
	case <-time.After(120 * time.Second):
		c.witness("C08", "stable-hang", "stable-store calls of two clients do not return within 120 s", line)
		return "hang"
	}
}

func execStableConc1(c *ctx, line string) (obs string) {
	defer func() {
		if e := recover(); e != nil {
			obs = "panic"
			c.witness("C08", "stable-panic", fmt.Sprintf("panic: %v", e), line)
		}
	}()
	var seed int64
	fmt.Sscanf(line, "#sc %d", &seed)
	rng := rand.New(rand.NewSource(seed))
	base := c.work
	if base == "" {
		base = os.TempDir()
	}
	dir, err := os.MkdirTemp(base, "sc")
	if err != nil {
		return "badinput"
	}
	defer os.RemoveAll(dir)
	run := &scRun{c: c, line: line, logs: map[uint64][]byte{}, nextIdx: 1, first: 1}
	db := &metadb.BoltMetaDB{}
	open := func() bool {
		w, err := wal.Open(dir, wal.WithMetaStore(&scMeta{inner: db, run: run}), wal.WithSegmentSize(4096),
			wal.WithLogger(hclog.NewNullLogger()))
		if err != nil {
			c.witness("C08", "open-fails", "Open fails: "+err.Error(), line)
			return false
		}
		run.w = w
		return true
	}
	if !open() {
		return "openfail"
	}
	defer func() { run.w.Close() }()

	bkeys := []string{"CurrentTerm-b", "LastVoteCand", "k"}
	ukeys := []string{"CurrentTerm", "LastVoteTerm"}
	valCount := 0
	mkval := func() []byte {
		valCount++
		switch rng.Intn(6) {
		case 0:
			return []byte{}
		case 1: // a value used before (memoising implementations)
			return []byte(fmt.Sprintf("server-%d", rng.Intn(3)))
		case 2:
			b := make([]byte, 200+rng.Intn(1500))
			for i := range b {
				b[i] = byte('a' + valCount%26)
			}
			return b
		default:
			return []byte(fmt.Sprintf("v%d-%d", valCount, rng.Intn(1000)))
		}
	}
	// direct commits on the BoltMetaDB: other keys, large values, frees and reuses pages
	directChurn := func(n int) {
		for i := 0; i < n; i++ {
			run.direct++
			k := []byte(fmt.Sprintf("churn-%d", run.direct%7))
			if run.direct%5 == 4 {
				db.SetStable(k, nil)
				continue
			}
			b := bytes.Repeat([]byte{byte('A' + run.direct%26)}, 300+(run.direct*977)%2600)
			db.SetStable(k, b)
		}
	}
	randOp := func(who string, same string) func() {
		switch x := rng.Intn(10); {
		case x < 3:
			k := bkeys[rng.Intn(len(bkeys))]
			if same != "" && !strings.HasPrefix(same, "u:") && rng.Intn(3) > 0 {
				k = same
			}
			v := mkval()
			return func() { run.call(who, "set", k, v, 0) }
		case x < 5:
			k := bkeys[rng.Intn(len(bkeys))]
			if same != "" && !strings.HasPrefix(same, "u:") && rng.Intn(3) > 0 {
				k = same
			}
			return func() { run.call(who, "get", k, nil, 0) }
		case x < 7:
			k := ukeys[rng.Intn(len(ukeys))]
			n := uint64(rng.Intn(4))
			if rng.Intn(3) == 0 {
				n = rng.Uint64()
			}
			return func() { run.call(who, "setu", k, nil, n) }
		case x < 8:
			k := ukeys[rng.Intn(len(ukeys))]
			return func() { run.call(who, "getu", k, nil, 0) }
		case x < 9:
			n := uint64(1 + rng.Intn(4))
			v := mkval()
			return func() { run.call(who, "store", "", v, n) }
		default:
			n := rng.Uint64()
			return func() { run.call(who, "delhead", "", nil, n) }
		}
	}
	// seed the stable bucket so that it is not stored inline in its parent page
	directChurn(4)
	// targeted prelude (half of the lines): a second client's Set of the SAME key completes inside
	// the window of the main caller's Set; then the main caller writes its value again and reads
	// (an implementation that remembers "the value last written" must not be fooled by the overlap)
	if rng.Intn(2) == 0 {
		run.planPre = false
		k := bkeys[rng.Intn(len(bkeys))]
		a, b := []byte(fmt.Sprintf("server-%d", rng.Intn(3))), []byte(fmt.Sprintf("other-%d", rng.Intn(3)))
		alsoGet := rng.Intn(2) == 0
		if rng.Intn(2) == 0 {
			run.plan = func(string, []byte) {
				done := make(chan struct{})
				run.helpers.Add(1)
				go func() {
					defer run.helpers.Done()
					defer close(done)
					run.call("helper", "set", k, b, 0)
					if alsoGet {
						run.call("helper", "get", k, nil, 0)
					}
				}()
				select {
				case <-done:
				case <-time.After(400 * time.Millisecond):
					c.stat("sc_helper_serialised")
				}
			}
			run.call("main", "set", k, a, 0)
		} else {
			uk := ukeys[rng.Intn(len(ukeys))]
			k = uk
			run.plan = func(string, []byte) {
				done := make(chan struct{})
				run.helpers.Add(1)
				go func() {
					defer run.helpers.Done()
					defer close(done)
					run.call("helper", "setu", uk, nil, 9)
				}()
				select {
				case <-done:
				case <-time.After(400 * time.Millisecond):
					c.stat("sc_helper_serialised")
				}
			}
			run.call("main", "setu", uk, nil, 4)
		}
		run.mu.Lock()
		run.plan = nil
		run.mu.Unlock()
		run.helpers.Wait()
		if k == bkeys[0] || k == bkeys[1] || k == bkeys[2] {
			run.call("main", "set", k, a, 0)
			run.call("main", "get", k, nil, 0)
		} else {
			run.call("main", "setu", k, nil, 4)
			run.call("main", "getu", k, nil, 0)
		}
		c.stat("sc_prelude_overlapping_sets")
	}
	steps := 10 + rng.Intn(14)
	for s := 0; s < steps; s++ {
		if rng.Intn(12) == 0 {
			run.helpers.Wait()
			run.w.Close()
			if !open() {
				return "openfail"
			}
			c.stat("sc_reopen")
			continue
		}
		// the main caller's op, with a plan for its window inside the store
		var mainOp func()
		var key string
		k := bkeys[rng.Intn(len(bkeys))]
		switch rng.Intn(4) {
		case 0:
			v := mkval()
			key = k
			mainOp = func() { run.call("main", "set", k, v, 0) }
		case 1:
			key = k
			mainOp = func() { run.call("main", "get", k, nil, 0) }
		case 2:
			uk := ukeys[rng.Intn(len(ukeys))]
			n := uint64(1 + rng.Intn(5))
			key = "u:" + uk
			mainOp = func() { run.call("main", "setu", uk, nil, n) }
		default:
			uk := ukeys[rng.Intn(len(ukeys))]
			key = "u:" + uk
			mainOp = func() { run.call("main", "getu", uk, nil, 0) }
		}
		run.planPre = rng.Intn(2) == 0
		switch rng.Intn(4) {
		case 0: // no interference
		case 1:
			n := 2 + rng.Intn(3)
			run.plan = func(string, []byte) { directChurn(n); c.stat("sc_window_direct") }
		default:
			var ops []func()
			for j, m := 0, 1+rng.Intn(3); j < m; j++ {
				ops = append(ops, randOp("helper", key))
			}
			churn := rng.Intn(2) * (2 + rng.Intn(2))
			run.plan = func(string, []byte) {
				c.stat("sc_window_helper")
				directChurn(churn)
				done := make(chan struct{})
				run.helpers.Add(1)
				go func() {
					defer run.helpers.Done()
					defer close(done)
					defer func() {
						if e := recover(); e != nil {
							c.witness("C08", "stable-panic", fmt.Sprintf("panic in a concurrent stable-store call: %v", e), line)
						}
					}()
					for _, o := range ops {
						o()
					}
				}()
				select {
				case <-done:
				case <-time.After(400 * time.Millisecond):
					c.stat("sc_helper_serialised")
				}
			}
		}
		mainOp()
		run.mu.Lock()
		run.plan = nil
		run.mu.Unlock()
		// sequential reads after the dust has settled: what every key holds now
		if rng.Intn(3) == 0 {
			run.helpers.Wait()
			for _, k := range bkeys {
				run.call("main", "get", k, nil, 0)
			}
			for _, k := range ukeys {
				run.call("main", "getu", k, nil, 0)
			}
		}
	}
	run.helpers.Wait()
	// final: clean reopen, every register read once more, the log intact
	run.w.Close()
	if !open() {
		return "openfail"
	}
	for _, k := range bkeys {
		run.call("main", "get", k, nil, 0)
	}
	for _, k := range ukeys {
		run.call("main", "getu", k, nil, 0)
	}
	if msg := run.checkLog(); msg != "" {
		c.witness("C08", "log-altered-by-stable-ops", msg, line)
	}
	// ---- oracle: per key linearizable as a register ----------------------------------------
	byKey := map[string][]scEvent{}
	for _, e := range run.events {
		byKey[e.key] = append(byKey[e.key], e)
	}
	keys := make([]string, 0, len(byKey))
	for k := range byKey {
		keys = append(keys, k)
	}
	sort.Strings(keys)
	bad := 0
	for _, k := range keys {
		evs := byKey[k]
		c.stat(fmt.Sprintf("sc_ops_per_key_%d", len(evs)/8*8))
		if msg := registerLinearizable(evs); msg != "" {
			bad++
			c.witness("C08", "stable-not-linearizable", fmt.Sprintf("key %q: %s", k, msg), line)
		}
	}
	return fmt.Sprintf("ok events=%d bad=%d", len(run.events), bad)
}

func (r *scRun) checkLog() string {
	r.logMu.Lock()
	defer r.logMu.Unlock()
	w := r.w
	if len(r.logs) == 0 {
		return ""
	}
	f, err1 := w.FirstIndex()
	l, err2 := w.LastIndex()
	if err1 != nil || err2 != nil || f != r.first || l != r.nextIdx-1 {
		return fmt.Sprintf("FirstIndex/LastIndex = %d/%d (%v %v), appended and kept %d..%d", f, l, err1, err2, r.first, r.nextIdx-1)
	}
	for i := r.first; i < r.nextIdx; i++ {
		var lg raft.Log
		if err := w.GetLog(i, &lg); err != nil || !bytes.Equal(lg.Data, r.logs[i]) {
			return fmt.Sprintf("GetLog(%d): err=%v, data differs from what was appended", i, err)
		}
	}
	return ""
}

func short(s string) string {
	if len(s) > 24 {
		return fmt.Sprintf("%q...(%d bytes)", s[:24], len(s))
	}
	return fmt.Sprintf("%q", s)
}

// registerLinearizable: Wing & Gong search over the events of one key; "" if some total order
// respecting real time (ret(a) < inv(b) => a before b) explains every read.
func registerLinearizable(evs []scEvent) string {
	n := len(evs)
	if n > 40 {
		evs = evs[n-40:] // keep the search small; the prefix ended in a state some write produced
		n = 40
		// the initial value is then unknown: accept any first read by treating it as a write
		return registerSearch(evs, true)
	}
	return registerSearch(evs, false)
}

func registerSearch(evs []scEvent, anyInit bool) string {
	n := len(evs)
	vals := []string{""}
	vidx := map[string]int{"": 0}
	for _, e := range evs {
		if _, ok := vidx[e.val]; !ok {
			vidx[e.val] = len(vals)
			vals = append(vals, e.val)
		}
	}
	// a read of a value nobody wrote (and not the initial one) can never be explained
	written := map[string]bool{"": true}
	for _, e := range evs {
		if e.write {
			written[e.val] = true
		}
	}
	if !anyInit {
		for _, e := range evs {
			if !e.write && !written[e.val] {
				return fmt.Sprintf("%s read %s at [%d,%d], a value that was never Set for this key", e.who, short(e.val), e.inv, e.ret)
			}
		}
	}
	type st struct {
		mask uint64
		v    int
	}
	seen := map[st]bool{}
	var dfs func(mask uint64, v int) bool
	dfs = func(mask uint64, v int) bool {
		if mask == (uint64(1)<<uint(n))-1 {
			return true
		}
		k := st{mask, v}
		if seen[k] {
			return false
		}
		seen[k] = true
		// minimal return instant among the pending events
		minRet := int64(1) << 62
		for i := 0; i < n; i++ {
			if mask&(1<<uint(i)) == 0 && evs[i].ret < minRet {
				minRet = evs[i].ret
			}
		}
		for i := 0; i < n; i++ {
			if mask&(1<<uint(i)) != 0 || evs[i].inv > minRet {
				continue
			}
			if evs[i].write {
				if dfs(mask|1<<uint(i), vidx[evs[i].val]) {
					return true
				}
			} else if v == vidx[evs[i].val] || (v < 0) {
				if dfs(mask|1<<uint(i), vidx[evs[i].val]) {
					return true
				}
			}
		}
		return false
	}
	init := 0
	if anyInit {
		init = -1
	}
	if dfs(0, init) {
		return ""
	}
	var sb strings.Builder
	sb.WriteString("no linearization of")
	for _, e := range evs {
		op := "Get->"
		if e.write {
			op = "Set "
		}
		fmt.Fprintf(&sb, " %s:%s%s[%d,%d]", e.who, op, short(e.val), e.inv, e.ret)
	}
	return sb.String()
}

var _ = filepath.Join
