package main

import (
	"fmt"
	"go/ast"
	"go/parser"
	"go/token"
	"os"
	"path/filepath"
	"sort"
	"strconv"
	"strings"

	wal "github.com/hashicorp/raft-wal"
	"github.com/hashicorp/raft-wal/metrics"
	"github.com/hashicorp/raft-wal/verifier"
)

// Gen/Facts.v: the metric names at every emitting call site of the non-test
// source of the wal and verifier packages (go/ast scan of /repo), and the
// published MetricDefinitions tables (as compiled).

func init() { extraTranslators = append(extraTranslators, translateFacts) }

type site struct {
	file    string
	line    int
	counter bool
	name    string
	literal bool
}

func scanSites(dir string) ([]site, error) {
	fset := token.NewFileSet()
	pkgs, err := parser.ParseDir(fset, dir, func(fi os.FileInfo) bool {
		return !strings.HasSuffix(fi.Name(), "_test.go")
	}, 0)
	if err != nil {
		return nil, err
	}
	var out []site
	for _, p := range pkgs {
		var files []string
		for f := range p.Files {
			files = append(files, f)
		}
		sort.Strings(files)
		for _, fn := range files {
			ast.Inspect(p.Files[fn], func(n ast.Node) bool {
				call, ok := n.(*ast.CallExpr)
				if !ok {
					return true
				}
				sel, ok := call.Fun.(*ast.SelectorExpr)
				if !ok || (sel.Sel.Name != "IncrementCounter" && sel.Sel.Name != "SetGauge") || len(call.Args) != 2 {
					return true
				}
				s := site{file: filepath.Base(fn), line: fset.Position(call.Pos()).Line, counter: sel.Sel.Name == "IncrementCounter"}
				if lit, ok := call.Args[0].(*ast.BasicLit); ok && lit.Kind == token.STRING {
					if v, err := strconv.Unquote(lit.Value); err == nil {
						s.name, s.literal = v, true
					}
				}
				out = append(out, s)
				return true
			})
		}
	}
	return out, nil
}

func coqNames(ds []metrics.Descriptor) string {
	var parts []string
	for _, d := range ds {
		parts = append(parts, fmt.Sprintf("%s (* %s *)", coqStr(d.Name), d.Name))
	}
	return "[" + strings.Join(parts, ";\n   ") + "]"
}

func coqSites(ss []site) string {
	var parts []string
	for _, s := range ss {
		if s.literal {
			parts = append(parts, fmt.Sprintf("Lit %v %s (* %s:%d %s *)", s.counter, coqStr(s.name), s.file, s.line, s.name))
		} else {
			parts = append(parts, fmt.Sprintf("NonLit (* %s:%d *)", s.file, s.line))
		}
	}
	return "[" + strings.Join(parts, ";\n   ") + "]"
}

func translateFacts() (string, string) {
	var sb strings.Builder
	p := func(f string, a ...interface{}) { fmt.Fprintf(&sb, f+"\n", a...) }
	p("(* GENERATED from /repo by `wh translate` on every check run -- do not edit. *)")
	p("From Coq Require Import NArith List Bool. Import ListNotations. Open Scope N_scope.")
	p("(* an emitting call site: Lit is_counter name | NonLit (name is not a string literal) *)")
	p("Inductive site := Lit (is_counter : bool) (name : list N) | NonLit.")
	repo := os.Getenv("WH_REPO")
	if repo == "" {
		repo = "/repo"
	}
	walSites, err1 := scanSites(repo)
	vfySites, err2 := scanSites(filepath.Join(repo, "verifier"))
	if err1 != nil || err2 != nil {
		p("(* scan failed: %v %v *)", err1, err2)
		p("Definition wal_sites : list site := [NonLit].")
		p("Definition vfy_sites : list site := [NonLit].")
	} else {
		p("Definition wal_sites : list site :=\n  %s.", coqSites(walSites))
		p("Definition vfy_sites : list site :=\n  %s.", coqSites(vfySites))
	}
	p("Definition wal_counters : list (list N) :=\n  %s.", coqNames(wal.MetricDefinitions.Counters))
	p("Definition wal_gauges : list (list N) :=\n  %s.", coqNames(wal.MetricDefinitions.Gauges))
	p("Definition vfy_counters : list (list N) :=\n  %s.", coqNames(verifier.MetricDefinitions.Counters))
	p("Definition vfy_gauges : list (list N) :=\n  %s.", coqNames(verifier.MetricDefinitions.Gauges))
	return "Facts.v", sb.String()
}
