package main

// golden: directories written once by `wh mkgolden` (real wal.Open on the real
// file system and BoltMetaDB) are, on every check, copied to the scratch
// directory, opened with the current code and read back completely; every
// segment file is also decoded by the README-only parser of the model
// (`rdm` lines).  expected.txt, the current code and the README parser must
// agree (C09).

import (
	"bytes"
	"fmt"
	"io"
	"math/rand"
	"os"
	"path/filepath"
	"sort"
	"strings"
	"time"

	"github.com/hashicorp/go-hclog"
	"github.com/hashicorp/raft"
	wal "github.com/hashicorp/raft-wal"
	"github.com/hashicorp/raft-wal/fs"
	"github.com/hashicorp/raft-wal/metadb"
	"github.com/hashicorp/raft-wal/segment"
	"github.com/hashicorp/raft-wal/types"
)

func init() {
	streams["golden"] = &stream{gen: genGolden, exec: execGolden}
}

func goldenRoot() string {
	if d := os.Getenv("WH_GOLDEN"); d != "" {
		return d
	}
	exe, err := os.Executable()
	if err != nil {
		return "golden"
	}
	return filepath.Join(filepath.Dir(exe), "..", "..", "golden")
}

func quietLog() hclog.Logger { return hclog.New(&hclog.LoggerOptions{Output: io.Discard}) }

// ---- generator of the fixtures (run once; the result is committed) ----------

func goldenLog(r *rand.Rand, idx uint64, n int) *raft.Log {
	d := make([]byte, n)
	r.Read(d)
	l := &raft.Log{Index: idx, Term: 1 + idx/7, Type: raft.LogType(idx % 3), Data: d,
		AppendedAt: time.Unix(1700000000+int64(idx), int64(idx%5)*1000).UTC()}
	if idx%4 == 0 {
		l.Extensions = []byte{byte(idx), 0xee}
	}
	return l
}

type goldenSpec struct {
	name    string
	segSize int
	build   func(w *wal.WAL, r *rand.Rand) error
}

func storeRange(w *wal.WAL, r *rand.Rand, from, to uint64, batch int, size func(i uint64) int) error {
	for i := from; i <= to; {
		var ls []*raft.Log
		for k := 0; k < batch && i <= to; k++ {
			ls = append(ls, goldenLog(r, i, size(i)))
			i++
		}
		if err := w.StoreLogs(ls); err != nil {
			return err
		}
	}
	return nil
}

var goldenSpecs = []goldenSpec{
	{"single-tail", 4096, func(w *wal.WAL, r *rand.Rand) error {
		return storeRange(w, r, 1, 12, 3, func(i uint64) int { return int(i*7) % 60 })
	}},
	{"sealed-and-tail", 512, func(w *wal.WAL, r *rand.Rand) error {
		return storeRange(w, r, 1, 40, 4, func(i uint64) int { return 20 + int(i*13)%50 })
	}},
	{"head-truncated", 512, func(w *wal.WAL, r *rand.Rand) error {
		if err := storeRange(w, r, 1, 36, 3, func(i uint64) int { return 25 + int(i*11)%40 }); err != nil {
			return err
		}
		return w.DeleteRange(1, 17) // drops whole segments and part of one
	}},
	{"tail-truncated-reappend", 512, func(w *wal.WAL, r *rand.Rand) error {
		if err := storeRange(w, r, 1, 30, 5, func(i uint64) int { return 30 + int(i*5)%40 }); err != nil {
			return err
		}
		if err := w.DeleteRange(19, 30); err != nil {
			return err
		}
		return storeRange(w, r, 19, 33, 2, func(i uint64) int { return 10 + int(i*3)%70 })
	}},
	{"custom-start", 1024, func(w *wal.WAL, r *rand.Rand) error {
		return storeRange(w, r, 1000, 1030, 6, func(i uint64) int { return int(i) % 90 })
	}},
}

func readAll(w *wal.WAL) (string, error) {
	first, err := w.FirstIndex()
	if err != nil {
		return "", err
	}
	last, err := w.LastIndex()
	if err != nil {
		return "", err
	}
	var sb strings.Builder
	fmt.Fprintf(&sb, "first %x\nlast %x\n", first, last)
	if first > 0 {
		for i := first; i <= last; i++ {
			var l raft.Log
			if err := w.GetLog(i, &l); err != nil {
				return "", fmt.Errorf("GetLog(%d): %w", i, err)
			}
			sb.WriteString(logFields(&l, true))
			sb.WriteByte('\n')
		}
	}
	return sb.String(), nil
}

func mkGolden(root string) error {
	for _, g := range goldenSpecs {
		dir := filepath.Join(root, g.name)
		if err := os.RemoveAll(dir); err != nil {
			return err
		}
		if err := os.MkdirAll(dir, 0o755); err != nil {
			return err
		}
		w, err := wal.Open(dir, wal.WithSegmentSize(g.segSize), wal.WithLogger(quietLog()))
		if err != nil {
			return err
		}
		if err := g.build(w, rand.New(rand.NewSource(int64(len(g.name))))); err != nil {
			return err
		}
		if err := w.Close(); err != nil {
			return err
		}
		// re-open to record what the writing version itself reads back
		w, err = wal.Open(dir, wal.WithSegmentSize(g.segSize), wal.WithLogger(quietLog()))
		if err != nil {
			return err
		}
		exp, err := readAll(w)
		if err != nil {
			return err
		}
		if err := w.Close(); err != nil {
			return err
		}
		if err := os.WriteFile(filepath.Join(root, g.name+".expected.txt"), []byte(exp), 0o644); err != nil {
			return err
		}
		fmt.Printf("%s: %d lines\n", g.name, strings.Count(exp, "\n"))
	}
	return nil
}

// ---- the stream -------------------------------------------------------------

func copyDir(src, dst string) error {
	if err := os.MkdirAll(dst, 0o755); err != nil {
		return err
	}
	ents, err := os.ReadDir(src)
	if err != nil {
		return err
	}
	for _, e := range ents {
		if e.IsDir() {
			continue
		}
		b, err := os.ReadFile(filepath.Join(src, e.Name()))
		if err != nil {
			return err
		}
		if err := os.WriteFile(filepath.Join(dst, e.Name()), b, 0o644); err != nil {
			return err
		}
	}
	return nil
}

func goldenNames() []string {
	ents, err := os.ReadDir(goldenRoot())
	if err != nil {
		return nil
	}
	var names []string
	for _, e := range ents {
		if e.IsDir() {
			names = append(names, e.Name())
		}
	}
	sort.Strings(names)
	return names
}

func loadMeta(dir string) (types.PersistentState, error) {
	db := &metadb.BoltMetaDB{}
	st, err := db.Load(dir)
	if err != nil {
		return st, err
	}
	return st, db.Close()
}

func genGolden(c *ctx, emit func(string)) {
	names := goldenNames()
	if len(names) == 0 {
		emit("#golden-missing")
		return
	}
	for _, name := range names {
		emit("#golden " + name)
		// segment lines: metadata is read from a scratch copy (bolt opens read-write)
		tmp := filepath.Join(c.work, "golden-meta-"+name)
		if err := copyDir(filepath.Join(goldenRoot(), name), tmp); err != nil {
			emit("#golden-unreadable " + name)
			continue
		}
		st, err := loadMeta(tmp)
		if err != nil {
			emit("#golden-unreadable " + name)
			continue
		}
		for _, si := range st.Segments {
			b, err := os.ReadFile(filepath.Join(tmp, segment.FileName(si)))
			if err != nil {
				emit("#golden-unreadable " + name)
				continue
			}
			sealed := 0
			if !si.SealTime.IsZero() {
				sealed = 1
			}
			emit(fmt.Sprintf("rdm %x %x %x %x %x %s", si.BaseIndex, si.ID, si.Codec, sealed, si.IndexStart, hx(stripZeros(b))))
			c.stat(fmt.Sprintf("segments_sealed_%d", sealed))
		}
		os.RemoveAll(tmp)
	}
}

func execGolden(c *ctx, line string) string {
	f := strings.Split(line, " ")
	switch f[0] {
	case "#golden":
		return execGoldenDir(c, f[1], line)
	case "rdm":
		return execRdm(c, f, line)
	}
	c.witness("C09", "golden-missing", "golden fixtures missing or unreadable: "+line, line)
	return "missing"
}

// execGoldenDir: copy, open with the current code, read everything back and
// compare with expected.txt; also decode every segment with DumpSegment and
// compare the entries in the live range with expected.txt.
func execGoldenDir(c *ctx, name, line string) string {
	fail := func(sig, what string) string {
		c.witness("C09", sig, fmt.Sprintf("golden fixture %s: %s", name, what), line)
		return "fail:" + sig
	}
	exp, err := os.ReadFile(filepath.Join(goldenRoot(), name+".expected.txt"))
	if err != nil {
		return fail("golden-missing", err.Error())
	}
	dst := filepath.Join(c.work, fmt.Sprintf("golden-%s-%d", name, c.nCase))
	defer os.RemoveAll(dst)
	if err := copyDir(filepath.Join(goldenRoot(), name), dst); err != nil {
		return fail("golden-missing", err.Error())
	}
	var got string
	done := make(chan error, 1)
	go func() {
		w, err := wal.Open(dst, wal.WithLogger(quietLog()))
		if err != nil {
			done <- err
			return
		}
		got, err = readAll(w)
		if cerr := w.Close(); err == nil {
			err = cerr
		}
		done <- err
	}()
	select {
	case err := <-done:
		if err != nil {
			return fail("golden-open", "current code cannot open/read: "+err.Error())
		}
	case <-time.After(20 * time.Second):
		return fail("golden-open", "current code hangs opening the fixture")
	}
	if got != string(exp) {
		return fail("golden-content", "contents read by the current code differ from expected.txt")
	}
	// expected entries by index
	want := map[uint64]string{}
	for _, l := range strings.Split(string(exp), "\n") {
		if l == "" || strings.HasPrefix(l, "first ") || strings.HasPrefix(l, "last ") {
			continue
		}
		want[parseU(l[:strings.Index(l, " ")])] = l
	}
	st, err := loadMeta(dst)
	if err != nil {
		return fail("golden-open", err.Error())
	}
	filer := segment.NewFiler(dst, fs.New())
	codec := &wal.BinaryCodec{}
	seen := 0
	for i, si := range st.Segments {
		if got := segment.FileName(si); !strings.HasPrefix(got, fmt.Sprintf("%020d-%016x", si.BaseIndex, si.ID)) {
			return fail("golden-name", "file name "+got)
		}
		if (i < len(st.Segments)-1) != !si.SealTime.IsZero() {
			return fail("golden-meta", "sealed flag / tail position disagree in metadata")
		}
		hi := si.MaxIndex
		var bad string
		err := filer.DumpSegment(si.BaseIndex, si.ID, 0, 0, func(hdr types.SegmentInfo, e types.LogEntry) (bool, error) {
			if hdr.BaseIndex != si.BaseIndex || hdr.ID != si.ID || hdr.Codec != si.Codec {
				bad = "segment header disagrees with metadata"
				return false, nil
			}
			if e.Index < si.MinIndex || (hi > 0 && e.Index > hi) {
				return true, nil // logically truncated
			}
			var l raft.Log
			if err := codec.Decode(e.Data, &l); err != nil {
				bad = "payload does not decode: " + err.Error()
				return false, nil
			}
			if logFields(&l, true) != want[e.Index] {
				bad = fmt.Sprintf("entry %d in segment file differs from expected.txt", e.Index)
				return false, nil
			}
			seen++
			return true, nil
		})
		if err != nil {
			return fail("golden-dump", err.Error())
		}
		if bad != "" {
			return fail("golden-segment", bad)
		}
	}
	if seen != len(want) {
		return fail("golden-segment", fmt.Sprintf("segment files hold %d live entries, expected.txt %d", seen, len(want)))
	}
	c.stat("fixtures")
	return fmt.Sprintf("ok %x", len(want))
}

// execRdm: the implementation's view of one segment file given as bytes:
// DumpSegment (and, for sealed segments, Open + GetLog through the index).
func execRdm(c *ctx, f []string, line string) (obs string) {
	defer func() {
		if e := recover(); e != nil {
			obs = "panic"
			c.witness("C11", "segment-panic", fmt.Sprintf("segment code panics: %v", e), line)
		}
	}()
	if len(f) != 7 {
		return "badinput"
	}
	base, id, codec, sealed, istart := parseU(f[1]), parseU(f[2]), parseU(f[3]), parseU(f[4]), parseU(f[5])
	data := parseHex(f[6])
	if len(bytes.Trim(data, "\x00")) == 0 {
		return "empty"
	}
	data = append(data, make([]byte, 16+(8-len(data)%8)%8)...)
	vfs := newMemFS()
	info := types.SegmentInfo{ID: id, BaseIndex: base, MinIndex: base, Codec: codec, IndexStart: istart}
	vfs.files[segment.FileName(info)] = &memFile{data: data}
	filer := segment.NewFiler("d", vfs)
	var ps []string
	var raw [][]byte
	bad := ""
	err := filer.DumpSegment(base, id, 0, 0, func(hdr types.SegmentInfo, e types.LogEntry) (bool, error) {
		if hdr.BaseIndex != base || hdr.ID != id || hdr.Codec != codec {
			bad = "bad:hdr"
			return false, nil
		}
		if e.Index != base+uint64(len(ps)) {
			bad = "bad:index-order"
			return false, nil
		}
		ps = append(ps, hx(e.Data))
		raw = append(raw, append([]byte(nil), e.Data...))
		return true, nil
	})
	if err != nil {
		return "bad:parse"
	}
	if bad != "" {
		return bad
	}
	if sealed != 0 {
		if len(ps) == 0 {
			return "bad:seal"
		}
		info.MaxIndex = base + uint64(len(ps)) - 1
		r, err := filer.Open(info)
		if err != nil {
			return "bad:hdr"
		}
		for i := range ps {
			pb, err := r.GetLog(base + uint64(i))
			if err != nil || !bytes.Equal(pb.Bs, raw[i]) {
				c.witness("C09", "index-frame", fmt.Sprintf("sealed reader disagrees with the frames at index %d", base+uint64(i)), line)
				return "bad:index"
			}
			pb.Close()
		}
	}
	return strings.Join(append([]string{"ok", fmt.Sprintf("%x", len(ps))}, ps...), " ")
}
