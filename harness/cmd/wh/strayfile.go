package main

import (
	"fmt"
	"math"
	"math/rand"
	"strings"
	"time"

	"github.com/hashicorp/go-hclog"
	"github.com/hashicorp/raft"
	wal "github.com/hashicorp/raft-wal"
	"github.com/hashicorp/raft-wal/segment"
	"github.com/hashicorp/raft-wal/types"
)

// strayfile (C13, implementation only): after Open the directory holds exactly the metadata
// database and the files of live segments -- also when somebody else's file sits in it.
// A closed WAL directory gets (a) a left-over segment file: a well-formed segment file name that
// the metadata does not list (what a crash between a truncation's metadata commit and its
// deletions leaves), and (b) in half of the cases a FOREIGN file whose name ends in .wal but is
// no segment file name (a backup copy, an editor file).  Open may refuse such a directory; if it
// succeeds, every file with a segment file name must be a listed segment: the left-over is gone.

func init() { streams["strayfile"] = &stream{gen: genStrayFile, exec: execStrayFile} }

func genStrayFile(c *ctx, emit func(string)) {
	r := rand.New(rand.NewSource(c.seed))
	for i := 0; i < c.n; i++ {
		emit(fmt.Sprintf("#stray %d", r.Int63()))
	}
}

func execStrayFile(c *ctx, line string) string {
	ch := make(chan string, 1)
	go func() {
		defer func() {
			if e := recover(); e != nil {
				c.witness("C13", "stray-panic", fmt.Sprintf("panic: %v", e), line)
				ch <- "panic"
			}
		}()
		ch <- execStrayFile1(c, line)
	}()
	select {
	case o := <-ch:
		return o
	case <-time.After(60 * time.Second):
		c.witness("C13", "stray-hang", "Open does not return", line)
		return "hang"
	}
}

func execStrayFile1(c *ctx, line string) string {
	var seed int64
	fmt.Sscanf(line, "#stray %d", &seed)
	r := rand.New(rand.NewSource(seed))
	cfs := newCrashFS()
	seg := []int{256, 512, 1024}[r.Intn(3)]
	open := func() (*wal.WAL, error) {
		return wal.Open("d", wal.WithSegmentFiler(segment.NewFiler("d", cfs)), wal.WithMetaStore(&cmeta{fs: cfs}),
			wal.WithSegmentSize(seg), wal.WithLogger(hclog.NewNullLogger()))
	}
	w, err := open()
	if err != nil {
		return "badinput"
	}
	next := uint64(1)
	for k, steps := 0, 3+r.Intn(8); k < steps; k++ {
		d := make([]byte, []int{8, 30, 90, 200}[r.Intn(4)])
		r.Read(d)
		if w.StoreLogs([]*raft.Log{{Index: next, Term: 1, Data: d}}) != nil {
			return "badinput"
		}
		next++
		w.DeleteRange(math.MaxUint64, math.MaxUint64)
	}
	w.Close()
	cfs.mu.Lock()
	var some *cfile
	for _, f := range cfs.files {
		some = f
		break
	}
	if some == nil || cfs.meta == nil {
		cfs.mu.Unlock()
		return "badinput"
	}
	// (a) a left-over with a fresh identity: base above everything, id far above next id
	left := segment.FileName(types.SegmentInfo{BaseIndex: 5000 + uint64(r.Intn(100)), ID: 900 + uint64(r.Intn(50))})
	cp := *some
	cp.data = append([]byte(nil), some.data...)
	cp.synced = append([]byte(nil), some.data...)
	cp.pending = nil
	cp.dirDurable = true
	cfs.files[left] = &cp
	// (b) a foreign file
	foreign := ""
	if r.Intn(2) == 0 {
		foreign = []string{"backup-copy.wal", "00000000000000000001-0000000000000000.wal.wal", "notes.wal", ".#lock.wal"}[r.Intn(4)]
		fc := cfile{data: []byte("not a segment"), synced: []byte("not a segment"), dirDurable: true}
		cfs.files[foreign] = &fc
	}
	cfs.mu.Unlock()
	w, err = open()
	if err != nil {
		if foreign == "" {
			c.witness("C13", "open-fails-with-leftover", "Open fails on a directory that only holds an unlisted left-over segment file: "+err.Error(), line)
			return "fail"
		}
		c.stat("stray_open_refused")
		return "refused"
	}
	defer w.Close()
	c.stat("stray_open_ok")
	want := map[string]bool{}
	cfs.mu.Lock()
	for _, si := range cfs.meta.Segments {
		want[segment.FileName(si)] = true
	}
	cfs.mu.Unlock()
	for _, n := range cfs.listNames() {
		if n == foreign || !strings.HasSuffix(n, ".wal") {
			continue
		}
		if !want[n] {
			c.witness("C13", "unlisted-file-after-open", fmt.Sprintf("Open succeeded (foreign file %q in the directory) but the unlisted segment file %s is still there", foreign, n), line)
			return "fail"
		}
	}
	return "ok"
}
