package main

import (
	"bytes"
	"fmt"
	"math"
	"math/rand"
	"time"

	"github.com/hashicorp/go-hclog"
	"github.com/hashicorp/raft"
	wal "github.com/hashicorp/raft-wal"
	"github.com/hashicorp/raft-wal/segment"
)

// readfault (C10, C12, C06; implementation only): transient READ errors and reads that overlap.
//
// C10 speaks of "any file operation" that fails; the faults stream fails writes, fsyncs,
// creations, deletions, listings and metadata commits -- the actions of the model.  Reads are
// not actions of the model (they change nothing), so they are exercised here, on the
// implementation alone: one ReadAt of a segment file returns EIO, once.
//   phase G: the k-th ReadAt of a GetLog fails.  GetLog must return an error or the right
//            entry; afterwards every entry must read back right -- also while two reads are in
//            flight at once.  The overlap is forced without goroutines: the codec of this stream
//            issues a nested GetLog from inside Decode (the outer read holds its pooled buffer
//            at that moment) and then checks that the bytes it was given did not change.  A
//            pooled buffer handed out twice (e.g. returned to the pool twice on an error path)
//            shows as the outer bytes changing / the outer result being another entry.
//   phase O: the k-th ReadAt of an Open (tail recovery, header checks) fails.  Open must fail,
//            or succeed with the complete log; in both cases the next Open without a fault must
//            succeed with the complete log (recovery must not have "repaired" the file on the
//            strength of a read that failed), and so must a clean reopen after that.
// Witnesses: C10 acked-entry-lost-after-read-error, open-fails-after-read-error,
// read-error-wrong-data; C12 and C06 pooled-buffer-shared (both names: the clause "stays
// unchanged when later reads reuse internal buffers" / "always returned intact").

func init() { streams["readfault"] = &stream{gen: genReadFault, exec: execReadFault} }

func genReadFault(c *ctx, emit func(string)) {
	r := rand.New(rand.NewSource(c.seed))
	for i := 0; i < c.n; i++ {
		emit(fmt.Sprintf("#rf %d", r.Int63()))
	}
}

// nestCodec: BinaryCodec under a custom ID; Decode can run a nested read
type nestCodec struct {
	wal.BinaryCodec
	nest  func()
	depth int
	moved bool
}

func (c *nestCodec) ID() uint64 { return 1<<16 + 77 }
func (c *nestCodec) Decode(bs []byte, l *raft.Log) error {
	if c.nest != nil && c.depth == 0 {
		c.depth++
		before := append([]byte(nil), bs...)
		c.nest()
		if !bytes.Equal(before, bs) {
			c.moved = true
		}
		c.depth--
	}
	return c.BinaryCodec.Decode(bs, l)
}

func execReadFault(c *ctx, line string) string {
	ch := make(chan string, 1)
	go func() { ch <- execReadFault1(c, line) }()
	select {
	case o := <-ch:
		return o
	case <-time.After(120 * time.Second):
		c.witness("C10", "read-error-hang", "calls do not return within 120 s after a transient read error", line)
		return "hang"
	}
}

func execReadFault1(c *ctx, line string) (obs string) {
	stage := "setup"
	defer func() {
		if e := recover(); e != nil {
			obs = "panic"
			c.witness("C10", "read-error-panic", fmt.Sprintf("panic in %s: %v", stage, e), line)
		}
	}()
	var seed int64
	fmt.Sscanf(line, "#rf %d", &seed)
	r := rand.New(rand.NewSource(seed))
	cfs := newCrashFS()
	seg := []int{512, 1024, 4096, 200000}[r.Intn(4)]
	codec := &nestCodec{}
	open := func() (*wal.WAL, error) {
		return wal.Open("d", wal.WithSegmentFiler(segment.NewFiler("d", cfs)), wal.WithMetaStore(&cmeta{fs: cfs}),
			wal.WithSegmentSize(seg), wal.WithLogger(hclog.NewNullLogger()), wal.WithCodec(codec))
	}
	w, err := open()
	if err != nil {
		return "badinput"
	}
	ref := map[uint64][]byte{}
	first, next := uint64(1+r.Intn(30)), uint64(0)
	next = first
	var bigs []uint64
	for k, steps := 0, 4+r.Intn(9); k < steps; k++ {
		switch x := r.Intn(12); {
		case x < 9:
			var logs []*raft.Log
			for j, m := 0, 1+r.Intn(4); j < m; j++ {
				sz := []int{0, 1, 8, 30, 90, 200, 700}[r.Intn(7)]
				if r.Intn(6) == 0 {
					sz = 65536 - 40 + r.Intn(6000) // around and above the 64 KiB read buffer
				}
				d := make([]byte, sz)
				r.Read(d)
				if sz > 60000 {
					bigs = append(bigs, next)
				}
				logs = append(logs, &raft.Log{Index: next, Term: 3, Data: d})
				ref[next] = d
				next++
			}
			if err := w.StoreLogs(logs); err != nil {
				return "badinput"
			}
			w.DeleteRange(math.MaxUint64, math.MaxUint64) // waits for the background rotation
		case x < 10 && next > first+2:
			mx := first + uint64(r.Intn(int(next-first-1)))
			if w.DeleteRange(first, mx) == nil {
				for i := first; i <= mx; i++ {
					delete(ref, i)
				}
				first = mx + 1
			}
		case x < 11 && next > first+2:
			mn := first + 1 + uint64(r.Intn(int(next-first-1)))
			if w.DeleteRange(mn, next-1) == nil {
				for i := mn; i < next; i++ {
					delete(ref, i)
				}
				next = mn
			}
		}
	}
	if next == first {
		w.Close()
		return "empty"
	}
	pick := func() uint64 {
		if len(bigs) > 0 && r.Intn(2) == 0 {
			if b := bigs[r.Intn(len(bigs))]; b >= first && b < next {
				return b
			}
		}
		return first + uint64(r.Intn(int(next-first)))
	}
	audit := func(w *wal.WAL, what string) bool {
		f, e1 := w.FirstIndex()
		l, e2 := w.LastIndex()
		if e1 != nil || e2 != nil || f != first || l != next-1 {
			c.witness("C10", "acked-entry-lost-after-read-error", fmt.Sprintf("%s: FirstIndex/LastIndex = %d/%d (%v, %v), acknowledged and kept: %d..%d", what, f, l, e1, e2, first, next-1), line)
			return false
		}
		for i := first; i < next; i++ {
			var lg raft.Log
			if err := w.GetLog(i, &lg); err != nil || lg.Index != i || !bytes.Equal(lg.Data, ref[i]) {
				c.witness("C10", "acked-entry-lost-after-read-error", fmt.Sprintf("%s: GetLog(%d) gives err=%v index=%d, %d bytes; acknowledged: %d bytes", what, i, err, lg.Index, len(lg.Data), len(ref[i])), line)
				return false
			}
		}
		return true
	}
	// ---- phase G ---------------------------------------------------------------------------
	stage = "GetLog under a read error"
	fired := 0
	for t, n := 0, 2+r.Intn(5); t < n; t++ {
		i := pick()
		cfs.mu.Lock()
		cfs.readFaultIn = 1 + r.Intn(3)
		before := cfs.readFaultFired
		cfs.mu.Unlock()
		var lg raft.Log
		err := w.GetLog(i, &lg)
		cfs.mu.Lock()
		cfs.readFaultIn = 0
		hit := cfs.readFaultFired > before
		cfs.mu.Unlock()
		if hit {
			fired++
			c.stat("rf_getlog_fault_fired")
		}
		if err == nil && (lg.Index != i || !bytes.Equal(lg.Data, ref[i])) {
			c.witness("C10", "read-error-wrong-data", fmt.Sprintf("GetLog(%d) with a failing ReadAt returns nil and index %d, %d bytes (stored: %d bytes)", i, lg.Index, len(lg.Data), len(ref[i])), line)
		}
		// two reads in flight: the outer read's buffer must survive the nested one
		for q := 0; q < 3; q++ {
			a, b := pick(), pick()
			var inner raft.Log
			var innerErr error
			codec.moved = false
			codec.nest = func() { innerErr = w.GetLog(b, &inner) }
			var outer raft.Log
			err := w.GetLog(a, &outer)
			codec.nest = nil
			bad := ""
			switch {
			case codec.moved:
				bad = "the bytes handed to Decode changed while another GetLog ran"
			case err != nil || innerErr != nil:
				bad = fmt.Sprintf("errors %v / %v", err, innerErr)
			case outer.Index != a || !bytes.Equal(outer.Data, ref[a]):
				bad = fmt.Sprintf("outer GetLog(%d) returned index %d, %d bytes", a, outer.Index, len(outer.Data))
			case inner.Index != b || !bytes.Equal(inner.Data, ref[b]):
				bad = fmt.Sprintf("nested GetLog(%d) returned index %d, %d bytes", b, inner.Index, len(inner.Data))
			}
			if bad != "" {
				what := fmt.Sprintf("GetLog(%d) overlapping GetLog(%d) after %d transient read errors: %s", a, b, fired, bad)
				c.witness("C12", "pooled-buffer-shared", what, line)
				c.witness("C06", "pooled-buffer-shared", what, line)
				break
			}
		}
	}
	if !audit(w, "after GetLog calls with transient read errors") {
		w.Close()
		return "bad"
	}
	w.Close()
	// ---- phase O ---------------------------------------------------------------------------
	stage = "Open under a read error"
	res := ""
	for t, n := 0, 1+r.Intn(4); t < n; t++ {
		cfs.mu.Lock()
		cfs.readFaultIn = 1 + r.Intn(12)
		before := cfs.readFaultFired
		cfs.mu.Unlock()
		w, err := open()
		cfs.mu.Lock()
		cfs.readFaultIn = 0
		hit := cfs.readFaultFired > before
		cfs.mu.Unlock()
		if hit {
			c.stat("rf_open_fault_fired")
		}
		if err == nil {
			res += "o"
			ok := audit(w, "Open that met a transient read error succeeded")
			w.Close()
			if !ok {
				return "bad"
			}
		} else {
			res += "e"
			if !hit {
				c.witness("C10", "open-fails-after-read-error", "Open without a fault fails: "+err.Error(), line)
				return "bad"
			}
		}
		w, err = open()
		if err != nil {
			c.witness("C10", "open-fails-after-read-error", "Open after an Open that met a transient read error fails: "+err.Error(), line)
			return "bad"
		}
		ok := audit(w, "Open after an Open that met a transient read error")
		w.Close()
		if !ok {
			return "bad"
		}
	}
	return "ok " + res
}
