package main

import (
	"errors"
	"fmt"
	"io"
	"os"
	"sort"
	"sync"

	"github.com/hashicorp/raft-wal/types"
)

// memFS is a simple in-memory types.VFS with os.File-like ReadAt/WriteAt
// semantics.  It keeps the pre-image of the last write to each file so crash
// images can be built, and counts open handles.
type memFS struct {
	failWrite, failSync bool // one-shot injected I/O errors (seg streams, op E)
	failShort           bool // one-shot SHORT write: the first half of the bytes is written, (n/2, io.EOF)
	mu                  sync.Mutex
	files               map[string]*memFile
	opens               int
	close               int
	noPre               bool // do not keep pre-images (very large files)
}

type memFile struct {
	mu   sync.Mutex
	data []byte
	pre  []byte // content before the most recent WriteAt
	// region of the most recent WriteAt
	lastOff, lastLen int
}

type memHandle struct {
	fs     *memFS
	f      *memFile
	closed bool
}

func newMemFS() *memFS { return &memFS{files: map[string]*memFile{}} }

func (m *memFS) ListDir(dir string) ([]string, error) {
	m.mu.Lock()
	defer m.mu.Unlock()
	var names []string
	for n := range m.files {
		names = append(names, n)
	}
	sort.Strings(names)
	return names, nil
}

func (m *memFS) Create(dir, name string, size uint64) (types.WritableFile, error) {
	m.mu.Lock()
	defer m.mu.Unlock()
	if _, ok := m.files[name]; ok {
		return nil, fmt.Errorf("create %s: %w", name, os.ErrExist)
	}
	f := &memFile{data: make([]byte, size)}
	m.files[name] = f
	m.opens++
	return &memHandle{fs: m, f: f}, nil
}

func (m *memFS) Delete(dir, name string) error {
	m.mu.Lock()
	defer m.mu.Unlock()
	if _, ok := m.files[name]; !ok {
		return fmt.Errorf("delete %s: %w", name, os.ErrNotExist)
	}
	delete(m.files, name)
	return nil
}

func (m *memFS) open(name string) (*memHandle, error) {
	m.mu.Lock()
	defer m.mu.Unlock()
	f, ok := m.files[name]
	if !ok {
		return nil, fmt.Errorf("open %s: %w", name, os.ErrNotExist)
	}
	m.opens++
	return &memHandle{fs: m, f: f}, nil
}

func (m *memFS) OpenReader(dir, name string) (types.ReadableFile, error) {
	h, err := m.open(name)
	if err != nil {
		return nil, err
	}
	return h, nil
}

func (m *memFS) OpenWriter(dir, name string) (types.WritableFile, error) {
	h, err := m.open(name)
	if err != nil {
		return nil, err
	}
	return h, nil
}

func (h *memHandle) ReadAt(p []byte, off int64) (int, error) {
	h.f.mu.Lock()
	defer h.f.mu.Unlock()
	if off < 0 {
		return 0, errors.New("readat: negative offset") // as *os.File
	}
	if off >= int64(len(h.f.data)) {
		return 0, io.EOF
	}
	n := copy(p, h.f.data[off:])
	if n < len(p) {
		return n, io.EOF
	}
	return n, nil
}

func (h *memHandle) WriteAt(p []byte, off int64) (int, error) {
	if h.fs.failWrite {
		h.fs.failWrite = false
		return 0, &injErr{"injected write error"}
	}
	var werr error
	if h.fs.failShort {
		// io.WriterAt: "returns a non-nil error when n < len(p)"
		h.fs.failShort = false
		p = p[:len(p)/2]
		werr = io.EOF
	}
	h.f.mu.Lock()
	defer h.f.mu.Unlock()
	if !h.fs.noPre {
		h.f.pre = append([]byte(nil), h.f.data...)
	}
	h.f.lastOff, h.f.lastLen = int(off), len(p)
	end := int(off) + len(p)
	if end > len(h.f.data) {
		h.f.data = append(h.f.data, make([]byte, end-len(h.f.data))...)
	}
	copy(h.f.data[off:], p)
	return len(p), werr
}

func (h *memHandle) Sync() error {
	if h.fs.failSync {
		h.fs.failSync = false
		return &injErr{"injected sync error"}
	}
	return nil
}

func (h *memHandle) Close() error {
	h.fs.mu.Lock()
	defer h.fs.mu.Unlock()
	if !h.closed {
		h.closed = true
		h.fs.close++
	}
	return nil
}
