package main

// generator of the vfy stream: seeded multi-node histories (see RunVfy.v for the
// line format).  It keeps a rough simulation of each node's log only to emit
// mostly valid, contiguous operations; nothing here is an oracle.

import (
	"fmt"
	"math/rand"
	"os"
	"strings"
)

type gEntry struct {
	idx, term uint64
	typ       int
	data, ext []byte
}

func (e *gEntry) isCP() bool { return len(e.data) > 0 && e.data[0] == 0xc0 }
func (e *gEntry) String() string {
	return fmt.Sprintf("%x %x %x %s %s", e.idx, e.term, e.typ, hx(e.data), hx(e.ext))
}

type gNode struct {
	first, last uint64
	ents        map[uint64]*gEntry
	blocked     bool
	parked      bool
	failArmed   bool
}

type gSim struct {
	r     *rand.Rand
	nodes []*gNode
	ops   []string
	term  uint64
	nDel  int
}

func newSim(r *rand.Rand, k int) *gSim {
	s := &gSim{r: r, term: 1 + uint64(r.Intn(3))}
	for i := 0; i < k; i++ {
		s.nodes = append(s.nodes, &gNode{ents: map[uint64]*gEntry{}})
	}
	return s
}

func (s *gSim) emit(f string, a ...interface{}) { s.ops = append(s.ops, fmt.Sprintf(f, a...)) }

func (s *gSim) line(kind string) string {
	if len(s.ops) == 0 {
		s.emit("i 0")
	}
	return fmt.Sprintf("vfy %x %s | %s", len(s.nodes), kind, strings.Join(s.ops, " | "))
}

func (s *gSim) bytesN(n int) []byte {
	b := make([]byte, n)
	s.r.Read(b)
	if n > 0 && (b[0] == 0xc0 || b[0] == 0xce) {
		b[0] = 0x41
	}
	return b
}

func (s *gSim) normal(idx uint64) *gEntry {
	e := &gEntry{idx: idx, term: s.term}
	switch s.r.Intn(10) {
	case 0:
		e.typ = 1 + s.r.Intn(5)
	case 1:
		e.typ = s.r.Intn(256)
	}
	switch s.r.Intn(8) {
	case 0:
	case 1:
		e.data = s.bytesN(8 + s.r.Intn(40))
	default:
		e.data = s.bytesN(1 + s.r.Intn(6))
	}
	if s.r.Intn(6) == 0 {
		e.ext = s.bytesN(1 + s.r.Intn(5))
	}
	return e
}

func (s *gSim) checkpoint(idx uint64) *gEntry {
	return &gEntry{idx: idx, term: s.term, data: append([]byte{0xc0}, s.bytesN(s.r.Intn(3))...)}
}

func (s *gSim) nextIdx(n *gNode) uint64 {
	if n.last == 0 {
		if s.r.Intn(3) == 0 {
			return 1 + uint64(s.r.Intn(2000))
		}
		return 1
	}
	return n.last + 1
}

// simStore mirrors the outcome the generator expects of a StoreLogs
func (s *gSim) simStore(ni int, batch []*gEntry) bool {
	n := s.nodes[ni]
	if len(batch) == 0 {
		return true
	}
	cps := 0
	for _, e := range batch {
		if e.isCP() {
			cps++
		}
		if len(e.data) > 0 && e.data[0] == 0xce {
			return false
		}
	}
	if cps > 1 && !n.parked {
		return false // refused by the runner ("rc")
	}
	if n.failArmed {
		n.failArmed = false
		return false
	}
	next := batch[0].idx
	if n.last != 0 {
		next = n.last + 1
	} else if next == 0 {
		return false
	}
	for i, e := range batch {
		if e.idx != next+uint64(i) {
			return false
		}
	}
	for _, e := range batch {
		c := *e
		n.ents[e.idx] = &c
		if n.first == 0 {
			n.first = e.idx
		}
		n.last = e.idx
	}
	if cps > 0 && n.blocked {
		n.parked = true
	}
	return true
}

func (s *gSim) simDelete(ni int, mn, mx uint64) {
	n := s.nodes[ni]
	if mn > mx || n.last == 0 || mx < n.first || mn > n.last {
		return
	}
	if mn > n.first && mx < n.last {
		return
	}
	for k := range n.ents {
		if k >= mn && k <= mx {
			delete(n.ents, k)
		}
	}
	if mn <= n.first {
		if mx >= n.last {
			n.first, n.last = 0, 0
		} else {
			n.first = mx + 1
		}
	} else {
		n.last = mn - 1
	}
}

func (s *gSim) appendOp(ni int, batch []*gEntry) {
	var sb []string
	for _, e := range batch {
		sb = append(sb, e.String())
	}
	if len(sb) == 0 {
		s.emit("a %x 0", ni)
	} else {
		s.emit("a %x %x %s", ni, len(batch), strings.Join(sb, " "))
	}
	s.simStore(ni, batch)
}

type gMut struct {
	idx        uint64
	kind, a, b string
}

// randMut picks a single-field mutation of e (ext may be unknown for leader-filled checkpoints)
func (s *gSim) randMut(e *gEntry, allowIndex bool) gMut {
	r := s.r
	m := gMut{idx: e.idx, a: "0", b: "0"}
	extLen := len(e.ext)
	if e.isCP() && extLen == 0 {
		extLen = 24 // filled in by the leader
	}
	for {
		switch r.Intn(13) {
		case 0:
			if !allowIndex {
				continue
			}
			m.kind = "i"
			m.a = fmt.Sprintf("%x", []uint64{e.idx + 1, e.idx - 1, e.idx ^ (1 << uint(r.Intn(20))), r.Uint64()}[r.Intn(4)])
		case 1:
			m.kind = "t"
			m.a = fmt.Sprintf("%x", []uint64{e.term + 1, e.term ^ (1 << uint(r.Intn(64))), r.Uint64()}[r.Intn(3)])
		case 2:
			m.kind = "y"
			m.a = fmt.Sprintf("%x", (e.typ+1+r.Intn(255))%256)
		case 3, 4:
			if len(e.data) == 0 {
				continue
			}
			m.kind = "fd"
			pos := r.Intn(len(e.data))
			if pos == 0 && r.Intn(4) != 0 && len(e.data) > 1 {
				pos = 1 + r.Intn(len(e.data)-1)
			}
			m.a, m.b = fmt.Sprintf("%x", pos), fmt.Sprintf("%x", 1<<uint(r.Intn(8)))
		case 5:
			if extLen == 0 {
				continue
			}
			m.kind = "fe"
			m.a, m.b = fmt.Sprintf("%x", r.Intn(extLen)), fmt.Sprintf("%x", 1<<uint(r.Intn(8)))
		case 6:
			m.kind = "ad"
			m.a = hx(s.bytesN(1 + r.Intn(3)))
			if len(e.data) == 0 && r.Intn(2) == 0 {
				m.a = "00"
			}
		case 7:
			if len(e.data) == 0 {
				continue
			}
			m.kind = "cd"
			m.a = fmt.Sprintf("%x", r.Intn(len(e.data)))
		case 8:
			m.kind = "ae"
			m.a = hx(s.bytesN(1 + r.Intn(3)))
		case 9:
			if extLen == 0 {
				continue
			}
			m.kind = "ce"
			m.a = fmt.Sprintf("%x", r.Intn(extLen))
		case 10:
			m.kind = "d"
			m.a = hx(s.bytesN(len(e.data) + r.Intn(2)))
			if m.a == hx(e.data) {
				continue
			}
		case 11:
			if e.isCP() {
				continue
			}
			m.kind = "e"
			m.a = hx(s.bytesN(extLen + 1))
		case 12:
			if len(e.data) < 2 || e.isCP() {
				continue
			}
			m.kind = "sh"
			m.a = fmt.Sprintf("%x", 1+r.Intn(len(e.data)-1))
		}
		return m
	}
}

func (s *gSim) splitSizes(total int) []int {
	var sizes []int
	for total > 0 {
		z := 1 + s.r.Intn(4)
		if s.r.Intn(4) == 0 {
			z = total
		}
		if z > total {
			z = total
		}
		sizes = append(sizes, z)
		total -= z
	}
	return sizes
}

// replicate [lo,hi] from src to dst with the given in-flight mutations
func (s *gSim) replicateOp(src, dst int, lo, hi uint64, muts []gMut) {
	if hi < lo {
		return
	}
	sn, dn := s.nodes[src], s.nodes[dst]
	total := int(hi - lo + 1)
	// batch boundaries: at most one checkpoint per batch unless dst's verifier is parked
	var sizes []int
	if s.r.Intn(3) == 0 || dn.parked {
		sizes = s.splitSizes(total)
	} else {
		cur, cps := 0, 0
		for i := lo; i <= hi; i++ {
			e := sn.ents[i]
			cp := e != nil && e.isCP()
			if (cp && cps > 0) || (cur > 0 && s.r.Intn(3) == 0) {
				sizes = append(sizes, cur)
				cur, cps = 0, 0
			}
			cur++
			if cp {
				cps++
			}
		}
		sizes = append(sizes, cur)
	}
	var ms, sz []string
	for _, m := range muts {
		ms = append(ms, fmt.Sprintf("%x %s %s %s", m.idx, m.kind, m.a, m.b))
	}
	for _, z := range sizes {
		sz = append(sz, fmt.Sprintf("%x", z))
	}
	op := fmt.Sprintf("r %x %x %x %x %x", src, dst, lo, hi, len(muts))
	if len(ms) > 0 {
		op += " " + strings.Join(ms, " ")
	}
	op += fmt.Sprintf(" %x %s", len(sizes), strings.Join(sz, " "))
	s.ops = append(s.ops, op)
	// simulate
	i := lo
	for _, z := range sizes {
		var batch []*gEntry
		for j := 0; j < z && i <= hi; j++ {
			e := sn.ents[i]
			if e == nil {
				return
			}
			c := *e
			for _, m := range muts {
				if m.idx == i && m.kind == "i" {
					c.idx = parseU(m.a)
				}
			}
			batch = append(batch, &c)
			i++
		}
		if !s.simStore(dst, batch) {
			return
		}
	}
}

func (s *gSim) tamperOp(ni int, m gMut) {
	s.emit("t %x %x %s %s %s", ni, m.idx, m.kind, m.a, m.b)
}

func (s *gSim) deleteOp(ni int, mn, mx uint64) {
	s.nDel++
	if s.r.Intn(4) == 0 {
		// the middleware's LastIndex read of the underlying store fails for this call
		s.emit("l %x %x %x", ni, mn, mx)
	} else {
		s.emit("d %x %x %x", ni, mn, mx)
	}
	s.simDelete(ni, mn, mx)
}

func (s *gSim) block(ni int) {
	s.emit("b %x", ni)
	s.nodes[ni].blocked = true
}
func (s *gSim) unblock(ni int) {
	s.emit("u %x", ni)
	s.nodes[ni].blocked, s.nodes[ni].parked = false, false
}

// leaderBatch: cnt normal entries, optionally a checkpoint at a random place
func (s *gSim) leaderBatch(ni, cnt int, cp bool) []*gEntry {
	n := s.nodes[ni]
	idx := s.nextIdx(n)
	var b []*gEntry
	at := -1
	if cp {
		at = s.r.Intn(cnt + 1)
		if s.r.Intn(2) == 0 {
			at = cnt
		}
	}
	for i := 0; i <= cnt; i++ {
		if i == at {
			b = append(b, s.checkpoint(idx))
			idx++
		}
		if i < cnt {
			b = append(b, s.normal(idx))
			idx++
		}
	}
	return b
}

// ---- scenario: a small cluster ---------------------------------------------------
func (s *gSim) cluster(steps int) {
	r := s.r
	k := len(s.nodes)
	leader := 0
	if r.Intn(3) == 0 {
		// bootstrap: every node writes its own (possibly different) configuration entry at index 1
		for i := 0; i < k; i++ {
			s.appendOp(i, []*gEntry{{idx: 1, term: 1, typ: 5, data: s.bytesN(1 + r.Intn(4))}})
		}
	}
	for st := 0; st < steps; st++ {
		ln := s.nodes[leader]
		switch x := r.Intn(100); {
		case x < 22:
			s.appendOp(leader, s.leaderBatch(leader, 1+r.Intn(4), false))
		case x < 40:
			s.appendOp(leader, s.leaderBatch(leader, r.Intn(4), true))
		case x < 68:
			f := r.Intn(k)
			if f == leader || ln.last == 0 {
				continue
			}
			fn := s.nodes[f]
			lo := fn.last + 1
			if fn.last == 0 {
				lo = ln.first
				if r.Intn(3) == 0 {
					lo = ln.first + uint64(r.Intn(int(ln.last-ln.first+1)))
				}
			}
			if lo > ln.last || lo < ln.first {
				continue
			}
			hi := ln.last
			if r.Intn(3) == 0 {
				hi = lo + uint64(r.Intn(int(ln.last-lo+1)))
			}
			var muts []gMut
			if r.Intn(6) == 0 {
				idx := lo + uint64(r.Intn(int(hi-lo+1)))
				if e := ln.ents[idx]; e != nil {
					muts = append(muts, s.randMut(e, r.Intn(4) == 0))
				}
			}
			s.replicateOp(leader, f, lo, hi, muts)
		case x < 73:
			f := r.Intn(k)
			if !s.nodes[f].blocked {
				s.emit("x %x", f)
			}
		case x < 80:
			f := r.Intn(k)
			fn := s.nodes[f]
			if fn.last == 0 {
				continue
			}
			s.deleteOp(f, fn.first, fn.first+uint64(r.Intn(int(fn.last-fn.first+1))))
		case x < 86:
			f := r.Intn(k)
			fn := s.nodes[f]
			if fn.last == 0 {
				continue
			}
			idx := fn.first + uint64(r.Intn(int(fn.last-fn.first+1)))
			if e := fn.ents[idx]; e != nil {
				s.tamperOp(f, s.randMut(e, true))
			}
		case x < 93:
			// leadership change: nl takes over; whoever is ahead of it drops the conflicting suffix
			nl := r.Intn(k)
			if nl == leader || s.nodes[nl].last == 0 {
				continue
			}
			s.term += 1 + uint64(r.Intn(2))
			nn := s.nodes[nl]
			for i := 0; i < k; i++ {
				on := s.nodes[i]
				if i != nl && on.last > nn.last && nn.last >= on.first {
					// keep a common prefix, drop the rest (tail truncation), re-appended later
					cut := nn.last + 1
					if r.Intn(3) == 0 && nn.last > on.first {
						cut = nn.last - uint64(r.Intn(int(nn.last-on.first)))
					}
					s.deleteOp(i, cut, on.last)
				}
			}
			leader = nl
		case x < 96:
			f := r.Intn(k)
			if s.nodes[f].blocked {
				s.unblock(f)
			} else {
				s.block(f)
			}
		default:
			f := r.Intn(k)
			s.emit("f %x", f)
			s.nodes[f].failArmed = true
		}
	}
}

// ---- scenario: one mutation at one position of a verified range ---------------------
func (s *gSim) sweep() {
	r := s.r
	where := r.Intn(4) // 0 in flight, 1 at rest on follower, 2 at rest on leader, 3 swapped entries at rest
	if r.Intn(8) == 0 {
		s.appendOp(0, []*gEntry{{idx: 1, term: 1, typ: 5, data: s.bytesN(2)}})
		s.appendOp(1, []*gEntry{{idx: 1, term: 1, typ: 5, data: s.bytesN(2)}})
	}
	// a first range so that the verified one starts with a (leader-filled) checkpoint entry
	if r.Intn(3) != 0 {
		s.appendOp(0, s.leaderBatch(0, r.Intn(3), true))
		if b := s.leaderBatch(0, 0, true); r.Intn(2) == 0 && s.nodes[0].ents[s.nodes[0].last].isCP() == false {
			s.appendOp(0, b)
		}
		s.replicateOp(0, 1, s.nodes[0].first, s.nodes[0].last, nil)
	}
	ln := s.nodes[0]
	lo := ln.last // previous checkpoint (or 0)
	s.appendOp(0, s.leaderBatch(0, 1+r.Intn(5), false))
	if lo == 0 || !ln.ents[lo].isCP() {
		lo = ln.first
		if s.nodes[1].last != 0 {
			lo = s.nodes[1].last + 1
		}
	}
	hi := ln.last
	pos := lo + uint64(r.Intn(int(hi-lo+1)))
	e := ln.ents[pos]
	if where == 2 {
		s.tamperOp(0, s.randMut(e, true))
	}
	if where == 3 && hi > lo {
		a := lo + uint64(r.Intn(int(hi-lo)))
		ea, eb := ln.ents[a], ln.ents[a+1]
		if !ea.isCP() && !eb.isCP() {
			node := r.Intn(2)
			if node == 1 {
				s.replicateOp(0, 1, s.nodes[1].last+1, hi, nil)
			}
			for _, p := range [][2]*gEntry{{ea, eb}, {eb, ea}} {
				t, o := p[0], p[1]
				s.tamperOp(node, gMut{t.idx, "i", fmt.Sprintf("%x", o.idx), "0"})
				s.tamperOp(node, gMut{t.idx, "t", fmt.Sprintf("%x", o.term), "0"})
				s.tamperOp(node, gMut{t.idx, "y", fmt.Sprintf("%x", o.typ), "0"})
				s.tamperOp(node, gMut{t.idx, "d", hx(o.data), "0"})
				s.tamperOp(node, gMut{t.idx, "e", hx(o.ext), "0"})
			}
		}
	}
	s.appendOp(0, s.leaderBatch(0, 0, true))
	fl := s.nodes[1].last + 1
	if s.nodes[1].last == 0 {
		fl = ln.first
	}
	var muts []gMut
	if where == 0 {
		muts = append(muts, s.randMut(e, r.Intn(6) == 0))
	}
	if where == 1 {
		s.replicateOp(0, 1, fl, hi, nil)
		s.tamperOp(1, s.randMut(e, true))
		s.replicateOp(0, 1, hi+1, ln.last, nil)
	} else if fl <= ln.last {
		if r.Intn(2) == 0 {
			s.replicateOp(0, 1, fl, ln.last, muts)
		} else {
			s.replicateOp(0, 1, fl, hi, muts)
			s.replicateOp(0, 1, hi+1, ln.last, nil)
		}
	}
}

// ---- scenario: arbitrary operations on one node, valid or not (pass-through) ---------
func (s *gSim) soup(steps int) {
	r := s.r
	for st := 0; st < steps; st++ {
		ni := r.Intn(len(s.nodes))
		n := s.nodes[ni]
		switch x := r.Intn(100); {
		case x < 30:
			s.appendOp(ni, s.leaderBatch(ni, r.Intn(4), r.Intn(3) == 0))
		case x < 38:
			// follower-style checkpoint with well-formed metadata (arbitrary start/sum)
			e := s.checkpoint(s.nextIdx(n))
			e.ext = make([]byte, 24+r.Intn(3))
			copy(e.ext, []byte{0x03, 0xa5, 0x92, 0x03, 0xd6, 0xf9, 0xd1, 0xaf})
			st := uint64(r.Intn(int(n.last + 2)))
			for i := 0; i < 8; i++ {
				e.ext[8+i] = byte(st >> (8 * uint(i)))
				e.ext[16+i] = byte(r.Intn(256))
			}
			s.appendOp(ni, []*gEntry{e})
		case x < 45:
			// checkpoint whose Extensions hold foreign data
			e := s.checkpoint(s.nextIdx(n))
			e.ext = s.bytesN([]int{1, 8, 23, 24, 30}[r.Intn(5)])
			b := s.leaderBatch(ni, r.Intn(2), false)
			e.idx = s.nextIdx(n) + uint64(len(b))
			s.appendOp(ni, append(b, e))
		case x < 50:
			e := s.normal(s.nextIdx(n))
			e.data = []byte{0xce, 1}
			s.appendOp(ni, []*gEntry{e})
		case x < 56:
			// contract violations: gap, repeat, index 0
			e := s.normal([]uint64{n.last + 2, n.last, 0, n.last + 1 + uint64(r.Intn(5))}[r.Intn(4)])
			s.appendOp(ni, []*gEntry{e, s.normal(e.idx + uint64(r.Intn(3)))})
		case x < 58:
			s.appendOp(ni, nil)
		case x < 72:
			var mn, mx uint64
			if n.last == 0 {
				s.deleteOp(ni, uint64(r.Intn(4)), uint64(r.Intn(6)))
				continue
			}
			switch r.Intn(5) {
			case 0:
				mn, mx = n.first, n.first+uint64(r.Intn(int(n.last-n.first+1)))
			case 1:
				mn, mx = n.last-uint64(r.Intn(int(n.last-n.first+1))), n.last+uint64(r.Intn(3))
			case 2:
				mn, mx = n.first+1, n.last-1
			case 3:
				mn, mx = uint64(r.Intn(int(n.last+3))), uint64(r.Intn(int(n.last+3)))
			default:
				mn, mx = 0, n.last+uint64(r.Intn(2))
			}
			s.deleteOp(ni, mn, mx)
		case x < 80:
			s.emit("g %x %x", ni, uint64(r.Intn(int(n.last+3))))
		case x < 86:
			s.emit("i %x", ni)
		case x < 90:
			if !n.blocked {
				s.emit("x %x", ni)
			}
		case x < 94:
			s.emit("f %x", ni)
			n.failArmed = true
		default:
			if n.last != 0 {
				idx := n.first + uint64(r.Intn(int(n.last-n.first+1)))
				if e := n.ents[idx]; e != nil {
					s.tamperOp(ni, s.randMut(e, true))
				}
			}
		}
	}
}

// ---- scenario: slow / blocked ReportFn vs checkpoint arrivals -------------------------
func (s *gSim) drops() {
	r := s.r
	k := len(s.nodes)
	s.appendOp(0, s.leaderBatch(0, 1+r.Intn(3), r.Intn(2) == 0))
	rounds := 1 + r.Intn(3)
	for rd := 0; rd < rounds; rd++ {
		who := r.Intn(k)
		if r.Intn(4) != 0 {
			s.block(who)
		}
		for i, m := 0, 1+r.Intn(6); i < m; i++ {
			switch r.Intn(8) {
			case 0:
				s.appendOp(0, s.leaderBatch(0, 1+r.Intn(2), false))
			case 1:
				if s.nodes[0].parked {
					// several checkpoints in one batch while the verifier is stuck
					b := s.leaderBatch(0, r.Intn(2), true)
					b = append(b, s.checkpoint(b[len(b)-1].idx+1), s.checkpoint(b[len(b)-1].idx+2))
					s.appendOp(0, b)
				}
			case 2:
				if n := s.nodes[0]; n.last != 0 && r.Intn(2) == 0 {
					s.deleteOp(0, n.first, n.first+uint64(r.Intn(int(n.last-n.first+1))))
				}
			default:
				s.appendOp(0, s.leaderBatch(0, r.Intn(3), true))
			}
			if k > 1 && r.Intn(3) == 0 && s.nodes[0].last != 0 {
				fn := s.nodes[1]
				lo := fn.last + 1
				if fn.last == 0 {
					lo = s.nodes[0].first
				}
				if lo >= s.nodes[0].first && lo <= s.nodes[0].last {
					s.replicateOp(0, 1, lo, s.nodes[0].last, nil)
				}
			}
		}
		if r.Intn(5) != 0 {
			s.unblock(who)
		}
		for i, m := 0, r.Intn(3); i < m; i++ {
			s.appendOp(0, s.leaderBatch(0, r.Intn(2), true))
		}
	}
}

func genVfy(c *ctx, emit func(string)) {
	r := rand.New(rand.NewSource(c.seed))
	walShare := 12 // one line in walShare runs over the real WAL
	if c.tier == "thorough" {
		walShare = 4
	}
	// fixed regression shapes first
	for _, l := range vfyFixed {
		emit(l)
	}
	// an entry larger than 64 KiB whose LAST bytes are altered, in flight and at rest: the
	// checksum covers every byte of Data (and Extensions), not a prefix
	for k := 0; k < 2; k++ {
		big := make([]byte, 66000+r.Intn(3000))
		r.Read(big)
		big[0] = 0x41 // not a checkpoint
		ext := ""
		if k == 1 {
			e := make([]byte, 66000)
			r.Read(e)
			ext = hx(e)
		} else {
			ext = "-"
		}
		pos := len(big) - 1 - r.Intn(400)
		mut := fmt.Sprintf("fd %x %x", pos, 1<<uint(r.Intn(8)))
		if k == 1 {
			mut = fmt.Sprintf("fe %x %x", 66000-1-r.Intn(400), 1<<uint(r.Intn(8)))
		}
		emit(fmt.Sprintf("vfy 2 m | a 0 2 1 1 0 %s %s 2 1 0 62 - | r 0 1 1 2 1 1 %s 1 2 | a 0 1 3 1 0 c0 - | r 0 1 3 3 0 1 1", hx(big), ext, mut))
		emit(fmt.Sprintf("vfy 1 m | a 0 2 5 1 0 %s %s 6 1 0 64 - | t 0 5 %s | a 0 1 7 1 0 c0 -", hx(big), ext, mut))
	}
	// implementation-only regression case: StoreLogs vs concurrent compaction (vfy_race.go)
	ms := "2000"
	if c.tier == "thorough" {
		ms = "10000"
	}
	if v := os.Getenv("VFY_RACE_MS"); v != "" {
		ms = v
	}
	emit("#race " + ms)
	for i := 0; i < c.n; i++ {
		kind := "m"
		if r.Intn(walShare) == 0 {
			kind = "w"
		}
		var s *gSim
		switch x := r.Intn(100); {
		case x < 45:
			s = newSim(r, 2+r.Intn(2))
			s.cluster(6 + r.Intn(18))
		case x < 72:
			s = newSim(r, 2)
			s.sweep()
		case x < 87:
			s = newSim(r, 1+r.Intn(2))
			s.soup(5 + r.Intn(20))
		default:
			s = newSim(r, 1+r.Intn(2))
			s.drops()
		}
		emit(s.line(kind))
	}
}

// hand-written lines: the D11 shape (tail truncation + identical re-append), the
// boundary shift, a blocked ReportFn with drops, restart in the middle of a range
var vfyFixed = []string{
	// follower truncates its tail and gets identical entries again: no false alarm
	"vfy 2 m | a 0 3 1 1 0 61 - 2 1 0 62 - 3 1 0 63 - | r 0 1 1 3 0 1 3 | d 1 3 3 | r 0 1 3 3 0 1 1 | a 0 1 4 1 0 c0 - | r 0 1 4 4 0 1 1",
	// Data/Extensions boundary shift in flight and at rest
	"vfy 2 m | a 0 2 1 1 0 6162 63 2 1 0 64 - | r 0 1 1 2 1 1 sh 1 0 1 2 | a 0 1 3 1 0 c0 - | r 0 1 3 3 0 1 1",
	"vfy 1 m | a 0 2 5 1 0 616263 - 6 1 0 64 - | t 0 5 sh 2 0 | a 0 1 7 1 0 c0 -",
	// ReportFn blocks: one report parked, one buffered, the rest dropped, then the skipped range is named
	"vfy 1 m | a 0 2 1 1 0 61 - 2 1 0 c0 - | b 0 | a 0 1 3 1 0 c0 - | a 0 1 4 1 0 c0 - | a 0 1 5 1 0 c0 - | a 0 3 6 1 0 c0 - 7 1 0 c0 - 8 1 0 c0 - | u 0 | a 0 1 9 1 0 c0 -",
	// middleware restart inside a range: written sum not claimed
	"vfy 2 m | a 0 2 1 1 0 61 - 2 1 0 62 - | r 0 1 1 2 0 1 1 | x 1 | a 0 2 3 1 0 63 - 4 1 0 c0 - | r 0 1 3 4 0 1 2",
	// head truncation into the range before the checkpoint arrives
	"vfy 2 m | a 0 3 1 1 0 61 - 2 1 0 62 - 3 1 0 63 - | r 0 1 1 3 0 1 2 | d 1 1 2 | a 0 1 4 1 0 c0 - | r 0 1 4 4 0 1 1",
	// foreign Extensions on a checkpoint, failing checkpoint fn, failing store: state must not move
	"vfy 1 m | a 0 1 1 1 0 61 - | a 0 1 2 1 0 c0 0102 | a 0 1 2 1 0 ce - | f 0 | a 0 1 2 1 0 62 - | a 0 2 2 1 0 62 - 3 1 0 c0 -",
}
