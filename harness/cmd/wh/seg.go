package main

import (
	"bytes"
	"errors"
	"fmt"
	"hash/crc32"
	"math/big"
	"math/rand"
	"runtime"
	"strings"
	"time"

	"github.com/hashicorp/go-hclog"
	"github.com/hashicorp/raft"
	wal "github.com/hashicorp/raft-wal"
	"github.com/hashicorp/raft-wal/segment"
	"github.com/hashicorp/raft-wal/types"
)

// Segment-level streams.  All three share the `seg ...` line grammar (see
// coq/Run/RunSeg.v) and the same executor; they differ in their generators.

func init() {
	streams["format"] = &stream{gen: genFormat, exec: execSizes}
	streams["segcrash"] = &stream{gen: genSegCrash, exec: execSizes}
	streams["corrupt"] = &stream{gen: genCorrupt, exec: execSegWatched}
	streams["sizes"] = &stream{gen: genSizes, exec: execSizes}
}

// segMaxEntry mirrors segment.MaxEntrySize as an int for allocation bounds.
const segMaxEntry = segment.MaxEntrySize

// allocSlack is the constant part of the C11 allocation bound: pooled 64 KiB
// read buffers, zeroStaleTail's two 64 KiB buffers, the 32 Ki-entry offsets
// slice of recovery (128 KiB), DumpSegment's 64 KiB buffer, small garbage.
const allocSlack = 1 << 20

// measured runs fn and reports a C11 witness when it allocates more than
// file length + MaxEntrySize + allocSlack bytes.
func measured(c *ctx, what string, fileLen int, line string, fn func()) {
	var m0, m1 runtime.MemStats
	runtime.ReadMemStats(&m0)
	fn()
	runtime.ReadMemStats(&m1)
	d := m1.TotalAlloc - m0.TotalAlloc
	if d > uint64(fileLen)+uint64(segMaxEntry)+allocSlack {
		c.witness("C11", "segment-alloc", fmt.Sprintf("%s allocates %d bytes on a %d byte file", what, d, fileLen), line)
	}
	if d > uint64(fileLen)+2*minBuf+allocSlack/2 {
		c.stat("alloc_over_file_len")
	}
}

const minBuf = 64 * 1024

// execSegWatched runs one `seg` line under a wall-clock watchdog (C11: damaged
// files must not hang the reader / recovery) with allocation accounting on.
func execSegWatched(c *ctx, line string) string {
	type res struct{ obs string }
	ch := make(chan res, 1)
	c.measure = true
	go func() { ch <- res{execSeg(c, line)} }()
	select {
	case r := <-ch:
		c.measure = false
		return r.obs
	case <-time.After(30 * time.Second):
		c.measure = false
		c.witness("C11", "segment-hang", "segment code does not return within 30 s on a damaged file", line)
		return "hang"
	}
}

var crcTab = crc32.MakeTable(crc32.Castagnoli)

func segErrKind(err error) string {
	switch {
	case err == nil:
		return "ok"
	case errors.Is(err, types.ErrSealed):
		return "sealed"
	case errors.Is(err, segment.ErrTooBig):
		return "toobig"
	case errors.Is(err, types.ErrNotFound):
		return "nf"
	case errors.Is(err, types.ErrCorrupt):
		return "corrupt"
	case strings.Contains(err.Error(), "non-monotonic"):
		return "nonmono"
	}
	return "err"
}

func stripZeros(b []byte) []byte {
	n := len(b)
	for n > 0 && b[n-1] == 0 {
		n--
	}
	return b[:n]
}

func execSeg(c *ctx, line string) (obs string) {
	var out []string
	defer func() {
		if e := recover(); e != nil {
			out = append(out, "panic")
			obs = strings.Join(out, " ")
			c.witness("C11", "segment-panic", fmt.Sprintf("segment code panics: %v", e), line)
		}
	}()
	f := strings.Split(line, " ")
	if f[0] != "seg" || len(f) < 6 {
		return "badinput"
	}
	base, id, codec, limit, fsz := parseU(f[1]), parseU(f[2]), parseU(f[3]), parseU(f[4]), parseU(f[5])
	if fsz != limit {
		return "badinput"
	}
	info := types.SegmentInfo{ID: id, BaseIndex: base, MinIndex: base, Codec: codec, SizeLimit: uint32(limit)}
	vfs := newMemFS()
	filer := segment.NewFiler("d", vfs)
	sw, err := filer.Create(info)
	if err != nil {
		return "badinput"
	}
	fname := segment.FileName(info)
	mf := vfs.files[fname]
	var rd types.SegmentReader = sw
	acked := map[uint64]string{} // oracle: acked entries (tail mode)
	// C10 (byte level, coq/Seg/FailFacts.v): what a recovery may present.  pend = the
	// batches whose write reached the file but whose fsync failed, since the last
	// successful append; under = the failed batch (if any) that the most recent write
	// was written over (a crash image of that write may still hold it complete);
	// damaged = the file was edited by X / T (corrupt stream), the oracle is then off.
	var pend [][]types.LogEntry
	var under []types.LogEntry
	lastWriteFailed := false
	damaged := false
	checkRecovered := func(afterCrash bool) {
		if sw == nil || damaged {
			return
		}
		last := sw.LastIndex()
		get := func(idx uint64) (string, bool) {
			pb, err := sw.GetLog(idx)
			if err != nil {
				return "", false
			}
			defer pb.Close()
			return hx(pb.Bs), true
		}
		// candidate tails: none, the last failed write, and (crash image of the last
		// write) the failed batch underneath it
		cands := [][]types.LogEntry{nil}
		if len(pend) > 0 && (!afterCrash || lastWriteFailed) {
			cands = append(cands, pend[len(pend)-1])
		}
		if afterCrash && under != nil {
			cands = append(cands, under)
		}
		okWith := func(tail []types.LogEntry) bool {
			first := last + 1
			if len(tail) > 0 {
				if tail[len(tail)-1].Index != last {
					return false
				}
				first = tail[0].Index
			}
			for idx := base; last != 0 && idx <= last; idx++ {
				got, ok := get(idx)
				if !ok {
					return false
				}
				want, have := "", false
				if idx >= first {
					want, have = hx(tail[idx-first].Data), true
				} else {
					want, have = acked[idx]
				}
				if !have || got != want {
					return false
				}
			}
			return true
		}
		good := -1
		for k, t := range cands {
			if okWith(t) {
				good = k
				break
			}
		}
		if good < 0 {
			c.witness("C10", "failed-batch-partly-recovered",
				fmt.Sprintf("after recovery the segment presents entries up to %d that are neither the acknowledged entries nor those plus the whole last failed batch", last), line)
		} else if good > 0 {
			c.stat("failed_batch_recovered_whole")
			for _, e := range cands[good] {
				acked[e.Index] = hx(e.Data)
			}
		}
		for idx := range acked {
			if idx > last {
				delete(acked, idx)
			}
		}
		pend, under, lastWriteFailed = nil, nil, false
	}
	// noteWrite: an append / force-seal returned; if it changed the file, its batch
	// (es; none for a force-seal) was written
	armed := "" // kind of the injected failure waiting for the next append / force-seal
	noteWrite := func(before []byte, es []types.LogEntry, err error) {
		kind := armed
		armed = ""
		if kind != "" && err == nil && !vfs.failWrite && !vfs.failShort && !vfs.failSync {
			// the injected failure was consumed by this operation and it returned nil
			c.witness("C10", "failed-io-acknowledged",
				fmt.Sprintf("an append / force-seal whose I/O failed (E %s) returned nil", kind), line)
		}
		vfs.failWrite, vfs.failShort, vfs.failSync = false, false, false
		if bytes.Equal(before, mf.data) {
			return
		}
		under = nil
		if len(pend) > 0 {
			under = pend[len(pend)-1]
		}
		lastWriteFailed = err != nil
		if err != nil && kind == "p" {
			// short write: half of the batch is in the file, it can never be recovered;
			// the failed batch underneath stays a candidate (the half may not have
			// changed its bytes)
			c.stat("short_writes")
			return
		}
		if err != nil {
			if len(es) > 0 {
				pend = append(pend, es)
				c.stat("failed_fsync_batches")
			}
		} else {
			if len(pend) > 0 {
				c.stat("write_over_failed_batch")
			}
			pend = nil
		}
	}
	ops := f[6:]
	for i := 0; i < len(ops); i++ {
		switch ops[i] {
		case "A":
			k := int(parseU(ops[i+1]))
			es := make([]types.LogEntry, k)
			for j := 0; j < k; j++ {
				es[j] = types.LogEntry{Index: parseU(ops[i+2+2*j]), Data: parseHex(ops[i+3+2*j])}
			}
			i += 1 + 2*k
			if sw == nil {
				out = append(out, "badinput")
				continue
			}
			before := append([]byte(nil), mf.data...)
			err := sw.Append(es)
			out = append(out, segErrKind(err))
			noteWrite(before, es, err)
			if err == nil {
				for _, e := range es {
					acked[e.Index] = hx(e.Data)
				}
				// C15 oracle: whatever was accepted is readable right away
				for _, e := range es {
					pb, gerr := sw.GetLog(e.Index)
					if gerr != nil || hx(pb.Bs) != hx(e.Data) {
						c.witness("C15", "acked-unreadable", fmt.Sprintf("entry %d (%d bytes) acknowledged but GetLog fails: %v", e.Index, len(e.Data), gerr), line)
					}
					if gerr == nil {
						pb.Close()
					}
				}
			}
		case "S":
			if sw == nil {
				out = append(out, "badinput")
				continue
			}
			before := append([]byte(nil), mf.data...)
			is, err := sw.ForceSeal()
			if err != nil {
				out = append(out, segErrKind(err))
			} else {
				out = append(out, fmt.Sprintf("ok:%x", is))
			}
			// a force-seal writes an index frame and a commit frame: no entries, but it
			// covers the start of a failed batch like an append does
			noteWrite(before, nil, err)
		case "Q":
			sealed, is, _ := sw.Sealed()
			if sealed {
				out = append(out, fmt.Sprintf("1:%x", is))
			} else {
				out = append(out, "0")
			}
		case "L":
			out = append(out, fmt.Sprintf("%x", sw.LastIndex()))
		case "G":
			idx := parseU(ops[i+1])
			i++
			if rd == nil {
				out = append(out, "badinput")
				continue
			}
			var pb *types.PooledBuffer
			var err error
			if c.measure {
				measured(c, "GetLog", len(mf.data), line, func() { pb, err = rd.GetLog(idx) })
			} else {
				pb, err = rd.GetLog(idx)
			}
			if err != nil {
				out = append(out, segErrKind(err))
			} else {
				out = append(out, "ok:"+hx(pb.Bs))
				pb.Close()
			}
		case "R":
			var nsw types.SegmentWriter
			var err error
			if c.measure {
				measured(c, "RecoverTail", len(mf.data), line, func() { nsw, err = filer.RecoverTail(info) })
			} else {
				nsw, err = filer.RecoverTail(info)
			}
			if err != nil {
				out = append(out, segErrKind(err))
				rd = nil
				recoveryMustSucceed(c, "restart", err, line)
			} else {
				out = append(out, "ok")
				sw, rd = nsw, nsw
				checkRecovered(false)
			}
		case "C":
			mask, _ := new(big.Int).SetString(ops[i+1], 16)
			i++
			old, cur := mf.pre, mf.data
			n := len(old)
			if len(cur) > n {
				n = len(cur)
			}
			img := make([]byte, n)
			oldp := append(append([]byte(nil), old...), make([]byte, n-len(old))...)
			curp := append(append([]byte(nil), cur...), make([]byte, n-len(cur))...)
			for k := 0; k*8 < n; k++ {
				src := oldp
				if mask.Bit(k) == 1 {
					src = curp
				}
				end := k*8 + 8
				if end > n {
					end = n
				}
				copy(img[k*8:end], src[k*8:end])
			}
			// C02: evaluate no_torn_collision on this image (see coq/Seg/RecoverFacts.v):
			// image incomplete, commit chunk present, CRC of the rest equal
			if mf.lastLen >= 8 && mf.lastOff+mf.lastLen <= n {
				lo, hi := mf.lastOff, mf.lastOff+mf.lastLen
				if !bytes.Equal(img[lo:hi], curp[lo:hi]) && bytes.Equal(img[hi-8:hi], curp[hi-8:hi]) &&
					crc32.Checksum(img[lo:hi-8], crcTab) == crc32.Checksum(curp[lo:hi-8], crcTab) {
					c.stat("torn_collision")
				} else {
					c.stat("torn_no_collision")
				}
				if bytes.Equal(img[lo:hi], curp[lo:hi]) {
					c.stat("torn_complete")
				}
			}
			mf.data, mf.pre = img, append([]byte(nil), img...)
			// the crash loses the process: forget acks that were not synced?  Appends
			// in this stream always sync, so every acked entry must survive (oracle below).
			nsw, err := filer.RecoverTail(info)
			if err != nil {
				out = append(out, segErrKind(err))
				rd = nil
				recoveryMustSucceed(c, "power loss", err, line)
			} else {
				out = append(out, "ok")
				sw, rd = nsw, nsw
				checkRecovered(true)
			}
		case "O":
			mn, mx := parseU(ops[i+1]), parseU(ops[i+2])
			i += 2
			_, is, _ := sw.Sealed()
			info2 := info
			info2.MinIndex, info2.MaxIndex, info2.IndexStart = mn, mx, is
			var r types.SegmentReader
			var err error
			if c.measure {
				measured(c, "Open", len(mf.data), line, func() { r, err = filer.Open(info2) })
			} else {
				r, err = filer.Open(info2)
			}
			if err != nil {
				out = append(out, segErrKind(err))
				rd = nil
			} else {
				out = append(out, "ok")
				rd = r
			}
		case "X":
			off, bs := int(parseU(ops[i+1])), parseHex(ops[i+2])
			i += 2
			damaged = true
			if off+len(bs) > len(mf.data) {
				mf.data = append(mf.data, make([]byte, off+len(bs)-len(mf.data))...)
			}
			copy(mf.data[off:], bs)
		case "T":
			n := int(parseU(ops[i+1]))
			i++
			damaged = true
			if n < len(mf.data) {
				mf.data = mf.data[:n]
			}
		case "E":
			switch ops[i+1] {
			case "w":
				vfs.failWrite = true
			case "p":
				vfs.failShort = true
			default:
				vfs.failSync = true
			}
			armed = ops[i+1]
			i++
		case "F":
			out = append(out, hx(stripZeros(mf.data)))
		case "D":
			after, before := parseU(ops[i+1]), parseU(ops[i+2])
			i += 2
			var es []string
			var err error
			dump := func() {
				err = filer.DumpSegment(base, id, after, before, func(_ types.SegmentInfo, e types.LogEntry) (bool, error) {
					es = append(es, fmt.Sprintf("%x:%s", e.Index, hx(e.Data)))
					return true, nil
				})
			}
			if c.measure {
				// the hex rendering of the observation is the harness's own allocation
				n := 0
				measured(c, "DumpSegment", len(mf.data), line, func() {
					err = filer.DumpSegment(base, id, after, before, func(_ types.SegmentInfo, e types.LogEntry) (bool, error) {
						n++
						return true, nil
					})
				})
				dump()
			} else {
				dump()
			}
			k := "ok"
			if err != nil {
				k = "err"
			}
			out = append(out, k+":"+strings.Join(es, " "))
		default:
			out = append(out, "badinput")
		}
	}
	return strings.Join(out, " ")
}

// recoveryMustSucceed (C03): in the segcrash stream every file handed to RecoverTail is what
// successful appends, failed appends and the tearing of the last write leave behind -- never
// damage to acknowledged bytes -- so tail recovery has no reason to fail.
func recoveryMustSucceed(c *ctx, how string, err error, line string) {
	if c.stream == "segcrash" {
		c.witness("C03", "recovery-fails-on-crash-state", fmt.Sprintf("RecoverTail after a %s fails on a file that appends, failed appends and a torn last write left behind: %v", how, err), line)
	}
}

// ---- generators -----------------------------------------------------------

var sizeClasses = []int{0, 1, 2, 3, 4, 5, 6, 7, 8, 9, 15, 16, 17, 23, 24, 25, 31, 32, 33, 63, 64, 65, 100, 127, 128, 129, 255, 256, 257, 500, 1000}

func payload(r *rand.Rand, n int) string {
	b := make([]byte, n)
	r.Read(b)
	if r.Intn(4) == 0 { // payloads that look like frames / zeros
		for i := range b {
			b[i] = []byte{0, 1, 2, 3, 0, 0xff}[r.Intn(6)]
		}
	}
	return hx(b)
}

func genBatch(r *rand.Rand, next *uint64, maxSize int) string {
	k := 1 + r.Intn(4)
	if r.Intn(5) == 0 {
		k = 1 + r.Intn(12)
	}
	var sb strings.Builder
	fmt.Fprintf(&sb, "A %x", k)
	for j := 0; j < k; j++ {
		n := sizeClasses[r.Intn(len(sizeClasses))]
		if n > maxSize {
			n = r.Intn(maxSize + 1)
		}
		fmt.Fprintf(&sb, " %x %s", *next, payload(r, n))
		*next++
	}
	return sb.String()
}

func segHeader(r *rand.Rand) (string, uint64, int) {
	base := uint64(1)
	switch r.Intn(4) {
	case 0:
		base = uint64(1 + r.Intn(1000))
	case 1:
		base = r.Uint64()>>uint(r.Intn(40)) + 1
	}
	limit := []int{64, 128, 256, 512, 1024, 4096, 16384}[r.Intn(7)]
	codec := uint64(1)
	if r.Intn(4) == 0 {
		codec = r.Uint64()
	}
	return fmt.Sprintf("seg %x %x %x %x %x", base, r.Uint64()>>uint(r.Intn(64)), codec, limit, limit), base, limit
}

// format: appends of all padding residues, sealing by size and by force, reads
// through the tail reader and the sealed reader, file dump.
func genFormat(c *ctx, emit func(string)) {
	r := rand.New(rand.NewSource(c.seed))
	// one batch above 8 MiB (implementation only): exactly one commit frame per batch
	emit(fmt.Sprintf("#big %x", 9<<20))
	emit(fmt.Sprintf("#bigmid %x", 9<<20))
	for i := 0; i < c.n; i++ {
		hdr, base, limit := segHeader(r)
		next := base
		ops := []string{hdr}
		nb := 1 + r.Intn(6)
		for b := 0; b < nb; b++ {
			ops = append(ops, genBatch(r, &next, limit*2), "Q", "L")
			if r.Intn(3) == 0 {
				ops = append(ops, fmt.Sprintf("G %x", base+uint64(r.Intn(int(next-base)+2))))
			}
		}
		switch r.Intn(6) {
		case 4: // a failed append, then the same indexes again
			e := []string{"w", "s", "p"}[r.Intn(3)]
			save := next
			ops = append(ops, "E "+e, genBatch(r, &next, limit), "L", "Q")
			next = save
			ops = append(ops, genBatch(r, &next, limit), "L", "Q")
		case 5: // a failed force-seal, then the retry
			ops = append(ops, "E "+[]string{"w", "s", "p"}[r.Intn(3)], "S", "Q", "S", "Q")
		case 0:
			ops = append(ops, "S", "Q")
		case 1: // non-monotonic / empty batch probes
			ops = append(ops, fmt.Sprintf("A 1 %x %s", next+1+uint64(r.Intn(3)), payload(r, 5)), "L")
		}
		ops = append(ops, "F")
		for j := base; j < next && j < base+40; j++ {
			ops = append(ops, fmt.Sprintf("G %x", j))
		}
		ops = append(ops, fmt.Sprintf("G %x", next), fmt.Sprintf("G %x", base-1))
		ops = append(ops, "S", fmt.Sprintf("O %x %x", base+uint64(r.Intn(2)), next-1))
		for j := base; j < next && j < base+40; j++ {
			ops = append(ops, fmt.Sprintf("G %x", j))
		}
		ops = append(ops, fmt.Sprintf("G %x", next), "D 0 0", "R", "Q", "L")
		emit(strings.Join(ops, " "))
	}
}

// segcrash: chains of append / torn write / recover / shorter re-append / torn
// write again; the oracle is that recovery returns a prefix of what was
// submitted with the in-flight batch whole or absent (checked by the model
// comparison and by the L1 theorem).
func genSegCrash(c *ctx, emit func(string)) {
	r := rand.New(rand.NewSource(c.seed))
	// one batch above 8 MiB must be ONE commit (implementation only): otherwise a crash
	// between its pieces leaves a valid prefix of a batch that was never acknowledged
	emit(fmt.Sprintf("#bigmid %x", 9<<20))
	// zero-run scenarios: a committed batch, then a batch whose only entry is a long run of
	// zero bytes (longer than recovery's 64 KiB scrub buffer); the crash loses the 8-byte entry
	// header but keeps the trailing commit frame: behind the valid chain lie > 64 KiB of zeros
	// and then a stale frame, which recovery must scrub too
	for _, z := range []int{65536 + 8*r.Intn(64), 70000 + 8*r.Intn(1000), 131072 + 8*r.Intn(16)} {
		limit := 262144
		base := uint64(1 + r.Intn(1000))
		first := 1 + r.Intn(40)
		ops := []string{fmt.Sprintf("seg %x %x 1 %x %x", base, r.Uint64()>>uint(r.Intn(64)), limit, limit),
			fmt.Sprintf("A 1 %x %s", base, payload(r, first)),
			fmt.Sprintf("A 1 %x %s", base+1, hx(make([]byte, z)))}
		o1 := 32 + 8 + first + (8-first%8)%8 + 8 // file header, first entry frame, its commit frame
		mask := new(big.Int)
		for k := 0; k < limit/8+64; k++ {
			mask.SetBit(mask, k, 1)
		}
		mask.SetBit(mask, o1/8, 0)
		ops = append(ops, "C "+mask.Text(16), "L", "Q", fmt.Sprintf("G %x", base), fmt.Sprintf("G %x", base+1), "F",
			fmt.Sprintf("A 1 %x %s", base+1, payload(r, 24)), "L", "Q", "F", "D 0 0")
		emit(strings.Join(ops, " "))
		c.stat("zero_run_scenarios")
	}
	// failed-append scenarios (C10 byte level, coq/Seg/FailFacts.v): a long batch whose
	// fsync fails, a shorter one whose fsync fails, an even shorter one that succeeds,
	// frame boundaries chosen to coincide; then recovery with and without a crash image
	nfail := 24
	if c.tier == "thorough" {
		nfail = 400
	}
	for i := 0; i < nfail; i++ {
		emit(genFailChain(r, c, i))
	}
	// the SEALING batch is torn: everything of it reaches the disk (entry frames, index frame)
	// except one chunk -- its commit frame, the index frame header, or one chunk of the index
	// array.  The batch was never acknowledged: recovery must return the tail unsealed without
	// it (an index frame not covered by a verified commit frame means nothing).  Then the same
	// indexes are appended again, a restart, reads.
	for k := 0; k < 9; k++ {
		limit := 256
		base := uint64(1 + r.Intn(1000))
		ops := []string{fmt.Sprintf("seg %x %x 1 %x %x", base, r.Uint64()>>uint(r.Intn(64)), limit, limit)}
		pre := []int{8 + 8*r.Intn(5)}
		ops = append(ops, batchOf(r, base, pre))
		pos := 32 + frameLen(pre[0]) + 8
		big := []int{40, 48, 56, 40 + 8*r.Intn(4), 48}[:4+k%2] // > 256 bytes of frames: seals
		ops = append(ops, batchOf(r, base+1, big), "L", "Q")
		end := pos
		for _, n := range big {
			end += frameLen(n)
		}
		idxOff := end                          // index frame header
		end += frameLen(4 * (1 + len(big)))    // index frame: one slot per entry of the segment
		commitChunk := end / 8                 // the commit frame follows
		m := allOnes(limit + 512)
		switch k % 3 {
		case 0:
			m.SetBit(m, commitChunk, 0)
		case 1:
			m.SetBit(m, idxOff/8, 0)
		default:
			m.SetBit(m, idxOff/8+1, 0)
		}
		ops = append(ops, "C "+m.Text(16), "L", "Q")
		for idx := base; idx < base+uint64(len(big))+2; idx++ {
			ops = append(ops, fmt.Sprintf("G %x", idx))
		}
		ops = append(ops, "F", batchOf(r, base+1, []int{16, 24}), "L", "Q", "R", "L", "Q",
			fmt.Sprintf("G %x", base), fmt.Sprintf("G %x", base+1), fmt.Sprintf("G %x", base+2), "F", "D 0 0")
		emit(strings.Join(ops, " "))
		c.stat("torn_sealing_batch")
	}
	// a segment of more than 64 KiB filled by equal batches whose sealing batch grows the file
	// past its preallocation: the file ENDS right behind the sealing commit frame, on a multiple
	// of the batch size (implementation only: recovery must not read anything behind the end)
	for _, a := range []string{"3f0 3fb88", "3f0 3fb00", "7f0 ff400", "1f0 3fb88"} {
		emit("#sealeof " + a)
	}
	// the same with 4..7 failed appends in a row (L stale commit frames behind the good one)
	for i := 0; i < nfail/4; i++ {
		emit(genFailChainLong(r, c))
	}
	// failed SEALING batch (its index frame and sealing commit stay in the file behind the
	// valid chain), then a batch with a different number of entries that fits and succeeds:
	// recovery walks over a stale index frame whose length matches nothing before it
	for k := 0; k < 6; k++ {
		limit := 256
		base := uint64(1 + r.Intn(1000))
		ops := []string{fmt.Sprintf("seg %x %x 1 %x %x", base, r.Uint64()>>uint(r.Intn(64)), limit, limit),
			batchOf(r, base, []int{8 + 8*r.Intn(3)})}
		big := []int{40, 48, 56, 40 + 8*r.Intn(4), 48, 40}[:4+k%3] // > 256 bytes of frames: seals
		ops = append(ops, []string{"E s", "E w", "E s", "E w", "E p", "E p"}[k], batchOf(r, base+1, big), "L", "Q")
		// fits and succeeds unsealed; its frames + commit frame end exactly where the first frame
		// of the failed batch (payload 40: 48 bytes) ended, so the scan walks on into the stale
		// frames: two entries in the place of one (the stale index frame then has one slot too
		// few for the entries before it), or one
		small := [][]int{{8, 16}, {32}}[k%2]
		ops = append(ops, batchOf(r, base+1, small), "L", "Q")
		if k >= 2 {
			ops = append(ops, "C "+allOnes(limit).Text(16))
		} else {
			ops = append(ops, "R")
		}
		ops = append(ops, "L", "Q", fmt.Sprintf("G %x", base+1), fmt.Sprintf("G %x", base+2), fmt.Sprintf("G %x", base+3),
			batchOf(r, base+1+uint64(len(small)), []int{8}), "L", "Q", "F", "D 0 0")
		emit(strings.Join(ops, " "))
		c.stat("failed_sealing_batch_scenarios")
	}
	// torn SEALING batch behind an acknowledged one (always emitted): batch 1 is committed, the
	// next batch fills the segment, so index frame and sealing commit go out in the same write;
	// power fails with everything on disk except one payload chunk.  Recovery must rewind to
	// batch 1 AND forget the seal (indexStart of the discarded batch), accept further appends,
	// and a later seal must record its own index offset.
	for k := 0; k < 3; k++ {
		limit := []int{1024, 4096, 16384}[k]
		base := uint64(1 + r.Intn(1000))
		n := limit/2 + 64
		ops := []string{fmt.Sprintf("seg %x %x 1 %x %x", base, r.Uint64()>>uint(r.Intn(64)), limit, limit),
			fmt.Sprintf("A 1 %x %s", base, payload(r, 24)),
			fmt.Sprintf("A 2 %x %s %x %s", base+1, payload(r, n), base+2, payload(r, n))}
		first := 32 + 8 + 24 + 8 // header, entry frame of 24 bytes, commit
		mask := new(big.Int)
		for j := 0; j < (first+2*(n+16)+128)/8+64; j++ {
			mask.SetBit(mask, j, 1)
		}
		mask.SetBit(mask, first/8+2+r.Intn(n/8-2), 0) // one payload chunk of the first entry of the sealing batch
		ops = append(ops, "C "+mask.Text(16), "L", "Q", fmt.Sprintf("G %x", base), fmt.Sprintf("G %x", base+1),
			fmt.Sprintf("A 1 %x %s", base+1, payload(r, 9)), "L", "Q", "S", "L", "Q", "F", "D 0 0")
		emit(strings.Join(ops, " "))
		c.stat("torn_sealing_batch_scenarios")
	}
	for i := 0; i < c.n; i++ {
		if r.Intn(5) == 0 {
			emit(genFailMix(r, c))
			continue
		}
		hdr, base, limit := segHeader(r)
		if limit < 512 {
			limit = 4096
			hdr = fmt.Sprintf("seg %x %x 1 %x %x", base, r.Uint64()>>uint(r.Intn(64)), limit, limit)
		}
		next := base
		ops := []string{hdr}
		depth := 1 + r.Intn(3)
		if r.Intn(5) == 0 {
			// the very first batch is big enough to seal the segment on its own and is torn
			// with its index and commit frames on disk but part of an entry missing
			n := limit/2 + 64
			b1 := payload(r, n)
			b2 := payload(r, n)
			ops = append(ops, fmt.Sprintf("A 2 %x %s %x %s", next, b1, next+1, b2))
			nchunks := (32 + 2*(n+16) + 64) / 8
			mask := new(big.Int)
			for k := 0; k < nchunks+64; k++ {
				mask.SetBit(mask, k, 1)
			}
			mask.SetBit(mask, 5+r.Intn(n/8), 0) // one payload chunk of the first entry is lost
			ops = append(ops, "C "+mask.Text(16), "L", "Q", fmt.Sprintf("G %x", next), fmt.Sprintf("A 1 %x %s", next, payload(r, 9)), "L", "Q", "F", "D 0 0")
			emit(strings.Join(ops, " "))
			continue
		}
		for d := 0; d < depth; d++ {
			for b := r.Intn(3); b > 0; b-- {
				ops = append(ops, genBatch(r, &next, 64))
			}
			before := next
			ops = append(ops, genBatch(r, &next, 80))
			// chunk mask over the whole file: random subset, biased to "almost all" / "almost none"
			nchunks := limit/8 + 64
			mask := new(big.Int)
			mode := r.Intn(5)
			for k := 0; k < nchunks; k++ {
				bit := r.Intn(2) == 0
				switch mode {
				case 0:
					bit = true
				case 1:
					bit = r.Intn(8) != 0
				case 2:
					bit = r.Intn(8) == 0
				case 3:
					bit = false
				}
				if bit {
					mask.SetBit(mask, k, 1)
				}
			}
			ops = append(ops, "C "+mask.Text(16), "L", "Q")
			// we do not know whether the batch survived; continue from what recovery says:
			// emit reads for both candidates and re-append from `before` in a separate line
			// shape: the generator keeps determinism by always probing both indexes.
			ops = append(ops, fmt.Sprintf("G %x", before), fmt.Sprintf("G %x", next-1))
			if mode != 0 {
				next = before // almost surely discarded: re-append shorter content at the same indexes
				if mode == 1 || mode == 2 {
					// unknown outcome: stop this chain here to keep the line deterministic
					break
				}
			}
		}
		ops = append(ops, "F", "D 0 0")
		emit(strings.Join(ops, " "))
	}
}

// frameLen is the size of an entry frame with an n-byte payload: 8-byte header,
// payload, padding to a multiple of 8.  A commit frame is 8 bytes.
func frameLen(n int) int { return 8 + n + (8-n%8)%8 }

// plainPayload: random bytes, none of which is a frame type (so that a remnant
// never parses as frames by accident; the aligned scenarios do it on purpose)
func plainPayload(r *rand.Rand, n int) string {
	b := make([]byte, n)
	for i := range b {
		b[i] = byte(4 + r.Intn(252))
	}
	return hx(b)
}

func batchOf(r *rand.Rand, first uint64, sizes []int) string {
	var sb strings.Builder
	fmt.Fprintf(&sb, "A %x", len(sizes))
	for j, n := range sizes {
		fmt.Fprintf(&sb, " %x %s", first+uint64(j), plainPayload(r, n))
	}
	return sb.String()
}

// allOnes is a crash mask that keeps every chunk of a file of the given size limit
func allOnes(limit int) *big.Int {
	m := new(big.Int)
	for k := 0; k < limit/8+64; k++ {
		m.SetBit(m, k, 1)
	}
	return m
}

// genFailChain: [acknowledged batches] a (fsync fails) b (shorter, fsync fails) c (even
// shorter, succeeds) with coinciding frame boundaries: b has the first j frames of a,
// the j-th 8 bytes shorter, so b's commit frame ends where a's frame j+1 begins; c
// likewise inside b.  Behind the commit of c lie [rest of b][commit b][rest of a]
// [commit a], all on frame boundaries.  Then recovery (R, or C with a crash mask over
// the last write), reads, and -- when the outcome is known -- one more append.
func genFailChain(r *rand.Rand, c *ctx, variant int) string {
	limit := []int{4096, 16384}[r.Intn(2)]
	base := uint64(1 + r.Intn(1000))
	ops := []string{fmt.Sprintf("seg %x %x 1 %x %x", base, r.Uint64()>>uint(r.Intn(64)), limit, limit)}
	next := base
	pos := 0 // offset of the next write
	npre := r.Intn(3)
	if variant%6 == 5 {
		npre = 0 // the failed batches carry the file header
	}
	for b := 0; b < npre; b++ {
		n := 1 + r.Intn(40)
		ops = append(ops, batchOf(r, next, []int{n}))
		if pos == 0 {
			pos = 32
		}
		pos += frameLen(n) + 8
		next++
	}
	if pos == 0 {
		pos = 32 // header, written with the first batch
		c.stat("failchain_with_header")
	}
	ka := 3 + r.Intn(3)
	sa := make([]int, ka)
	for k := range sa {
		sa[k] = 17 + r.Intn(48)
	}
	j := 2 + r.Intn(ka-2) // b has j entries, 2 <= j < ka
	sb := append([]int(nil), sa[:j]...)
	sb[j-1] -= 8
	i := 1 + r.Intn(j) // c has i entries, 1 <= i <= j
	if variant%4 == 0 && i == j {
		i = j - 1 // the classic shape: an entry frame of b survives behind c
	}
	sc := append([]int(nil), sb[:i]...)
	sc[i-1] -= 8
	fa, fb := "E s", "E s"
	switch variant % 8 {
	case 6:
		fa = "E w" // a never reaches the file
	case 7:
		fb = "E w"
	case 3:
		fb = "E p" // b is written to its first half only, over the start of a
	case 2:
		if variant%16 == 10 {
			fa = "E p" // only the first half of a is in the file
		}
	}
	cFails := variant%5 == 4
	cShort := cFails && variant%2 == 1 // c fails with a short write: nothing of it may be recovered
	ops = append(ops, fa, batchOf(r, next, sa), "L", fb, batchOf(r, next, sb), "L")
	if cShort {
		ops = append(ops, "E p", batchOf(r, next, sc), "L")
		c.stat("failchain_short_last")
	} else if cFails {
		ops = append(ops, "E s", batchOf(r, next, sc), "L")
	} else {
		ops = append(ops, batchOf(r, next, sc), "L")
	}
	lenC := 8
	for _, n := range sc {
		lenC += frameLen(n)
	}
	known := !cShort // do we know what recovery returns?
	switch variant % 3 {
	case 0:
		ops = append(ops, "R")
		c.stat("failchain_restart")
	case 1:
		ops = append(ops, "C "+allOnes(limit).Text(16))
		c.stat("failchain_crash_complete")
	default:
		// crash image of the last write (c): lose its commit chunk, its first chunk, a
		// random subset, or everything
		m := allOnes(limit)
		lo, hi := pos/8, (pos+lenC)/8
		if pos == 32 {
			lo = 0 // c carries the file header
		}
		switch r.Intn(4) {
		case 0:
			m.SetBit(m, hi-1, 0)
		case 1:
			m.SetBit(m, lo, 0)
		case 2:
			for k := lo; k < hi; k++ {
				if r.Intn(3) == 0 {
					m.SetBit(m, k, 0)
				}
			}
		default:
			for k := lo; k < hi; k++ {
				m.SetBit(m, k, 0)
			}
		}
		ops = append(ops, "C "+m.Text(16))
		known = false
		c.stat("failchain_crash_torn")
	}
	ops = append(ops, "L", "Q")
	for idx := base; idx < next+uint64(ka)+1; idx++ {
		ops = append(ops, fmt.Sprintf("G %x", idx))
	}
	ops = append(ops, "F")
	if known {
		// c (acknowledged, or failed but complete in the file) is there: LastIndex is
		// c's last index and the next append continues behind it
		after := next + uint64(i)
		ops = append(ops, batchOf(r, after, []int{1 + r.Intn(24)}), "L", "R", "L", fmt.Sprintf("G %x", after), "F")
	}
	ops = append(ops, "D 0 0")
	return strings.Join(ops, " ")
}

// genFailChainLong: like genFailChain but with L = 4..7 appends in a row whose fsync fails, each
// one frame shorter than the one before and ending on a frame boundary of it, then a still
// shorter batch that succeeds: behind the commit frame of the acknowledged batch lie L stale
// commit frames, all on frame boundaries (a recovery that looks back over a bounded number of
// commit frames only finds stale ones).  Then a restart, reads, one more append, a restart.
func genFailChainLong(r *rand.Rand, c *ctx) string {
	limit := []int{8192, 16384}[r.Intn(2)]
	base := uint64(1 + r.Intn(1000))
	ops := []string{fmt.Sprintf("seg %x %x 1 %x %x", base, r.Uint64()>>uint(r.Intn(64)), limit, limit)}
	next := base
	for b, npre := 0, r.Intn(3); b < npre; b++ {
		ops = append(ops, batchOf(r, next, []int{1 + r.Intn(40)}))
		next++
	}
	L := 4 + r.Intn(4)
	k := L + 2 + r.Intn(2)
	cur := make([]int, k)
	for i := range cur {
		cur[i] = 17 + r.Intn(48)
	}
	for f := 0; f < L; f++ {
		ops = append(ops, "E s", batchOf(r, next, cur), "L")
		cur = append([]int(nil), cur[:len(cur)-1]...)
		cur[len(cur)-1] -= 8
	}
	ops = append(ops, batchOf(r, next, cur), "L", "R", "L", "Q")
	for idx := base; idx < next+uint64(k)+1; idx++ {
		ops = append(ops, fmt.Sprintf("G %x", idx))
	}
	ops = append(ops, "F")
	after := next + uint64(len(cur))
	ops = append(ops, batchOf(r, after, []int{1 + r.Intn(24)}), "L", "R", "L", fmt.Sprintf("G %x", after), "F", "D 0 0")
	c.stat("failchain_long")
	return strings.Join(ops, " ")
}

// genFailMix: a random sequence of appends, each succeeding or failing in its write
// or its fsync (the failed ones rolled back: the next batch starts at the same index),
// sizes in multiples of 8 so that frame boundaries often coincide; then a restart or a
// crash image of the last write; reads.
func genFailMix(r *rand.Rand, c *ctx) string {
	limit := 4096
	base := uint64(1 + r.Intn(1000))
	ops := []string{fmt.Sprintf("seg %x %x 1 %x %x", base, r.Uint64()>>uint(r.Intn(64)), limit, limit)}
	next := base
	maxNext := next
	n := 3 + r.Intn(6)
	for b := 0; b < n; b++ {
		k := 1 + r.Intn(4)
		sizes := make([]int, k)
		for x := range sizes {
			sizes[x] = 8 * (1 + r.Intn(5))
			if r.Intn(4) == 0 {
				sizes[x] = 1 + r.Intn(40)
			}
		}
		switch r.Intn(6) {
		case 0, 1:
			ops = append(ops, "E s", batchOf(r, next, sizes))
		case 2:
			ops = append(ops, "E w", batchOf(r, next, sizes))
		case 3:
			ops = append(ops, "E p", batchOf(r, next, sizes))
		default:
			ops = append(ops, batchOf(r, next, sizes))
			next += uint64(k)
		}
		if next+uint64(k) > maxNext {
			maxNext = next + uint64(k)
		}
		if r.Intn(3) == 0 {
			ops = append(ops, "L")
		}
	}
	if r.Intn(2) == 0 {
		ops = append(ops, "R")
	} else {
		m := new(big.Int)
		mode := r.Intn(4)
		for k := 0; k < limit/8+64; k++ {
			bit := true
			switch mode {
			case 1:
				bit = r.Intn(6) != 0
			case 2:
				bit = r.Intn(2) == 0
			case 3:
				bit = false
			}
			if bit {
				m.SetBit(m, k, 1)
			}
		}
		ops = append(ops, "C "+m.Text(16))
	}
	ops = append(ops, "L", "Q")
	for idx := base; idx <= maxNext; idx++ {
		ops = append(ops, fmt.Sprintf("G %x", idx))
	}
	ops = append(ops, "F", "D 0 0")
	c.stat("failmix_lines")
	return strings.Join(ops, " ")
}

// corrupt: valid files damaged by bit flips, splices, truncation, length edits,
// zero runs; then recovery / sealed open / reads / dump.
func genCorrupt(c *ctx, emit func(string)) {
	r := rand.New(rand.NewSource(c.seed))
	for i := 0; i < c.n; i++ {
		hdr, base, _ := segHeader(r)
		next := base
		ops := []string{hdr}
		nb := 1 + r.Intn(4)
		for b := 0; b < nb; b++ {
			ops = append(ops, genBatch(r, &next, 120))
		}
		sealedFirst := r.Intn(2) == 0
		if sealedFirst {
			ops = append(ops, "S")
		}
		used := 32 + int(next-base)*64
		nm := 1 + r.Intn(3)
		for m := 0; m < nm; m++ {
			off := r.Intn(used + 16)
			switch r.Intn(7) {
			case 6: // length field of the first entry frame (always at offset 32): the sealed
				// reader reaches it through the index and must bound its allocation
				l := []string{"ffffffff", "01000004", "00000004", "00000100", "f0ffffff", "ffff0000"}[r.Intn(6)]
				ops = append(ops, "X 24 "+l)
				c.stat("first_frame_length_edit")
			case 0:
				ops = append(ops, fmt.Sprintf("X %x %02x", off, 1<<uint(r.Intn(8))))
			case 1:
				ops = append(ops, fmt.Sprintf("X %x %s", off&^7, payload(r, 8)))
			case 2:
				ops = append(ops, fmt.Sprintf("T %x", off))
			case 3: // length-field edit: huge / MaxEntrySize+1 / small
				l := []string{"ffffffff", "01000004", "00000004", "10000000", "08000000"}[r.Intn(5)]
				ops = append(ops, fmt.Sprintf("X %x %s", (off&^7)+4, l))
			case 4:
				ops = append(ops, fmt.Sprintf("X %x %s", off&^7, strings.Repeat("00", 8*(1+r.Intn(4)))))
			default: // frame-type byte
				ops = append(ops, fmt.Sprintf("X %x %02x", off&^7, r.Intn(6)))
			}
		}
		if sealedFirst {
			ops = append(ops, fmt.Sprintf("O %x %x", base, next-1))
		} else {
			ops = append(ops, "R", "Q", "L")
		}
		for j := base; j < next && j < base+12; j++ {
			ops = append(ops, fmt.Sprintf("G %x", j))
		}
		ops = append(ops, "D 0 0")
		emit(strings.Join(ops, " "))
	}
}

// ---- sizes (C15): entry-size boundaries ------------------------------------
//
// Neighbourhoods listed by the property: 0 and all residues mod 8; the 64 KiB
// read buffer +-16 (frame = 8 + payload, so payloads 65512..65544); the segment
// size limit +- frame overhead, and entries larger than the whole segment;
// first / middle / last position in a batch.  64 MiB +-1 are implementation-only
// lines (`#big <size>`), thorough tier, checked by the Go oracle alone.

func sizedPayload(r *rand.Rand, n int) string {
	b := make([]byte, n)
	r.Read(b)
	return hx(b)
}

// one `seg` line: a batch with the given payload sizes, reads through the tail
// reader, seal (if the append did not seal), reads through the sealed reader,
// recovery, reads again
func sizesLine(r *rand.Rand, base uint64, limit int, pre []int, batch []int) string {
	ops := []string{fmt.Sprintf("seg %x %x 1 %x %x", base, r.Uint64()>>uint(r.Intn(64)), limit, limit)}
	next := base
	if len(pre) > 0 {
		a := fmt.Sprintf("A %x", len(pre))
		for _, n := range pre {
			a += fmt.Sprintf(" %x %s", next, sizedPayload(r, n))
			next++
		}
		ops = append(ops, a)
	}
	a := fmt.Sprintf("A %x", len(batch))
	for _, n := range batch {
		a += fmt.Sprintf(" %x %s", next, sizedPayload(r, n))
		next++
	}
	ops = append(ops, a, "Q", "L")
	for j := base; j < next; j++ {
		ops = append(ops, fmt.Sprintf("G %x", j))
	}
	ops = append(ops, "S", fmt.Sprintf("O %x %x", base, next-1))
	for j := base; j < next; j++ {
		ops = append(ops, fmt.Sprintf("G %x", j))
	}
	ops = append(ops, "R", "Q", "L", fmt.Sprintf("G %x", next-1))
	return strings.Join(ops, " ")
}

func genSizes(c *ctx, emit func(string)) {
	r := rand.New(rand.NewSource(c.seed))
	count := 0
	out := func(l string) { emit(l); count++ }
	place := func(pos, big int) []int { // big at position pos of a 3-batch
		b := []int{3, 11, 0}
		b[pos] = big
		return b
	}
	// A. 0 and every residue mod 8, alone and in each position
	for sz := 0; sz <= 17; sz++ {
		out(sizesLine(r, 1, 4096, nil, []int{sz}))
		out(sizesLine(r, uint64(1+r.Intn(50)), 4096, []int{5}, place(sz%3, sz)))
		c.stat("residues")
	}
	// C. segment size limit +- frame overhead; larger than the whole segment
	for _, L := range []int{256, 512, 1024} {
		// first batch seals iff 32 + 8 + sz + pad + 16 > L
		for d := -10; d <= 10; d++ {
			sz := L - 56 + d
			out(sizesLine(r, 1, L, nil, []int{sz}))
			c.stat("segment_boundary")
		}
		for d := -9; d <= 9; d += 3 { // second batch crossing the limit
			out(sizesLine(r, 7, L, []int{L / 4}, place((d+9)/3%3, L-L/4-100+d)))
			c.stat("segment_boundary")
		}
		for _, sz := range []int{L, L + 1, 2 * L, 3*L + 5} {
			out(sizesLine(r, 3, L, nil, place(sz%3, sz)))
			out(sizesLine(r, 3, L, []int{9}, []int{sz}))
			c.stat("larger_than_segment")
		}
	}
	// B. the 64 KiB read buffer: payloads 65512..65544 (frames 65520..65552)
	var bigs []int
	for sz := 65512; sz <= 65544; sz++ {
		bigs = append(bigs, sz)
	}
	if c.tier != "thorough" {
		// the model side costs ~3 s per 64 KiB line: quick keeps the sizes at which a
		// frame / payload / payload+header crosses 65536 and the ends of the window
		bigs = []int{65512, 65520, 65527, 65528, 65529, 65530, 65535, 65536, 65537, 65544}
	}
	nbig := len(bigs)
	step := len(bigs) / nbig
	for k := 0; k < nbig; k++ {
		sz := bigs[(k*step+int(c.seed))%len(bigs)]
		if k == 0 {
			sz = 65528 // frame of exactly 64 KiB
		}
		limit := []int{1 << 20, 4096, 70000}[k%3]
		out(sizesLine(r, 1, limit, nil, place(k%3, sz)))
		c.stat("read_buffer_boundary")
	}
	// D. random mixes up to the requested number of cases
	for count < c.n {
		L := []int{128, 512, 2048, 8192}[r.Intn(4)]
		var pre, b []int
		for k := r.Intn(3); k > 0; k-- {
			pre = append(pre, r.Intn(L/2))
		}
		for k := 1 + r.Intn(4); k > 0; k-- {
			b = append(b, []int{0, r.Intn(9), r.Intn(L), L + r.Intn(L), sizeClasses[r.Intn(len(sizeClasses))]}[r.Intn(5)])
		}
		out(sizesLine(r, uint64(1+r.Intn(1000)), L, pre, b))
		c.stat("random")
	}
	// one batch above 8 MiB: still exactly one commit frame (README: one commit per batch)
	emit(fmt.Sprintf("#big %x", 9<<20))
	emit(fmt.Sprintf("#bigmid %x", 9<<20))
	if c.tier == "thorough" {
		for _, sz := range []int{segMaxEntry - 1, segMaxEntry, segMaxEntry + 1} {
			emit(fmt.Sprintf("#big %x", sz))
			emit(fmt.Sprintf("#bigmid %x", sz))
		}
	}
	// the FIRST batch of a fresh segment is larger than the 64 KiB commit buffer, its write or
	// fsync fails once, the caller retries the same batch (implementation only)
	for _, k := range []string{"s", "w"} {
		emit("#bigretry " + k + " 3 1400") // 3 x 40 KiB (sizes are hex, in units of 8 bytes)
		emit("#bigretry " + k + " 9 600")  // 9 x 12 KiB
		emit("#bigretry " + k + " 3 1e78") // 3 x 62400 bytes
	}
	// many reads of zero-length and tiny entries through the pooled read buffer (implementation only)
	emit("#zeroreads 3000")
	// WAL level (every tier, ~7 s): payloads whose ENCODING crosses the limit, and a batch
	// above 64 MiB that must survive a reopen of the unsealed tail
	for _, k := range []string{"exact", "data-8", "data", "ext", "batch", "batch-sealing"} {
		emit("#walbig " + k)
	}
}

var walBigRelease = func() {}

// execWalBig: through wal.StoreLogs / GetLog / Close / Open on an in-memory directory:
// whatever is acknowledged must be readable, before and after a reopen.
func execWalBig(c *ctx, line string) (obs string) {
	defer func() {
		if e := recover(); e != nil {
			obs = "panic"
			c.witness("C15", "big-panic", fmt.Sprintf("panic on a large entry: %v", e), line)
		}
		runtime.GC()
	}()
	kind := strings.Split(line, " ")[1]
	cfs := newCrashFS()
	segSize := 128 << 20
	if kind == "batch-sealing" {
		// a batch far larger than the segment (and than segment + MaxEntrySize) fills and seals the
		// tail; the WAL is closed BEFORE the background rotation runs (the rotation goroutine is
		// held at its first schedule point until Close has returned), so the next Open recovers
		// a tail that reaches far beyond its size limit
		segSize = 1 << 20
		held := make(chan struct{})
		wal.SetVerifHook(func(point string) {
			if point == "runRotate.received" {
				select {
				case <-held:
				case <-time.After(60 * time.Second):
				}
			}
		})
		defer wal.SetVerifHook(nil)
		defer func() {
			select {
			case <-held:
			default:
				close(held)
			}
		}()
		defer func(h chan struct{}) { _ = h }(held)
		walBigRelease = func() {
			select {
			case <-held:
			default:
				close(held)
			}
		}
	} else {
		walBigRelease = func() {}
	}
	open := func() (*wal.WAL, error) {
		return wal.Open("d", wal.WithSegmentFiler(segment.NewFiler("d", cfs)), wal.WithMetaStore(&cmeta{fs: cfs}),
			wal.WithSegmentSize(segSize), wal.WithLogger(hclog.NewNullLogger()))
	}
	w, err := open()
	if err != nil {
		return "badinput"
	}
	mk := func(idx uint64, nd, ne int) *raft.Log {
		d := make([]byte, nd)
		for i := 0; i < nd; i += 4099 {
			d[i] = byte(i + int(idx))
		}
		var e []byte
		if ne > 0 {
			e = make([]byte, ne)
			e[ne-1] = 9
		}
		return &raft.Log{Index: idx, Term: 1, Data: d, Extensions: e}
	}
	var logs []*raft.Log
	switch kind {
	case "exact":
		// the largest Data whose ENCODING is exactly MaxEntrySize bytes
		var probe bytes.Buffer
		(&wal.BinaryCodec{}).Encode(mk(1, 0, 0), &probe)
		nd := segMaxEntry - probe.Len()
		for {
			var b bytes.Buffer
			(&wal.BinaryCodec{}).Encode(&raft.Log{Index: 1, Term: 1, Data: make([]byte, nd)}, &b)
			if b.Len() <= segMaxEntry {
				break
			}
			nd -= b.Len() - segMaxEntry
		}
		logs = []*raft.Log{mk(1, nd, 0)}
	case "data-8":
		logs = []*raft.Log{mk(1, segMaxEntry-8, 0)}
	case "data":
		logs = []*raft.Log{mk(1, segMaxEntry, 0)}
	case "ext":
		logs = []*raft.Log{mk(1, 48<<20, 17<<20)}
	case "batch-sealing":
		logs = []*raft.Log{mk(1, 23<<20, 0), mk(2, 23<<20, 0), mk(3, 23<<20, 0)}
	default:
		logs = []*raft.Log{mk(1, 22<<20, 0), mk(2, 22<<20, 0), mk(3, 22<<20, 0)}
	}
	c.stat("walbig_cases")
	err = w.StoreLogs(logs)
	if err != nil {
		w.Close()
		if kind == "exact" {
			c.witness("C15", "max-refused", fmt.Sprintf("entry whose encoding is exactly MaxEntrySize refused: %v", err), line)
			return "fail"
		}
		if kind == "batch" || kind == "batch-sealing" {
			c.witness("C15", "max-refused", fmt.Sprintf("batch of three 22/23 MiB entries refused: %v", err), line)
			return "fail"
		}
		return "refused"
	}
	check := func(w *wal.WAL, when string) bool {
		for _, l := range logs {
			var got raft.Log
			if gerr := w.GetLog(l.Index, &got); gerr != nil || !bytes.Equal(got.Data, l.Data) || !bytes.Equal(got.Extensions, l.Extensions) {
				c.witness("C15", "acked-unreadable", fmt.Sprintf("entry %d (%d+%d bytes) acknowledged but unreadable %s: %v", l.Index, len(l.Data), len(l.Extensions), when, gerr), line)
				return false
			}
		}
		return true
	}
	if !check(w, "in the running process") {
		w.Close()
		return "fail"
	}
	w.Close()
	walBigRelease() // batch-sealing: only now may the rotation goroutine go on (it finds the WAL closed)
	w2, err := open()
	if err != nil {
		c.witness("C15", "acked-unreadable", fmt.Sprintf("Open fails after acknowledging a %s case: %v", kind, err), line)
		return "fail"
	}
	defer w2.Close()
	if !check(w2, "after reopen") {
		return "fail"
	}
	return "ok"
}

func execSizes(c *ctx, line string) string {
	if strings.HasPrefix(line, "#walbig") {
		return execWalBig(c, line)
	}
	if strings.HasPrefix(line, "#zeroreads") {
		return execZeroReads(c, line)
	}
	if strings.HasPrefix(line, "#bigretry") {
		return execBigRetry(c, line)
	}
	if strings.HasPrefix(line, "#sealeof") {
		return execSealEOF(c, line)
	}
	if strings.HasPrefix(line, "#big") {
		return execBig(c, line)
	}
	return execSeg(c, line)
}

// execZeroReads: entries of length 0, 1 and 7 next to each other, read thousands of times
// through the tail reader and, after sealing, the sealed reader: the pooled read buffer must
// not degrade with use (C15: every size is read back identically, however often).
func execZeroReads(c *ctx, line string) (obs string) {
	defer func() {
		if e := recover(); e != nil {
			obs = "panic"
			c.witness("C15", "read-panic", fmt.Sprintf("reading small entries panics: %v", e), line)
		}
	}()
	n := int(parseU(strings.Split(line, " ")[1]))
	info := types.SegmentInfo{ID: 1, BaseIndex: 1, MinIndex: 1, Codec: 1, SizeLimit: 4096}
	vfs := newMemFS()
	filer := segment.NewFiler("d", vfs)
	sw, err := filer.Create(info)
	if err != nil {
		return "badinput"
	}
	es := []types.LogEntry{{Index: 1, Data: []byte{}}, {Index: 2, Data: []byte{7}}, {Index: 3, Data: []byte{}}, {Index: 4, Data: []byte("1234567")}, {Index: 5, Data: nil}}
	if err := sw.Append(es); err != nil {
		c.witness("C15", "max-refused", fmt.Sprintf("batch with zero-length entries refused: %v", err), line)
		return "fail"
	}
	read := func(rd types.SegmentReader, what string) bool {
		for k := 0; k < n; k++ {
			for _, e := range es {
				pb, gerr := rd.GetLog(e.Index)
				if gerr != nil || !bytes.Equal(pb.Bs, e.Data) {
					c.witness("C15", "acked-unreadable", fmt.Sprintf("entry %d (%d bytes) unreadable at read %d through the %s: %v", e.Index, len(e.Data), k*len(es), what, gerr), line)
					return false
				}
				pb.Close()
			}
		}
		return true
	}
	if !read(sw, "tail reader") {
		return "fail"
	}
	if _, err := sw.ForceSeal(); err != nil {
		return "fail"
	}
	_, is, _ := sw.Sealed()
	info2 := info
	info2.IndexStart, info2.MaxIndex = is, 5
	r, err := filer.Open(info2)
	if err != nil || !read(r, "sealed reader") {
		return "fail"
	}
	c.stat("zero_reads")
	return "ok"
}

// execBig: one entry of the given size (alone, or in the middle of a batch) on
// a 1 MiB segment: acknowledged => readable (tail reader and sealed reader);
// size <= MaxEntrySize => accepted; size > MaxEntrySize => ErrTooBig, nothing
// written.  Too large for a model line; the Go oracle decides alone.
// countCommitFrames walks the frames of a segment image as README.md lays them out
// (32-byte file header, frames of 8-byte header + payload padded to 8) and counts the
// commit frames (type 3) up to the first zero/invalid header.
func countCommitFrames(data []byte) int {
	n := 0
	for off := 32; off+8 <= len(data); {
		typ := data[off]
		l := int(uint32(data[off+4]) | uint32(data[off+5])<<8 | uint32(data[off+6])<<16 | uint32(data[off+7])<<24)
		switch typ {
		case 1, 2:
			off += 8 + l + (8-l%8)%8
		case 3:
			n++
			off += 8
		default:
			return n
		}
	}
	return n
}

func execBig(c *ctx, line string) (obs string) {
	defer func() {
		if e := recover(); e != nil {
			obs = "panic"
			c.witness("C15", "big-panic", fmt.Sprintf("segment code panics on a large entry: %v", e), line)
		}
		runtime.GC()
	}()
	f := strings.Split(line, " ")
	size := int(parseU(f[1]))
	mid := f[0] == "#bigmid"
	info := types.SegmentInfo{ID: 1, BaseIndex: 1, MinIndex: 1, Codec: 1, SizeLimit: 1 << 20}
	vfs := newMemFS()
	vfs.noPre = true
	filer := segment.NewFiler("d", vfs)
	sw, err := filer.Create(info)
	if err != nil {
		return "badinput"
	}
	big := make([]byte, size)
	for i := 0; i < size; i += 4093 {
		big[i] = byte(i)
	}
	big[size-1] = 0x5a
	es := []types.LogEntry{{Index: 1, Data: big}}
	if mid {
		es = []types.LogEntry{{Index: 1, Data: []byte("a")}, {Index: 2, Data: big}, {Index: 3, Data: []byte("zz")}}
	}
	before := len(stripZeros(vfs.files[segment.FileName(info)].data))
	err = sw.Append(es)
	c.stat("big_cases")
	if size > segMaxEntry {
		if !errors.Is(err, segment.ErrTooBig) {
			c.witness("C15", "toobig-accepted", fmt.Sprintf("entry of %d bytes (> MaxEntrySize) not refused with ErrTooBig: %v", size, err), line)
			return "fail"
		}
		if sw.LastIndex() != 0 || len(stripZeros(vfs.files[segment.FileName(info)].data)) != before {
			c.witness("C15", "toobig-side-effect", "refused batch changed the segment", line)
			return "fail"
		}
		return "toobig"
	}
	if err != nil {
		c.witness("C15", "max-refused", fmt.Sprintf("entry of %d bytes (<= MaxEntrySize) refused: %v", size, err), line)
		return "fail"
	}
	check := func(rd types.SegmentReader, what string) bool {
		for _, e := range es {
			pb, gerr := rd.GetLog(e.Index)
			if gerr != nil || !bytes.Equal(pb.Bs, e.Data) {
				c.witness("C15", "acked-unreadable", fmt.Sprintf("entry %d (%d bytes) acknowledged but %s fails: %v", e.Index, len(e.Data), what, gerr), line)
				return false
			}
			pb.Close()
		}
		return true
	}
	if !check(sw, "tail GetLog") {
		return "fail"
	}
	if n := countCommitFrames(vfs.files[segment.FileName(info)].data); n != 1 {
		c.witness("C09", "commit-frames-per-batch", fmt.Sprintf("one acknowledged batch of %d bytes left %d commit frames in the file", size, n), line)
		c.witness("C02", "batch-not-atomic-on-disk", fmt.Sprintf("one batch of %d bytes is committed in %d separately valid pieces: a crash between them leaves a CRC-valid prefix of a batch whose StoreLogs never returned", size, n), line)
		return "fail"
	}
	sealed, is, _ := sw.Sealed()
	if !sealed {
		c.witness("C15", "big-not-sealed", "entry larger than the segment did not seal it", line)
		return "fail"
	}
	info2 := info
	info2.IndexStart, info2.MaxIndex = is, es[len(es)-1].Index
	r, err := filer.Open(info2)
	if err != nil || !check(r, "sealed GetLog") {
		if err != nil {
			c.witness("C15", "acked-unreadable", fmt.Sprintf("sealed open fails: %v", err), line)
		}
		return "fail"
	}
	return "ok"
}

// execBigRetry: `#bigretry <s|w> <n> <size/8>`: a fresh segment; the first batch has n entries of
// size bytes each, more than the writer's 64 KiB commit buffer in total; its fsync (s) or write
// (w) fails once; the caller appends the same batch again, which succeeds and is acknowledged.
// The entries must read back through the tail reader, and after RecoverTail of the same file
// (a restart) the file header must still be valid and the batch recovered.
func execBigRetry(c *ctx, line string) (obs string) {
	defer func() {
		if e := recover(); e != nil {
			obs = "panic"
			c.witness("C15", "big-panic", fmt.Sprintf("segment code panics on a retried large first batch: %v", e), line)
		}
	}()
	f := strings.Split(line, " ")
	n, size := int(parseU(f[2])), int(parseU(f[3]))*8
	info := types.SegmentInfo{ID: 3, BaseIndex: 10, MinIndex: 10, Codec: 1, SizeLimit: 1 << 20}
	vfs := newMemFS()
	filer := segment.NewFiler("d", vfs)
	sw, err := filer.Create(info)
	if err != nil {
		return "badinput"
	}
	var es []types.LogEntry
	for i := 0; i < n; i++ {
		d := make([]byte, size)
		for j := range d {
			d[j] = byte(j*7 + i)
		}
		es = append(es, types.LogEntry{Index: 10 + uint64(i), Data: d})
	}
	if f[1] == "s" {
		vfs.failSync = true
	} else {
		vfs.failWrite = true
	}
	if err := sw.Append(es); err == nil {
		c.witness("C10", "acked-entry-lost-after-io-error", "Append returned nil although its write/fsync failed", line)
		return "fail"
	}
	if err := sw.Append(es); err != nil {
		c.witness("C15", "max-refused", fmt.Sprintf("the retried batch is refused: %v", err), line)
		return "fail"
	}
	check := func(rd types.SegmentReader, what string) bool {
		for _, e := range es {
			pb, gerr := rd.GetLog(e.Index)
			if gerr != nil || !bytes.Equal(pb.Bs, e.Data) {
				msg := fmt.Sprintf("entry %d (%d bytes) of a batch acknowledged on its second attempt is unreadable through the %s: %v", e.Index, len(e.Data), what, gerr)
				c.witness("C15", "acked-unreadable", msg, line)
				c.witness("C10", "acked-entry-lost-after-io-error", msg, line)
				return false
			}
			pb.Close()
		}
		return true
	}
	if !check(sw, "tail reader") {
		return "fail"
	}
	sw.Close()
	sw2, err := filer.RecoverTail(info)
	if err != nil {
		msg := fmt.Sprintf("RecoverTail after a retried large first batch fails: %v", err)
		c.witness("C15", "acked-unreadable", msg, line)
		c.witness("C10", "acked-entry-lost-after-io-error", msg, line)
		return "fail"
	}
	if sw2.LastIndex() != es[len(es)-1].Index || !check(sw2, "recovered tail") {
		if sw2.LastIndex() != es[len(es)-1].Index {
			msg := fmt.Sprintf("after recovery LastIndex = %d, the acknowledged batch ends at %d", sw2.LastIndex(), es[len(es)-1].Index)
			c.witness("C15", "acked-unreadable", msg, line)
			c.witness("C10", "acked-entry-lost-after-io-error", msg, line)
		}
		return "fail"
	}
	c.stat("bigretry_cases")
	return "ok"
}

// execSealEOF: `#sealeof <payload> <limit>` (hex): one-entry batches of the given payload until
// the segment seals; the sealing batch extends the file beyond its preallocated size, so the
// file ends with the sealing commit frame.  A restart between the sealing append and the
// rotation: RecoverTail of that file must succeed, report the seal and return every entry.
func execSealEOF(c *ctx, line string) (obs string) {
	defer func() {
		if e := recover(); e != nil {
			obs = "panic"
			c.witness("C03", "recovery-panic", fmt.Sprintf("RecoverTail panics: %v", e), line)
		}
	}()
	f := strings.Split(line, " ")
	psize, limit := int(parseU(f[1])), uint32(parseU(f[2]))
	info := types.SegmentInfo{ID: 2, BaseIndex: 1, MinIndex: 1, Codec: 1, SizeLimit: limit}
	vfs := newMemFS()
	filer := segment.NewFiler("d", vfs)
	sw, err := filer.Create(info)
	if err != nil {
		return "badinput"
	}
	var all [][]byte
	for i := uint64(1); i < 5000; i++ {
		d := make([]byte, psize)
		for j := range d {
			d[j] = byte(int(i)*31 + j)
		}
		// payloads that look like frames: a stale window parsed as file content finds "frames"
		d[0], d[1], d[2], d[3] = 1, 0, 0, 0
		if err := sw.Append([]types.LogEntry{{Index: i, Data: d}}); err != nil {
			return "badinput"
		}
		all = append(all, d)
		if sealed, _, _ := sw.Sealed(); sealed {
			break
		}
	}
	if sealed, _, _ := sw.Sealed(); !sealed {
		return "badinput-unsealed"
	}
	sw.Close()
	fail := func(msg string) string {
		c.witness("C03", "recovery-fails-on-crash-state", msg, line)
		c.witness("C02", "recovery-fails-on-crash-state", msg, line)
		return "fail"
	}
	sw2, err := filer.RecoverTail(info)
	if err != nil {
		return fail(fmt.Sprintf("RecoverTail of a tail sealed by its last append (file of %d bytes, limit %d) fails: %v", len(vfs.files[segment.FileName(info)].data), limit, err))
	}
	if sealed, _, _ := sw2.Sealed(); !sealed || sw2.LastIndex() != uint64(len(all)) {
		return fail(fmt.Sprintf("recovered tail: sealed=%v LastIndex=%d, %d entries were acknowledged and the file is sealed", sealed, sw2.LastIndex(), len(all)))
	}
	for i, d := range all {
		pb, gerr := sw2.GetLog(uint64(i + 1))
		if gerr != nil || !bytes.Equal(pb.Bs, d) {
			return fail(fmt.Sprintf("entry %d unreadable after recovery: %v", i+1, gerr))
		}
		pb.Close()
	}
	c.stat("sealeof_cases")
	return fmt.Sprintf("ok %d", len(all))
}
