package main

import (
	"errors"
	"fmt"
	"math/big"
	"math/rand"
	"strings"

	"github.com/hashicorp/raft-wal/segment"
	"github.com/hashicorp/raft-wal/types"
)

// Segment-level streams.  All three share the `seg ...` line grammar (see
// coq/Run/RunSeg.v) and the same executor; they differ in their generators.

func init() {
	streams["format"] = &stream{gen: genFormat, exec: execSeg}
	streams["segcrash"] = &stream{gen: genSegCrash, exec: execSeg}
	streams["corrupt"] = &stream{gen: genCorrupt, exec: execSeg}
}

func segErrKind(err error) string {
	switch {
	case err == nil:
		return "ok"
	case errors.Is(err, types.ErrSealed):
		return "sealed"
	case errors.Is(err, segment.ErrTooBig):
		return "toobig"
	case errors.Is(err, types.ErrNotFound):
		return "nf"
	case errors.Is(err, types.ErrCorrupt):
		return "corrupt"
	case strings.Contains(err.Error(), "non-monotonic"):
		return "nonmono"
	}
	return "err"
}

func stripZeros(b []byte) []byte {
	n := len(b)
	for n > 0 && b[n-1] == 0 {
		n--
	}
	return b[:n]
}

func execSeg(c *ctx, line string) (obs string) {
	var out []string
	defer func() {
		if e := recover(); e != nil {
			out = append(out, "panic")
			obs = strings.Join(out, " ")
			c.witness("C11", "segment-panic", fmt.Sprintf("segment code panics: %v", e), line)
		}
	}()
	f := strings.Split(line, " ")
	if f[0] != "seg" || len(f) < 6 {
		return "badinput"
	}
	base, id, codec, limit, fsz := parseU(f[1]), parseU(f[2]), parseU(f[3]), parseU(f[4]), parseU(f[5])
	if fsz != limit {
		return "badinput"
	}
	info := types.SegmentInfo{ID: id, BaseIndex: base, MinIndex: base, Codec: codec, SizeLimit: uint32(limit)}
	vfs := newMemFS()
	filer := segment.NewFiler("d", vfs)
	sw, err := filer.Create(info)
	if err != nil {
		return "badinput"
	}
	fname := segment.FileName(info)
	mf := vfs.files[fname]
	var rd types.SegmentReader = sw
	acked := map[uint64]string{} // oracle: acked entries (tail mode)
	ops := f[6:]
	for i := 0; i < len(ops); i++ {
		switch ops[i] {
		case "A":
			k := int(parseU(ops[i+1]))
			es := make([]types.LogEntry, k)
			for j := 0; j < k; j++ {
				es[j] = types.LogEntry{Index: parseU(ops[i+2+2*j]), Data: parseHex(ops[i+3+2*j])}
			}
			i += 1 + 2*k
			if sw == nil {
				out = append(out, "badinput")
				continue
			}
			err := sw.Append(es)
			out = append(out, segErrKind(err))
			if err == nil {
				for _, e := range es {
					acked[e.Index] = hx(e.Data)
				}
				// C15 oracle: whatever was accepted is readable right away
				for _, e := range es {
					pb, gerr := sw.GetLog(e.Index)
					if gerr != nil || hx(pb.Bs) != hx(e.Data) {
						c.witness("C15", "acked-unreadable", fmt.Sprintf("entry %d (%d bytes) acknowledged but GetLog fails: %v", e.Index, len(e.Data), gerr), line)
					}
					if gerr == nil {
						pb.Close()
					}
				}
			}
		case "S":
			if sw == nil {
				out = append(out, "badinput")
				continue
			}
			is, err := sw.ForceSeal()
			if err != nil {
				out = append(out, segErrKind(err))
			} else {
				out = append(out, fmt.Sprintf("ok:%x", is))
			}
		case "Q":
			sealed, is, _ := sw.Sealed()
			if sealed {
				out = append(out, fmt.Sprintf("1:%x", is))
			} else {
				out = append(out, "0")
			}
		case "L":
			out = append(out, fmt.Sprintf("%x", sw.LastIndex()))
		case "G":
			idx := parseU(ops[i+1])
			i++
			if rd == nil {
				out = append(out, "badinput")
				continue
			}
			pb, err := rd.GetLog(idx)
			if err != nil {
				out = append(out, segErrKind(err))
			} else {
				out = append(out, "ok:"+hx(pb.Bs))
				pb.Close()
			}
		case "R":
			nsw, err := filer.RecoverTail(info)
			if err != nil {
				out = append(out, segErrKind(err))
				rd = nil
			} else {
				out = append(out, "ok")
				sw, rd = nsw, nsw
			}
		case "C":
			mask, _ := new(big.Int).SetString(ops[i+1], 16)
			i++
			old, cur := mf.pre, mf.data
			n := len(old)
			if len(cur) > n {
				n = len(cur)
			}
			img := make([]byte, n)
			oldp := append(append([]byte(nil), old...), make([]byte, n-len(old))...)
			curp := append(append([]byte(nil), cur...), make([]byte, n-len(cur))...)
			for k := 0; k*8 < n; k++ {
				src := oldp
				if mask.Bit(k) == 1 {
					src = curp
				}
				end := k*8 + 8
				if end > n {
					end = n
				}
				copy(img[k*8:end], src[k*8:end])
			}
			mf.data, mf.pre = img, append([]byte(nil), img...)
			// the crash loses the process: forget acks that were not synced?  Appends
			// in this stream always sync, so every acked entry must survive (oracle below).
			nsw, err := filer.RecoverTail(info)
			if err != nil {
				out = append(out, segErrKind(err))
				rd = nil
			} else {
				out = append(out, "ok")
				sw, rd = nsw, nsw
			}
		case "O":
			mn, mx := parseU(ops[i+1]), parseU(ops[i+2])
			i += 2
			_, is, _ := sw.Sealed()
			info2 := info
			info2.MinIndex, info2.MaxIndex, info2.IndexStart = mn, mx, is
			r, err := filer.Open(info2)
			if err != nil {
				out = append(out, segErrKind(err))
				rd = nil
			} else {
				out = append(out, "ok")
				rd = r
			}
		case "X":
			off, bs := int(parseU(ops[i+1])), parseHex(ops[i+2])
			i += 2
			if off+len(bs) > len(mf.data) {
				mf.data = append(mf.data, make([]byte, off+len(bs)-len(mf.data))...)
			}
			copy(mf.data[off:], bs)
		case "T":
			n := int(parseU(ops[i+1]))
			i++
			if n < len(mf.data) {
				mf.data = mf.data[:n]
			}
		case "F":
			out = append(out, hx(stripZeros(mf.data)))
		case "D":
			after, before := parseU(ops[i+1]), parseU(ops[i+2])
			i += 2
			var es []string
			err := filer.DumpSegment(base, id, after, before, func(_ types.SegmentInfo, e types.LogEntry) (bool, error) {
				es = append(es, fmt.Sprintf("%x:%s", e.Index, hx(e.Data)))
				return true, nil
			})
			k := "ok"
			if err != nil {
				k = "err"
			}
			out = append(out, k+":"+strings.Join(es, " "))
		default:
			out = append(out, "badinput")
		}
	}
	return strings.Join(out, " ")
}

// ---- generators -----------------------------------------------------------

var sizeClasses = []int{0, 1, 2, 3, 4, 5, 6, 7, 8, 9, 15, 16, 17, 23, 24, 25, 31, 32, 33, 63, 64, 65, 100, 127, 128, 129, 255, 256, 257, 500, 1000}

func payload(r *rand.Rand, n int) string {
	b := make([]byte, n)
	r.Read(b)
	if r.Intn(4) == 0 { // payloads that look like frames / zeros
		for i := range b {
			b[i] = []byte{0, 1, 2, 3, 0, 0xff}[r.Intn(6)]
		}
	}
	return hx(b)
}

func genBatch(r *rand.Rand, next *uint64, maxSize int) string {
	k := 1 + r.Intn(4)
	if r.Intn(5) == 0 {
		k = 1 + r.Intn(12)
	}
	var sb strings.Builder
	fmt.Fprintf(&sb, "A %x", k)
	for j := 0; j < k; j++ {
		n := sizeClasses[r.Intn(len(sizeClasses))]
		if n > maxSize {
			n = r.Intn(maxSize + 1)
		}
		fmt.Fprintf(&sb, " %x %s", *next, payload(r, n))
		*next++
	}
	return sb.String()
}

func segHeader(r *rand.Rand) (string, uint64, int) {
	base := uint64(1)
	switch r.Intn(4) {
	case 0:
		base = uint64(1 + r.Intn(1000))
	case 1:
		base = r.Uint64()>>uint(r.Intn(40)) + 1
	}
	limit := []int{64, 128, 256, 512, 1024, 4096, 16384}[r.Intn(7)]
	codec := uint64(1)
	if r.Intn(4) == 0 {
		codec = r.Uint64()
	}
	return fmt.Sprintf("seg %x %x %x %x %x", base, r.Uint64()>>uint(r.Intn(64)), codec, limit, limit), base, limit
}

// format: appends of all padding residues, sealing by size and by force, reads
// through the tail reader and the sealed reader, file dump.
func genFormat(c *ctx, emit func(string)) {
	r := rand.New(rand.NewSource(c.seed))
	for i := 0; i < c.n; i++ {
		hdr, base, limit := segHeader(r)
		next := base
		ops := []string{hdr}
		nb := 1 + r.Intn(6)
		for b := 0; b < nb; b++ {
			ops = append(ops, genBatch(r, &next, limit*2), "Q", "L")
			if r.Intn(3) == 0 {
				ops = append(ops, fmt.Sprintf("G %x", base+uint64(r.Intn(int(next-base)+2))))
			}
		}
		switch r.Intn(4) {
		case 0:
			ops = append(ops, "S", "Q")
		case 1: // non-monotonic / empty batch probes
			ops = append(ops, fmt.Sprintf("A 1 %x %s", next+1+uint64(r.Intn(3)), payload(r, 5)), "L")
		}
		ops = append(ops, "F")
		for j := base; j < next && j < base+40; j++ {
			ops = append(ops, fmt.Sprintf("G %x", j))
		}
		ops = append(ops, fmt.Sprintf("G %x", next), fmt.Sprintf("G %x", base-1))
		ops = append(ops, "S", fmt.Sprintf("O %x %x", base+uint64(r.Intn(2)), next-1))
		for j := base; j < next && j < base+40; j++ {
			ops = append(ops, fmt.Sprintf("G %x", j))
		}
		ops = append(ops, fmt.Sprintf("G %x", next), "D 0 0", "R", "Q", "L")
		emit(strings.Join(ops, " "))
	}
}

// segcrash: chains of append / torn write / recover / shorter re-append / torn
// write again; the oracle is that recovery returns a prefix of what was
// submitted with the in-flight batch whole or absent (checked by the model
// comparison and by the L1 theorem).
func genSegCrash(c *ctx, emit func(string)) {
	r := rand.New(rand.NewSource(c.seed))
	for i := 0; i < c.n; i++ {
		hdr, base, limit := segHeader(r)
		if limit < 512 {
			limit = 4096
			hdr = fmt.Sprintf("seg %x %x 1 %x %x", base, r.Uint64()>>uint(r.Intn(64)), limit, limit)
		}
		next := base
		ops := []string{hdr}
		depth := 1 + r.Intn(3)
		for d := 0; d < depth; d++ {
			for b := r.Intn(3); b > 0; b-- {
				ops = append(ops, genBatch(r, &next, 64))
			}
			before := next
			ops = append(ops, genBatch(r, &next, 80))
			// chunk mask over the whole file: random subset, biased to "almost all" / "almost none"
			nchunks := limit/8 + 64
			mask := new(big.Int)
			mode := r.Intn(5)
			for k := 0; k < nchunks; k++ {
				bit := r.Intn(2) == 0
				switch mode {
				case 0:
					bit = true
				case 1:
					bit = r.Intn(8) != 0
				case 2:
					bit = r.Intn(8) == 0
				case 3:
					bit = false
				}
				if bit {
					mask.SetBit(mask, k, 1)
				}
			}
			ops = append(ops, "C "+mask.Text(16), "L", "Q")
			// we do not know whether the batch survived; continue from what recovery says:
			// emit reads for both candidates and re-append from `before` in a separate line
			// shape: the generator keeps determinism by always probing both indexes.
			ops = append(ops, fmt.Sprintf("G %x", before), fmt.Sprintf("G %x", next-1))
			if mode != 0 {
				next = before // almost surely discarded: re-append shorter content at the same indexes
				if mode == 1 || mode == 2 {
					// unknown outcome: stop this chain here to keep the line deterministic
					break
				}
			}
		}
		ops = append(ops, "F", "D 0 0")
		emit(strings.Join(ops, " "))
	}
}

// corrupt: valid files damaged by bit flips, splices, truncation, length edits,
// zero runs; then recovery / sealed open / reads / dump.
func genCorrupt(c *ctx, emit func(string)) {
	r := rand.New(rand.NewSource(c.seed))
	for i := 0; i < c.n; i++ {
		hdr, base, _ := segHeader(r)
		next := base
		ops := []string{hdr}
		nb := 1 + r.Intn(4)
		for b := 0; b < nb; b++ {
			ops = append(ops, genBatch(r, &next, 120))
		}
		sealedFirst := r.Intn(2) == 0
		if sealedFirst {
			ops = append(ops, "S")
		}
		used := 32 + int(next-base)*64
		nm := 1 + r.Intn(3)
		for m := 0; m < nm; m++ {
			off := r.Intn(used + 16)
			switch r.Intn(6) {
			case 0:
				ops = append(ops, fmt.Sprintf("X %x %02x", off, 1<<uint(r.Intn(8))))
			case 1:
				ops = append(ops, fmt.Sprintf("X %x %s", off&^7, payload(r, 8)))
			case 2:
				ops = append(ops, fmt.Sprintf("T %x", off))
			case 3: // length-field edit: huge / MaxEntrySize+1 / small
				l := []string{"ffffffff", "01000004", "00000004", "10000000", "08000000"}[r.Intn(5)]
				ops = append(ops, fmt.Sprintf("X %x %s", (off&^7)+4, l))
			case 4:
				ops = append(ops, fmt.Sprintf("X %x %s", off&^7, strings.Repeat("00", 8*(1+r.Intn(4)))))
			default: // frame-type byte
				ops = append(ops, fmt.Sprintf("X %x %02x", off&^7, r.Intn(6)))
			}
		}
		if sealedFirst {
			ops = append(ops, fmt.Sprintf("O %x %x", base, next-1))
		} else {
			ops = append(ops, "R", "Q", "L")
		}
		for j := base; j < next && j < base+12; j++ {
			ops = append(ops, fmt.Sprintf("G %x", j))
		}
		ops = append(ops, "D 0 0")
		emit(strings.Join(ops, " "))
	}
}
