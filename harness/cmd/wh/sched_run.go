package main

// `sched <c14|c06> <setup> <threads> <schedule>`: forced schedules on the real WAL.
//   setup    ops run sequentially before the scheduled phase ("-" = none)
//   threads  ","-separated programs, each a "."-separated list of ops
//              F L G<idx>  S<seal>[_<tag>_<n>]  D<n>  T<n>  K k X     (hex arguments)
//            the rotation goroutine is the implicit last thread
//   schedule hex digits = thread ids; each element releases that thread from the
//            hook point it is parked at until it parks again / blocks / returns
// Observation: per thread the outcomes of its calls, then final flags.
// `#stress <seed> <readers> <millis>` (implementation only): free-running readers
// against one writer; the recorded history is checked read by read.

import (
	"bufio"
	"bytes"
	"context"
	"errors"
	"fmt"
	"math"
	"math/rand"
	"os"
	"os/exec"
	"path/filepath"
	"runtime"
	"sort"
	"strings"
	"sync"
	"sync/atomic"
	"time"

	"github.com/hashicorp/go-hclog"
	"github.com/hashicorp/raft"
	wal "github.com/hashicorp/raft-wal"
	"github.com/hashicorp/raft-wal/segment"
)

var schedPoints = []string{"FirstIndex.checked", "LastIndex.checked", "GetLog.checked", "StoreLogs.checked",
	"StoreLogs.locked", "DeleteRange.checked", "DeleteRange.locked", "Set.checked", "Get.checked",
	"acquireState.loaded", "awaitRotation.waiting", "runRotate.received", "runRotate.locked",
	"mutateState.committed", "mutateState.published", "Close.flagSet", "Close.locked", "Close.stateSwapped",
	"release.lastRef", "OffsetForFrame.checked", "Append.buffered", "vfs.sync", "sync.durable"}

const schedSegSize = 4096

// size classes of an entry: 0 = 16 bytes, 1 = 4200 (fills the 4 KiB segment), 2 = 100 KiB
// (larger than the 64 KiB pooled read buffer), 3 = 32 KiB (40 of them exceed 1 MiB)
func schedPayloadN(idx uint64, tag uint64, n int) []byte {
	b := make([]byte, n)
	for i := range b {
		b[i] = byte(idx*31 + tag*7 + uint64(i))
	}
	copy(b, fmt.Sprintf("%04x:%04x;", idx, tag))
	return b
}

func schedPayload(idx uint64, tag uint64, big bool) []byte {
	if big {
		return schedPayloadN(idx, tag, 4200)
	}
	return schedPayloadN(idx, tag, 16)
}

func payloadOK(idx uint64, d []byte) bool {
	if len(d) < 10 || string(d[:5]) != fmt.Sprintf("%04x:", idx) {
		return false
	}
	tag := parseU(string(d[5:9]))
	for i := 10; i < len(d); i++ {
		if d[i] != byte(idx*31+tag*7+uint64(i)) {
			return false
		}
	}
	return true
}

type walEnv struct {
	vfs  *memVFS
	meta *memMeta
	w    *wal.WAL
}

type nopWriter struct{}

func (nopWriter) Write(p []byte) (int, error) { return len(p), nil }

func openEnv(vfs *memVFS, meta *memMeta) (*walEnv, error) {
	lg := hclog.New(&hclog.LoggerOptions{Output: nopWriter{}, Level: hclog.Off})
	if d := os.Getenv("WH_REALFS"); d != "" {
		// manual experiment: real files and BoltMetaDB in directory d
		w, err := wal.Open(d, wal.WithSegmentSize(schedSegSize), wal.WithLogger(lg))
		if err != nil {
			return nil, err
		}
		return &walEnv{vfs: vfs, meta: meta, w: w}, nil
	}
	w, err := wal.Open("mem", wal.WithSegmentFiler(segment.NewFiler("mem", vfs)), wal.WithMetaStore(meta),
		wal.WithSegmentSize(schedSegSize), wal.WithLogger(lg))
	if err != nil {
		return nil, err
	}
	return &walEnv{vfs: vfs, meta: meta, w: w}, nil
}

// waitRotation returns once a pending background rotation has completed.
func (e *walEnv) waitRotation() { e.w.DeleteRange(math.MaxUint64, math.MaxUint64) }

func classify(err error) string {
	switch {
	case err == nil:
		return "ok"
	case errors.Is(err, wal.ErrClosed):
		return "closed"
	case errors.Is(err, wal.ErrNotFound):
		return "nf"
	case errors.Is(err, wal.ErrSealed):
		return "sealed"
	case errors.Is(err, os.ErrClosed):
		return "ioerr"
	case errors.Is(err, errMetaClosed):
		return "metaerr"
	default:
		if os.Getenv("WH_REALFS") != "" {
			return "err(" + err.Error() + ")"
		}
		return "err"
	}
}

// ---- reference log and history (oracles independent of the Rocq model) --------

type specLog struct {
	first, last uint64 // 0,0 = empty
	next        uint64 // index the next append uses
	tags        map[uint64]uint64
}

func (s specLog) clone() specLog {
	t := make(map[uint64]uint64, len(s.tags))
	for k, v := range s.tags {
		t[k] = v
	}
	return specLog{s.first, s.last, s.next, t}
}

func (s specLog) read(op byte, arg uint64) string {
	switch op {
	case 'F':
		return fmt.Sprintf("ok:%x", s.first)
	case 'L':
		return fmt.Sprintf("ok:%x", s.last)
	case 'G':
		if t, ok := s.tags[arg]; ok {
			return fmt.Sprintf("ok:%x", t)
		}
		return "nf"
	}
	return "?"
}

type readRec struct {
	op       byte
	arg      uint64
	inv, ret uint64
	res      string
}

// history of one run: versions[k] is the log after the k-th successful write;
// wInv/wRet are the invoke/return stamps of that write (index 0 = initial).
type history struct {
	clk      uint64
	mu       sync.Mutex
	versions []specLog
	wInv     []uint64
	wRet     []uint64
	reads    []readRec
	durable  map[[2]uint64]uint64 // (index, tag) -> stamp of the Sync that covered it
	pending  [][2]uint64
}

func newHistory() *history {
	h := &history{durable: map[[2]uint64]uint64{}}
	h.versions = []specLog{{next: 1, tags: map[uint64]uint64{}}}
	h.wInv = []uint64{0}
	h.wRet = []uint64{0}
	return h
}

func (h *history) tick() uint64 { return atomic.AddUint64(&h.clk, 1) }

func (h *history) cur() specLog {
	h.mu.Lock()
	defer h.mu.Unlock()
	return h.versions[len(h.versions)-1]
}

// onSynced is called by the VFS when a Sync completed (writer goroutine)
func (h *history) onSynced(string) {
	h.mu.Lock()
	st := h.tick()
	for _, p := range h.pending {
		if _, ok := h.durable[p]; !ok { // identical re-appends cannot be told apart: keep the first
			h.durable[p] = st
		}
	}
	h.pending = nil
	h.mu.Unlock()
}

func (h *history) addVersion(inv uint64, v specLog) {
	h.mu.Lock()
	h.versions = append(h.versions, v)
	h.wInv = append(h.wInv, inv)
	h.wRet = append(h.wRet, h.tick())
	h.mu.Unlock()
}

// checkRead: the result must be the reference result in some version current
// between the read's invoke and return; an error other than not-found is
// tolerated only for an index removed by a truncation inside that window.
func (h *history) checkRead(r readRec) string {
	// stamps of the (single, sequential) writer are increasing
	a := sort.Search(len(h.wRet), func(k int) bool { return h.wRet[k] >= r.inv }) - 1
	b := sort.Search(len(h.wInv), func(k int) bool { return h.wInv[k] >= r.ret }) - 1
	if a < 0 {
		a = 0
	}
	if b < a {
		b = a
	}
	if strings.HasPrefix(r.res, "closed") {
		return ""
	}
	for j := a; j <= b; j++ {
		if h.versions[j].read(r.op, r.arg) == r.res {
			if r.op == 'G' && strings.HasPrefix(r.res, "ok:") {
				tag := parseU(r.res[3:])
				if st, ok := h.durable[[2]uint64{r.arg, tag}]; !ok || st > r.ret {
					return fmt.Sprintf("entry %d (tag %d) was returned before its batch was synced", r.arg, tag)
				}
			}
			return ""
		}
	}
	if r.op == 'G' && (r.res == "ioerr" || r.res == "err") {
		had, gone := false, false
		for j := a; j <= b; j++ {
			if _, ok := h.versions[j].tags[r.arg]; ok {
				had = true
			} else if had {
				gone = true
			}
		}
		if had && gone {
			return ""
		}
	}
	return fmt.Sprintf("%c%x returned %s; versions %d..%d allow %s..%s", r.op, r.arg, r.res, a, b,
		h.versions[a].read(r.op, r.arg), h.versions[b].read(r.op, r.arg))
}

// ---- one API call ----------------------------------------------------------------

type opCtx struct {
	env *walEnv
	h   *history
}

// runOp executes one API call and returns its canonical outcome.
func runOp(o *opCtx, r *role, op string) (out string) {
	defer func() {
		if e := recover(); e != nil {
			out = "panic"
		}
	}()
	w, h := o.env.w, o.h
	arg := uint64(0)
	if len(op) > 1 && op[0] != 'S' {
		arg = parseU(op[1:])
	}
	if r != nil {
		r.locking = op[0] == 'S' || op[0] == 'D' || op[0] == 'T' || op[0] == 'B'
		r.storing = op[0] == 'S' || op[0] == 'B'
		defer func() { r.storing = false }()
	}
	inv := h.tick()
	rec := func(res string) string {
		h.mu.Lock()
		h.reads = append(h.reads, readRec{op[0], arg, inv, h.tick(), res})
		h.mu.Unlock()
		return res
	}
	switch op[0] {
	case 'F':
		v, err := w.FirstIndex()
		if err != nil {
			return rec(classify(err))
		}
		return rec(fmt.Sprintf("ok:%x", v))
	case 'L':
		v, err := w.LastIndex()
		if err != nil {
			return rec(classify(err))
		}
		return rec(fmt.Sprintf("ok:%x", v))
	case 'G':
		var l raft.Log
		err := w.GetLog(arg, &l)
		if err != nil {
			return rec(classify(err))
		}
		if l.Index != arg || !payloadOK(arg, l.Data) {
			return rec("wrongdata")
		}
		return rec(fmt.Sprintf("ok:%x", parseU(string(l.Data[5:9]))))
	case 'S', 'B': // S<seal>[_<tag>_<n>] append n entries at last+1; B<idx>: first append at idx (base reset)
		class, tag, n := "0", uint64(0), uint64(1)
		v := h.cur().clone()
		idx := v.next
		if op[0] == 'B' {
			idx = arg
		} else {
			f := strings.Split(op[1:], "_")
			class = f[0]
			if len(f) == 3 {
				tag, n = parseU(f[1]), parseU(f[2])
			}
		}
		var logs []*raft.Log
		h.mu.Lock()
		for i := uint64(0); i < n; i++ {
			size := 16
			switch {
			case class == "1" && i == n-1:
				size = 4200
			case class == "2" && i == n-1:
				size = 100 * 1024
			case class == "3":
				size = 32 * 1024
			}
			logs = append(logs, &raft.Log{Index: idx + i, Term: 1, Type: raft.LogCommand, Data: schedPayloadN(idx+i, tag, size)})
			h.pending = append(h.pending, [2]uint64{idx + i, tag})
		}
		h.mu.Unlock()
		err := w.StoreLogs(logs)
		if err == nil {
			for i := uint64(0); i < n; i++ {
				v.tags[idx+i] = tag
			}
			if v.first == 0 {
				v.first = idx
			}
			v.last = idx + n - 1
			v.next = idx + n
			h.addVersion(inv, v)
		} else {
			h.mu.Lock()
			h.pending = nil
			h.mu.Unlock()
		}
		return classify(err)
	case 'D': // head truncation: delete [1, n]
		err := w.DeleteRange(1, arg)
		if err == nil {
			v := h.cur().clone()
			if v.last > 0 && arg >= v.first {
				for i := v.first; i <= arg && i <= v.last; i++ {
					delete(v.tags, i)
				}
				if arg >= v.last {
					v.first, v.last = 0, 0
				} else {
					v.first = arg + 1
				}
				h.addVersion(inv, v)
			}
		}
		return classify(err)
	case 'T': // tail truncation: keep indexes <= n
		err := w.DeleteRange(arg+1, math.MaxUint64-1)
		if err == nil {
			v := h.cur().clone()
			if v.last > arg {
				for i := arg + 1; i <= v.last; i++ {
					delete(v.tags, i)
				}
				if arg < v.first {
					v.first, v.last = 0, 0
				} else {
					v.last = arg
					v.next = arg + 1
				}
				h.addVersion(inv, v)
			}
		}
		return classify(err)
	case 'K':
		return classify(w.Set([]byte("k"), []byte("v")))
	case 'k':
		v, err := w.Get([]byte("k"))
		if err != nil {
			return classify(err)
		}
		return fmt.Sprintf("ok:%x", len(v))
	case 'X':
		return classify(w.Close())
	}
	return "badop"
}

func splitProg(s string) []string {
	if s == "-" || s == "" {
		return nil
	}
	return strings.Split(s, ".")
}

// execSchedCase runs one forced schedule; a run in which a goroutine outside the
// scheduler's control performed a rotation step is void and repeated.
func execSchedCase(c *ctx, line, prop string, f []string) string {
	for attempt := 0; ; attempt++ {
		var buf bytes.Buffer
		sub := &ctx{out: bufio.NewWriter(&buf), seed: c.seed, n: c.n, tier: c.tier, stats: map[string]int{}, work: c.work, curID: c.curID}
		obs, void := execSchedOnce(sub, line, prop, f)
		if void && attempt < 3 {
			c.stat("void_case_retried")
			continue
		}
		sub.out.Flush()
		c.out.Write(buf.Bytes())
		for k, v := range sub.stats {
			c.stats[k] += v
		}
		return obs
	}
}

func execSchedOnce(c *ctx, line, prop string, f []string) (string, bool) {
	if len(f) != 3 {
		return "badinput", false
	}
	setup, progs, schedule := splitProg(f[0]), strings.Split(f[1], ","), f[2]
	baseG := runtime.NumGoroutine()
	vfs, meta := newMemVFS(), newMemMeta()
	hist := newHistory()
	vfs.onSynced = hist.onSynced
	// rotation goroutines of earlier cases (all their WALs are closed) must be gone before
	// this case adopts "the" rotation goroutine
	for k := 0; k < 2000 && countGoroutines("raft-wal.(*WAL).runRotate") > 0; k++ {
		time.Sleep(50 * time.Microsecond)
	}
	oldRot := gidsMatching("raft-wal.(*WAL).runRotate")
	env, err := openEnv(vfs, meta)
	if err != nil {
		return "openerr", false
	}
	o := &opCtx{env: env, h: hist}
	for _, op := range setup {
		if out := runOp(o, nil, op); !strings.HasPrefix(out, "ok") {
			env.w.Close()
			return "setuperr:" + out, false
		}
		env.waitRotation()
	}
	points := schedPoints
	if strings.HasPrefix(line, "#") {
		points = append(append([]string(nil), schedPoints...), "vfs.read")
	}
	s := newScheduler(points)
	vfs.syncHook = s.hook
	if strings.HasPrefix(line, "#") {
		vfs.readHook = s.hook
	}
	outs := make([][]string, len(progs))
	for i, p := range progs {
		i, ops := i, splitProg(p)
		s.addRole(fmt.Sprintf("t%d", i), func(r *role) {
			for _, op := range ops {
				outs[i] = append(outs[i], runOp(o, r, op))
			}
		})
	}
	rot := s.adoptRotator(oldRot)
	s.install()
	defer s.uninstall()
	start := time.Now()
	limit := 20 * time.Second
	deadlock := false
	for _, ch := range schedule {
		s.stepRole(int(parseU(string(ch))))
		if s.stuck || time.Since(start) > limit {
			break
		}
	}
	// drain: round-robin until every caller returned
	for round := 0; !s.stuck && !s.allDone(); round++ {
		progress := false
		for id := range s.roles {
			s.stepRole(id)
			t := s.trace[len(s.trace)-1]
			if !strings.HasSuffix(t, ":-") && !strings.HasSuffix(t, ":skip") {
				progress = true
			}
		}
		if !progress || round > 400 || time.Since(start) > limit {
			deadlock = !s.allDone()
			break
		}
	}
	// let the rotator finish whatever it is doing
	for k := 0; k < 40 && !s.stuck && rot.parkedAt() != ""; k++ {
		s.stepRole(rot.id)
	}
	if s.stuck {
		deadlock = true
	}
	if deadlock {
		c.witness(prop, "deadlock", "schedule leaves a call blocked forever: "+strings.Join(s.trace, " "), line)
		// unblock what can be unblocked so that the process can continue
		s.uninstall()
		for _, r := range s.roles {
			if r.parkedAt() != "" && !r.isDone() {
				r.parked.Store("")
				select {
				case r.release <- struct{}{}:
				case <-time.After(50 * time.Millisecond):
				}
			}
		}
	}
	s.uninstall()
	vfs.syncHook = nil
	vfs.readHook = nil
	// ---- oracles that do not depend on the model ---------------------------------
	closed := false
	for i, p := range progs {
		for j, op := range splitProg(p) {
			if j >= len(outs[i]) {
				continue
			}
			switch res := outs[i][j]; {
			case res == "panic":
				c.witness(prop, "panic-"+op[:1], "call "+op+" panicked", line)
			case res == "wrongdata":
				c.witness(prop, "wrongdata", "GetLog returned wrong data", line)
			case res == "ioerr" || res == "metaerr" || res == "err" || res == "sealed":
				// C14: a call racing with Close completes normally or returns ErrClosed
				// (C06 tolerates a read error for an index a truncation removed meanwhile: checkRead)
				if prop == "C14" {
					c.witness(prop, "racing-"+res+"-"+op[:1], "call "+op+" returned "+res+" instead of a result or ErrClosed", line)
				}
			}
			if op == "X" {
				closed = true
			}
		}
	}
	for _, r := range hist.reads {
		if msg := hist.checkRead(r); msg != "" {
			c.witness(prop, "read-not-linearizable-"+string(r.op), msg, line)
			break
		}
	}
	// C13 with readers that pinned older states: once every call has returned and the rotation
	// goroutine is idle (or gone) no reference is left, every finalizer has run -- the directory
	// holds exactly the files of the segments the committed metadata lists (Props/C13Conc.v:
	// every handle outside the current state has been closed, by the finalizer that deletes the file)
	if !deadlock && atomic.LoadInt32(&s.stray) == 0 {
		if msg := dirVsMeta(vfs, meta); msg != "" {
			c.witness("C13", "unlisted-file-after-readers", "all calls returned, rotation goroutine idle: "+msg, line)
		}
	}
	rotExited := "x"
	_, openH, multiH := vfs.account()
	metaCloses := meta.closes
	if closed && !deadlock {
		rotExited = "1"
		// after Close returned: every method returns ErrClosed, second Close is a no-op
		for _, op := range []string{"F", "L", "G1", "S0", "D1", "K", "k"} {
			if out := runOp(o, nil, op); out != "closed" {
				c.witness("C14", "after-close-"+op[:1], "after Close returned "+op+" gives "+out, line)
			}
		}
		if out := runOp(o, nil, "X"); out != "ok" {
			c.witness("C14", "second-close", "second Close gives "+out, line)
		}
		// rotation goroutine must have exited
		ok := false
		for k := 0; k < 200; k++ {
			if countGoroutines("raft-wal.(*WAL).runRotate") == 0 {
				ok = true
				break
			}
			time.Sleep(100 * time.Microsecond)
		}
		if !ok {
			rotExited = "0"
			c.witness("C14", "rotator-alive", "rotation goroutine still running after Close returned", line)
		}
		for k := 0; k < 100 && runtime.NumGoroutine() > baseG; k++ {
			time.Sleep(100 * time.Microsecond)
		}
		if n := runtime.NumGoroutine(); n > baseG {
			c.witness("C14", "goroutine-leak", fmt.Sprintf("%d goroutines after Close, %d before Open", n, baseG), line)
		}
		opened, open, multi := vfs.account()
		if open != 0 || multi != 0 {
			c.witness("C14", "handles", fmt.Sprintf("after Close and all calls returned: %d handles opened, %d still open, %d closed more than once", opened, open, multi), line)
		}
		if meta.closes != 1 {
			c.witness("C14", "meta-close", fmt.Sprintf("metaDB closed %d times", meta.closes), line)
		}
		// acknowledged entries survive the next Open
		reopenCheck(c, "C14", line, vfs, meta, hist.cur())
	} else {
		env.w.Close()
	}
	var sb strings.Builder
	for i := range progs {
		if i > 0 {
			sb.WriteByte('|')
		}
		sb.WriteString(strings.Join(outs[i], "."))
		if len(outs[i]) < len(splitProg(progs[i])) {
			sb.WriteString("*")
		}
	}
	dl := 0
	if deadlock {
		dl = 1
	}
	fmt.Fprintf(&sb, ";dl=%d rot=%s mc=%x open=%x multi=%x", dl, rotExited, metaCloses, openH, multiH)
	if os.Getenv("WH_TRACE") != "" {
		fmt.Fprintf(os.Stderr, "%s\n  %s\n", line, strings.Join(s.trace, " "))
	}
	return sb.String(), atomic.LoadInt32(&s.stray) != 0
}

// reopenCheck: what the reference log holds must be readable after Open.
func reopenCheck(c *ctx, prop, line string, vfs *memVFS, meta *memMeta, want specLog) {
	closesBefore := meta.closes
	defer func() { meta.closes = closesBefore }()
	// two Open/Close cycles: what the first Open repairs (e.g. a rotation that was pending
	// at Close) must itself survive a clean Close and the next Open
	for cycle := 1; cycle <= 2; cycle++ {
		env2, err := openEnv(vfs, meta)
		if err != nil {
			c.witness(prop, fmt.Sprintf("reopen%d", cycle), fmt.Sprintf("Open #%d after Close fails: %s", cycle, err.Error()), line)
			return
		}
		o2 := &opCtx{env: env2, h: newHistory()}
		idxs := make([]uint64, 0, len(want.tags))
		for idx := range want.tags {
			idxs = append(idxs, idx)
		}
		sort.Slice(idxs, func(a, b int) bool { return idxs[a] < idxs[b] })
		bad := false
		for _, idx := range idxs {
			w := fmt.Sprintf("ok:%x", want.tags[idx])
			if out := runOp(o2, nil, fmt.Sprintf("G%x", idx)); out != w {
				c.witness(prop, fmt.Sprintf("acked-lost%d", cycle), fmt.Sprintf("entry %d acknowledged before Close: after reopen #%d GetLog gives %s", idx, cycle, out), line)
				bad = true
				break
			}
		}
		if out := runOp(o2, nil, "L"); out != fmt.Sprintf("ok:%x", want.last) {
			c.witness(prop, fmt.Sprintf("acked-last%d", cycle), fmt.Sprintf("after reopen #%d LastIndex gives %s, acknowledged last is %d", cycle, out, want.last), line)
			bad = true
		}
		if out := runOp(o2, nil, "F"); out != fmt.Sprintf("ok:%x", want.first) {
			c.witness(prop, fmt.Sprintf("acked-first%d", cycle), fmt.Sprintf("after reopen #%d FirstIndex gives %s, expected %d", cycle, out, want.first), line)
			bad = true
		}
		env2.w.Close()
		if bad {
			return
		}
	}
}

// ---- free-running stress (C06) ------------------------------------------------------

func execStress(c *ctx, line string, f []string) string {
	if len(f) != 3 {
		return "badinput"
	}
	seed, nread, ms := int64(parseU(f[0])), int(parseU(f[1])), int(parseU(f[2]))
	vfs, meta := newMemVFS(), newMemMeta()
	hist := newHistory()
	vfs.onSynced = hist.onSynced
	env, err := openEnv(vfs, meta)
	if err != nil {
		return "openerr"
	}
	o := &opCtx{env: env, h: hist}
	stop := int32(0)
	var wg sync.WaitGroup
	deadline := time.Now().Add(time.Duration(ms) * time.Millisecond)
	nWrites, nReads := 0, int64(0)
	// writer: appends (some sealing => rotation), head/tail truncation + re-append with a new tag, base reset
	wg.Add(1)
	go func() {
		defer wg.Done()
		r := rand.New(rand.NewSource(seed))
		tag := uint64(0)
		nBig, nHuge := 0, 0
		for time.Now().Before(deadline) && nWrites < 30000 {
			v := hist.cur()
			n := v.last - v.first + 1
			if v.last == 0 {
				n = 0
			}
			var op string
			switch k := r.Intn(100); {
			case n > 40 || (k < 12 && n > 2):
				op = fmt.Sprintf("D%x", v.first+uint64(r.Intn(int(n))))
			case k < 24 && n > 2:
				tag++
				op = fmt.Sprintf("T%x", v.first+uint64(r.Intn(int(n-1))))
			case k < 27 && n > 0:
				op = fmt.Sprintf("D%x", v.last) // whole log
			case n == 0 && k < 60:
				op = fmt.Sprintf("B%x", v.next+1+uint64(r.Intn(5)))
			case k >= 97 && nBig < 40:
				nBig++
				op = fmt.Sprintf("S2_%x_1", tag%0xffff) // one 100 KiB entry
			case k == 96 && nHuge < 12:
				nHuge++
				op = fmt.Sprintf("S3_%x_28", tag%0xffff) // 40 x 32 KiB in one batch
			default:
				seal := 0
				if r.Intn(6) == 0 {
					seal = 1
				}
				op = fmt.Sprintf("S%d_%x_%x", seal, tag%0xffff, 1+r.Intn(4))
			}
			out := runOp(o, nil, op)
			if out != "ok" {
				c.witness("C06", "writer-"+out, "writer op "+op+" failed with "+out+" during stress", line)
				break
			}
			nWrites++
			if nWrites%64 == 0 {
				runtime.Gosched()
			}
		}
		atomic.StoreInt32(&stop, 1)
	}()
	for i := 0; i < nread; i++ {
		wg.Add(1)
		go func(i int) {
			defer wg.Done()
			r := rand.New(rand.NewSource(seed*1000 + int64(i)))
			mine := 0
			for atomic.LoadInt32(&stop) == 0 && mine < 150000 {
				v := hist.cur()
				var op string
				switch r.Intn(4) {
				case 0:
					op = "F"
				case 1:
					op = "L"
				default:
					lo := v.first
					if lo > 3 {
						lo -= 3
					}
					op = fmt.Sprintf("G%x", lo+uint64(r.Intn(int(v.last-lo+6))))
				}
				runOp(o, nil, op)
				mine++
			}
			atomic.AddInt64(&nReads, int64(mine))
		}(i)
	}
	done := make(chan struct{})
	go func() { wg.Wait(); close(done) }()
	select {
	case <-done:
	case <-time.After(time.Duration(ms)*time.Millisecond + 20*time.Second):
		c.witness("C06", "stress-hang", "stress run did not finish", line)
		return "hang"
	}
	sort.Slice(hist.reads, func(a, b int) bool { return hist.reads[a].inv < hist.reads[b].inv })
	bad := 0
	for _, r := range hist.reads {
		if msg := hist.checkRead(r); msg != "" {
			if bad == 0 {
				c.witness("C06", "read-not-linearizable-"+string(r.op), msg, line)
			}
			bad++
		}
		if r.res == "panic" {
			c.witness("C06", "panic-"+string(r.op), "read panicked during stress", line)
		}
	}
	env.w.Close()
	opened, open, multi := vfs.account()
	if open != 0 || multi != 0 {
		c.witness("C06", "handles", fmt.Sprintf("after stress + Close: %d opened, %d still open, %d closed twice", opened, open, multi), line)
	}
	reopenCheck(c, "C06", line, vfs, meta, hist.cur())
	c.stats["stress_reads"] += int(nReads)
	c.stats["stress_writes"] += nWrites
	if bad > 0 {
		return fmt.Sprintf("bad=%d", bad)
	}
	return "ok"
}

// execRace: the same stress under the Go race detector.  A second binary is built
// with `go build -race` (needs cgo; works offline here) next to this one and run on
// one `#stress` line; a DATA RACE report or any witness of the child is a witness.
func execRace(c *ctx, line string, f []string) string {
	exe, err := os.Executable()
	if err != nil {
		return "norace:" + err.Error()
	}
	bin := filepath.Dir(exe)
	mod := filepath.Dir(bin)
	race := filepath.Join(bin, "wh-race")
	build := exec.Command("go", "build", "-race", "-tags", "verif", "-o", race, "./cmd/wh")
	build.Dir = mod
	build.Env = append(os.Environ(), "CGO_ENABLED=1", "GOFLAGS=-mod=mod", "GOPROXY=off", "GOSUMDB=off", "GOTOOLCHAIN=local")
	if out, err := build.CombinedOutput(); err != nil {
		c.stat("race_build_failed")
		return "norace:build:" + strings.ReplaceAll(string(out), "\n", " ")
	}
	ctxT, cancel := context.WithTimeout(context.Background(), 10*time.Minute)
	defer cancel()
	run := exec.CommandContext(ctxT, race, "exec", "sched06", "-tier", "quick")
	run.Stdin = strings.NewReader("#stress " + strings.Join(f, " ") + "\n")
	run.Env = append(os.Environ(), "GORACE=halt_on_error=0")
	var stdout, stderr bytes.Buffer
	run.Stdout, run.Stderr = &stdout, &stderr
	err = run.Run()
	if strings.Contains(stderr.String(), "DATA RACE") {
		rep := stderr.String()
		if len(rep) > 1500 {
			rep = rep[:1500]
		}
		c.witness("C06", "data-race", "race detector report: "+strings.ReplaceAll(rep, "\n", " | "), line)
		return "race"
	}
	for _, l := range strings.Split(stdout.String(), "\n") {
		if strings.HasPrefix(l, "!W\t") {
			p := strings.Split(l, "\t")
			if len(p) >= 4 {
				c.witness(p[1], p[2], p[3]+" (under -race)", line)
			}
		}
	}
	if err != nil {
		return "raceerr:" + err.Error()
	}
	c.stat("race_runs")
	return "ok"
}

func execSched(c *ctx, line string) string {
	f := strings.Split(strings.TrimPrefix(line, "#"), " ")
	if len(f) < 2 {
		return "badinput"
	}
	switch {
	case f[0] == "sched" && f[1] == "c14":
		return execSchedCase(c, line, "C14", f[2:])
	case f[0] == "sched" && f[1] == "c06":
		return execSchedCase(c, line, "C06", f[2:])
	case f[0] == "stress":
		return execStress(c, line, f[1:])
	case f[0] == "race":
		return execRace(c, line, f[1:])
	}
	return "badinput"
}

func init() {
	streams["sched14"] = &stream{gen: genSchedC14, exec: execSched}
	streams["sched06"] = &stream{gen: genSchedC06, exec: execSched}
}

func rep(ch string, k int) string { return strings.Repeat(ch, k) }

// genSchedC14: every API method x every window of the call x every stage of
// Close, on three initial logs; a writer waiting for a pending rotation while
// Close runs; then random programs and schedules.
func genSchedC14(c *ctx, emit func(string)) {
	r := rand.New(rand.NewSource(c.seed))
	n := 0
	out := func(setup, threads, sch string) {
		emit("sched c14 " + setup + " " + threads + " " + sch)
		n++
	}
	// regression cases for the windows that were defects (see known_findings.json)
	out("S0.S0", "G1,X", "0011111111000")                             // load | Close | acquire
	out("S0.S0", "K,X", "011111111000")                               // Set.checked | Close | SetStable
	out("S0.S0", "k,X", "011111111000")                               // Get.checked | Close | GetStable
	out("S0.S0.S0", "G3,D1,X", "00011111111111112222222222000")       // reader of s0 | truncation -> s1 | Close retires s1
	out("S0.S0.S0", "G3,X,S1", "00022222222222222233331111111111000") // same with a rotation
	out("S0.S0", "F,G1,X", "00011122222220011")                       // stale zero observer | new reader | Close | observer swaps
	ops := []string{"F", "L", "G1", "G2", "G9", "S0", "S1", "D1", "D2", "T1", "K", "k", "X"}
	setups := []string{"S0.S0", "S1.S0", "S1"}
	for _, su := range setups {
		for _, op := range ops {
			for a := 0; a <= 8; a++ {
				for cl := 1; cl <= 5; cl++ {
					for _, b := range []int{0, 1, 2, 9} {
						if c.tier == "quick" && (a+cl+b+len(su)+len(op))%4 != int(c.seed%4) {
							continue
						}
						out(su, op+",X", rep("0", a)+rep("1", cl)+rep("0", b)+rep("1", 6))
					}
				}
			}
		}
	}
	for _, w := range []string{"S1.S0", "S1.D1", "S1.S1.S0", "S0.S1.D1", "S1.T1"} {
		for a := 8; a <= 13; a++ {
			for rt := 0; rt <= 5; rt++ {
				for cl := 1; cl <= 5; cl++ {
					if c.tier == "quick" && (a+rt+cl+len(w))%3 != int(c.seed%3) {
						continue
					}
					out("S0", w+",X", rep("0", a)+rep("2", rt)+rep("1", cl)+rep("2", 2)+rep("0", 3)+rep("1", 6))
				}
			}
		}
	}
	wops := []string{"S0", "S1", "D1", "D2", "D3", "T1", "T2", "S0_1_2"}
	rops := []string{"F", "L", "G1", "G2", "G3", "G5", "K", "k"}
	for n < c.n {
		var th, w []string
		for i := 1 + r.Intn(3); i > 0; i-- {
			w = append(w, wops[r.Intn(len(wops))])
		}
		th = append(th, strings.Join(w, "."))
		for i := r.Intn(3); i > 0; i-- {
			var p []string
			for j := 1 + r.Intn(2); j > 0; j-- {
				p = append(p, rops[r.Intn(len(rops))])
			}
			th = append(th, strings.Join(p, "."))
		}
		th = append(th, "X")
		if r.Intn(4) == 0 {
			th = append(th, "X")
		}
		if r.Intn(5) == 0 {
			th = append(th, "F.X.L")
		}
		out(setups[r.Intn(len(setups))], strings.Join(th, ","), randSchedule(r, len(th)+1, 10+r.Intn(50)))
	}
}

func randSchedule(r *rand.Rand, nt, elems int) string {
	var sb strings.Builder
	for i := elems; i > 0; i-- {
		t := r.Intn(nt)
		for k := 1 + r.Intn(3); k > 0; k-- { // runs of the same thread
			fmt.Fprintf(&sb, "%x", t)
		}
	}
	return sb.String()
}

// genSchedC06: a single writer (thread 0) against readers, forced around the
// windows of the protocol, then random programs and schedules, then the stress.
func genSchedC06(c *ctx, emit func(string)) {
	r := rand.New(rand.NewSource(c.seed))
	n := 0
	out := func(setup, threads, sch string) {
		emit("sched c06 " + setup + " " + threads + " " + sch)
		n++
	}
	// writer programs: append (visible only when durable), rotation, head truncation that
	// finalises files, tail truncation + re-append of different content, whole-log deletion
	wprogs := []string{"S0_1_2", "S1_1_1.S0_2_1", "D1", "D2.D3", "T1.S0_7_2", "T2.S0_7_1.T1.S0_8_2", "S1_1_1.D2.T2.S0_9_1", "D3.S0_4_1", "T0.S0_5_1"}
	reads := []string{"F", "L", "G1", "G2", "G3", "G4"}
	setups := []string{"S0.S0.S0", "S1.S0.S0", "S1.S1.S0"}
	for _, su := range setups {
		for _, wp := range wprogs {
			for _, rd := range reads {
				// reader takes a steps (0: not started .. 4: about to release), the writer runs b steps
				// (and the rotator c), the reader finishes, everything drains
				for a := 0; a <= 4; a++ {
					for _, b := range []int{1, 3, 5, 6, 7, 8, 9, 11, 14, 30} {
						if c.tier == "quick" && (a+b+len(su)+len(wp)+len(rd))%6 != int(c.seed%6) {
							continue
						}
						out(su, wp+","+rd, rep("1", a)+rep("0", b)+rep("2", b/3)+rep("1", 2)+rep("0", 30)+rep("2", 8)+rep("0", 30))
					}
				}
			}
		}
	}
	// two readers on the same old state: the last one out runs the finalizer chain
	for _, su := range setups {
		for _, wp := range []string{"D1.D2", "T1.S0_7_2", "S1_1_1.D2"} {
			for a := 2; a <= 4; a++ {
				for b := 2; b <= 4; b++ {
					out(su, wp+",G1.L,G2.F", rep("1", a)+rep("2", b)+rep("0", 40)+rep("3", 10)+rep("0", 40)+"1122112211221122")
				}
			}
		}
	}
	wops := []string{"S0_1_1", "S0_2_3", "S1_3_1", "D1", "D2", "D4", "T1", "T2", "T3", "S0_4_2", "T0"}
	for n < c.n {
		var th, w []string
		for i := 1 + r.Intn(4); i > 0; i-- {
			w = append(w, wops[r.Intn(len(wops))])
		}
		th = append(th, strings.Join(w, "."))
		for i := 1 + r.Intn(3); i > 0; i-- {
			var p []string
			for j := 1 + r.Intn(3); j > 0; j-- {
				k := r.Intn(len(reads))
				p = append(p, reads[k])
			}
			th = append(th, strings.Join(p, "."))
		}
		out(setups[r.Intn(len(setups))], strings.Join(th, ","), randSchedule(r, len(th)+1, 20+r.Intn(80)))
	}
	// entries larger than the 64 KiB pooled read buffer, read by two readers; a batch above
	// 1 MiB (40 x 32 KiB) observed by concurrent LastIndex / GetLog at every append-level point
	for i := 0; i < 10; i++ {
		out("S0.S2_5_1.S0", "S0_6_1,G2.G1.G2,G2.G3.G2", randSchedule(r, 4, 30+r.Intn(30)))
	}
	for b := 0; b <= 9; b++ {
		out("S0.S0", "S3_9_28,L.L,G4.L", rep("0", b)+"1112"+rep("0", 1)+"12"+rep("0", 1)+"1212"+rep("0", 40)+rep("3", 8)+"11112222")
	}
	// the same with the reader parked after ReadAt filled its buffer (extra point vfs.read,
	// implementation only): another reader's complete GetLog runs in between
	for i := 0; i < 10; i++ {
		emit(fmt.Sprintf("#sched c06 S0.S2_5_1.S0.S0 G2.G1.G2.G3,G2.G3.G2.G1,G2.G2.G1 %s", randSchedule(r, 4, 60)))
	}
	// base-index reset (not in the model): implementation-only, judged by the history check
	for i := 0; i < 12; i++ {
		emit(fmt.Sprintf("#sched c06 S0.S0 D2.B%x.S0_1_1,F.L.G%x,G2.L %s", 9+i, 9+i, randSchedule(r, 4, 40)))
	}
	secs := 6
	if c.tier == "thorough" {
		secs = 60
	}
	for i := 0; i < 2; i++ {
		emit(fmt.Sprintf("#stress %x %x %x", c.seed*10+int64(i), 8, secs*500))
	}
	if c.tier == "thorough" {
		emit(fmt.Sprintf("#race %x %x %x", c.seed*10+7, 8, 20000))
	}
}

// dirVsMeta compares the files of the in-memory directory with the segments of the committed metadata
func dirVsMeta(vfs *memVFS, meta *memMeta) string {
	meta.mu.Lock()
	want := map[string]bool{}
	for _, si := range meta.state.Segments {
		want[segment.FileName(si)] = true
	}
	meta.mu.Unlock()
	names, _ := vfs.ListDir("")
	for _, n := range names {
		if !want[n] {
			return "file " + n + " is in the directory but not listed in the committed metadata"
		}
		delete(want, n)
	}
	for n := range want {
		return "segment file " + n + " is listed in the committed metadata but missing"
	}
	return ""
}
