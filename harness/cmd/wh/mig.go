package main

// Stream `mig` (C19): runs the real migrate.CopyLogs / migrate.CopyStable of
// /repo on every pairing of raft.InmemStore, the real WAL and raft-boltdb.
// Cancellation and I/O failures are forced deterministically by wrappers
// around the source and destination stores.  Line formats: coq/Run/RunMig.v.

import (
	"context"
	"errors"
	"fmt"
	"math"
	"math/rand"
	"os"
	"path/filepath"
	"strings"
	"time"

	"github.com/hashicorp/raft"
	raftboltdb "github.com/hashicorp/raft-boltdb/v2"
	wal "github.com/hashicorp/raft-wal"
	"github.com/hashicorp/raft-wal/migrate"
)

func init() { streams["mig"] = &stream{gen: genMig, exec: execMig} }

var (
	errInjFirst = errors.New("verif: source FirstIndex failed")
	errInjLast  = errors.New("verif: source LastIndex failed")
	errInjGet   = errors.New("verif: source GetLog failed")
	errInjStore = errors.New("verif: destination StoreLogs failed")
	errInjSGet  = errors.New("verif: source stable get failed")
	errInjSSet  = errors.New("verif: destination stable set failed")
)

type bothStore interface {
	raft.LogStore
	raft.StableStore
}

// openStore opens a fresh store of the given kind in (a sub-directory of) dir.
func openStore(kind, dir string, variant int) (bothStore, func(), error) {
	switch kind {
	case "i":
		return raft.NewInmemStore(), func() {}, nil
	case "w":
		if err := os.MkdirAll(dir, 0o755); err != nil {
			return nil, nil, err
		}
		var w *wal.WAL
		var err error
		switch variant % 3 {
		case 0:
			w, err = wal.Open(dir)
		case 1:
			w, err = wal.Open(dir, wal.WithSegmentSize(512))
		default:
			w, err = wal.Open(dir, wal.WithSegmentSize(4096))
		}
		if err != nil {
			return nil, nil, err
		}
		return w, func() { w.Close() }, nil
	case "b":
		if err := os.MkdirAll(dir, 0o755); err != nil {
			return nil, nil, err
		}
		b, err := raftboltdb.New(raftboltdb.Options{Path: filepath.Join(dir, "raft.db"), NoSync: true})
		if err != nil {
			return nil, nil, err
		}
		return b, func() { b.Close() }, nil
	}
	return nil, nil, fmt.Errorf("unknown store kind %q", kind)
}

// cancelSrc counts GetLog calls, cancels the context at the end of the k-th
// call and fails the call for one chosen index.
type cancelSrc struct {
	raft.LogStore
	cancelAfter int // cancel when this many GetLog calls have been made (<=0: never)
	cancel      func()
	failIdx     *uint64
	gets        int
	failFirst   bool // FirstIndex returns an injected error
	failLast    bool // LastIndex returns an injected error
}

// Errors of the underlying store (e.g. ErrClosed of a WAL that was closed
// before the copy) are classified the same way as injected ones.
func (s *cancelSrc) FirstIndex() (uint64, error) {
	if s.failFirst {
		return 0, errInjFirst
	}
	v, err := s.LogStore.FirstIndex()
	if err != nil {
		return 0, fmt.Errorf("%w: %v", errInjFirst, err)
	}
	return v, nil
}

func (s *cancelSrc) LastIndex() (uint64, error) {
	if s.failLast {
		return 0, errInjLast
	}
	v, err := s.LogStore.LastIndex()
	if err != nil {
		return 0, fmt.Errorf("%w: %v", errInjLast, err)
	}
	return v, nil
}

func (s *cancelSrc) GetLog(idx uint64, l *raft.Log) error {
	s.gets++
	if s.failIdx != nil && *s.failIdx == idx {
		return errInjGet
	}
	err := s.LogStore.GetLog(idx, l)
	if s.gets == s.cancelAfter {
		s.cancel()
	}
	if err != nil {
		return fmt.Errorf("%w: %v", errInjGet, err)
	}
	return nil
}

// recDst records the size of every accepted StoreLogs batch and fails the
// k-th call.
type recDst struct {
	raft.LogStore
	failK   int
	calls   int
	batches []int
	shapes  []string
}

func (d *recDst) StoreLogs(logs []*raft.Log) error {
	k := d.calls
	d.calls++
	if k == d.failK {
		return errInjStore
	}
	sh := "ok"
	if len(logs) == 0 {
		sh = "empty-batch"
	}
	for i := 1; i < len(logs); i++ {
		if logs[i].Index != logs[i-1].Index+1 {
			sh = "non-consecutive-batch"
		}
	}
	d.shapes = append(d.shapes, sh)
	if err := d.LogStore.StoreLogs(logs); err != nil {
		return fmt.Errorf("%w: %v", errInjStore, err)
	}
	d.batches = append(d.batches, len(logs))
	return nil
}
func (d *recDst) StoreLog(l *raft.Log) error { return d.StoreLogs([]*raft.Log{l}) }

func optInt(s string) (int64, bool) {
	if s == "-" {
		return 0, false
	}
	return int64(parseU(s)), true
}

// chanClosed reports whether ch is closed, after draining buffered messages.
// Called after the copying function returned, so no sender is left.
func chanClosed(ch chan string) bool {
	for {
		select {
		case _, ok := <-ch:
			if !ok {
				return true
			}
		default:
			return false
		}
	}
}

func migEntryFields(l *raft.Log) string {
	return fmt.Sprintf("%x %x %x %s %s %s %s", l.Index, l.Term, uint64(l.Type), hx(l.Data), hx(l.Extensions),
		zx(l.AppendedAt.Unix()), zx(int64(l.AppendedAt.Nanosecond())))
}

func sameEntry(a, b *raft.Log) bool { return logsEqual(a, b) }

func execMig(c *ctx, line string) (obs string) {
	f := strings.Split(line, " ")
	defer func() {
		if e := recover(); e != nil {
			c.witness("C19", "panic", fmt.Sprintf("migrate panics: %v", e), line)
			obs = "panic"
		}
	}()
	switch f[0] {
	case "mig":
		return execCopyLogs(c, line, f[1:])
	case "stb":
		return execCopyStable(c, line, f[1:])
	}
	return "badinput"
}

var migSeq int

func execCopyLogs(c *ctx, line string, f []string) string {
	if len(f) < 9 || (len(f)-9)%7 != 0 {
		return "badinput"
	}
	srcKind, dstKind := f[0], f[1]
	prog := f[2] == "1"
	bb := parseZ(f[3])
	cancelK, hasCancel := optInt(f[4])
	gf, hasGF := optInt(f[5])
	sf, hasSF := optInt(f[6])
	idxFail := f[7] // - | f | l | c
	if idxFail != "-" && idxFail != "f" && idxFail != "l" && idxFail != "c" {
		return "badinput"
	}
	first := parseU(f[8])
	var ents []*raft.Log
	for i := 9; i < len(f); i += 7 {
		e := &raft.Log{Index: parseU(f[i]), Term: parseU(f[i+1]), Type: raft.LogType(parseU(f[i+2])),
			Data: parseHex(f[i+3]), Extensions: parseHex(f[i+4])}
		t := time.Unix(parseZ(f[i+5]), parseZ(f[i+6]))
		switch len(ents) % 3 {
		case 0:
			t = t.UTC()
		case 1:
			t = t.In(time.FixedZone("", 3600*(len(ents)%11-5)))
		}
		e.AppendedAt = t
		ents = append(ents, e)
	}
	// same well-formedness test as the model (wf_storeb)
	for i, e := range ents {
		if e.Index != first+uint64(i) || first == 0 {
			return "badinput"
		}
	}
	if len(ents) > 0 && first+uint64(len(ents)) < first {
		return "badinput"
	}
	migSeq++
	base := filepath.Join(c.work, fmt.Sprintf("mig-%d-%d", os.Getpid(), migSeq))
	defer os.RemoveAll(base)
	variant := len(line)
	srcS, closeSrc, err := openStore(srcKind, filepath.Join(base, "src"), variant)
	if err != nil {
		panic(err)
	}
	defer closeSrc()
	dstS, closeDst, err := openStore(dstKind, filepath.Join(base, "dst"), variant/3)
	if err != nil {
		panic(err)
	}
	defer closeDst()
	// populate the source in a few batches
	for i := 0; i < len(ents); {
		j := i + 1 + (variant+i)%5
		if j > len(ents) {
			j = len(ents)
		}
		cp := make([]*raft.Log, 0, j-i)
		for _, e := range ents[i:j] {
			x := *e
			cp = append(cp, &x)
		}
		if err := srcS.StoreLogs(cp); err != nil {
			panic(fmt.Sprintf("populating source %s: %v", srcKind, err))
		}
		i = j
	}
	c.stat("pair_" + srcKind + dstKind)
	c.stat(fmt.Sprintf("len_%s", bucket(len(ents))))
	// what the source holds, read before it is possibly closed
	sFirst, _ := srcS.FirstIndex()
	sLast, _ := srcS.LastIndex()

	// cancelled WITH A CAUSE: ctx.Err() is still context.Canceled, and that is what CopyLogs must return
	ctxx, cancelCause := context.WithCancelCause(context.Background())
	cancel := func() { cancelCause(errors.New("operator requested shutdown")) }
	defer cancel()
	src := &cancelSrc{LogStore: srcS, cancel: cancel}
	srcClosed := false
	switch idxFail {
	case "f":
		src.failFirst = true
	case "l":
		src.failLast = true
	case "c":
		// the natural way to make FirstIndex fail: the source store was closed
		// before the copy (WAL: ErrClosed, raft-boltdb: database not open);
		// InmemStore cannot be closed, so the fault is injected there
		if srcKind == "i" {
			src.failFirst = true
		} else {
			closeSrc()
			srcClosed = true
		}
	}
	if idxFail != "-" {
		c.stat("idxfail_" + idxFail + "_" + srcKind)
	}
	if hasCancel {
		if cancelK == 0 {
			cancel()
		} else {
			src.cancelAfter = int(cancelK)
		}
		c.stat("cancel")
	}
	if hasGF {
		u := uint64(gf)
		src.failIdx = &u
		c.stat("getfail")
	}
	dst := &recDst{LogStore: dstS, failK: -1}
	if hasSF {
		dst.failK = int(sf)
		c.stat("storefail")
	}
	var ch chan string
	if prog {
		capn := 3*len(ents) + 16
		if len(ents) <= 6 && len(ents)%2 == 0 {
			capn = 0 // unbuffered, never drained: updates time out after 1ms each
			c.stat("unbuffered_progress")
		}
		ch = make(chan string, capn)
	}
	var pch chan<- string
	if ch != nil {
		pch = ch
	}
	err = migrate.CopyLogs(ctxx, dst, src, int(bb), pch)

	res := "ok"
	switch {
	case err == nil:
	case errors.Is(err, context.Canceled):
		res = "canceled"
		if err != ctxx.Err() {
			c.witness("C19", "cancel-wrong-error", "cancellation did not return the context's own error", line)
		}
	case errors.Is(err, errInjFirst):
		res = "errfirst"
	case errors.Is(err, errInjLast):
		res = "errlast"
	case errors.Is(err, errInjGet):
		res = "errget"
	case errors.Is(err, errInjStore):
		res = "errstore"
	default:
		res = "other"
	}
	c.stat("res_" + res)
	closed := "0"
	if ch != nil {
		if chanClosed(ch) {
			closed = "1"
		} else {
			c.witness("C19", "progress-not-closed", "CopyLogs returned ("+res+") without closing the progress channel", line)
		}
	}
	// ---- oracles, independent of the model --------------------------------
	dFirst, e1 := dstS.FirstIndex()
	dLast, e2 := dstS.LastIndex()
	if e1 != nil || e2 != nil {
		panic("destination First/LastIndex failed")
	}
	for _, sh := range dst.shapes {
		if sh != "ok" {
			c.witness("C19", sh, "CopyLogs handed the destination an unacceptable batch: "+sh, line)
		}
	}
	noFault := !hasCancel && !hasGF && !hasSF && idxFail == "-"
	if idxFail != "-" {
		want := "errfirst"
		if idxFail == "l" {
			want = "errlast"
		}
		if res != want || src.gets != 0 || dst.calls != 0 {
			c.witness("C19", "index-error-ignored", fmt.Sprintf("source %s index lookup failed but CopyLogs returned %s after %d GetLog / %d StoreLogs calls", want[3:], res, src.gets, dst.calls), line)
		}
	}
	if noFault && err != nil {
		c.witness("C19", "copy-failed", fmt.Sprintf("CopyLogs failed without cancellation or fault (%d source entries): %v", len(ents), err), line)
	}
	if hasCancel && !hasGF && !hasSF && idxFail == "-" && int(cancelK) < len(ents) && res != "canceled" {
		c.witness("C19", "cancel-ignored", "context cancelled before the loop finished but CopyLogs returned "+res, line)
	}
	var dents []string
	nd := 0
	prefixOK := true
	if !(dFirst == 0 && dLast == 0) {
		if dFirst != sFirst || dLast > sLast || dLast < dFirst {
			prefixOK = false
		}
		for idx := dFirst; idx <= dLast && idx >= dFirst; idx++ {
			var dl, sl raft.Log
			if err := dstS.GetLog(idx, &dl); err != nil {
				prefixOK = false
				break
			}
			nd++
			dents = append(dents, migEntryFields(&dl))
			if srcClosed { // nothing may have been copied from a closed source
				prefixOK = false
			} else if err := srcS.GetLog(idx, &sl); err != nil || !sameEntry(&dl, &sl) {
				prefixOK = false
			}
			if idx == math.MaxUint64 {
				break
			}
		}
	}
	if !prefixOK {
		c.witness("C19", "not-prefix", "destination is not a prefix of the source after CopyLogs returned "+res, line)
	}
	if err == nil && (dFirst != sFirst || dLast != sLast || nd != len(ents)) {
		c.witness("C19", "copy-mismatch", fmt.Sprintf("CopyLogs returned nil but destination has [%d,%d], source [%d,%d]", dFirst, dLast, sFirst, sLast), line)
	}
	// ---- canonical observation ---------------------------------------------
	var sb strings.Builder
	fmt.Fprintf(&sb, "%s %s %x %x %x %x", res, closed, src.gets, dFirst, dLast, len(dst.batches))
	for _, b := range dst.batches {
		fmt.Fprintf(&sb, " %x", b)
	}
	fmt.Fprintf(&sb, " %x", nd)
	for _, e := range dents {
		sb.WriteString(" " + e)
	}
	return sb.String()
}

func bucket(n int) string {
	switch {
	case n == 0:
		return "0"
	case n == 1:
		return "1"
	case n <= 8:
		return "2-8"
	case n <= 40:
		return "9-40"
	}
	return "41+"
}

// ---- CopyStable ---------------------------------------------------------------

type cancelStable struct {
	raft.StableStore
	cancelAfter int
	cancel      func()
	gets        int
}

func (s *cancelStable) after() {
	if s.gets == s.cancelAfter {
		s.cancel()
	}
}
func (s *cancelStable) Get(k []byte) ([]byte, error) {
	s.gets++
	v, err := s.StableStore.Get(k)
	s.after()
	if err != nil {
		return nil, fmt.Errorf("%w: %v", errInjSGet, err)
	}
	return v, nil
}
func (s *cancelStable) GetUint64(k []byte) (uint64, error) {
	s.gets++
	v, err := s.StableStore.GetUint64(k)
	s.after()
	if err != nil {
		return 0, fmt.Errorf("%w: %v", errInjSGet, err)
	}
	return v, nil
}

type setStable struct{ raft.StableStore }

func (s *setStable) Set(k, v []byte) error {
	if err := s.StableStore.Set(k, v); err != nil {
		return fmt.Errorf("%w: %v", errInjSSet, err)
	}
	return nil
}
func (s *setStable) SetUint64(k []byte, v uint64) error {
	if err := s.StableStore.SetUint64(k, v); err != nil {
		return fmt.Errorf("%w: %v", errInjSSet, err)
	}
	return nil
}

type tokReader struct {
	f []string
	i int
}

func (t *tokReader) next() string {
	if t.i >= len(t.f) {
		panic("short line")
	}
	s := t.f[t.i]
	t.i++
	return s
}

func execCopyStable(c *ctx, line string, f []string) string {
	t := &tokReader{f: f}
	srcKind, dstKind := t.next(), t.next()
	prog := t.next() == "1"
	cancelK, hasCancel := optInt(t.next())
	var extra, extraInt [][]byte
	for n := int(parseU(t.next())); n > 0; n-- {
		extra = append(extra, parseHex(t.next()))
	}
	for n := int(parseU(t.next())); n > 0; n-- {
		extraInt = append(extraInt, parseHex(t.next()))
	}
	type kv struct {
		k, v []byte
	}
	type ki struct {
		k []byte
		v uint64
	}
	var kvs []kv
	var kis []ki
	for n := int(parseU(t.next())); n > 0; n-- {
		kvs = append(kvs, kv{parseHex(t.next()), parseHex(t.next())})
	}
	for n := int(parseU(t.next())); n > 0; n-- {
		kis = append(kis, ki{parseHex(t.next()), parseU(t.next())})
	}
	// optional: what the destination holds before the copy
	var dkvs []kv
	var dkis []ki
	if t.i != len(f) {
		for n := int(parseU(t.next())); n > 0; n-- {
			dkvs = append(dkvs, kv{parseHex(t.next()), parseHex(t.next())})
		}
		for n := int(parseU(t.next())); n > 0; n-- {
			dkis = append(dkis, ki{parseHex(t.next()), parseU(t.next())})
		}
	}
	if t.i != len(f) {
		return "badinput"
	}
	migSeq++
	base := filepath.Join(c.work, fmt.Sprintf("stb-%d-%d", os.Getpid(), migSeq))
	defer os.RemoveAll(base)
	srcS, closeSrc, err := openStore(srcKind, filepath.Join(base, "src"), 0)
	if err != nil {
		panic(err)
	}
	defer closeSrc()
	dstS, closeDst, err := openStore(dstKind, filepath.Join(base, "dst"), 0)
	if err != nil {
		panic(err)
	}
	defer closeDst()
	// the model's lookup finds the first binding: store in reverse order
	for i := len(kvs) - 1; i >= 0; i-- {
		if err := srcS.Set(kvs[i].k, kvs[i].v); err != nil {
			panic(err)
		}
	}
	for i := len(kis) - 1; i >= 0; i-- {
		if err := srcS.SetUint64(kis[i].k, kis[i].v); err != nil {
			panic(err)
		}
	}
	for i := len(dkvs) - 1; i >= 0; i-- {
		if err := dstS.Set(dkvs[i].k, dkvs[i].v); err != nil {
			panic(err)
		}
	}
	for i := len(dkis) - 1; i >= 0; i-- {
		if err := dstS.SetUint64(dkis[i].k, dkis[i].v); err != nil {
			panic(err)
		}
	}
	if len(dkvs)+len(dkis) > 0 {
		c.stat("stb_nonempty_destination")
	}
	c.stat("stb_pair_" + srcKind + dstKind)
	ctxx, cancelCause := context.WithCancelCause(context.Background())
	cancel := func() { cancelCause(errors.New("operator requested shutdown")) }
	defer cancel()
	src := &cancelStable{StableStore: srcS, cancel: cancel}
	// the caller's two key lists are slices of ONE registry with spare capacity (appending to one of
	// them in place would overwrite the other); they must come back unchanged
	registry := make([][]byte, 0, len(extra)+len(extraInt)+8)
	registry = append(registry, extraInt...)
	registry = append(registry, extra...)
	extraInt, extra = registry[:len(extraInt)], registry[len(extraInt):len(extraInt)+len(extra)]
	keysBefore := fmt.Sprintf("%q %q", extraInt, extra)
	if hasCancel {
		if cancelK == 0 {
			cancel()
		} else {
			src.cancelAfter = int(cancelK)
		}
		c.stat("stb_cancel")
	}
	var ch chan string
	var pch chan<- string
	if prog {
		ch = make(chan string, 64)
		pch = ch
	}
	err = migrate.CopyStable(ctxx, &setStable{dstS}, src, extra, extraInt, pch)
	if after := fmt.Sprintf("%q %q", extraInt, extra); after != keysBefore {
		c.witness("C19", "copystable-modifies-key-lists", "CopyStable changed the caller's key lists: "+keysBefore+" -> "+after, line)
	}
	res := "ok"
	switch {
	case err == nil:
	case errors.Is(err, context.Canceled):
		res = "canceled"
		if err != ctxx.Err() {
			c.witness("C19", "cancel-wrong-error", "CopyStable cancellation did not return the context's own error", line)
		}
	case errors.Is(err, errInjSGet):
		res = "errget"
	case errors.Is(err, errInjSSet):
		res = "errset"
	default:
		res = "other"
	}
	c.stat("stb_res_" + res)
	closed := "0"
	if ch != nil {
		if chanClosed(ch) {
			closed = "1"
		} else {
			c.witness("C19", "progress-not-closed", "CopyStable returned ("+res+") without closing the progress channel", line)
		}
	}
	intKeys := append([][]byte{[]byte("CurrentTerm"), []byte("LastVoteTerm")}, extraInt...)
	keys := append([][]byte{[]byte("LastVoteCand")}, extra...)
	requested := map[string]bool{}
	var sb strings.Builder
	sb.WriteString(res + " " + closed)
	for _, k := range intKeys {
		requested["i:"+string(k)] = true
		dv, derr := dstS.GetUint64(k)
		if derr != nil {
			dv = 0
		}
		fmt.Fprintf(&sb, " %x", dv)
		if err == nil { // oracle: value as the source reports it
			sv, serr := srcS.GetUint64(k)
			if serr == nil && sv != dv {
				c.witness("C19", "stable-int-mismatch", fmt.Sprintf("int key %q: source %d destination %d", k, sv, dv), line)
			}
		}
	}
	for _, k := range keys {
		requested["k:"+string(k)] = true
		dv, derr := dstS.Get(k)
		if derr != nil {
			dv = nil
		}
		sb.WriteString(" " + hx(dv))
		if err == nil {
			sv, serr := srcS.Get(k)
			if serr == nil && string(sv) != string(dv) {
				c.witness("C19", "stable-mismatch", fmt.Sprintf("key %q: source %x destination %x", k, sv, dv), line)
			}
		}
	}
	// keys that were not requested keep what the destination held before (nothing, if it was empty)
	preK, preI := map[string]string{}, map[string]uint64{}
	for i := len(dkvs) - 1; i >= 0; i-- {
		preK[string(dkvs[i].k)] = string(dkvs[i].v)
	}
	for i := len(dkis) - 1; i >= 0; i-- {
		preI[string(dkis[i].k)] = dkis[i].v
	}
	for _, e := range append(append([]kv(nil), kvs...), dkvs...) {
		if !requested["k:"+string(e.k)] {
			if dv, derr := dstS.Get(e.k); derr == nil && string(dv) != preK[string(e.k)] {
				c.witness("C19", "stable-unrequested-key", fmt.Sprintf("key %q was not requested but the destination now holds %x (before: %x)", e.k, dv, preK[string(e.k)]), line)
			}
		}
	}
	for _, e := range append(append([]ki(nil), kis...), dkis...) {
		if !requested["i:"+string(e.k)] {
			if dv, derr := dstS.GetUint64(e.k); derr == nil && dv != preI[string(e.k)] {
				c.witness("C19", "stable-unrequested-key", fmt.Sprintf("int key %q was not requested but the destination now holds %d (before: %d)", e.k, dv, preI[string(e.k)]), line)
			}
		}
	}
	return sb.String()
}

// ---- generators ----------------------------------------------------------------

func genMig(c *ctx, emit func(string)) {
	r := rand.New(rand.NewSource(c.seed))
	kinds := []string{"i", "w", "b"}
	nLogs := c.n * 4 / 5
	for i := 0; i < nLogs; i++ {
		src, dst := kinds[i%3], kinds[(i/3)%3]
		// the first 27 cases: every pairing x {FirstIndex fails, source closed,
		// LastIndex fails}; afterwards about one case in nine
		idxS := "-"
		if i < 27 {
			idxS = []string{"f", "c", "l"}[i/9]
		} else if r.Intn(9) == 0 {
			idxS = []string{"f", "c", "l"}[r.Intn(3)]
		}
		var n int
		switch r.Intn(10) {
		case 0:
			n = 0
		case 1:
			n = 1
		case 2, 3, 4, 5:
			n = 2 + r.Intn(10)
		case 6, 7, 8:
			n = 5 + r.Intn(30)
		default:
			n = 20 + r.Intn(60)
			if c.tier == "thorough" && r.Intn(4) == 0 {
				n = 100 + r.Intn(300)
			}
		}
		var first uint64
		switch r.Intn(7) {
		case 0:
			first = 1
		case 1:
			first = 2
		case 2:
			first = uint64(1 + r.Intn(5000))
		case 3:
			first = r.Uint64()>>uint(1+r.Intn(40)) + 1
		case 4:
			first = math.MaxUint64 - uint64(n) - uint64(r.Intn(3)) // last near MaxUint64-1
			if n == 0 {
				first = math.MaxUint64 - 1
			}
		case 5:
			first = 1 << uint(7*(1+r.Intn(8)))
		default:
			first = uint64(1 + r.Intn(100))
		}
		sizes := make([]int, n)
		total := 0
		for j := range sizes {
			switch r.Intn(6) {
			case 0:
				sizes[j] = 0
			case 1:
				sizes[j] = 1 + r.Intn(4)
			case 2:
				sizes[j] = 100 + r.Intn(300)
			default:
				sizes[j] = r.Intn(40)
			}
			total += sizes[j] + 32
		}
		var bb int64
		switch r.Intn(12) {
		case 0:
			bb = 0
		case 1:
			bb = 1
		case 2:
			bb = -1 - r.Int63n(1000)
		case 3:
			bb = math.MinInt64
		case 4:
			bb = math.MaxInt64
		case 5:
			bb = int64(total) + int64(r.Intn(3)) - 1 // around the whole log
		case 6, 7:
			if n > 0 { // around a run of entries
				k := 1 + r.Intn(minInt(n, 4))
				s := 0
				for _, z := range sizes[:k] {
					s += z + 32
				}
				bb = int64(s) + int64(r.Intn(3)) - 1
			}
		case 8:
			bb = 32 + int64(r.Intn(3)) - 1
		default:
			bb = int64(r.Intn(600))
		}
		cancelS, gfS, sfS := "-", "-", "-"
		switch r.Intn(10) {
		case 0:
			cancelS = "0"
		case 1, 2, 3:
			cancelS = fmt.Sprintf("%x", r.Intn(n+2))
		}
		if r.Intn(8) == 0 {
			gfS = fmt.Sprintf("%x", first+uint64(r.Intn(n+2))-uint64(r.Intn(2)))
		}
		if r.Intn(8) == 0 {
			sfS = fmt.Sprintf("%x", r.Intn(n/2+2))
		}
		prog := "1"
		if r.Intn(5) == 0 {
			prog = "0"
		}
		var sb strings.Builder
		if i < 27 {
			prog = "1"
		}
		fmt.Fprintf(&sb, "mig %s %s %s %s %s %s %s %s %x", src, dst, prog, zx(bb), cancelS, gfS, sfS, idxS, first)
		for j := 0; j < n; j++ {
			d := make([]byte, sizes[j])
			r.Read(d)
			var ext []byte
			if r.Intn(3) == 0 {
				ext = make([]byte, 1+r.Intn(6))
				r.Read(ext)
			}
			var sec, nsec int64
			switch r.Intn(4) {
			case 0:
				sec, nsec = 0, 0
			case 1:
				sec, nsec = int64(r.Intn(2000000000)), int64(r.Intn(1e9))
			case 2:
				sec, nsec = -int64(r.Intn(100000)), 999999999
			default:
				sec, nsec = 1700000000+int64(j), int64(j)
			}
			fmt.Fprintf(&sb, " %x %x %x %s %s %s %s", first+uint64(j), genU64(r), r.Intn(256), hx(d), hx(ext), zx(sec), zx(nsec))
		}
		emit(sb.String())
	}
	// CopyStable
	for i := nLogs; i < c.n; i++ {
		src, dst := kinds[i%3], kinds[(i/3)%3]
		var extra, extraInt []string
		for j := r.Intn(4); j > 0; j-- {
			extra = append(extra, hx([]byte(fmt.Sprintf("app_key_%d", r.Intn(6)))))
		}
		for j := r.Intn(4); j > 0; j-- {
			extraInt = append(extraInt, hx([]byte(fmt.Sprintf("app_int_%d", r.Intn(6)))))
		}
		var kvs, kis []string
		addKV := func(k string) {
			v := make([]byte, 1+r.Intn(10))
			r.Read(v)
			kvs = append(kvs, hx([]byte(k))+" "+hx(v))
		}
		addKI := func(k string) {
			kis = append(kis, hx([]byte(k))+" "+fmt.Sprintf("%x", genU64(r)|1))
		}
		pMissing := 8
		if i%4 == 0 {
			pMissing = 2 // more sources with keys that were never set
		}
		if r.Intn(pMissing) != 0 {
			addKV("LastVoteCand")
		}
		if r.Intn(pMissing) != 0 {
			addKI("CurrentTerm")
		}
		if r.Intn(pMissing) != 0 {
			addKI("LastVoteTerm")
		}
		for j := 0; j < 6; j++ {
			if r.Intn(3) != 0 {
				addKV(fmt.Sprintf("app_key_%d", j))
			}
			if r.Intn(3) != 0 {
				addKI(fmt.Sprintf("app_int_%d", j))
			}
		}
		addKV("no_copy")
		addKI("no_copy_int")
		if r.Intn(4) == 0 && len(kvs) > 1 { // a second, older binding of the same key
			kvs = append(kvs, strings.Split(kvs[0], " ")[0]+" "+hx([]byte("old")))
		}
		cancelS := "-"
		switch r.Intn(6) {
		case 0:
			cancelS = "0"
		case 1:
			cancelS = fmt.Sprintf("%x", r.Intn(4+len(extra)+len(extraInt)))
		}
		prog := "1"
		if r.Intn(5) == 0 {
			prog = "0"
		}
		join := func(xs []string) string {
			if len(xs) == 0 {
				return ""
			}
			return " " + strings.Join(xs, " ")
		}
		line := fmt.Sprintf("stb %s %s %s %s %x%s %x%s %x%s %x%s", src, dst, prog, cancelS,
			len(extra), join(extra), len(extraInt), join(extraInt), len(kvs), join(kvs), len(kis), join(kis))
		if r.Intn(3) == 0 {
			// the destination is not empty: stale values for copied keys (they must be replaced,
			// also by an unset / zero source value) and for keys nobody copies (they must stay)
			var dk, di []string
			for _, k := range []string{"LastVoteCand", "app_key_0", "app_key_3", "keep_me"} {
				if r.Intn(2) == 0 {
					dk = append(dk, hx([]byte(k))+" "+hx([]byte("stale")))
				}
			}
			for _, k := range []string{"CurrentTerm", "LastVoteTerm", "app_int_1", "keep_int"} {
				if r.Intn(2) == 0 {
					di = append(di, hx([]byte(k))+" "+fmt.Sprintf("%x", 7+r.Intn(100)))
				}
			}
			line += fmt.Sprintf(" %x%s %x%s", len(dk), join(dk), len(di), join(di))
		}
		emit(line)
	}
}

func minInt(a, b int) int {
	if a < b {
		return a
	}
	return b
}
