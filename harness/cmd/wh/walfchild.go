package main

// Children of the `walfault` stream (C10):
//
//	wh fschild walf  <dir> <segsize> <op>...   the workload, run under strace with one
//	                                           injected syscall failure; keeps a reference
//	                                           of what was acknowledged, audits the running
//	                                           WAL after every call, writes <dir>/../expect.json
//	wh fschild walfv <dir> <segsize>           the final clean reopen (no strace, no fault):
//	                                           compares with expect.json, probes usability
//
// ops:  o open   c close   a:<n>:<size> StoreLogs of n entries   h:<k> / t:<k> DeleteRange of
// the k first / last entries   s:<key>:<val> Set   u:<key>:<val> SetUint64   w wait for the
// background rotation   b:<idx> first index of the log (before the first append)
//
// stdout:  R <i> <op> ok|err|skip <msg>     result of every call
//          V <signature> <text>             an oracle violation (the parent turns it into a witness)

import (
	"bytes"
	"encoding/binary"
	"encoding/hex"
	"encoding/json"
	"errors"
	"fmt"
	"math"
	"os"
	"path/filepath"
	"runtime"
	"runtime/debug"
	"strconv"
	"strings"
	"syscall"

	"github.com/hashicorp/raft"
	wal "github.com/hashicorp/raft-wal"
)

// walfBurn: strace counts the invocations of an injected syscall PER THREAD and
// fires in every thread that reaches the count.  The main goroutine is pinned to
// the main thread, and before the workload starts the main thread makes walfBurn
// dummy calls of every injectable syscall on a scratch file outside the WAL
// directory.  So a count above walfBurn can only be reached by the main thread
// (the API calls), and a count below it aims at a call of another thread (the
// rotation goroutine) while the main thread's call with that number is a dummy.
const walfBurn = 300

func init() {
	if len(os.Args) > 2 && os.Args[1] == "fschild" && os.Args[2] == "walf" {
		runtime.LockOSThread()
	}
}

func walfBurnCalls(base string) {
	p := filepath.Join(base, "burn.scratch")
	fd, err := syscall.Open(p, syscall.O_RDWR|syscall.O_CREAT, 0o644)
	if err != nil {
		return
	}
	missing := filepath.Join(base, "burn.missing")
	b := []byte{0}
	for i := 0; i < walfBurn; i++ {
		syscall.Fsync(fd)
		syscall.Fdatasync(fd)
		syscall.Pwrite(fd, b, 0)
		syscall.Fallocate(fd, 0, 0, 1)
		syscall.Ftruncate(fd, 1)
		if f2, err := syscall.Open(p, syscall.O_RDONLY, 0); err == nil {
			syscall.Close(f2)
		}
		syscall.Unlink(missing)
		syscall.Rename(missing, missing+"2")
	}
	syscall.Close(fd)
}

type walfSnap struct {
	First, Last uint64         // 0, 0 = empty
	Gen         map[uint64]int // index -> generation of the acknowledged content
	Size        map[uint64]int
}

func (s *walfSnap) clone() *walfSnap {
	n := &walfSnap{First: s.First, Last: s.Last, Gen: map[uint64]int{}, Size: map[uint64]int{}}
	for k, v := range s.Gen {
		n.Gen[k] = v
	}
	for k, v := range s.Size {
		n.Size[k] = v
	}
	return n
}

func (s *walfSnap) equal(o *walfSnap) bool {
	if s.First != o.First || s.Last != o.Last {
		return false
	}
	if s.First == 0 {
		return true
	}
	for i := s.First; i <= s.Last; i++ {
		if s.Gen[i] != o.Gen[i] || s.Size[i] != o.Size[i] {
			return false
		}
	}
	return true
}

func (s *walfSnap) String() string {
	if s.First == 0 {
		return "[empty]"
	}
	var b strings.Builder
	fmt.Fprintf(&b, "[%d..%d gens", s.First, s.Last)
	for i := s.First; i <= s.Last; i++ {
		fmt.Fprintf(&b, " %d", s.Gen[i])
	}
	b.WriteString("]")
	return b.String()
}

// deleteHead / deleteTail: the state after DeleteRange(lo, hi) was applied in full
func (s *walfSnap) afterDelete(lo, hi uint64) *walfSnap {
	n := s.clone()
	for i := lo; i <= hi; i++ {
		delete(n.Gen, i)
		delete(n.Size, i)
	}
	if lo <= s.First {
		n.First = hi + 1
	} else {
		n.Last = lo - 1
	}
	return n
}

type walfExpect struct {
	Seg        int
	Ref        *walfSnap
	Alts       []*walfSnap         // other states a failed call may have left for the next Open
	PendHead   uint64              // a failed head truncation asked for this first index: it may still
	//                                show after the next Open, whatever was appended in between
	PendHeads  []uint64            // all such first indices since the last Open (a later failed head
	//                                truncation does not undo an earlier one that reached the disk)
	Stable     map[string]string   // key -> value (hex), "" = never set
	StableAlts map[string][]string // values a failed Set may have left
	NextGen    int
	Base       uint64
	Died       string // non-empty: the workload did not finish (panic)
}

func walfPayload(idx uint64, gen, size int) []byte {
	h := fmt.Sprintf("i=%d g=%d n=%d|", idx, gen, size)
	b := make([]byte, 0, len(h)+size)
	b = append(b, h...)
	for k := 0; k < size; k++ {
		b = append(b, byte(1+(int(idx)*7+gen*13+k)%250))
	}
	return b
}

// walfParse reads a payload back: index, generation, and whether every byte is
// what walfPayload produced
func walfParse(b []byte) (idx uint64, gen, size int, ok bool) {
	i := bytes.IndexByte(b, '|')
	if i < 0 {
		return 0, 0, 0, false
	}
	if n, err := fmt.Sscanf(string(b[:i+1]), "i=%d g=%d n=%d|", &idx, &gen, &size); err != nil || n != 3 {
		return 0, 0, 0, false
	}
	return idx, gen, size, bytes.Equal(b, walfPayload(idx, gen, size))
}

type walfChild struct {
	dir string
	seg int
	w   *wal.WAL
	e   *walfExpect
}

func (c *walfChild) viol(sig, format string, a ...interface{}) {
	fmt.Printf("V %s %s\n", sig, strings.ReplaceAll(fmt.Sprintf(format, a...), "\n", " "))
}

// getLog reads one entry; an I/O error of the read itself (the injected failure
// may hit a reader's open) is retried once: only a persistent failure counts
func (c *walfChild) getLog(i uint64) (*raft.Log, error) {
	var l raft.Log
	err := c.w.GetLog(i, &l)
	if err != nil && !errors.Is(err, raft.ErrLogNotFound) {
		l = raft.Log{}
		err = c.w.GetLog(i, &l)
	}
	return &l, err
}

// observe reads the whole log of the open WAL
func (c *walfChild) observe(when string) (*walfSnap, bool) {
	fi, err1 := c.w.FirstIndex()
	la, err2 := c.w.LastIndex()
	if err1 != nil || err2 != nil {
		c.viol("index-read-error", "%s: FirstIndex/LastIndex failed: %v %v", when, err1, err2)
		return nil, false
	}
	s := &walfSnap{First: fi, Last: la, Gen: map[uint64]int{}, Size: map[uint64]int{}}
	if fi == 0 && la == 0 {
		return s, true
	}
	if fi == 0 || la < fi || la-fi > 100000 {
		c.viol("bad-index-range", "%s: first/last = %d/%d", when, fi, la)
		return nil, false
	}
	good := true
	for i := fi; i <= la; i++ {
		l, err := c.getLog(i)
		if err != nil {
			sig := "acked-entry-unreadable"
			if _, acked := c.e.Ref.Gen[i]; !acked {
				sig = "entry-in-range-unreadable"
			}
			c.viol(sig, "%s: GetLog(%d) fails although first/last = %d/%d: %v", when, i, fi, la, err)
			good = false
			continue
		}
		idx, gen, size, ok := walfParse(l.Data)
		if !ok || idx != i || l.Index != i {
			c.viol("entry-content-corrupt", "%s: GetLog(%d) returned index %d and a payload that is not one the harness wrote (parsed i=%d g=%d n=%d ok=%v, %d bytes)", when, i, l.Index, idx, gen, size, ok, len(l.Data))
			good = false
			continue
		}
		s.Gen[i], s.Size[i] = gen, size
	}
	return s, good
}

// audit: the running WAL must show exactly the reference (what was acknowledged)
func (c *walfChild) audit(when string) {
	if c.w == nil {
		return
	}
	obs, ok := c.observe(when)
	if obs == nil {
		return
	}
	ref := c.e.Ref
	if ok && !obs.equal(ref) {
		c.classify(when+" (running process)", obs, ref, nil)
	}
	// nothing beyond the ends is visible
	if obs.Last != 0 {
		if l, err := c.getLog(obs.Last + 1); err == nil {
			c.viol("unacked-entry-visible", "%s: GetLog(%d) succeeds beyond LastIndex %d (index %d)", when, obs.Last+1, obs.Last, l.Index)
		}
	}
	for k, want := range c.e.Stable {
		kb, _ := hexDecode(k)
		got, err := c.w.Get(kb)
		if err != nil {
			got, err = c.w.Get(kb)
		}
		if err != nil {
			c.viol("stable-read-error", "%s: Get(%s) fails: %v", when, k, err)
			continue
		}
		g := fmt.Sprintf("%x", got)
		if g != want && !walfIn(c.e.StableAlts[k], g) {
			c.viol("stable-value-lost", "%s: Get(%s) = %q, acknowledged value %q (running process)", when, k, g, want)
		}
	}
}

func walfIn(l []string, s string) bool {
	for _, x := range l {
		if x == s {
			return true
		}
	}
	return false
}

func hexDecode(s string) ([]byte, error) { return hex.DecodeString(s) }

// classify names what is wrong with an observed state that is neither the
// reference nor one of the alternatives
func (c *walfChild) classify(when string, obs, ref *walfSnap, alts []*walfSnap) {
	detail := fmt.Sprintf("observed %s, acknowledged %s", obs, ref)
	for i, a := range alts {
		detail += fmt.Sprintf(", or (failed call %d applied/not applied) %s", i, a)
	}
	if c.e.PendHead != 0 {
		detail += fmt.Sprintf(", each possibly with first index %d (failed head truncation)", c.e.PendHeads)
	}
	if ref.First != 0 {
		for i := ref.First; i <= ref.Last; i++ {
			g, ok := obs.Gen[i]
			if !ok && c.e.PendHead > i && alts != nil {
				continue // deleted by a failed head truncation that took effect: allowed
			}
			if !ok {
				hi := i
				for j := i; j <= ref.Last; j++ {
					if _, ok := obs.Gen[j]; !ok {
						hi = j
					}
				}
				c.viol("acked-entry-lost", "%s: acknowledged entries %d..%d are gone: %s", when, i, hi, detail)
				return
			}
			if g != ref.Gen[i] || obs.Size[i] != ref.Size[i] {
				c.viol("acked-entry-altered", "%s: entry %d has generation %d, the acknowledged one is %d: %s", when, i, g, ref.Gen[i], detail)
				return
			}
		}
	}
	if obs.First != 0 && (ref.First == 0 || obs.First < ref.First) {
		c.viol("deleted-entries-reappear", "%s: entries below the acknowledged first index are back: %s", when, detail)
		return
	}
	c.viol("unacked-entries-present", "%s: entries beyond the acknowledged ones that are not a whole failed batch: %s", when, detail)
}

// adoptAfterOpen: after an Open the log must be the reference or the state a
// failed call leaves when applied in full / not at all
func (c *walfChild) adoptAfterOpen(when string) {
	obs, ok := c.observe(when)
	if obs == nil || !ok {
		return
	}
	match := false
	for _, a := range append([]*walfSnap{c.e.Ref}, c.e.Alts...) {
		match = match || obs.equal(a)
		for _, ph := range c.e.PendHeads {
			if ph > a.First && ph <= a.Last && a.First != 0 {
				match = match || obs.equal(a.afterDelete(a.First, ph-1))
			}
		}
	}
	if !match {
		c.classify(when, obs, c.e.Ref, c.e.Alts)
	}
	c.e.Ref, c.e.Alts, c.e.PendHead, c.e.PendHeads = obs, nil, 0, nil
	for k, want := range c.e.Stable {
		kb, _ := hexDecode(k)
		got, err := c.w.Get(kb)
		if err != nil {
			c.viol("stable-read-error", "%s: Get(%s) fails: %v", when, k, err)
			continue
		}
		g := fmt.Sprintf("%x", got)
		if g != want && !walfIn(c.e.StableAlts[k], g) {
			c.viol("stable-value-lost", "%s: Get(%s) = %q, acknowledged value %q (alternatives of failed Sets %v)", when, k, g, want, c.e.StableAlts[k])
		}
		c.e.Stable[k] = g
	}
	c.e.StableAlts = map[string][]string{}
}

func (c *walfChild) open(i int, op string) bool {
	fsMark("wf", i, "call")
	w, err := wal.Open(c.dir, wal.WithSegmentSize(c.seg))
	fsMark("wf", i, "ret")
	if err != nil {
		fmt.Printf("R %d %s err %v\n", i, op, err)
		return false
	}
	fmt.Printf("R %d %s ok\n", i, op)
	c.w = w
	c.adoptAfterOpen(fmt.Sprintf("after Open (call %d)", i))
	return true
}

func (c *walfChild) save() {
	b, _ := json.Marshal(c.e)
	os.WriteFile(filepath.Join(filepath.Dir(c.dir), "expect.json"), b, 0o644)
}

func walfChildMain(dir string, seg int, ops []string) (rc int) {
	c := &walfChild{dir: dir, seg: seg, e: &walfExpect{Seg: seg,
		Ref:    &walfSnap{Gen: map[uint64]int{}, Size: map[uint64]int{}},
		Stable: map[string]string{}, StableAlts: map[string][]string{}, NextGen: 1, Base: 1}}
	defer func() {
		if r := recover(); r != nil {
			st := strings.ReplaceAll(string(debug.Stack()), "\n", " | ")
			c.viol("panic", "panic in the workload: %v %s", r, st)
			c.e.Died = fmt.Sprint(r)
			c.save()
			fsEnd()
			rc = 0
		}
	}()
	e := c.e
	for i, op := range ops {
		f := strings.Split(op, ":")
		if f[0] == "b" {
			e.Base, _ = strconv.ParseUint(f[1], 10, 64)
			continue
		}
		if c.w == nil { // every call needs an open WAL: (re)open first
			if !c.open(i, "o") {
				fmt.Printf("R %d %s skip not-open\n", i, op)
				continue
			}
			if f[0] == "o" {
				continue
			}
		}
		when := fmt.Sprintf("after call %d (%s)", i, op)
		switch f[0] {
		case "o":
			fmt.Printf("R %d %s skip already-open\n", i, op)
		case "c":
			fsMark("wf", i, "call")
			err := c.w.Close()
			fsMark("wf", i, "ret")
			c.w = nil
			if err != nil {
				fmt.Printf("R %d %s err %v\n", i, op, err)
			} else {
				fmt.Printf("R %d %s ok\n", i, op)
			}
		case "a":
			n, _ := strconv.Atoi(f[1])
			size, _ := strconv.Atoi(f[2])
			start := e.Ref.Last + 1
			if e.Ref.First == 0 {
				start = e.Base
			}
			logs := make([]*raft.Log, n)
			gen := e.NextGen
			e.NextGen++
			for j := range logs {
				logs[j] = &raft.Log{Index: start + uint64(j), Term: 1, Data: walfPayload(start+uint64(j), gen, size)}
			}
			applied := e.Ref.clone()
			if applied.First == 0 {
				applied.First = start
			}
			applied.Last = start + uint64(n) - 1
			for j := 0; j < n; j++ {
				applied.Gen[start+uint64(j)], applied.Size[start+uint64(j)] = gen, size
			}
			fsMark("wf", i, "call")
			err := c.w.StoreLogs(logs)
			fsMark("wf", i, "ret")
			if err == nil {
				fmt.Printf("R %d %s ok\n", i, op)
				e.Ref, e.Alts = applied, nil
			} else {
				fmt.Printf("R %d %s err %v\n", i, op, err)
				e.Alts = append(e.Alts, applied) // after the next Open: all of it or none
			}
			c.audit(when)
		case "h", "t":
			k, _ := strconv.Atoi(f[1])
			if e.Ref.First == 0 || k <= 0 {
				fmt.Printf("R %d %s skip empty\n", i, op)
				continue
			}
			cnt := int(e.Ref.Last - e.Ref.First + 1)
			if k >= cnt {
				k = cnt - 1 // at least one entry stays
			}
			if k == 0 {
				fmt.Printf("R %d %s skip one-entry\n", i, op)
				continue
			}
			var lo, hi uint64
			if f[0] == "h" {
				lo, hi = e.Ref.First, e.Ref.First+uint64(k)-1
			} else {
				lo, hi = e.Ref.Last-uint64(k)+1, e.Ref.Last
			}
			applied := e.Ref.afterDelete(lo, hi)
			fsMark("wf", i, "call")
			err := c.w.DeleteRange(lo, hi)
			fsMark("wf", i, "ret")
			if err == nil {
				fmt.Printf("R %d %s ok [%d,%d]\n", i, op, lo, hi)
				if f[0] == "h" {
					// an earlier failed call may still show after the next Open, with this truncation applied
					var alts []*walfSnap
					for _, a := range e.Alts {
						if a.First != 0 && a.First <= hi && a.Last > hi {
							alts = append(alts, a.afterDelete(a.First, hi))
						}
					}
					e.Alts = alts
					if e.PendHead <= hi+1 {
						e.PendHead = 0
					}
					var keep []uint64
					for _, ph := range e.PendHeads {
						if ph > hi+1 {
							keep = append(keep, ph)
						}
					}
					e.PendHeads = keep
				} else {
					e.Alts = nil
				}
				e.Ref = applied
			} else {
				fmt.Printf("R %d %s err [%d,%d] %v\n", i, op, lo, hi, err)
				// the running process shows it applied in full or not at all
				fi, _ := c.w.FirstIndex()
				la, _ := c.w.LastIndex()
				switch {
				case fi == applied.First && la == applied.Last:
					e.Alts = append(e.Alts, e.Ref)
					e.Ref = applied
				case fi == e.Ref.First && la == e.Ref.Last:
					if f[0] == "h" {
						if hi+1 > e.PendHead {
							e.PendHead = hi + 1
						}
						e.PendHeads = append(e.PendHeads, hi+1)
					} else {
						e.Alts = append(e.Alts, applied)
					}
				default:
					c.viol("failed-delete-half-applied", "%s: DeleteRange(%d,%d) failed and the running process shows first/last = %d/%d, neither the old %d/%d nor the new %d/%d", when, lo, hi, fi, la, e.Ref.First, e.Ref.Last, applied.First, applied.Last)
				}
			}
			c.audit(when)
		case "s", "u":
			key := fmt.Sprintf("%x", []byte("k"+f[1]))
			var err error
			var val string
			fsMark("wf", i, "call")
			if f[0] == "s" {
				v := []byte("v" + f[2] + strings.Repeat("x", len(f[2])%5))
				val = fmt.Sprintf("%x", v)
				err = c.w.Set([]byte("k"+f[1]), v)
			} else {
				n, _ := strconv.ParseUint(f[2], 10, 64)
				err = c.w.SetUint64([]byte("k"+f[1]), n)
				var le [8]byte
				binary.LittleEndian.PutUint64(le[:], n)
				val = fmt.Sprintf("%x", le[:])
			}
			fsMark("wf", i, "ret")
			old, had := e.Stable[key]
			if err == nil {
				fmt.Printf("R %d %s ok\n", i, op)
				e.Stable[key] = val
				delete(e.StableAlts, key)
			} else {
				fmt.Printf("R %d %s err %v\n", i, op, err)
				if !had {
					e.Stable[key] = ""
				}
				_ = old
				e.StableAlts[key] = append(e.StableAlts[key], val)
			}
			c.audit(when)
		case "w":
			fsMark("wf", i, "call")
			err := c.w.DeleteRange(math.MaxUint64, math.MaxUint64)
			fsMark("wf", i, "ret")
			if err != nil {
				fmt.Printf("R %d %s err %v\n", i, op, err)
			} else {
				fmt.Printf("R %d %s ok\n", i, op)
			}
			c.audit(when)
		default:
			fmt.Printf("R %d %s skip unknown\n", i, op)
		}
	}
	if c.w != nil {
		fsMark("wf", len(ops), "call")
		err := c.w.Close()
		fsMark("wf", len(ops), "ret")
		if err != nil {
			fmt.Printf("R %d c err %v\n", len(ops), err)
		} else {
			fmt.Printf("R %d c ok\n", len(ops))
		}
		c.w = nil
	}
	fsEnd()
	c.save()
	return 0
}

// walfVerifyMain: the clean reopen after the faulty run
func walfVerifyMain(dir string) (rc int) {
	b, err := os.ReadFile(filepath.Join(filepath.Dir(dir), "expect.json"))
	if err != nil {
		fmt.Printf("X no expectation file: %v\n", err)
		return 0
	}
	e := &walfExpect{}
	if err := json.Unmarshal(b, e); err != nil {
		fmt.Printf("X bad expectation file: %v\n", err)
		return 0
	}
	c := &walfChild{dir: dir, seg: e.Seg, e: e}
	defer func() {
		if r := recover(); r != nil {
			c.viol("panic", "panic during the clean reopen: %v %s", r, strings.ReplaceAll(string(debug.Stack()), "\n", " | "))
		}
	}()
	if e.Died != "" {
		// the workload stopped in the middle of a call: its outcome is unknown, only
		// that Open works is checked
		w, err := wal.Open(dir, wal.WithSegmentSize(e.Seg))
		if err != nil {
			c.viol("clean-open-fails", "Open without any fault fails after the workload died: %v", err)
			return 0
		}
		w.Close()
		return 0
	}
	w, err := wal.Open(dir, wal.WithSegmentSize(e.Seg))
	if err != nil {
		c.viol("clean-open-fails", "Open without any fault fails after the faulty run: %v", err)
		return 0
	}
	c.w = w
	c.adoptAfterOpen("after the final clean reopen")
	// the WAL is usable: one more entry, read back, also after another reopen
	start := e.Ref.Last + 1
	if e.Ref.First == 0 {
		start = e.Base
	}
	gen := e.NextGen
	if err := w.StoreLogs([]*raft.Log{{Index: start, Term: 1, Data: walfPayload(start, gen, 40)}}); err != nil {
		c.viol("unusable-after-reopen", "StoreLogs(%d) fails on the cleanly reopened WAL: %v", start, err)
		w.Close()
		return 0
	}
	if e.Ref.First == 0 {
		e.Ref.First = start
	}
	e.Ref.Last = start
	e.Ref.Gen[start], e.Ref.Size[start] = gen, 40
	c.audit("after the probe append on the reopened WAL")
	if err := w.Close(); err != nil {
		c.viol("close-fails", "Close of the cleanly reopened WAL fails: %v", err)
	}
	w2, err := wal.Open(dir, wal.WithSegmentSize(e.Seg))
	if err != nil {
		c.viol("clean-open-fails", "second clean Open fails: %v", err)
		return 0
	}
	c.w = w2
	c.adoptAfterOpen("after the second clean reopen")
	w2.Close()
	fmt.Println("VERIFIED")
	return 0
}
