package main

import (
	"bytes"
	"fmt"
	"os"
	"os/exec"
	"strings"
	"time"
)

// inChild wraps an executor so that every line runs in a child process of this
// binary (`wh exec <stream>`): code under test that dies with a fatal runtime
// error (SIGBUS in a memory-mapped BoltDB file, stack overflow, fatal "concurrent
// map writes") then costs one line, reported as a witness with that line as the
// replay, not the whole stream.  Witnesses and statistics of the child are
// forwarded.
func inChild(name, prop string, exec1 func(c *ctx, line string) string) func(c *ctx, line string) string {
	return func(c *ctx, line string) string {
		if os.Getenv("WH_CHILD") == "1" {
			return exec1(c, line)
		}
		self, err := os.Executable()
		if err != nil {
			return exec1(c, line)
		}
		cmd := exec.Command(self, "exec", name, "-work", c.work, "-tier", c.tier)
		cmd.Env = append(os.Environ(), "WH_CHILD=1")
		cmd.Stdin = strings.NewReader(line + "\n")
		var out, errb bytes.Buffer
		cmd.Stdout, cmd.Stderr = &out, &errb
		done := make(chan error, 1)
		if err := cmd.Start(); err != nil {
			return exec1(c, line)
		}
		go func() { done <- cmd.Wait() }()
		var werr error
		select {
		case werr = <-done:
		case <-time.After(120 * time.Second):
			cmd.Process.Kill()
			<-done
			c.witness(prop, "process-hang", "the call does not return within 120 s (child killed)", line)
			return "hang"
		}
		obs := ""
		for _, l := range strings.Split(out.String(), "\n") {
			f := strings.Split(l, "\t")
			switch {
			case len(f) == 5 && f[0] == "!W":
				c.witness(f[1], f[2], f[3], f[4])
			case len(f) == 3 && f[0] == "!S":
				if !strings.HasPrefix(f[1], "witness_") {
					var n int
					fmt.Sscanf(f[2], "%d", &n)
					c.stats[f[1]] += n
				}
			case len(f) == 3 && f[0] == "x0":
				obs = f[2]
			}
		}
		if werr != nil || obs == "" {
			e := errb.String()
			first := e
			if i := strings.Index(e, "\n\n"); i > 0 {
				first = e[:i]
			}
			if len(first) > 600 {
				first = first[:600]
			}
			c.witness(prop, "process-dies", "the process dies with a fatal runtime error: "+strings.ReplaceAll(strings.TrimSpace(first), "\n", " | "), line)
			return "died"
		}
		return obs
	}
}
