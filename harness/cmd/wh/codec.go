package main

import (
	"bytes"
	"encoding/hex"
	"fmt"
	"math"
	"math/rand"
	"strconv"
	"strings"
	"time"

	"github.com/hashicorp/raft"
	wal "github.com/hashicorp/raft-wal"
)

const unixToInternal = 62135596800

func hx(b []byte) string {
	if len(b) == 0 {
		return "-"
	}
	return hex.EncodeToString(b)
}

func zx(z int64) string {
	if z < 0 {
		return fmt.Sprintf("-%x", uint64(-z))
	}
	return fmt.Sprintf("%x", z)
}

func zoneOf(t time.Time) string {
	if t.Location() == time.UTC {
		return "utc"
	}
	_, off := t.Zone()
	return zx(int64(off))
}

func timeFields(t time.Time) string {
	return fmt.Sprintf("%s %s %s", zx(t.Unix()+unixToInternal), zx(int64(t.Nanosecond())), zoneOf(t))
}

func logFields(l *raft.Log, withTime bool) string {
	s := fmt.Sprintf("%x %x %x %s %s", l.Index, l.Term, uint64(l.Type), hx(l.Data), hx(l.Extensions))
	if withTime {
		s += " " + timeFields(l.AppendedAt)
	}
	return s
}

var varintBoundaries = func() []uint64 {
	r := []uint64{0, 1, 2, math.MaxUint64, math.MaxUint64 - 1, math.MaxInt64, 1 << 63}
	for k := uint(1); k <= 9; k++ {
		r = append(r, (1<<(7*k))-1, 1<<(7*k), (1<<(7*k))+1)
	}
	return r
}()

func genU64(r *rand.Rand) uint64 {
	switch r.Intn(4) {
	case 0:
		return varintBoundaries[r.Intn(len(varintBoundaries))]
	case 1:
		return uint64(r.Intn(300))
	case 2:
		return r.Uint64() >> uint(r.Intn(64))
	default:
		return r.Uint64()
	}
}

func genBytes(r *rand.Rand, max int) []byte {
	var n int
	switch r.Intn(6) {
	case 0:
		return nil
	case 1:
		return []byte{}
	case 2:
		n = r.Intn(9)
	case 3:
		n = 120 + r.Intn(16) // around the 1-byte/2-byte varint length boundary
	default:
		n = r.Intn(max + 1)
	}
	b := make([]byte, n)
	r.Read(b)
	return b
}

func genTime(r *rand.Rand) time.Time {
	var t time.Time
	switch r.Intn(7) {
	case 0:
		return time.Time{}
	case 1:
		return time.Now() // carries a monotonic reading
	case 2:
		t = time.Unix(r.Int63n(1<<40)-(1<<39), int64(r.Intn(1e9)))
	case 3:
		t = time.Unix(int64(r.Intn(2000000000)), int64(r.Intn(1e9)))
	case 4:
		t = time.Unix(0, 0)
	case 5:
		t = time.Unix(math.MaxInt64/4-r.Int63n(1000), 999999999)
	default:
		t = time.Unix(-r.Int63n(1<<36), int64(r.Intn(1e9)))
	}
	switch r.Intn(6) {
	case 0:
		return t.UTC()
	case 1:
		return t.In(time.FixedZone("", 3600*(r.Intn(25)-12)))
	case 2:
		return t.In(time.FixedZone("x", r.Intn(86400))) // sub-minute offsets (version 2)
	case 3:
		return t.In(time.FixedZone("y", -r.Intn(86400))) // negative, maybe sub-minute
	case 4:
		return t.In(time.FixedZone("z", []int{-60, -61, -59, 60, 32767 * 60, 32768 * 60, -32768 * 60, -32769 * 60, 0}[r.Intn(9)]))
	default:
		return t // Local
	}
}

func genLog(r *rand.Rand, maxData int) *raft.Log {
	return &raft.Log{
		Index:      genU64(r),
		Term:       genU64(r),
		Type:       raft.LogType(r.Intn(256)),
		Data:       genBytes(r, maxData),
		Extensions: genBytes(r, 40),
		AppendedAt: genTime(r),
	}
}

func decodeObs(c wal.Codec, bs []byte, withTime bool) (obs string, l raft.Log) {
	defer func() {
		if e := recover(); e != nil {
			obs = "panic"
		}
	}()
	// decode into a struct that was used before, as raft does when it reuses a raft.Log:
	// every field must be overwritten
	var held func() string
	l, held = dirtyHeld()
	err := c.Decode(bs, &l)
	if msg := held(); msg != "" && heldWitness != nil {
		heldWitness(msg)
	}
	if err != nil {
		return "err", l
	}
	return "ok " + logFields(&l, withTime), l
}

// heldWitness is set by the executors that call decodeObs (it needs their ctx and line)
var heldWitness func(msg string)

// dirtyLog is a raft.Log holding the remains of an earlier use
func dirtyLog() raft.Log {
	// the slices have spare capacity: a decoder that fills the destination's slices in place
	// overwrites memory the previous holder of that entry still references
	d := make([]byte, 0, 1<<17)
	e := make([]byte, 0, 4096)
	return raft.Log{Index: 0xdead, Term: 0xbeef, Type: raft.LogType(7), Data: append(d, dirtyData...),
		Extensions: append(e, dirtyExt...), AppendedAt: time.Unix(1, 1)}
}

const dirtyData, dirtyExt = "stale data of an earlier entry", "stale extensions"

// dirtyHeld: a dirty log plus a check that the slices it held BEFORE the decode (the result of
// an earlier read that somebody may still hold, e.g. a cache) were left alone (C12: a log
// returned by GetLog stays unchanged by later reads)
func dirtyHeld() (raft.Log, func() string) {
	l := dirtyLog()
	d0, e0 := l.Data, l.Extensions
	return l, func() string {
		if string(d0) != dirtyData || string(e0) != dirtyExt {
			return fmt.Sprintf("decoding into a raft.Log that holds an earlier entry overwrote that entry's bytes in place: Data %q, Extensions %q", trunc(string(d0), 40), trunc(string(e0), 40))
		}
		return ""
	}
}


func logsEqual(a, b *raft.Log) bool {
	return a.Index == b.Index && a.Term == b.Term && a.Type == b.Type &&
		bytes.Equal(a.Data, b.Data) && bytes.Equal(a.Extensions, b.Extensions) &&
		a.AppendedAt.Equal(b.AppendedAt)
}

func init() { streams["codec"] = &stream{gen: genCodec, exec: execCodec} }

func parseZ(s string) int64 {
	neg := strings.HasPrefix(s, "-")
	if neg {
		s = s[1:]
	}
	v, err := strconv.ParseUint(s, 16, 64)
	if err != nil {
		panic("bad number " + s)
	}
	if neg {
		return -int64(v)
	}
	return int64(v)
}

func parseU(s string) uint64 {
	v, err := strconv.ParseUint(s, 16, 64)
	if err != nil {
		panic("bad number " + s)
	}
	return v
}

func parseHex(s string) []byte {
	if s == "-" {
		return nil
	}
	b, err := hex.DecodeString(s)
	if err != nil {
		panic("bad hex")
	}
	return b
}

// parseLogFields rebuilds a raft.Log from its 8 wire fields.
func parseLogFields(f []string) *raft.Log {
	sec, nsec := parseZ(f[5]), parseZ(f[6])
	t := time.Unix(sec-unixToInternal, nsec)
	if f[7] == "utc" {
		t = t.UTC()
	} else {
		t = t.In(time.FixedZone("", int(parseZ(f[7]))))
	}
	return &raft.Log{Index: parseU(f[0]), Term: parseU(f[1]), Type: raft.LogType(parseU(f[2])),
		Data: parseHex(f[3]), Extensions: parseHex(f[4]), AppendedAt: t}
}

func execCodec(c *ctx, line string) string {
	codec := &wal.BinaryCodec{}
	heldWitness = func(msg string) { c.witness("C12", "read-overwrites-held-entry", "BinaryCodec.Decode: "+msg, line) }
	defer func() { heldWitness = nil }()
	f := strings.Split(line, " ")
	switch f[0] {
	case "enc":
		l := parseLogFields(f[1:])
		var buf bytes.Buffer
		if err := codec.Encode(l, &buf); err != nil {
			c.stat("enc_err")
			return "err"
		}
		c.stat("enc_ok")
		enc := append([]byte(nil), buf.Bytes()...)
		// property oracle (independent of the model): round trip on the implementation
		obs, got := decodeObs(codec, enc, true)
		if obs == "panic" || obs == "err" || !logsEqual(l, &got) {
			c.witness("C12", "codec-roundtrip", "decode(encode(l)) differs from l: "+obs, line)
		}
		// the decoded log must not alias the input buffer
		before := logFields(&got, true)
		for j := range enc {
			enc[j] ^= 0xa5
		}
		if logFields(&got, true) != before {
			c.witness("C12", "codec-alias", "decoded log aliases the input buffer", line)
		}
		for j := range enc {
			enc[j] ^= 0xa5
		}
		return hx(enc)
	case "dec":
		obs, _ := decodeObs(codec, parseHex(f[1]), f[2] == "v")
		if f[2] == "m" {
			c.stat("mal_" + obs[:2])
			if obs == "panic" {
				c.witness("C11", "codec-decode-panic", "BinaryCodec.Decode panics on damaged bytes", line)
			}
		}
		return obs
	}
	return "badinput"
}

func genCodec(c *ctx, emit func(string)) {
	r := rand.New(rand.NewSource(c.seed))
	codec := &wal.BinaryCodec{}
	var valid [][]byte
	for i := 0; i < c.n; i++ {
		maxData := 64
		if i%50 == 0 {
			maxData = 70000 // across the 64 KiB pooled-buffer boundary
		}
		l := genLog(r, maxData)
		emit("enc " + logFields(l, true))
		var buf bytes.Buffer
		if err := codec.Encode(l, &buf); err == nil {
			enc := append([]byte(nil), buf.Bytes()...)
			valid = append(valid, enc)
			emit("dec " + hx(enc) + " v")
		}
	}
	// malformed stream: mutations of valid encodings and raw garbage
	for i := 0; i < c.n; i++ {
		var bs []byte
		kind := r.Intn(7)
		if len(valid) == 0 {
			kind = 6
		}
		switch kind {
		case 0: // strict prefix
			v := valid[r.Intn(len(valid))]
			bs = append([]byte(nil), v[:r.Intn(len(v))]...)
		case 1: // trailing bytes
			v := valid[r.Intn(len(valid))]
			bs = append(append([]byte(nil), v...), genBytes(r, 4)...)
			bs = append(bs, byte(r.Intn(256)))
		case 2: // bit flip
			v := valid[r.Intn(len(valid))]
			bs = append([]byte(nil), v...)
			bs[r.Intn(len(bs))] ^= 1 << uint(r.Intn(8))
		case 3: // 0xff runs (uvarint overflow)
			bs = bytes.Repeat([]byte{0xff}, r.Intn(24))
			if r.Intn(2) == 0 {
				v := valid[r.Intn(len(valid))]
				k := r.Intn(len(v))
				bs = append(append(append([]byte(nil), v[:k]...), bs...), v[k:]...)
			}
		case 4: // byte overwrite
			v := valid[r.Intn(len(valid))]
			bs = append([]byte(nil), v...)
			bs[r.Intn(len(bs))] = byte(r.Intn(256))
		case 5: // zero run
			v := valid[r.Intn(len(valid))]
			bs = append([]byte(nil), v...)
			k := r.Intn(len(bs))
			for j := k; j < len(bs) && j < k+1+r.Intn(8); j++ {
				bs[j] = 0
			}
		default:
			bs = make([]byte, r.Intn(40))
			r.Read(bs)
		}
		if len(bs) > 4096 || len(bs) == 0 {
			continue
		}
		emit("dec " + hx(bs) + " m")
	}
}
