package main

// In-memory types.VFS and types.MetaStore with handle accounting, used by the
// `sched` stream (C06/C14).  Every Create/OpenReader/OpenWriter returns a fresh
// handle on the shared file; handles remember whether (and how often) they were
// closed, so "every opened handle is closed exactly once" is observable.  Reads
// through a closed handle fail like *os.File does (os.ErrClosed).  A deleted
// file stays readable through handles that are still open (POSIX unlink).

import (
	"errors"
	"fmt"
	"io"
	"os"
	"sort"
	"sync"
	"sync/atomic"

	"github.com/hashicorp/raft-wal/types"
)

type schFile struct {
	mu      sync.RWMutex
	name    string
	data    []byte
	synced  int // bytes [0,synced) have been covered by a Sync
	deleted bool
}

type schHandle struct {
	fs     *memVFS
	f      *schFile
	id     int
	closes int32
	reads  int32 // reads attempted after close
}

type memVFS struct {
	mu      sync.Mutex
	files   map[string]*schFile
	handles []*schHandle
	// syncHook, when set, is called on the calling goroutine before a Sync takes
	// effect (schedule point "vfs.sync") and after it (onSynced).
	syncHook func(point string)
	readHook func(point string)
	onSynced func(name string)
	dblClose int32
}

func newMemVFS() *memVFS { return &memVFS{files: map[string]*schFile{}} }

func (v *memVFS) newHandle(f *schFile) *schHandle {
	h := &schHandle{fs: v, f: f, id: len(v.handles)}
	v.handles = append(v.handles, h)
	return h
}

func (v *memVFS) ListDir(dir string) ([]string, error) {
	v.mu.Lock()
	defer v.mu.Unlock()
	var r []string
	for n := range v.files {
		r = append(r, n)
	}
	sort.Strings(r)
	return r, nil
}

func (v *memVFS) Create(dir, name string, size uint64) (types.WritableFile, error) {
	v.mu.Lock()
	defer v.mu.Unlock()
	if _, ok := v.files[name]; ok {
		return nil, fmt.Errorf("create %s: %w", name, os.ErrExist)
	}
	f := &schFile{name: name, data: make([]byte, size)}
	v.files[name] = f
	return v.newHandle(f), nil
}

func (v *memVFS) Delete(dir, name string) error {
	v.mu.Lock()
	defer v.mu.Unlock()
	if f, ok := v.files[name]; ok {
		f.mu.Lock()
		f.deleted = true
		f.mu.Unlock()
		delete(v.files, name)
	}
	return nil
}

func (v *memVFS) open(name string) (*schHandle, error) {
	v.mu.Lock()
	defer v.mu.Unlock()
	f, ok := v.files[name]
	if !ok {
		return nil, fmt.Errorf("open %s: %w", name, os.ErrNotExist)
	}
	return v.newHandle(f), nil
}

func (v *memVFS) OpenReader(dir, name string) (types.ReadableFile, error) {
	h, err := v.open(name)
	if err != nil {
		return nil, err
	}
	return h, nil
}

func (v *memVFS) OpenWriter(dir, name string) (types.WritableFile, error) {
	h, err := v.open(name)
	if err != nil {
		return nil, err
	}
	return h, nil
}

// accounting: number of handles opened, still open, closed more than once
func (v *memVFS) account() (opened, open, multi int) {
	v.mu.Lock()
	defer v.mu.Unlock()
	for _, h := range v.handles {
		opened++
		c := atomic.LoadInt32(&h.closes)
		if c == 0 {
			open++
		}
		if c > 1 {
			multi++
		}
	}
	return
}

func (h *schHandle) closed() bool { return atomic.LoadInt32(&h.closes) > 0 }

func (h *schHandle) ReadAt(p []byte, off int64) (int, error) {
	n, err := h.readAt(p, off)
	if hook := h.fs.readHook; hook != nil {
		hook("vfs.read") // implementation-only lines: the reader's buffer is filled, not yet decoded
	}
	return n, err
}

func (h *schHandle) readAt(p []byte, off int64) (int, error) {
	if h.closed() {
		atomic.AddInt32(&h.reads, 1)
		return 0, fmt.Errorf("read %s: %w", h.f.name, os.ErrClosed)
	}
	h.f.mu.RLock()
	defer h.f.mu.RUnlock()
	if off >= int64(len(h.f.data)) {
		return 0, io.EOF
	}
	n := copy(p, h.f.data[off:])
	if n < len(p) {
		return n, io.EOF
	}
	return n, nil
}

func (h *schHandle) WriteAt(p []byte, off int64) (int, error) {
	if h.closed() {
		return 0, fmt.Errorf("write %s: %w", h.f.name, os.ErrClosed)
	}
	h.f.mu.Lock()
	defer h.f.mu.Unlock()
	end := int(off) + len(p)
	if end > len(h.f.data) {
		nd := make([]byte, end)
		copy(nd, h.f.data)
		h.f.data = nd
	}
	copy(h.f.data[off:], p)
	if int(off) < h.f.synced {
		h.f.synced = int(off)
	}
	return len(p), nil
}

func (h *schHandle) Sync() error {
	if h.closed() {
		return fmt.Errorf("sync %s: %w", h.f.name, os.ErrClosed)
	}
	if hook := h.fs.syncHook; hook != nil {
		hook("vfs.sync")
	}
	h.f.mu.Lock()
	h.f.synced = len(h.f.data)
	h.f.mu.Unlock()
	if cb := h.fs.onSynced; cb != nil {
		cb(h.f.name)
	}
	return nil
}

func (h *schHandle) Close() error {
	if atomic.AddInt32(&h.closes, 1) > 1 {
		atomic.AddInt32(&h.fs.dblClose, 1)
		return fmt.Errorf("close %s: %w", h.f.name, os.ErrClosed)
	}
	return nil
}

// ---- MetaStore ---------------------------------------------------------------

var errMetaClosed = errors.New("uninitialized") // what BoltMetaDB returns once Close set db.db = nil

type memMeta struct {
	mu     sync.Mutex
	state  types.PersistentState
	stable map[string][]byte
	open   bool
	loads  int
	closes int
	commit int
}

func newMemMeta() *memMeta { return &memMeta{stable: map[string][]byte{}} }

func (m *memMeta) Load(dir string) (types.PersistentState, error) {
	m.mu.Lock()
	defer m.mu.Unlock()
	m.open = true
	m.loads++
	ps := m.state
	ps.Segments = append([]types.SegmentInfo(nil), m.state.Segments...)
	return ps, nil
}

func (m *memMeta) CommitState(ps types.PersistentState) error {
	m.mu.Lock()
	defer m.mu.Unlock()
	if !m.open {
		return errMetaClosed
	}
	m.commit++
	m.state = ps
	m.state.Segments = append([]types.SegmentInfo(nil), ps.Segments...)
	return nil
}

func (m *memMeta) GetStable(key []byte) ([]byte, error) {
	m.mu.Lock()
	defer m.mu.Unlock()
	if !m.open {
		return nil, errMetaClosed
	}
	v, ok := m.stable[string(key)]
	if !ok {
		return nil, nil
	}
	return append([]byte(nil), v...), nil
}

func (m *memMeta) SetStable(key, value []byte) error {
	m.mu.Lock()
	defer m.mu.Unlock()
	if !m.open {
		return errMetaClosed
	}
	if value == nil {
		delete(m.stable, string(key))
	} else {
		m.stable[string(key)] = append([]byte(nil), value...)
	}
	return nil
}

func (m *memMeta) Close() error {
	m.mu.Lock()
	defer m.mu.Unlock()
	m.closes++
	m.open = false
	return nil
}
